package main

// Finite-domain propositional layer used by PATHS (feasibility of structural
// paths) and TABLES (decision-table comparison over every valuation).
//
// Conditions of the analysed code are translated into formulas over atoms.
// An atom is a finite-domain variable: boolean (domain 2: 0=false,1=true) or
// an order type between two values (domain 3: 0 '<', 1 '=', 2 '>').
// Nothing of gribigo is executed: the formulas are evaluated by this file.

import (
	"fmt"
	"go/ast"
	"go/token"
	"go/types"
	"golang.org/x/tools/go/packages"
	"sort"
	"strings"
)

type Formula interface{ fstr() string }

type FConst bool
type FLit struct {
	Atom string
	Dom  int
	Mask uint8 // allowed values (bit i set ⇒ value i satisfies)
}
type FAnd struct{ L, R Formula }
type FOr struct{ L, R Formula }
type FNot struct{ X Formula }

func (f FConst) fstr() string { return fmt.Sprint(bool(f)) }
func (f *FLit) fstr() string {
	if f.Dom == 2 {
		if f.Mask == 2 {
			return f.Atom
		}
		return "¬" + f.Atom
	}
	var s []string
	for i, n := range []string{"<", "=", ">"} {
		if f.Mask&(1<<i) != 0 {
			s = append(s, n)
		}
	}
	return f.Atom + "∈{" + strings.Join(s, "") + "}"
}
func (f *FAnd) fstr() string { return "(" + f.L.fstr() + " ∧ " + f.R.fstr() + ")" }
func (f *FOr) fstr() string  { return "(" + f.L.fstr() + " ∨ " + f.R.fstr() + ")" }
func (f *FNot) fstr() string { return "¬" + f.X.fstr() }

func fand(a, b Formula) Formula {
	if c, ok := a.(FConst); ok {
		if bool(c) {
			return b
		}
		return FConst(false)
	}
	if c, ok := b.(FConst); ok {
		if bool(c) {
			return a
		}
		return FConst(false)
	}
	return &FAnd{a, b}
}

func fnot(a Formula) Formula {
	switch x := a.(type) {
	case FConst:
		return FConst(!bool(x))
	case *FLit:
		full := uint8(1<<x.Dom) - 1
		return &FLit{x.Atom, x.Dom, full &^ x.Mask}
	case *FNot:
		return x.X
	}
	return &FNot{a}
}

// evalF evaluates f under a total valuation of its atoms.
func evalF(f Formula, val map[string]int) bool {
	switch x := f.(type) {
	case FConst:
		return bool(x)
	case *FLit:
		v, ok := val[x.Atom]
		if !ok {
			panic("unvalued atom " + x.Atom)
		}
		return x.Mask&(1<<uint(v)) != 0
	case *FAnd:
		return evalF(x.L, val) && evalF(x.R, val)
	case *FOr:
		return evalF(x.L, val) || evalF(x.R, val)
	case *FNot:
		return !evalF(x.X, val)
	}
	panic("bad formula")
}

func atomsOf(f Formula, m map[string]int) {
	switch x := f.(type) {
	case *FLit:
		m[x.Atom] = x.Dom
	case *FAnd:
		atomsOf(x.L, m)
		atomsOf(x.R, m)
	case *FOr:
		atomsOf(x.L, m)
		atomsOf(x.R, m)
	case *FNot:
		atomsOf(x.X, m)
	}
}

// satisfiable decides whether some valuation satisfies all formulas. Top-level
// literals are intersected first (unit propagation over finite domains); the
// remaining compound formulas are decided by exhaustive enumeration of their
// atoms. If that space still exceeds the bound the answer is "true"
// (feasible), the conservative direction for path pruning.
func satisfiable(fs []Formula) bool {
	mask := map[string]uint8{}
	dom := map[string]int{}
	var compound []Formula
	var flatten func(f Formula) bool
	flatten = func(f Formula) bool {
		switch x := f.(type) {
		case FConst:
			return bool(x)
		case *FLit:
			m, ok := mask[x.Atom]
			if !ok {
				m = uint8(1<<x.Dom) - 1
			}
			m &= x.Mask
			mask[x.Atom] = m
			dom[x.Atom] = x.Dom
			return m != 0
		case *FAnd:
			return flatten(x.L) && flatten(x.R)
		default:
			compound = append(compound, f)
			return true
		}
	}
	for _, f := range fs {
		if !flatten(f) {
			return false
		}
	}
	if len(compound) == 0 {
		return true
	}
	atoms := map[string]int{}
	for _, f := range compound {
		atomsOf(f, atoms)
	}
	names := make([]string, 0, len(atoms))
	space := 1
	for a, d := range atoms {
		names = append(names, a)
		n := 0
		if m, ok := mask[a]; ok {
			for v := 0; v < d; v++ {
				if m&(1<<uint(v)) != 0 {
					n++
				}
			}
		} else {
			n = d
		}
		space *= n
		if space > 1<<20 {
			return true
		}
	}
	sort.Strings(names)
	val := map[string]int{}
	var rec func(i int) bool
	rec = func(i int) bool {
		if i == len(names) {
			for _, f := range compound {
				if !evalF(f, val) {
					return false
				}
			}
			return true
		}
		a := names[i]
		for v := 0; v < atoms[a]; v++ {
			if m, ok := mask[a]; ok && m&(1<<uint(v)) == 0 {
				continue
			}
			val[a] = v
			if rec(i + 1) {
				return true
			}
		}
		return false
	}
	return rec(0)
}

// forEachValuation enumerates every valuation of the given atoms (name → domain).
func forEachValuation(atoms map[string]int, f func(val map[string]int)) int {
	names := make([]string, 0, len(atoms))
	for a := range atoms {
		names = append(names, a)
	}
	sort.Strings(names)
	val := map[string]int{}
	n := 0
	var rec func(i int)
	rec = func(i int) {
		if i == len(names) {
			n++
			f(val)
			return
		}
		for v := 0; v < atoms[names[i]]; v++ {
			val[names[i]] = v
			rec(i + 1)
		}
	}
	rec(0)
	return n
}

// ---- translation of Go conditions --------------------------------------------

// condXlat translates condition expressions of one function into formulas.
type condXlat struct {
	info *types.Info
	fd   *ast.FuncDecl
	ver  map[types.Object]int // version of each local at the point of translation (nil = all zero)
	// Canon lets a rule name atoms canonically (e.g. map `opElecID == nil` to
	// atom "op.nil"). It receives the canonical default key.
	uniq     *int
	pure     func(call *ast.CallExpr) bool
	defs     map[types.Object]string // current defining term of locals assigned from calls
	callOrd  map[*ast.CallExpr]string
	pathMode bool          // translating a condition on a path: locals assigned from calls are named by the path's defs
	nameFd   *ast.FuncDecl // the function whose naming of variables applies (varKey); default fd
}

// enter makes the translator's function the naming context of varKey for the duration of one translation.
func (x *condXlat) enter() func() {
	fd := x.nameFd
	if fd == nil {
		fd = x.fd
	}
	if fd == nil || fd == curEnumFd {
		return func() {}
	}
	prev := curEnumFd
	curEnumFd = fd
	return func() { curEnumFd = prev }
}

func (x *condXlat) v(o types.Object) int {
	if x.ver == nil {
		return 0
	}
	return x.ver[o]
}

// term renders a value expression canonically: locals carry their version,
// locals defined once are replaced by their definition, getters become
// fields, uint128.New(x.Low, x.High) becomes U128(x).
func (x *condXlat) term(e ast.Expr) (string, bool) {
	defer x.enter()()
	return x.termDepth(e, 0)
}

func (x *condXlat) termDepth(e ast.Expr, depth int) (string, bool) {
	e = ast.Unparen(e)
	if depth > 8 {
		return types.ExprString(e), false
	}
	if id, ok := e.(*ast.Ident); ok {
		if cst, ok := x.info.ObjectOf(id).(*types.Const); ok && isEnumType(cst.Type()) {
			return "const:" + cst.Name(), true
		}
	}
	if se, ok := e.(*ast.SelectorExpr); ok {
		if cst, ok := x.info.Uses[se.Sel].(*types.Const); ok && isEnumType(cst.Type()) {
			return "const:" + cst.Name(), true
		}
	}
	if tv, ok := x.info.Types[e]; ok && tv.Value != nil {
		return "const:" + tv.Value.ExactString(), true
	}
	switch t := e.(type) {
	case *ast.Ident:
		obj := x.info.ObjectOf(t)
		switch o := obj.(type) {
		case *types.Nil:
			return "nil", true
		case *types.Const:
			return "const:" + o.Name(), true
		case *types.Var:
			if d, ok := x.defs[o]; ok {
				return d, true
			}
			if !o.IsField() && x.fd != nil {
				if def := soleDefinition(x.info, x.fd, o); def != nil && !isParamOf(x.info, x.fd, o) {
					if s, ok := x.termDepth(def, depth+1); ok {
						return s, true
					}
				}
				if !x.pathMode {
					if call, i := soleTupleDef(x.info, x.fd, o); call != nil {
						return fmt.Sprintf("%s.%d", x.callTerm(call, depth+1), i), true
					}
				}
			}
			if ver := x.v(o); ver > 0 {
				return fmt.Sprintf("%s@%d", varKey(o), ver), true
			}
			return varKey(o), true
		}
		return t.Name, obj != nil
	case *ast.SelectorExpr:
		if c, ok := x.info.Uses[t.Sel].(*types.Const); ok {
			return "const:" + c.Name(), true
		}
		if pn, isPkg := x.info.Uses[identOf(t.X)].(*types.PkgName); isPkg {
			if t.Sel.Name == "Zero" && strings.HasSuffix(pn.Imported().Path(), "uint128") {
				return "U128(0)", true
			}
			return types.ExprString(t), true
		}
		// a field of a struct the function allocated itself is a variable of its own (pseudo.go)
		if o := pseudoFieldObj(x.info, t); o != nil {
			if d, ok := x.defs[o]; ok {
				return d, true
			}
			if ver := x.v(o); ver > 0 {
				return fmt.Sprintf("%s@%d", varKey(o), ver), true
			}
			return varKey(o), true
		}
		b, ok := x.termDepth(t.X, depth+1)
		return b + "." + t.Sel.Name, ok
	case *ast.StarExpr:
		return x.termDepth(t.X, depth+1)
	case *ast.CallExpr:
		// conversion
		if tv, ok := x.info.Types[t.Fun]; ok && tv.IsType() && len(t.Args) == 1 {
			return x.termDepth(t.Args[0], depth+1)
		}
		obj := calleeObj(x.info, t)
		if f, ok := obj.(*types.Func); ok {
			// uint128.New(lo, hi)
			if f.Name() == "New" && f.Pkg() != nil && strings.HasSuffix(f.Pkg().Path(), "lukechampine.com/uint128") && len(t.Args) == 2 {
				lo, ok1 := x.termDepth(t.Args[0], depth+1)
				hi, ok2 := x.termDepth(t.Args[1], depth+1)
				if ok1 && ok2 {
					if lo == "const:0" && hi == "const:0" {
						return "U128(0)", true
					}
					if strings.HasSuffix(lo, ".Low") && strings.HasSuffix(hi, ".High") && strings.TrimSuffix(lo, ".Low") == strings.TrimSuffix(hi, ".High") {
						return "U128(" + strings.TrimSuffix(lo, ".Low") + ")", true
					}
					return "U128!(" + lo + "," + hi + ")", true // malformed: argument order / mixed sources
				}
			}
			// getter: x.GetF() with no args
			if se, ok := ast.Unparen(t.Fun).(*ast.SelectorExpr); ok && len(t.Args) == 0 && strings.HasPrefix(f.Name(), "Get") {
				b, ok := x.termDepth(se.X, depth+1)
				return b + "." + strings.TrimPrefix(f.Name(), "Get"), ok
			}
			if f.Name() == "len" {
			}
		}
		if id, ok := ast.Unparen(t.Fun).(*ast.Ident); ok && id.Name == "len" && len(t.Args) == 1 {
			if _, isB := x.info.Uses[id].(*types.Builtin); isB {
				b, ok := x.termDepth(t.Args[0], depth+1)
				return "len(" + b + ")", ok
			}
		}
		// pure-call terms: render with canonical args
		if x.pure != nil && x.pure(t) {
			var as []string
			for _, a := range t.Args {
				s, _ := x.termDepth(a, depth+1)
				as = append(as, s)
			}
			fn := types.ExprString(t.Fun)
			if se, ok := ast.Unparen(t.Fun).(*ast.SelectorExpr); ok {
				b, _ := x.termDepth(se.X, depth+1)
				fn = b + "." + se.Sel.Name
			}
			return fn + "(" + strings.Join(as, ",") + ")", true
		}
		if n, ok := x.callOrd[t]; ok {
			return n, true
		}
		return types.ExprString(e), false
	case *ast.IndexExpr:
		b, ok1 := x.termDepth(t.X, depth+1)
		i, ok2 := x.termDepth(t.Index, depth+1)
		return b + "[" + i + "]", ok1 && ok2
	case *ast.BasicLit:
		return "const:" + t.Value, true
	case *ast.CompositeLit:
		// slice / array literals of terms: [a,b]
		if tv, ok := x.info.Types[t]; ok {
			if _, isSlice := tv.Type.Underlying().(*types.Slice); isSlice {
				var es []string
				ok := true
				for _, el := range t.Elts {
					s, k := x.termDepth(el, depth+1)
					es = append(es, s)
					ok = ok && k
				}
				return "[" + strings.Join(es, ",") + "]", ok
			}
		}
	}
	return types.ExprString(e), false
}

// isEnumType: a named integer/string type (protobuf enums, constants.OpType …).
func isEnumType(t types.Type) bool {
	if _, ok := t.(*types.Named); !ok {
		return false
	}
	_, basic := t.Underlying().(*types.Basic)
	return basic
}

// callTerm renders a call canonically: <receiver term>.<method>(<argument terms>).
func (x *condXlat) callTerm(call *ast.CallExpr, depth int) string {
	var as []string
	for _, a := range call.Args {
		s, _ := x.termDepth(a, depth+1)
		as = append(as, s)
	}
	fn := types.ExprString(call.Fun)
	if se, ok := ast.Unparen(call.Fun).(*ast.SelectorExpr); ok {
		if _, isPkg := x.info.Uses[identOf(se.X)].(*types.PkgName); !isPkg {
			b, _ := x.termDepth(se.X, depth+1)
			fn = b + "." + se.Sel.Name
		}
	}
	return fn + "(" + strings.Join(as, ",") + ")"
}

// soleTupleDef: local v is assigned exactly once, by its declaration, as the i-th result of a call.
func soleTupleDef(info *types.Info, fd *ast.FuncDecl, v *types.Var) (*ast.CallExpr, int) {
	var call *ast.CallExpr
	idx, n := -1, 0
	declares := false
	ast.Inspect(fd.Body, func(m ast.Node) bool {
		as, ok := m.(*ast.AssignStmt)
		if !ok {
			return true
		}
		for i, l := range as.Lhs {
			if id, ok := l.(*ast.Ident); ok && info.ObjectOf(id) == v {
				n++
				if as.Tok == token.DEFINE && info.Defs[id] == v {
					declares = true
				}
				if len(as.Rhs) == 1 && len(as.Lhs) > 1 {
					if c, ok := ast.Unparen(as.Rhs[0]).(*ast.CallExpr); ok {
						call, idx = c, i
					}
				}
			}
		}
		return true
	})
	if n == 1 && call != nil && declares {
		return call, idx
	}
	return nil, -1
}

func identOf(e ast.Expr) *ast.Ident {
	id, _ := ast.Unparen(e).(*ast.Ident)
	return id
}

func isParamOf(info *types.Info, fd *ast.FuncDecl, o types.Object) bool {
	for _, p := range paramObjs(info, fd) {
		if p == o {
			return true
		}
	}
	return recvObj(info, fd) == o
}

func (x *condXlat) opaque(e ast.Expr) Formula {
	s, ok := x.term(e)
	if !ok {
		// impure / unknown: every occurrence is its own atom
		*x.uniq++
		s = fmt.Sprintf("%s#%d", types.ExprString(e), *x.uniq)
	}
	return &FLit{"b:" + s, 2, 2}
}

// formula translates a boolean expression.
func (x *condXlat) formula(e ast.Expr) Formula {
	defer x.enter()()
	e = ast.Unparen(e)
	if tv, ok := x.info.Types[e]; ok && tv.Value != nil {
		if b, isB := boolConst(x.info, e); isB {
			return FConst(b)
		}
	}
	switch t := e.(type) {
	case *ast.UnaryExpr:
		if t.Op == token.NOT {
			return fnot(x.formula(t.X))
		}
	case *ast.BinaryExpr:
		switch t.Op {
		case token.LAND:
			return fand(x.formula(t.X), x.formula(t.Y))
		case token.LOR:
			return fnot(fand(fnot(x.formula(t.X)), fnot(x.formula(t.Y))))
		case token.EQL, token.NEQ, token.LSS, token.LEQ, token.GTR, token.GEQ:
			return x.compare(t)
		}
	case *ast.Ident:
		if def := x.boolDef(t); def != nil {
			return x.formula(def)
		}
		return x.opaque(e)
	case *ast.CallExpr:
		// a.Equals(b) on uint128
		if se, ok := ast.Unparen(t.Fun).(*ast.SelectorExpr); ok && se.Sel.Name == "Equals" && len(t.Args) == 1 {
			if f, ok := calleeObj(x.info, t).(*types.Func); ok && f.Pkg() != nil && strings.HasSuffix(f.Pkg().Path(), "uint128") {
				return x.order(se.X, t.Args[0], 1<<1)
			}
		}
		// a.IsZero() on uint128: a == 0
		if se, ok := ast.Unparen(t.Fun).(*ast.SelectorExpr); ok && se.Sel.Name == "IsZero" && len(t.Args) == 0 {
			if f, ok := calleeObj(x.info, t).(*types.Func); ok && f.Pkg() != nil && strings.HasSuffix(f.Pkg().Path(), "uint128") {
				sa, oka := x.term(se.X)
				return x.orderTerms(sa, oka, "U128(0)", true, 1<<1)
			}
		}
	}
	return x.opaque(e)
}

// boolDef: a bool local defined exactly once by a non-call expression is inlined.
func (x *condXlat) boolDef(id *ast.Ident) ast.Expr {
	o, ok := x.info.ObjectOf(id).(*types.Var)
	if !ok || o.IsField() || x.fd == nil || isParamOf(x.info, x.fd, o) {
		return nil
	}
	def := soleDefinition(x.info, x.fd, o)
	if def == nil || hasCall(def) {
		return nil
	}
	if _, isLit := ast.Unparen(def).(*ast.Ident); isLit {
		return nil
	}
	return def
}

var opMask = map[token.Token]uint8{
	token.LSS: 1 << 0, token.EQL: 1 << 1, token.GTR: 1 << 2,
	token.LEQ: 1<<0 | 1<<1, token.GEQ: 1<<1 | 1<<2, token.NEQ: 1<<0 | 1<<2,
}

func flipMask(m uint8) uint8 {
	var r uint8
	if m&1 != 0 {
		r |= 4
	}
	if m&2 != 0 {
		r |= 2
	}
	if m&4 != 0 {
		r |= 1
	}
	return r
}

// order builds the literal "a ⋚ b" with the given mask over {<,=,>}.
func (x *condXlat) order(a, b ast.Expr, mask uint8) Formula {
	sa, oka := x.term(a)
	sb, okb := x.term(b)
	return x.orderTerms(sa, oka, sb, okb, mask)
}

func (x *condXlat) orderTerms(sa string, oka bool, sb string, okb bool, mask uint8) Formula {
	if !oka || !okb {
		*x.uniq++
		return &FLit{fmt.Sprintf("b:%s⋚%s#%d", sa, sb, *x.uniq), 2, 2}
	}
	if sa == sb {
		return FConst(mask&2 != 0)
	}
	if sa > sb {
		sa, sb = sb, sa
		mask = flipMask(mask)
	}
	return &FLit{"ord:" + sa + "|" + sb, 3, mask}
}

// cmpCall recognises a.Cmp(b) on uint128 values (directly, or through a local
// declared once as that call) and returns the operands.
func (x *condXlat) cmpCall(e ast.Expr) (ast.Expr, ast.Expr, bool) {
	e = ast.Unparen(e)
	if id, ok := e.(*ast.Ident); ok && x.fd != nil {
		if v, ok := x.info.ObjectOf(id).(*types.Var); ok && !v.IsField() && !isParamOf(x.info, x.fd, v) {
			if def := soleDefinition(x.info, x.fd, v); def != nil {
				e = ast.Unparen(def)
			}
		}
	}
	call, ok := e.(*ast.CallExpr)
	if !ok || len(call.Args) != 1 {
		return nil, nil, false
	}
	se, ok := ast.Unparen(call.Fun).(*ast.SelectorExpr)
	if !ok || se.Sel.Name != "Cmp" {
		return nil, nil, false
	}
	if f, ok := calleeObj(x.info, call).(*types.Func); !ok || f.Pkg() == nil || !strings.HasSuffix(f.Pkg().Path(), "uint128") {
		return nil, nil, false
	}
	return se.X, call.Args[0], true
}

// cmpMask: the set of orderings {<,=,>} of (a,b) for which "a.Cmp(b) op k"
// holds (flipped: "k op a.Cmp(b)").
func cmpMask(op token.Token, k int64, flipped bool) uint8 {
	var m uint8
	for i, r := range []int64{-1, 0, 1} {
		l, rr := r, k
		if flipped {
			l, rr = k, r
		}
		var holds bool
		switch op {
		case token.EQL:
			holds = l == rr
		case token.NEQ:
			holds = l != rr
		case token.LSS:
			holds = l < rr
		case token.LEQ:
			holds = l <= rr
		case token.GTR:
			holds = l > rr
		case token.GEQ:
			holds = l >= rr
		}
		if holds {
			m |= 1 << uint(i)
		}
	}
	return m
}

func (x *condXlat) compare(t *ast.BinaryExpr) Formula {
	mask := opMask[t.Op]
	// a.Cmp(b) ⋚ k for any integer constant k (Cmp yields -1, 0 or +1); the
	// call may have been bound to a local first (cmp := a.Cmp(b)).
	if a, b, ok := x.cmpCall(t.X); ok {
		if k, isC := constInt(x.info, t.Y); isC {
			return x.order(a, b, cmpMask(t.Op, k, false))
		}
	}
	if a, b, ok := x.cmpCall(t.Y); ok {
		if k, isC := constInt(x.info, t.X); isC {
			return x.order(a, b, cmpMask(t.Op, k, true))
		}
	}
	tx, okx := x.info.Types[t.X]
	if !okx {
		return x.opaque(t)
	}
	// nil comparisons and equality on non-ordered types: boolean atom "eq"
	if t.Op == token.EQL || t.Op == token.NEQ {
		sa, oka := x.term(t.X)
		sb, okb := x.term(t.Y)
		basic, isBasic := tx.Type.Underlying().(*types.Basic)
		ordered := isBasic && basic.Info()&(types.IsInteger|types.IsFloat) != 0 && !isEnumType(tx.Type)
		if !ordered {
			if !oka || !okb {
				*x.uniq++
				f := Formula(&FLit{fmt.Sprintf("b:%s==%s#%d", sa, sb, *x.uniq), 2, 2})
				if t.Op == token.NEQ {
					f = fnot(f)
				}
				return f
			}
			// boolean comparison with constant
			if sb == "const:true" || sb == "const:false" {
				f := x.formula(t.X)
				if (sb == "const:false") != (t.Op == token.NEQ) {
					f = fnot(f)
				}
				return f
			}
			if sa == sb {
				return FConst(t.Op == token.EQL)
			}
			if sa > sb {
				sa, sb = sb, sa
			}
			// two distinct constants are never equal
			if strings.HasPrefix(sa, "const:") && strings.HasPrefix(sb, "const:") {
				return FConst(t.Op == token.NEQ)
			}
			f := Formula(&FLit{"eq:" + sa + "|" + sb, 2, 2})
			if t.Op == token.NEQ {
				f = fnot(f)
			}
			return f
		}
	}
	return x.order(t.X, t.Y, mask)
}

// varKey names a variable in atoms: its name, made unique when the declaring
// function declares several variables of that name (shadowing, `ok` reused in
// nested scopes): the k-th one in source order (k ≥ 2) is "name·k". Without
// this, facts about one `ok` would constrain another.
var varKeyCache = map[*ast.FuncDecl]map[types.Object]string{}

func varKey(o types.Object) string {
	v, ok := o.(*types.Var)
	if !ok || v.IsField() || gProg == nil || o.Pkg() == nil || !o.Pos().IsValid() {
		return o.Name()
	}
	pk := gProg.Pkgs[o.Pkg().Path()]
	if pk == nil {
		return o.Name()
	}
	// the function whose paths are being looked at names everything that occurs in its tree, its own declarations
	// first: a local of a helper spliced into it never shares a name with one of its own (or of another helper)
	if curEnumFd != nil {
		if k, ok := varKeyMap(curEnumFd, pk)[o]; ok {
			return k
		}
	}
	fd := gProg.enclosingFuncDecl(o.Pos())
	if fd == nil {
		return o.Name()
	}
	if k, ok := varKeyMap(fd, pk)[o]; ok {
		return k
	}
	return o.Name()
}

func varKeyMap(fd *ast.FuncDecl, pk *packages.Package) map[types.Object]string {
	m, ok := varKeyCache[fd]
	if !ok {
		m = map[types.Object]string{}
		byName := map[string][]types.Object{}
		ast.Inspect(fd, func(n ast.Node) bool {
			if id, ok := n.(*ast.Ident); ok {
				if d, ok := pk.TypesInfo.Defs[id].(*types.Var); ok && d != nil && !d.IsField() {
					dup := false
					for _, e := range byName[d.Name()] {
						if e == d {
							dup = true
						}
					}
					if !dup {
						byName[d.Name()] = append(byName[d.Name()], d)
					}
				}
			}
			return true
		})
		for name, objs := range byName {
			// the function's own declarations first (by position), then objects that reach the tree through a
			// spliced-in helper (declared elsewhere in the file): a helper's parameter that happens to share the
			// name of the caller's never takes the plain name away from it
			own := func(o types.Object) bool { return fd.Pos() <= o.Pos() && o.Pos() < fd.End() }
			sort.SliceStable(objs, func(i, j int) bool {
				if oi, oj := own(objs[i]), own(objs[j]); oi != oj {
					return oi
				}
				return objs[i].Pos() < objs[j].Pos()
			})
			for i, d := range objs {
				if i == 0 {
					m[d] = name
				} else {
					m[d] = fmt.Sprintf("%s·%d", name, i+1)
				}
			}
		}
		varKeyCache[fd] = m
	}
	return m
}
