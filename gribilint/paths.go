package main

// E3 PATHS: structural path enumeration over the typed AST.
//
// A statement list is expanded into the set of its structural paths. No
// feasibility reasoning is done except the pruning of a path that takes both
// outcomes of the same side-effect-free condition with no intervening
// assignment to an identifier of that condition.

import (
	"fmt"
	"go/ast"
	"go/token"
	"go/types"
	"strings"
)

type Event struct {
	Kind   string
	Node   ast.Node
	Data   any
	InLoop bool
}

type CondStep struct {
	Expr   ast.Expr // nil for type-switch / select clauses and assignment markers
	Taken  bool
	Label  string
	At     int            // number of events on the path before this step
	Assign []types.Object // objects (re)assigned at this point: facts about them are reset
	Node   ast.Node       // loop / switch node for labelled steps
	F      Formula        // the decision as a formula over atoms (nil for labels)
	Ver    map[types.Object]int
}

type Path struct {
	Events  []Event
	Conds   []CondStep
	End     string // fall, return, continue, break, panic
	EndNode ast.Node
	ver     map[types.Object]int // assignment epoch of locals (copy on write)
	defs    map[types.Object]string
	bind    map[types.Object]ast.Expr // locals bound to a helper's returned expression by an inline frame (copy on write)
	pe      *pathEnum                 // the enumerator that produced the path
}

// Formulas returns the formulas of all decisions on the path.
func (p Path) Formulas() []Formula {
	var fs []Formula
	for _, c := range p.Conds {
		if c.F != nil {
			fs = append(fs, c.F)
		}
	}
	return fs
}

// Entails reports whether the path's decisions imply f (by exhaustive valuation).
func (p Path) Entails(f Formula) bool {
	return !satisfiable(append(p.Formulas(), fnot(f)))
}

func (p Path) count(kind string) int {
	n := 0
	for _, e := range p.Events {
		if e.Kind == kind {
			n++
		}
	}
	return n
}

func (p Path) has(kind string) bool { return p.count(kind) > 0 }

func (p Path) describe(pr *Prog) string {
	var sb strings.Builder
	for i, c := range p.Conds {
		if i > 0 {
			sb.WriteString(" → ")
		}
		if c.Expr != nil {
			if !c.Taken {
				sb.WriteString("!")
			}
			sb.WriteString("(" + types.ExprString(c.Expr) + ")")
		} else if c.Label == "assign" {
			sb.WriteString("·")
		} else {
			sb.WriteString(c.Label)
		}
	}
	sb.WriteString(" ⇒ [")
	for i, e := range p.Events {
		if i > 0 {
			sb.WriteString(", ")
		}
		sb.WriteString(e.Kind + "@" + lineOf(pr, e.Node))
	}
	sb.WriteString("] end=" + p.End)
	return sb.String()
}

func lineOf(pr *Prog, n ast.Node) string {
	if n == nil {
		return "-"
	}
	s := pr.pos(n.Pos())
	if i := strings.LastIndex(s, ":"); i >= 0 {
		return s[i+1:]
	}
	return s
}

type pathEnum struct {
	nameFd          *ast.FuncDecl // the function whose naming of variables applies to this enumeration (varKey)
	callOrd         map[*ast.CallExpr]string
	fd              *ast.FuncDecl
	uniq            int
	pure            func(call *ast.CallExpr) bool
	atLeastOnce     func(node ast.Node) bool // loops that are known to run at least once
	info            *types.Info
	ev              func(n ast.Node) []Event
	cap             int
	overflow        bool
	unsup           []string
	inLoop          int
	frameBind       bool // applying the result binding of an inline frame
	closureDepth    int
	noEntailedFacts bool
	linkFields      bool // a boolean field stored once on a path is what later reads of it on that path see
}

const pathCap = 4096

// enumPaths enumerates the structural paths through stmts. ev is called on
// every simple statement and condition expression and returns the events it
// contains (in evaluation order).
func enumPaths(info *types.Info, stmts []ast.Stmt, ev func(n ast.Node) []Event) ([]Path, *pathEnum) {
	return enumPathsOpt(info, stmts, ev, nil)
}

func enumPathsOpt(info *types.Info, stmts []ast.Stmt, ev func(n ast.Node) []Event, atLeastOnce func(ast.Node) bool) ([]Path, *pathEnum) {
	pe := &pathEnum{info: info, ev: ev, cap: pathCap, atLeastOnce: atLeastOnce}
	return pe.run(stmts)
}

func (pe *pathEnum) run(stmts []ast.Stmt) ([]Path, *pathEnum) {
	curEnumFd = pe.fd
	if curEnumFd == nil && len(stmts) > 0 && gProg != nil {
		// a region of a function: names and helper bindings are those of the function it is written in
		curEnumFd = gProg.enclosingFuncDecl(stmts[0].Pos())
	}
	pe.nameFd = curEnumFd
	prev := curEnum
	curEnum = pe
	defer func() { curEnum = prev }()
	if pe.pure == nil {
		pe.pure = func(call *ast.CallExpr) bool { return defaultPure(pe.info, call) }
	}
	pe.numberCalls(stmts)
	start := []Path{{End: "fall", pe: pe}}
	out := pe.seq(start, stmts)
	return out, pe
}

// defaultPure: calls whose result depends only on their arguments and that
// have no effect: generated getters, len, the reflection helper isNil.
func defaultPure(info *types.Info, call *ast.CallExpr) bool {
	obj := calleeObj(info, call)
	if f, ok := obj.(*types.Func); ok {
		if strings.HasPrefix(f.Name(), "Get") && len(call.Args) == 0 {
			return true
		}
		if f.Name() == "isNil" && f.Pkg() != nil && f.Pkg().Path() == ribPkg {
			return true
		}
	}
	return false
}

// enumFunc enumerates the paths of a whole function body; local single
// definitions are inlined in condition terms.
func enumFunc(fi *FuncInfo, ev func(n ast.Node) []Event, atLeastOnce func(ast.Node) bool) ([]Path, *pathEnum) {
	pe := &pathEnum{info: fi.Pkg.TypesInfo, ev: ev, cap: pathCap, atLeastOnce: atLeastOnce, fd: fi.Decl}
	return pe.run(fi.Decl.Body.List)
}

func (pe *pathEnum) events(n ast.Node) []Event {
	if n == nil {
		return nil
	}
	evs := pe.ev(n)
	if pe.inLoop > 0 {
		for i := range evs {
			evs[i].InLoop = true
		}
	}
	return evs
}

func clonePath(p Path) Path {
	q := Path{End: p.End, EndNode: p.EndNode, ver: p.ver, defs: p.defs, bind: p.bind, pe: p.pe}
	q.Events = append([]Event(nil), p.Events...)
	q.Conds = append([]CondStep(nil), p.Conds...)
	return q
}

func addCond(p *Path, cs CondStep) {
	cs.At = len(p.Events)
	cs.Ver = p.ver
	if cs.Expr != nil && cs.F == nil && curEnum != nil {
		x := curEnum.xlatP(p)
		f := x.formula(cs.Expr)
		if !cs.Taken {
			f = fnot(f)
		}
		cs.F = f
	}
	p.Conds = append(p.Conds, cs)
}

// curEnum is the enumerator in use (enumeration is single-threaded).
var curEnum *pathEnum

// curFrames is the stack of inline frames being enumerated.
var curFrames []*inlineFrame

func (pe *pathEnum) xlat(ver map[types.Object]int, defs map[types.Object]string) *condXlat {
	return &condXlat{info: pe.info, fd: pe.fd, ver: ver, uniq: &pe.uniq, pure: pe.pure, defs: defs, callOrd: pe.callOrd, pathMode: true, nameFd: pe.nameFd}
}

func (pe *pathEnum) xlatP(p *Path) *condXlat { return pe.xlat(p.ver, p.defs) }

// numberCalls names every call of the analysed statements "call:<callee>#<n>",
// n being its ordinal among the calls to the same callee in source order: a
// position-free identity for the result of an impure call.
func (pe *pathEnum) numberCalls(stmts []ast.Stmt) {
	pe.callOrd = map[*ast.CallExpr]string{}
	count := map[string]int{}
	for _, st := range stmts {
		ast.Inspect(st, func(n ast.Node) bool {
			call, ok := n.(*ast.CallExpr)
			if !ok {
				return true
			}
			name := ""
			if fld, _ := fieldCall(pe.info, call); fld != "" {
				name = fld
			} else if obj := calleeObj(pe.info, call); obj != nil {
				if _, isB := obj.(*types.Builtin); isB {
					return true
				}
				if _, isT := obj.(*types.TypeName); isT {
					return true
				}
				name = obj.Name()
			} else {
				return true
			}
			count[name]++
			pe.callOrd[call] = fmt.Sprintf("call:%s#%d", name, count[name])
			return true
		})
	}
}

func extend(p Path, evs []Event) Path {
	q := clonePath(p)
	q.Events = append(q.Events, evs...)
	return q
}

// seq runs the live ("fall") paths through the statements.
func (pe *pathEnum) seq(in []Path, stmts []ast.Stmt) []Path {
	cur := in
	var done []Path
	for _, s := range stmts {
		var live []Path
		for _, p := range cur {
			if p.End != "fall" {
				done = append(done, p)
			} else {
				live = append(live, p)
			}
		}
		if len(live) == 0 {
			cur = nil
			break
		}
		cur = pe.stmt(live, s)
		if len(cur)+len(done) > pe.cap {
			pe.overflow = true
			return append(done, cur...)
		}
	}
	return append(done, cur...)
}

// assigned lists the objects a simple statement (re)assigns.
func (pe *pathEnum) assigned(s ast.Stmt) []types.Object {
	var out []types.Object
	add := func(e ast.Expr) {
		if o := lhsObject(pe.info, e); o != nil {
			out = append(out, o)
			return
		}
		if id, ok := ast.Unparen(e).(*ast.Ident); ok {
			if o := pe.info.ObjectOf(id); o != nil {
				out = append(out, o)
			}
		}
	}
	switch x := s.(type) {
	case *ast.AssignStmt:
		for i, l := range x.Lhs {
			add(l)
			if len(x.Lhs) == len(x.Rhs) {
				// x = &T{…} of an owned struct: all its field variables are assigned (pseudo.go)
				if root, st, _ := ownedLiteral(pe.info, l, x.Rhs[i]); root != nil {
					for j := 0; j < st.NumFields(); j++ {
						if f := st.Field(j); f.Pkg() != nil && isRepoPkg(f.Pkg()) {
							out = append(out, pseudoFor(root, f))
						}
					}
				}
			}
		}
	case *ast.IncDecStmt:
		add(x.X)
	case *ast.DeclStmt:
		if gd, ok := x.Decl.(*ast.GenDecl); ok && gd.Tok == token.VAR {
			for _, sp := range gd.Specs {
				if vs, ok := sp.(*ast.ValueSpec); ok {
					for _, n := range vs.Names {
						if o := pe.info.Defs[n]; o != nil {
							out = append(out, o)
						}
					}
				}
			}
		}
	}
	return out
}

// applyAssign bumps the epoch of assigned locals, records the defining call
// of locals assigned from a call and, for boolean assignments with a
// call-free right-hand side, records lhs ⇔ rhs.
func (pe *pathEnum) applyAssign(q *Path, s ast.Stmt, assigned []types.Object) {
	old, oldDefs := q.ver, q.defs
	var synth []Formula
	as, isAssign := s.(*ast.AssignStmt)
	nv := map[types.Object]int{}
	for k, v := range old {
		nv[k] = v
	}
	nd := map[types.Object]string{}
	for k, v := range oldDefs {
		nd[k] = v
	}
	definesHere := map[types.Object]bool{}
	if isAssign && as.Tok == token.DEFINE {
		for _, l := range as.Lhs {
			if id, ok := ast.Unparen(l).(*ast.Ident); ok {
				if o := pe.info.Defs[id]; o != nil {
					definesHere[o] = true
				}
			}
		}
	}
	for _, o := range assigned {
		delete(nd, o)
		if definesHere[o] {
			continue // a fresh variable keeps epoch 0
		}
		nv[o] = old[o] + 1
	}
	if ds, ok := s.(*ast.DeclStmt); ok {
		// var x T (no initialiser): x holds the zero value
		if gd, ok := ds.Decl.(*ast.GenDecl); ok {
			for _, sp := range gd.Specs {
				vs, ok := sp.(*ast.ValueSpec)
				if !ok || len(vs.Values) != 0 {
					continue
				}
				for _, n := range vs.Names {
					o := pe.info.Defs[n]
					if o == nil {
						continue
					}
					synth = append(synth, zeroFacts(o, nv)...)
				}
			}
		}
	}
	if isAssign && len(as.Lhs) == len(as.Rhs) {
		// x := &T{…} for a struct the function owns: the fields that are not given hold their zero values, the
		// others the (pure) values given (pseudo.go)
		for i, l := range as.Lhs {
			root, st, cl := ownedLiteral(pe.info, l, as.Rhs[i])
			if root == nil {
				continue
			}
			given := map[string]ast.Expr{}
			keyed := true
			if cl != nil {
				for _, el := range cl.Elts {
					kv, ok := el.(*ast.KeyValueExpr)
					if !ok {
						keyed = false
						break
					}
					if k, ok := kv.Key.(*ast.Ident); ok {
						given[k.Name] = kv.Value
					}
				}
			}
			if !keyed {
				continue
			}
			for j := 0; j < st.NumFields(); j++ {
				f := st.Field(j)
				if f.Pkg() == nil || !isRepoPkg(f.Pkg()) {
					continue
				}
				po := pseudoFor(root, f)
				if val, ok := given[f.Name()]; ok {
					if isBoolType(f.Type()) && !(hasCall(val) && pe.inLoop > 0) {
						// a boolean field: field ⇔ value (as for boolean assignments)
						name := varKey(po)
						if v := nv[po]; v > 0 {
							name = fmt.Sprintf("%s@%d", name, v)
						}
						lhs, rhs := Formula(&FLit{"b:" + name, 2, 2}), pe.xlat(old, oldDefs).formula(val)
						synth = append(synth, fnot(fand(fnot(fand(lhs, rhs)), fnot(fand(fnot(lhs), fnot(rhs))))))
						continue
					}
					if _, isLit := ast.Unparen(val).(*ast.CompositeLit); !isLit && !hasImpureCall(pe, val) {
						if t, ok := pe.xlat(old, oldDefs).term(val); ok {
							if _, isBool := boolConst(pe.info, val); !isBool {
								nd[po] = t
							}
						}
					}
					continue
				}
				if fieldsRead(pe.info, pe.fd)[f] {
					synth = append(synth, zeroFacts(po, nv)...)
				}
			}
		}
	}
	if isAssign {
		// x = y (plain identifier or pure term): x denotes the same value as y from here on
		if len(as.Lhs) == len(as.Rhs) {
			for i, l := range as.Lhs {
				o := lhsObject(pe.info, l)
				if o == nil {
					continue
				}
				if call, isCall := ast.Unparen(as.Rhs[i]).(*ast.CallExpr); isCall && pe.frameBind && hasImpureCall(pe, as.Rhs[i]) && len(as.Rhs) > 1 {
					// one of several right-hand sides is an impure call (results of an inlined helper): name it by its call
					if name, ok := pe.callOrd[call]; ok {
						nd[o] = name
					}
				}
				if !hasImpureCall(pe, as.Rhs[i]) {
					if _, isLit := ast.Unparen(as.Rhs[i]).(*ast.FuncLit); !isLit {
						if t, ok := pe.xlat(old, oldDefs).term(as.Rhs[i]); ok && !strings.HasPrefix(t, "const:") {
							nd[o] = t
						} else if ok {
							if _, isBool := boolConst(pe.info, as.Rhs[i]); !isBool {
								nd[o] = t
							}
						}
					}
				}
			}
		}
		// results of a call
		if len(as.Rhs) == 1 {
			if call, ok := ast.Unparen(as.Rhs[0]).(*ast.CallExpr); ok {
				if name, ok := pe.callOrd[call]; ok {
					if t, pureTerm := pe.xlat(old, oldDefs).term(call); pureTerm && t != name {
						name = t // pure getter chains keep their canonical term
					}
					for i, l := range as.Lhs {
						if o := lhsObject(pe.info, l); o != nil {
							if len(as.Lhs) == 1 {
								nd[o] = name
							} else {
								nd[o] = fmt.Sprintf("%s.%d", name, i)
							}
						}
					}
				}
			}
		}
		if len(as.Lhs) == len(as.Rhs) {
			for i, l := range as.Lhs {
				o := lhsObject(pe.info, l)
				if o == nil {
					continue
				}
				id := ast.Unparen(l)
				b, ok := o.Type().Underlying().(*types.Basic)
				if !ok || b.Info()&types.IsBoolean == 0 || (hasCall(as.Rhs[i]) && pe.inLoop > 0) {
					// (outside loops a call occurrence is evaluated once on a path: the variable is that occurrence's value)
					continue
				}
				rhs := pe.xlat(old, oldDefs).formula(as.Rhs[i])
				lhs := pe.xlat(nv, nd).formula(id)
				// lhs ⇔ rhs
				synth = append(synth, fnot(fand(fnot(fand(lhs, rhs)), fnot(fand(fnot(lhs), fnot(rhs))))))
			}
		}
	}
	if isAssign && len(as.Lhs) == len(as.Rhs) {
		// x = &T{…} / new(T): x is not nil
		for i, l := range as.Lhs {
			o := lhsObject(pe.info, l)
			if o == nil {
				continue
			}
			fresh := false
			switch r := ast.Unparen(as.Rhs[i]).(type) {
			case *ast.UnaryExpr:
				_, isLit := ast.Unparen(r.X).(*ast.CompositeLit)
				fresh = r.Op == token.AND && isLit
			case *ast.CallExpr:
				if fn, ok := r.Fun.(*ast.Ident); ok && fn.Name == "new" {
					_, fresh = pe.info.Uses[fn].(*types.Builtin)
				}
			}
			if !fresh {
				continue
			}
			if name, ok := pe.xlat(nv, nd).term(l); ok && name != "nil" {
				synth = append(synth, &FLit{eqAtom("nil", name), 2, 1})
			}
		}
	}
	q.ver, q.defs = nv, nd
	addCond(q, CondStep{Label: "assign", Assign: assigned})
	for _, f := range synth {
		q.Conds = append(q.Conds, CondStep{Label: "assign", At: len(q.Events), F: f, Ver: nv})
	}
}

// zeroFacts: o holds the zero value of its type (at its current epoch in ver).
func zeroFacts(o types.Object, ver map[types.Object]int) []Formula {
	var synth []Formula
	name := varKey(o)
	if v := ver[o]; v > 0 {
		name = fmt.Sprintf("%s@%d", name, v)
	}
	switch t := o.Type().Underlying().(type) {
	case *types.Basic:
		if t.Info()&types.IsBoolean != 0 {
			synth = append(synth, &FLit{"b:" + name, 2, 1})
		}
		if t.Info()&types.IsString != 0 {
			synth = append(synth, &FLit{eqAtom("const:\"\"", name), 2, 2})
		}
		if t.Info()&types.IsInteger != 0 {
			k, _ := orderAtom("const:0", name)
			synth = append(synth, &FLit{k, 3, 2})
		}
	case *types.Pointer, *types.Interface, *types.Map, *types.Slice, *types.Chan, *types.Signature:
		synth = append(synth, &FLit{eqAtom("nil", name), 2, 2})
	}
	return synth
}

// hasImpureCall: e contains a call that is not a conversion, builtin len or a pure getter.
func hasImpureCall(pe *pathEnum, e ast.Expr) bool {
	impure := false
	ast.Inspect(e, func(n ast.Node) bool {
		call, ok := n.(*ast.CallExpr)
		if !ok {
			return true
		}
		if tv, ok := pe.info.Types[call.Fun]; ok && tv.IsType() {
			return true
		}
		if id, ok := ast.Unparen(call.Fun).(*ast.Ident); ok {
			if _, isB := pe.info.Uses[id].(*types.Builtin); isB && (id.Name == "len" || id.Name == "cap") {
				return true
			}
		}
		if pe.pure != nil && pe.pure(call) {
			return true
		}
		// uint128.New(lo, hi) builds a value from its arguments (rendered as U128(…) by the term translator)
		if f, ok := calleeObj(pe.info, call).(*types.Func); ok && f.Name() == "New" && f.Pkg() != nil && strings.HasSuffix(f.Pkg().Path(), "lukechampine.com/uint128") {
			return true
		}
		impure = true
		return false
	})
	return impure
}

// TermAtEnd renders expression e with the path's final knowledge of local definitions.
func (p Path) TermAtEnd(pe *pathEnum, e ast.Expr) string {
	t, _ := pe.xlat(p.ver, p.defs).term(e)
	return t
}

// definedBefore is a conservative helper: a := definition inside a loop body
// is a redefinition on later iterations, but iterations are not unrolled.
func (pe *pathEnum) definedBefore(o types.Object, s ast.Stmt) bool { return false }

func (pe *pathEnum) isTerminatingCall(call *ast.CallExpr) bool {
	switch f := call.Fun.(type) {
	case *ast.Ident:
		if f.Name == "panic" {
			if _, ok := pe.info.Uses[f].(*types.Builtin); ok {
				return true
			}
		}
	case *ast.SelectorExpr:
		name := f.Sel.Name
		if strings.HasPrefix(name, "Fatal") || strings.HasPrefix(name, "Exit") || name == "FailNow" || strings.HasPrefix(name, "Skip") || strings.HasPrefix(name, "Panic") {
			if obj, ok := pe.info.Uses[f.Sel].(*types.Func); ok {
				pk := ""
				if obj.Pkg() != nil {
					pk = obj.Pkg().Path()
				}
				switch pk {
				case "testing", "github.com/golang/glog", "log", "os", "runtime":
					return true
				}
			}
		}
	}
	return false
}

func (pe *pathEnum) stmt(in []Path, s ast.Stmt) []Path {
	switch s := s.(type) {
	case nil:
		return in
	case *ast.BlockStmt:
		if fr := inlineFrames[s]; fr != nil {
			return pe.frame(in, s, fr)
		}
		return pe.seq(in, s.List)
	case *ast.LabeledStmt:
		return pe.stmt(in, s.Stmt)
	case *ast.ExprStmt:
		evs := pe.events(s)
		term := false
		if call, ok := s.X.(*ast.CallExpr); ok && pe.isTerminatingCall(call) {
			term = true
		}
		handed := handedOver(pe.info, s)
		var out []Path
		for _, p := range in {
			q := extend(p, evs)
			if len(handed) > 0 {
				pe.applyAssign(&q, s, handed)
			}
			if term {
				q.End, q.EndNode = "panic", s
			}
			// a call of a local that holds, on this path, a parameterless result-less closure: its body runs here
			if fl := pe.closureCalled(&q, s); fl != nil && !term && pe.closureDepth < 2 {
				pe.closureDepth++
				for _, r := range pe.seq([]Path{q}, fl.Body.List) {
					if r.End == "return" {
						if rs, ok := r.EndNode.(*ast.ReturnStmt); ok && len(rs.Results) == 0 {
							r.End, r.EndNode = "fall", nil
						}
					}
					out = append(out, r)
				}
				pe.closureDepth--
				continue
			}
			out = append(out, q)
		}
		return out
	case *ast.AssignStmt, *ast.IncDecStmt, *ast.DeclStmt, *ast.SendStmt, *ast.GoStmt, *ast.DeferStmt, *ast.EmptyStmt:
		evs := pe.events(s)
		assigned := append(handedOver(pe.info, s), pe.assigned(s)...)
		var out []Path
		for _, p := range in {
			q := extend(p, evs)
			if len(assigned) > 0 {
				pe.applyAssign(&q, s, assigned)
			}
			if as, ok := s.(*ast.AssignStmt); ok && pe.linkFields && as.Tok == token.ASSIGN {
				pe.linkFieldStores(&q, as)
			}
			if as, ok := s.(*ast.AssignStmt); ok && len(as.Lhs) == len(as.Rhs) {
				pe.bindClosures(&q, as)
			}
			out = append(out, q)
		}
		return out
	case *ast.ReturnStmt:
		evs := pe.events(s)
		var out []Path
		for _, p := range in {
			q := extend(p, evs)
			q.End, q.EndNode = "return", s
			out = append(out, q)
		}
		return out
	case *ast.BranchStmt:
		var out []Path
		for _, p := range in {
			q := clonePath(p)
			switch s.Tok {
			case token.CONTINUE:
				q.End = "continue"
			case token.BREAK:
				q.End = "break"
			default:
				pe.unsup = append(pe.unsup, s.Tok.String())
				q.End = "panic"
			}
			if s.Label != nil {
				pe.unsup = append(pe.unsup, "labelled "+s.Tok.String())
			}
			q.EndNode = s
			out = append(out, q)
		}
		return out
	case *ast.IfStmt:
		cur := in
		if s.Init != nil {
			cur = pe.stmt(cur, s.Init)
		}
		cevs := pe.events(s.Cond)
		var out []Path
		for _, p := range cur {
			if p.End != "fall" {
				out = append(out, p)
				continue
			}
			base := extend(p, cevs)
			tp := clonePath(base)
			addCond(&tp, CondStep{Expr: s.Cond, Taken: true})
			fp := clonePath(base)
			addCond(&fp, CondStep{Expr: s.Cond, Taken: false})
			if !pe.infeasible(tp) {
				out = append(out, pe.seq([]Path{tp}, s.Body.List)...)
			}
			if !pe.infeasible(fp) {
				if s.Else != nil {
					out = append(out, pe.stmt([]Path{fp}, s.Else)...)
				} else {
					out = append(out, fp)
				}
			}
		}
		return out
	case *ast.SwitchStmt:
		cur := in
		if s.Init != nil {
			cur = pe.stmt(cur, s.Init)
		}
		var tagEvs []Event
		if s.Tag != nil {
			tagEvs = pe.events(s.Tag)
		}
		var out []Path
		for _, p := range cur {
			if p.End != "fall" {
				out = append(out, p)
				continue
			}
			base := extend(p, tagEvs)
			out = append(out, pe.switchClauses(base, s)...)
		}
		return pe.afterBreakable(out)
	case *ast.TypeSwitchStmt:
		cur := in
		if s.Init != nil {
			cur = pe.stmt(cur, s.Init)
		}
		aevs := pe.events(s.Assign)
		// the switched expression
		var subj ast.Expr
		switch a := s.Assign.(type) {
		case *ast.AssignStmt:
			if len(a.Rhs) == 1 {
				if ta, ok := ast.Unparen(a.Rhs[0]).(*ast.TypeAssertExpr); ok {
					subj = ta.X
				}
			}
		case *ast.ExprStmt:
			if ta, ok := ast.Unparen(a.X).(*ast.TypeAssertExpr); ok {
				subj = ta.X
			}
		}
		var out []Path
		for _, p := range cur {
			if p.End != "fall" {
				out = append(out, p)
				continue
			}
			base := extend(p, aevs)
			subjTerm := ""
			if subj != nil {
				subjTerm, _ = pe.xlatP(&base).term(subj)
			}
			isAtom := func(e ast.Expr) string {
				t := types.ExprString(e)
				if tv, ok := pe.info.Types[e]; ok {
					t = typeName(tv.Type)
				}
				return "is:" + t + "|" + subjTerm
			}
			hasDefault := false
			var allTypes []ast.Expr
			for _, cc := range s.Body.List {
				allTypes = append(allTypes, cc.(*ast.CaseClause).List...)
			}
			noneF := func() Formula {
				var f Formula = FConst(true)
				for _, e := range allTypes {
					f = fand(f, &FLit{isAtom(e), 2, 1})
				}
				return f
			}
			for _, cc := range s.Body.List {
				cl := cc.(*ast.CaseClause)
				q := clonePath(base)
				lbl := "default"
				var f Formula
				if cl.List == nil {
					hasDefault = true
					f = noneF()
				} else {
					var ts []string
					var any Formula = FConst(false)
					for _, e := range cl.List {
						ts = append(ts, types.ExprString(e))
						any = fnot(fand(fnot(any), fnot(Formula(&FLit{isAtom(e), 2, 2}))))
					}
					f = any
					lbl = "type " + strings.Join(ts, ",")
				}
				if subjTerm == "" {
					f = nil
				}
				addCond(&q, CondStep{Label: lbl, Taken: true, F: f})
				out = append(out, pe.seq([]Path{q}, cl.Body)...)
			}
			if !hasDefault {
				q := clonePath(base)
				var f Formula
				if subjTerm != "" {
					f = noneF()
				}
				addCond(&q, CondStep{Label: "type <no case>", Taken: true, F: f})
				out = append(out, q)
			}
		}
		return pe.afterBreakable(out)
	case *ast.SelectStmt:
		var out []Path
		for _, p := range in {
			for _, cc := range s.Body.List {
				cl := cc.(*ast.CommClause)
				q := clonePath(p)
				lbl := "select default"
				if cl.Comm != nil {
					lbl = "select comm"
					q.Events = append(q.Events, pe.events(cl.Comm)...)
				}
				addCond(&q, CondStep{Label: lbl, Taken: true, Node: s})
				out = append(out, pe.seq([]Path{q}, cl.Body)...)
			}
		}
		return pe.afterBreakable(out)
	case *ast.ForStmt:
		cur := in
		if s.Init != nil {
			cur = pe.stmt(cur, s.Init)
		}
		var condEvs []Event
		if s.Cond != nil {
			condEvs = pe.events(s.Cond)
		}
		return pe.loop(cur, condEvs, s.Body, s.Post, s.Cond == nil, s)
	case *ast.RangeStmt:
		xevs := pe.events(s.X)
		var cur []Path
		for _, p := range in {
			cur = append(cur, extend(p, xevs))
		}
		return pe.loop(cur, nil, s.Body, nil, false, s)
	default:
		pe.unsup = append(pe.unsup, "statement kind")
		return in
	}
}

// frame runs the paths through an inlined call (see inline.go): the binding
// statements and the helper's body; a `return` inside ends the frame and binds
// its results to the left-hand side of the replaced statement (or, for
// `return helper(…)`, returns them from the analysed function).
func (pe *pathEnum) frame(in []Path, b *ast.BlockStmt, fr *inlineFrame) []Path {
	curFrames = append(curFrames, fr)
	out := pe.seq(in, b.List)
	curFrames = curFrames[:len(curFrames)-1]
	var res []Path
	for _, q := range out {
		switch {
		case q.End == "return": // any return reaching the end of the frame is the helper's (or of a helper it returns)
			rs, _ := q.EndNode.(*ast.ReturnStmt)
			if fr.IsReturn {
				res = append(res, q) // the caller returns what the helper returns
				continue
			}
			q.End, q.EndNode = "fall", nil
			if rs != nil && len(fr.Lhs) > 0 {
				results := rs.Results
				if len(results) == 0 && len(fr.Results) == len(fr.Lhs) {
					// bare return with named results
					for _, o := range fr.Results {
						id := &ast.Ident{Name: o.Name(), NamePos: rs.Pos()}
						pe.info.Uses[id] = o
						results = append(results, id)
					}
				}
				if len(results) == len(fr.Lhs) || len(results) == 1 {
					synth := &ast.AssignStmt{Lhs: fr.Lhs, Tok: fr.Tok, TokPos: rs.Pos(), Rhs: results}
					if assigned := pe.assigned(synth); len(assigned) > 0 {
						pe.frameBind = true
						pe.applyAssign(&q, synth, assigned)
						pe.frameBind = false
					}
				}
				if len(results) == len(fr.Lhs) {
					nb := map[types.Object]ast.Expr{}
					for k, v := range q.bind {
						nb[k] = v
					}
					for i, l := range fr.Lhs {
						o := objOfIdent(pe.info, l)
						if o == nil {
							continue
						}
						nb[o] = results[i]
						// an error built on the spot is not nil
						if strings.HasPrefix(classifyValue(pe.info, pe.fd, results[i], 0), "err(") {
							if t, ok := pe.xlatP(&q).term(l); ok && t != "nil" {
								q.Conds = append(q.Conds, CondStep{Label: "assign", At: len(q.Events), F: &FLit{eqAtom("nil", t), 2, 1}, Ver: q.ver})
							}
						}
					}
					q.bind = nb
				}
			}
			res = append(res, q)
		case q.End == "fall" && fr.IsReturn:
			// the helper fell off its end: the caller returns (no results)
			q.End, q.EndNode = "return", fr.Orig
			res = append(res, q)
		default:
			res = append(res, q)
		}
	}
	return res
}

// loop models a loop as zero or one iteration; events inside are flagged InLoop.
func (pe *pathEnum) loop(in []Path, condEvs []Event, body *ast.BlockStmt, post ast.Stmt, infinite bool, node ast.Node) []Path {
	var out []Path
	for _, p := range in {
		if p.End != "fall" {
			out = append(out, p)
			continue
		}
		base := extend(p, condEvs)
		if !infinite && !(pe.atLeastOnce != nil && pe.atLeastOnce(node)) {
			z := clonePath(base)
			addCond(&z, CondStep{Label: "loop×0", Taken: true, Node: node})
			out = append(out, z)
		}
		one := clonePath(base)
		addCond(&one, CondStep{Label: "loop×1", Taken: true, Node: node})
		pe.inLoop++
		bodyPaths := pe.seq([]Path{one}, body.List)
		if post != nil {
			var bp2 []Path
			for _, q := range bodyPaths {
				if q.End == "fall" || q.End == "continue" {
					q.End = "fall"
					bp2 = append(bp2, pe.stmt([]Path{q}, post)...)
				} else {
					bp2 = append(bp2, q)
				}
			}
			bodyPaths = bp2
		}
		pe.inLoop--
		for _, q := range bodyPaths {
			switch q.End {
			case "fall", "continue":
				if infinite {
					// the loop can only be left by break/return/panic; a path that
					// completes an iteration re-enters it and is dropped here (its
					// events were seen on the iteration that does leave).
					continue
				}
				q.End = "fall"
			case "break":
				q.End = "fall"
			}
			out = append(out, q)
		}
	}
	return out
}

func (pe *pathEnum) afterBreakable(ps []Path) []Path {
	for i := range ps {
		if ps[i].End == "break" {
			ps[i].End = "fall"
		}
	}
	return ps
}

func (pe *pathEnum) switchClauses(base Path, s *ast.SwitchStmt) []Path {
	var out []Path
	var defaultClause *ast.CaseClause
	neg := clonePath(base) // path on which all previous cases were false
	for _, cc := range s.Body.List {
		cl := cc.(*ast.CaseClause)
		if cl.List == nil {
			defaultClause = cl
			continue
		}
		// a clause with several expressions is taken if any is true
		for i, e := range cl.List {
			q := clonePath(neg)
			for _, prev := range cl.List[:i] {
				q.Events = append(q.Events, pe.events(prev)...)
				addCond(&q, pe.caseCond(s, prev, false))
			}
			q.Events = append(q.Events, pe.events(e)...)
			addCond(&q, pe.caseCond(s, e, true))
			if !pe.infeasible(q) {
				out = append(out, pe.clauseBody(q, cl)...)
			}
		}
		for _, e := range cl.List {
			neg.Events = append(neg.Events, pe.events(e)...)
			addCond(&neg, pe.caseCond(s, e, false))
		}
	}
	if !pe.infeasible(neg) {
		if defaultClause != nil {
			d := clonePath(neg)
			addCond(&d, CondStep{Label: "default", Taken: true})
			out = append(out, pe.clauseBody(d, defaultClause)...)
		} else {
			out = append(out, neg)
		}
	}
	return out
}

func (pe *pathEnum) clauseBody(p Path, cl *ast.CaseClause) []Path {
	for _, st := range cl.Body {
		if b, ok := st.(*ast.BranchStmt); ok && b.Tok == token.FALLTHROUGH {
			pe.unsup = append(pe.unsup, "fallthrough")
		}
	}
	return pe.seq([]Path{p}, cl.Body)
}

func (pe *pathEnum) caseCond(s *ast.SwitchStmt, e ast.Expr, taken bool) CondStep {
	if s.Tag == nil {
		return CondStep{Expr: e, Taken: taken}
	}
	return CondStep{Expr: &ast.BinaryExpr{X: s.Tag, Op: token.EQL, Y: e}, Taken: taken}
}

// infeasible prunes a path whose decisions cannot all hold: the formulas of
// its decisions (over versioned atoms; impure calls are fresh atoms) are
// checked for satisfiability by exhaustive valuation.
func (pe *pathEnum) infeasible(p Path) bool {
	fs := p.Formulas()
	if len(fs) < 2 {
		if len(fs) == 1 {
			if c, ok := fs[0].(FConst); ok && !bool(c) {
				return true
			}
		}
		return false
	}
	// a value has one dynamic type: two type switches (or assertions) over the same subject cannot both take the
	// arm of different types
	isType := map[string]string{}
	for _, f := range fs {
		var lits []*FLit
		var collect func(f Formula)
		collect = func(f Formula) {
			switch x := f.(type) {
			case *FLit:
				lits = append(lits, x)
			case *FAnd:
				collect(x.L)
				collect(x.R)
			}
		}
		collect(f)
		for _, l := range lits {
			if !strings.HasPrefix(l.Atom, "is:") || l.Dom != 2 || l.Mask != 2 {
				continue
			}
			bar := strings.Index(l.Atom, "|")
			if bar < 0 {
				continue
			}
			typ, subj := l.Atom[3:bar], l.Atom[bar+1:]
			if subj == "" {
				continue
			}
			if prev, ok := isType[subj]; ok && prev != typ {
				return true
			}
			isType[subj] = typ
		}
	}
	return !satisfiable(fs)
}

func hasCall(e ast.Expr) bool {
	found := false
	ast.Inspect(e, func(n ast.Node) bool {
		if _, ok := n.(*ast.CallExpr); ok {
			found = true
		}
		return !found
	})
	return found
}

func sameObjects(info *types.Info, a, b ast.Expr) bool {
	var ia, ib []types.Object
	ast.Inspect(a, func(n ast.Node) bool {
		if id, ok := n.(*ast.Ident); ok {
			ia = append(ia, info.ObjectOf(id))
		}
		return true
	})
	ast.Inspect(b, func(n ast.Node) bool {
		if id, ok := n.(*ast.Ident); ok {
			ib = append(ib, info.ObjectOf(id))
		}
		return true
	})
	if len(ia) != len(ib) {
		return false
	}
	for i := range ia {
		if ia[i] != ib[i] {
			return false
		}
	}
	return true
}

// inspectNoFuncLit walks n without descending into function literals.
func inspectNoFuncLit(n ast.Node, f func(ast.Node) bool) {
	ast.Inspect(n, func(m ast.Node) bool {
		if m == nil {
			return false
		}
		if _, ok := m.(*ast.FuncLit); ok && m != n {
			return false
		}
		return f(m)
	})
}

// calleeObj resolves the called function/method object of a call expression.
func calleeObj(info *types.Info, call *ast.CallExpr) types.Object {
	fun := ast.Unparen(call.Fun)
	switch f := fun.(type) {
	case *ast.Ident:
		o := info.Uses[f]
		// a function-typed parameter of a spliced-in helper stands for the function handed to it
		if v, ok := o.(*types.Var); ok {
			if _, isSig := v.Type().Underlying().(*types.Signature); isSig {
				for hops := 0; hops < 3; hops++ {
					arg := funcValueOf(o)
					if arg == nil {
						break
					}
					switch a := ast.Unparen(arg).(type) {
					case *ast.Ident:
						if fn, ok := info.Uses[a].(*types.Func); ok {
							return fn
						}
						if nv, ok := info.Uses[a].(*types.Var); ok {
							o = nv
							continue
						}
					case *ast.SelectorExpr:
						if sel, ok := info.Selections[a]; ok {
							if fn, ok := sel.Obj().(*types.Func); ok {
								return fn
							}
						}
						if fn, ok := info.Uses[a.Sel].(*types.Func); ok {
							return fn
						}
					}
					break
				}
				return info.Uses[f]
			}
		}
		return o
	case *ast.SelectorExpr:
		if sel, ok := info.Selections[f]; ok {
			return sel.Obj()
		}
		return info.Uses[f.Sel]
	case *ast.IndexExpr: // generic instantiation f[T](...)
		if id, ok := f.X.(*ast.Ident); ok {
			return info.Uses[id]
		}
		if se, ok := f.X.(*ast.SelectorExpr); ok {
			return info.Uses[se.Sel]
		}
	case *ast.IndexListExpr:
		if id, ok := f.X.(*ast.Ident); ok {
			return info.Uses[id]
		}
	}
	return nil
}

// callsIn lists the call expressions inside n (not inside nested func literals), in source order.
func callsIn(n ast.Node) []*ast.CallExpr {
	var out []*ast.CallExpr
	inspectNoFuncLit(n, func(m ast.Node) bool {
		if c, ok := m.(*ast.CallExpr); ok {
			out = append(out, c)
		}
		return true
	})
	return out
}

// ---- facts implied by the branch decisions of a path ------------------------

// Facts maps a canonical leaf ("obj:<ptr>" for identifiers, "expr:<string>"
// for other pure leaves) to +1 (true / non-nil) or -1 (false / nil).
type Facts struct {
	obj  map[types.Object]int
	expr map[string]int
	// the decisions of the window as a path, for what they entail beyond the syntactic facts
	win  *Path
	memo map[types.Object]int
}

// Obj: +1 (true / non-nil), -1 (false / nil) or 0 (not known) for a local. First the facts read off the branch
// conditions that test the variable itself; when those say nothing, what the decisions up to the end of the window
// entail about it as formulas (a flag that was defined from the variable, `installed := err == nil && done`, and
// then tested decides the variable too).
func (f *Facts) Obj(o types.Object) int {
	if v := f.obj[o]; v != 0 || f.win == nil || f.win.pe == nil || o == nil {
		return v
	}
	if v, ok := f.memo[o]; ok {
		return v
	}
	v := 0
	if vr, isVar := o.(*types.Var); isVar && !vr.IsField() {
		pe := f.win.pe
		id := &ast.Ident{Name: o.Name()}
		pe.info.Uses[id] = o
		x := pe.xlat(f.win.ver, f.win.defs)
		if isBoolType(o.Type()) {
			fm := x.formula(id)
			switch {
			case f.win.Entails(fm):
				v = +1
			case f.win.Entails(fnot(fm)):
				v = -1
			}
		} else if t, ok := x.term(id); ok && t != "nil" {
			switch o.Type().Underlying().(type) {
			case *types.Pointer, *types.Interface, *types.Map, *types.Slice, *types.Signature, *types.Chan:
				switch {
				case f.win.Entails(&FLit{eqAtom("nil", t), 2, 1}):
					v = +1
				case f.win.Entails(&FLit{eqAtom("nil", t), 2, 2}):
					v = -1
				}
			}
		}
		delete(pe.info.Uses, id)
	}
	f.memo[o] = v
	return v
}

// Expr returns what is known about the truth of a pure boolean leaf, given as
// it would be printed by types.ExprString (e.g. `e.GetId() == 0`).
func (f *Facts) Expr(s string) int { return f.expr[s] }

// factsAfter collects the facts established by the branch decisions taken
// after event index `from` (use -1 for the whole path) and before event index
// `upto` (use len(Events) for "until the end").
func factsAfter(info *types.Info, p Path, from, upto int) *Facts {
	f := &Facts{obj: map[types.Object]int{}, expr: map[string]int{}, memo: map[types.Object]int{}}
	if p.pe != nil && !p.pe.noEntailedFacts {
		w := Path{End: p.End, ver: p.ver, defs: p.defs, bind: p.bind, pe: p.pe}
		for _, cs := range p.Conds {
			if cs.At <= upto {
				w.Conds = append(w.Conds, cs)
				if cs.Ver != nil {
					w.ver = cs.Ver
				}
			}
		}
		if len(w.Conds) == len(p.Conds) {
			w.ver = p.ver
		}
		f.win = &w
	}
	for _, cs := range p.Conds {
		if cs.At <= from || cs.At > upto {
			continue
		}
		if len(cs.Assign) > 0 {
			for _, o := range cs.Assign {
				delete(f.obj, o)
				// drop expression facts mentioning the object by name
				for k := range f.expr {
					if mentions(k, o.Name()) {
						delete(f.expr, k)
					}
				}
			}
			continue
		}
		if cs.Expr != nil {
			addFacts(info, f, cs.Expr, cs.Taken)
		}
	}
	return f
}

func mentions(exprStr, name string) bool {
	for i := 0; i+len(name) <= len(exprStr); i++ {
		if exprStr[i:i+len(name)] == name {
			before := i == 0 || !isIdentChar(exprStr[i-1])
			after := i+len(name) == len(exprStr) || !isIdentChar(exprStr[i+len(name)])
			if before && after {
				return true
			}
		}
	}
	return false
}

func isIdentChar(b byte) bool {
	return b == '_' || (b >= '0' && b <= '9') || (b >= 'a' && b <= 'z') || (b >= 'A' && b <= 'Z')
}

func addFacts(info *types.Info, f *Facts, e ast.Expr, taken bool) {
	e = ast.Unparen(e)
	switch x := e.(type) {
	case *ast.BinaryExpr:
		switch x.Op {
		case token.LOR:
			if !taken {
				addFacts(info, f, x.X, false)
				addFacts(info, f, x.Y, false)
			}
			return
		case token.LAND:
			if taken {
				addFacts(info, f, x.X, true)
				addFacts(info, f, x.Y, true)
			}
			return
		case token.EQL, token.NEQ:
			pos := taken
			if x.Op == token.NEQ {
				pos = !pos
			}
			// pos: "X == Y" holds
			var other ast.Expr
			var side ast.Expr
			if isNilIdent(info, x.Y) {
				side, other = x.X, x.Y
			} else if isNilIdent(info, x.X) {
				side, other = x.Y, x.X
			}
			if other != nil {
				if lhsObject(info, side) != nil {
					if o := lhsObject(info, side); o != nil {
						if pos {
							f.obj[o] = -1
						} else {
							f.obj[o] = +1
						}
					}
				}
			}
			// boolean constants: x == true / x == false
			if lhsObject(info, x.X) != nil {
				if b, isB := boolConst(info, x.Y); isB {
					if o := lhsObject(info, x.X); o != nil {
						v := +1
						if b != pos {
							v = -1
						}
						f.obj[o] = v
					}
				}
			}
			// canonical expression fact, stored in == form
			eq := &ast.BinaryExpr{X: x.X, Op: token.EQL, Y: x.Y}
			v := -1
			if pos {
				v = +1
			}
			f.expr[types.ExprString(eq)] = v
			return
		}
	case *ast.UnaryExpr:
		if x.Op == token.NOT {
			addFacts(info, f, x.X, !taken)
			return
		}
	case *ast.Ident:
		if o := info.ObjectOf(x); o != nil {
			if taken {
				f.obj[o] = +1
			} else {
				f.obj[o] = -1
			}
		}
		return
	case *ast.SelectorExpr:
		if o := pseudoFieldObj(info, x); o != nil {
			if taken {
				f.obj[o] = +1
			} else {
				f.obj[o] = -1
			}
		}
	}
	v := -1
	if taken {
		v = +1
	}
	f.expr[types.ExprString(e)] = v
}

func boolConst(info *types.Info, e ast.Expr) (bool, bool) {
	tv, ok := info.Types[e]
	if !ok || tv.Value == nil {
		return false, false
	}
	if b, ok := tv.Type.Underlying().(*types.Basic); ok && b.Info()&types.IsBoolean != 0 {
		return tv.Value.String() == "true", true
	}
	return false, false
}

// linkFieldStores (opt-in, tableSpec.LinkFields): `x.f = e` for a boolean field records x.f ⇔ e on the path, so that a
// later read of x.f on the same path (e.g. in a helper spliced in below) is decided by what was stored. Fields are
// not versioned, so this is done only when it is exact: the path has not read the field before the store (an earlier
// read saw the old value) — then nothing is recorded — and a second store on one path makes the enumeration
// incomplete (reported as undecided) rather than wrong.
func (pe *pathEnum) linkFieldStores(q *Path, as *ast.AssignStmt) {
	if len(as.Lhs) != len(as.Rhs) {
		return
	}
	for i, l := range as.Lhs {
		se, ok := ast.Unparen(l).(*ast.SelectorExpr)
		if !ok {
			continue
		}
		tv, ok := pe.info.Types[se]
		if !ok || tv.Type == nil || !isBoolType(tv.Type) {
			continue
		}
		x := pe.xlatP(q)
		lit, ok := x.formula(se).(*FLit)
		if !ok {
			continue
		}
		rhs := x.formula(as.Rhs[i])
		label := "fieldstore:" + lit.Atom
		read, stored := false, false
		for _, cs := range q.Conds {
			if cs.Label == label {
				stored = true
			}
			if cs.F != nil && formulaMentions(cs.F, lit.Atom) {
				read = true
			}
		}
		if stored {
			pe.unsup = append(pe.unsup, "boolean field stored twice on one path")
			continue
		}
		if read {
			continue
		}
		// lhs ⇔ rhs
		f := fnot(fand(fnot(fand(lit, rhs)), fnot(fand(fnot(lit), fnot(rhs)))))
		q.Conds = append(q.Conds, CondStep{Label: label, At: len(q.Events), F: f, Ver: q.ver})
	}
}

func formulaMentions(f Formula, atom string) bool {
	switch x := f.(type) {
	case *FLit:
		return x.Atom == atom
	case *FAnd:
		return formulaMentions(x.L, atom) || formulaMentions(x.R, atom)
	case *FOr:
		return formulaMentions(x.L, atom) || formulaMentions(x.R, atom)
	case *FNot:
		return formulaMentions(x.X, atom)
	}
	return false
}

// bindClosures: `f = func() { … }` (no parameters, no results) — f holds that closure on the rest of the path, and is
// not nil.
func (pe *pathEnum) bindClosures(q *Path, as *ast.AssignStmt) {
	for i, l := range as.Lhs {
		id, ok := ast.Unparen(l).(*ast.Ident)
		if !ok {
			continue
		}
		o := pe.info.ObjectOf(id)
		if o == nil {
			continue
		}
		fl, isLit := ast.Unparen(as.Rhs[i]).(*ast.FuncLit)
		nb := map[types.Object]ast.Expr{}
		for k, v := range q.bind {
			nb[k] = v
		}
		if !isLit {
			if _, had := nb[o]; had {
				if _, wasLit := nb[o].(*ast.FuncLit); wasLit {
					delete(nb, o) // reassigned to something else
					q.bind = nb
				}
			}
			continue
		}
		if fl.Type.Params != nil && len(fl.Type.Params.List) > 0 {
			continue
		}
		if fl.Type.Results != nil && len(fl.Type.Results.List) > 0 {
			continue
		}
		nb[o] = fl
		q.bind = nb
		if t, ok := pe.xlatP(q).term(id); ok && t != "nil" {
			q.Conds = append(q.Conds, CondStep{Label: "assign", At: len(q.Events), F: &FLit{eqAtom("nil", t), 2, 1}, Ver: q.ver})
		}
	}
}

// closureCalled: s is `f()` for a local f that holds a closure on this path.
func (pe *pathEnum) closureCalled(q *Path, s *ast.ExprStmt) *ast.FuncLit {
	call, ok := ast.Unparen(s.X).(*ast.CallExpr)
	if !ok || len(call.Args) != 0 {
		return nil
	}
	id, ok := ast.Unparen(call.Fun).(*ast.Ident)
	if !ok {
		return nil
	}
	o := pe.info.ObjectOf(id)
	if o == nil {
		return nil
	}
	if fl, ok := q.bind[o].(*ast.FuncLit); ok {
		return fl
	}
	// a function-typed parameter of the helper being enumerated, bound to a parameterless closure
	if arg := funcValueOf(o); arg != nil {
		if fl, ok := ast.Unparen(arg).(*ast.FuncLit); ok {
			if (fl.Type.Params == nil || len(fl.Type.Params.List) == 0) && (fl.Type.Results == nil || len(fl.Type.Results.List) == 0) {
				return fl
			}
		}
	}
	return nil
}
