package main

func init() {
}
