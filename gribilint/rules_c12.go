package main

// C12 — malformed operations are rejected in-band, have no effect and cannot crash the server.

import (
	"fmt"
	"go/ast"
	"go/token"
	"go/types"
	"sort"
	"strings"
)

func init() { propRules["C12"] = rulesC12 }

func rulesC12(c *Ctx) {
	c.Decided = append(c.Decided,
		"R12.1 nil-entry guards dominate the first use of the entry in all ten AddXXX/DeleteXXX; zero indices, empty groups and unknown instances are fatal in canResolve/canDelete (tables shared with C02/C03); checkCandidate rejects unsupported and multi-entry candidates",
		"R12.2 schema validation (candidateRIB with nil error, which itself passes Validate on every success path) dominates every install",
		"R12.3 every type switch over the AFT operation/entry oneof in package rib and server covers the five kinds or rejects by default; modifyEntry answers an unsupported operation type FAILED in-band; doModify answers empty/unknown network instances in-band without touching the RIB; doGet rejects nil requests, empty names and unknown AFT types before emitting",
		"R12.4 the reflective proto→schema conversion of client data runs under a deferred recover on every call chain from the RPC roots (the dependency dereferences a nil enum descriptor for undefined enum numbers)")
	c.NotDec = append(c.NotDec, "the space of all protobuf messages: only named partial functions of the conversion are covered", "absence of panics in third-party reflection code in general")
	ribFamily(c, famSel{nilGuard: true, validate: true})
	ruleCandidateValidates(c)
	ruleCheckCandidateTable(c)
	ruleCanResolve(c)
	ruleCanDeleteTable(c)
	ruleOneofSwitches(c, []string{"rib", "server"})
	ruleModifyEntryTable(c)
	ruleDoModifyNI(c)
	ruleDoGetGuards(c)
	ruleRecoverOnConversion(c)
	ruleExactInstanceLookup(c)
	ruleNarrowingKeys(c)                              // an out-of-range label is rejected, not truncated onto an installed key (shared with C01)
	ruleServerFlushTable(c)                           // Flush rejects unknown / empty instance names before touching the RIB (shared with C08)
	ruleStopSignal(c)                                 // a malformed Get cannot hang the RPC: the handler never waits for the producer before telling it to stop (shared with C10)
	ruleRetryAfterInstall(c)                          // an invalid operation is answered FAILED, never held: a hold needs an attempt that returned (not installed, no error) (shared with C02)
	ruleShadowedVerdict(c, []string{"server", "rib"}) // the verdict a function goes on to test is the one its attempts assigned
}

// The RPC handlers reject unknown and empty network-instance names by looking
// the name up (Flush has no other test). The lookup must therefore be exact:
// the holder returned is niRIB[<the name given>], the name is never rewritten
// (an empty name must not silently become the default instance).
func ruleExactInstanceLookup(c *Ctx) {
	const rule = "NI-LOOKUP-EXACT"
	fi := c.need("rib", "RIB", "NetworkInstanceRIB")
	if fi == nil {
		return
	}
	info := fi.Pkg.TypesInfo
	ps := paramObjs(info, fi.Decl)
	if len(ps) != 1 || ps[0] == nil {
		c.vanished(rule, fi.Name, "name parameter", "NetworkInstanceRIB does not take exactly one name")
		return
	}
	name := ps[0]
	c.Sites++
	bad := ""
	lookups := 0
	ast.Inspect(fi.Decl.Body, func(n ast.Node) bool {
		switch x := n.(type) {
		case *ast.AssignStmt:
			for _, l := range x.Lhs {
				if objOfIdent(info, l) == name {
					bad = "the requested name is rewritten before the lookup (" + types.ExprString(x.Lhs[0]) + " = " + types.ExprString(x.Rhs[0]) + "): a name the caller must reject (e.g. the empty name) is answered with another instance"
				}
			}
		case *ast.IndexExpr:
			if _, p := selectorPath(info, x.X); len(p) > 0 && p[len(p)-1] == "niRIB" {
				lookups++
				if objOfIdent(info, x.Index) != name {
					bad = "the holder map is indexed by " + types.ExprString(x.Index) + ", not by the name given"
				}
			}
		case *ast.UnaryExpr:
			if x.Op == token.AND && objOfIdent(info, x.X) == name {
				bad = "the address of the name parameter escapes"
			}
		}
		return true
	})
	// and the result is that lookup: (holder, found) of the same index expression
	okRet := false
	ast.Inspect(fi.Decl.Body, func(n ast.Node) bool {
		rs, ok := n.(*ast.ReturnStmt)
		if !ok {
			return true
		}
		okRet = true
		switch len(rs.Results) {
		case 1:
			if _, isIdx := ast.Unparen(rs.Results[0]).(*ast.IndexExpr); !isIdx {
				okRet = false
			}
		case 2:
			for _, r := range rs.Results {
				if v, ok := objOfIdent(info, r).(*types.Var); ok {
					if as := commaOkLookupOf(info, fi.Decl, v); as == nil {
						okRet = false
					}
				} else {
					okRet = false
				}
			}
		default:
			okRet = false
		}
		return true
	})
	if bad == "" && !okRet {
		bad = "the function does not return the (holder, found) pair of the map lookup"
	}
	c.check(bad == "" && lookups == 1, rule, fi.Name, "returns niRIB[name] for exactly the name given", c.P.pos(fi.Decl.Pos()), "one lookup, name never reassigned", bad)
}

// commaOkLookupOf: v is declared by `x, ok := m[k]` (returns that statement).
func commaOkLookupOf(info *types.Info, fd *ast.FuncDecl, v *types.Var) *ast.AssignStmt {
	var out *ast.AssignStmt
	n := 0
	ast.Inspect(fd.Body, func(m ast.Node) bool {
		as, ok := m.(*ast.AssignStmt)
		if !ok {
			return true
		}
		for _, l := range as.Lhs {
			if objOfIdent(info, l) == v {
				n++
				if len(as.Lhs) == 2 && len(as.Rhs) == 1 {
					if _, isIdx := ast.Unparen(as.Rhs[0]).(*ast.IndexExpr); isIdx {
						out = as
					}
				}
			}
		}
		return true
	})
	if n == 1 {
		return out
	}
	return nil
}

// R12.2b: candidateRIB validates on every success path
func ruleCandidateValidates(c *Ctx) {
	const rule = "VALIDATE-BEFORE-MUTATE"
	fi := c.need("rib", "", "candidateRIB")
	if fi == nil {
		return
	}
	info := fi.Pkg.TypesInfo
	ev := func(n ast.Node) []Event {
		var out []Event
		for _, call := range callsIn(n) {
			if f, ok := calleeObj(info, call).(*types.Func); ok {
				d := &addEvData{call: call}
				if as := assignedFromCall(info, n, call); len(as) >= 1 {
					d.err = as[len(as)-1]
				}
				switch {
				case f.Name() == "Validate" && f.Pkg() != nil && f.Pkg().Path() == aftPath:
					out = append(out, Event{Kind: "validate", Node: call, Data: d})
				case f.Name() == "SetNode":
					out = append(out, Event{Kind: "setnode", Node: call, Data: d})
				case f.Name() == "PathsFromProto":
					out = append(out, Event{Kind: "paths", Node: call, Data: d})
				}
			}
		}
		return out
	}
	paths, pe := enumFunc(fi, ev, nil)
	c.Sites += len(paths)
	if pe.overflow || len(pe.unsup) > 0 {
		c.undecided(rule, fi.Name, "body", c.P.pos(fi.Decl.Pos()), "path enumeration incomplete")
		return
	}
	bad := ""
	succ := 0
	for _, p := range paths {
		rs, ok := p.EndNode.(*ast.ReturnStmt)
		if !ok || len(rs.Results) != 2 || !isNilIdent(info, rs.Results[1]) {
			continue
		}
		succ++
		for _, kind := range []string{"paths", "validate"} {
			i := lastIdx(p, kind)
			if i < 0 {
				bad = "a success return of candidateRIB is reachable without " + kind + ": " + p.describe(c.P)
				continue
			}
			d := p.Events[i].Data.(*addEvData)
			if d.err == nil || factsAfter(info, p, i, len(p.Events)).Obj(d.err) != -1 {
				bad = "candidateRIB returns success although the error of " + kind + " is not known to be nil: " + p.describe(c.P)
			}
		}
		// every SetNode error is checked
		for i, e := range p.Events {
			if e.Kind == "setnode" {
				d := e.Data.(*addEvData)
				if d.err == nil || factsAfter(info, p, i, len(p.Events)).Obj(d.err) != -1 {
					bad = "candidateRIB continues after a failed SetNode: " + p.describe(c.P)
				}
			}
		}
	}
	if succ == 0 {
		c.vanished(rule, fi.Name, "success paths", "no success return found")
		return
	}
	c.check(bad == "", rule, fi.Name, "schema validation on every success path", c.P.pos(fi.Decl.Pos()), fmt.Sprintf("%d success paths: PathsFromProto, SetNode and Validate errors all nil", succ), bad)
}

func ruleCheckCandidateTable(c *Ctx) {
	fi := c.need("rib", "", "checkCandidate")
	if fi == nil {
		return
	}
	caft := paramName(fi, 0)
	aMac, _ := orderAtom("const:0", "len("+caft+".MacEntry)")
	aPbr, _ := orderAtom("const:0", "len("+caft+".PolicyForwardingEntry)")
	// the sum-of-lengths expression is opaque to the translator (arithmetic): it appears as order atoms over an unknown term
	runTable(c, tableSpec{
		Rule: "TABLE-CHECK-CANDIDATE", Fn: fi, Construct: "unsupported tables are rejected",
		Atoms: map[string]int{aMac: 3, aPbr: 3},
		Expected: func(v *Valuation) (string, bool) {
			if v.Ord(aMac) != 0 || v.Ord(aPbr) != 0 {
				return "ret(err(plain))", true
			}
			return "", false
		},
	})
	// the entry count test: exactly the five supported tables are summed, 0 and >1 are errors
	info := fi.Pkg.TypesInfo
	ks := c.kindsOK()
	if ks == nil {
		return
	}
	sums := 0
	okSum := true
	inspectNoFuncLit(fi.Decl.Body, func(n ast.Node) bool {
		be, ok := n.(*ast.BinaryExpr)
		if !ok {
			return true
		}
		if v, isC := constInt(info, be.Y); !isC || (v != 0 && v != 1) {
			return true
		}
		tabs := map[string]bool{}
		ast.Inspect(resolveLocal(info, fi.Decl, be.X), func(m ast.Node) bool {
			if call, ok := m.(*ast.CallExpr); ok {
				if id, ok := call.Fun.(*ast.Ident); ok && id.Name == "len" && len(call.Args) == 1 {
					if t := tableOfExpr(info, call.Args[0]); t != "" {
						tabs[t] = true
					}
				}
			}
			return true
		})
		if len(tabs) < 2 {
			return true
		}
		sums++
		for _, k := range ks {
			if !tabs[k.Table] {
				okSum = false
			}
		}
		if len(tabs) != 5 {
			okSum = false
		}
		return true
	})
	c.check(sums >= 2 && okSum, "CHECK-CANDIDATE", fi.Name, "entry count over exactly the five supported tables", c.P.pos(fi.Decl.Pos()), "both the ==0 and the >1 test sum the five tables", fmt.Sprintf("the single-entry test of checkCandidate does not sum exactly the five supported tables (%d tests found)", sums))
}

// ruleOneofSwitches: every type switch over the AFT oneof interfaces covers all five kinds or rejects by default.
func ruleOneofSwitches(c *Ctx, rels []string) {
	const rule = "KIND-EXHAUSTIVE"
	ks := c.kindsOK()
	if ks == nil {
		return
	}
	n := 0
	// a type switch of a function new to the rules whose clauses have no effect (returns, local assignments, ifs and
	// getter calls only) selects a value; it accepts nothing, so covering some kinds only is not "silently accepting"
	// the others. (Its nodes are also reached through the frames it is spliced into.)
	projection := map[*ast.TypeSwitchStmt]bool{}
	for _, rel := range rels {
		pk := c.P.pkg(rel)
		if pk == nil {
			continue
		}
		for _, fi := range c.P.AllFuncs(rel) {
			if fi.Decl.Body == nil || !isNewFunc(fi.Obj) {
				continue
			}
			ast.Inspect(fi.Decl.Body, func(m ast.Node) bool {
				if ts, ok := m.(*ast.TypeSwitchStmt); ok && effectFree(pk.TypesInfo, ts.Body) {
					projection[ts] = true
				}
				return true
			})
		}
	}
	for _, rel := range rels {
		pk := c.P.pkg(rel)
		if pk == nil {
			continue
		}
		info := pk.TypesInfo
		for _, fi := range c.P.AllFuncs(rel) {
			if fi.Decl.Body == nil {
				continue
			}
			ord := 0
			ast.Inspect(fi.Decl.Body, func(m ast.Node) bool {
				ts, ok := m.(*ast.TypeSwitchStmt)
				if !ok || projection[ts] {
					return true
				}
				covered := map[string]bool{}
				which := ""
				var def *ast.CaseClause
				for _, cc := range ts.Body.List {
					cl := cc.(*ast.CaseClause)
					if cl.List == nil {
						def = cl
						continue
					}
					for _, e := range cl.List {
						if tv, ok := info.Types[e]; ok {
							for _, k := range ks {
								if isNamed(tv.Type, spbPath, k.OpOneof) {
									covered[k.Table], which = true, "AFTOperation.Entry"
								}
								if isNamed(tv.Type, spbPath, k.EntryOneof) {
									covered[k.Table], which = true, "AFTEntry.Entry"
								}
							}
						}
					}
				}
				if which == "" {
					return true
				}
				n++
				ord++
				c.Sites++
				c.Analysed[fi.Name] = true
				var missing []string
				for _, k := range ks {
					if !covered[k.Table] {
						missing = append(missing, k.Table)
					}
				}
				sort.Strings(missing)
				rejecting := def != nil && clauseRejects(info, def)
				construct := fmt.Sprintf("type switch over %s #%d", which, ord)
				c.check(len(missing) == 0 || rejecting, rule, fi.Name, construct, c.P.pos(ts.Pos()),
					fmt.Sprintf("covers %d kinds, rejecting default: %v", len(covered), rejecting),
					fmt.Sprintf("kinds %v are neither handled nor rejected: such an entry is silently accepted without being looked at", missing))
				return true
			})
		}
	}
	c.floor(rule, "type switches over the AFT oneofs in "+strings.Join(rels, ","), n, 1)
}

// clauseRejects: the default clause returns a non-nil error or calls a Fatal function.
func clauseRejects(info *types.Info, cl *ast.CaseClause) bool {
	rej := false
	for _, st := range cl.Body {
		ast.Inspect(st, func(n ast.Node) bool {
			switch x := n.(type) {
			case *ast.ReturnStmt:
				if len(x.Results) > 0 && !isNilIdent(info, x.Results[len(x.Results)-1]) {
					if tv, ok := info.Types[x.Results[len(x.Results)-1]]; ok && types.Implements(tv.Type, errorIface()) {
						rej = true
					}
				}
			case *ast.CallExpr:
				if se, ok := ast.Unparen(x.Fun).(*ast.SelectorExpr); ok && strings.HasPrefix(se.Sel.Name, "Fatal") {
					rej = true
				}
			}
			return true
		})
	}
	return rej
}

func errorIface() *types.Interface {
	return types.Universe.Lookup("error").Type().Underlying().(*types.Interface)
}

// doModify: a malformed network instance never reaches the RIB
func ruleDoModifyNI(c *Ctx) {
	const rule = "NI-REJECTED-IN-BAND"
	fi := c.need("server", "Server", "doModify")
	if fi == nil {
		return
	}
	info := fi.Pkg.TypesInfo
	var loop *ast.RangeStmt
	inspectNoFuncLit(fi.Decl.Body, func(n ast.Node) bool {
		if rs, ok := n.(*ast.RangeStmt); ok {
			if tv, ok := info.Types[rs.X]; ok {
				if sl, ok := tv.Type.Underlying().(*types.Slice); ok && isNamed(sl.Elem(), spbPath, "AFTOperation") {
					loop = rs
				}
			}
		}
		return true
	})
	if loop == nil {
		c.vanished(rule, fi.Name, "loop@ops", "no loop over the operations")
		return
	}
	ev := func(n ast.Node) []Event {
		var out []Event
		for _, call := range callsIn(n) {
			obj := calleeObj(info, call)
			switch {
			case isFunc(obj, modPath+"/server", "modifyEntry"):
				out = append(out, Event{Kind: "modifyEntry", Node: call})
			case isMethod(obj, ribPkg, "RIB", "NetworkInstanceRIB"):
				d := &addEvData{call: call}
				if as := assignedFromCall(info, n, call); len(as) == 2 {
					d.ok = as[1]
				}
				out = append(out, Event{Kind: "lookupNI", Node: call, Data: d})
			}
		}
		return out
	}
	pe := &pathEnum{info: info, ev: ev, cap: pathCap, fd: fi.Decl}
	paths, _ := pe.run(loop.Body.List)
	c.Sites += len(paths)
	bad := ""
	n := 0
	for _, p := range paths {
		mi := idx(p, "modifyEntry")
		if mi < 0 {
			continue
		}
		n++
		li := lastIdxBefore(p, "lookupNI", mi)
		if li < 0 {
			bad = "an operation reaches modifyEntry without its network instance having been looked up"
			continue
		}
		d := p.Events[li].Data.(*addEvData)
		if d.ok == nil || factsAfter(info, p, li, mi).Obj(d.ok) != +1 {
			bad = "an operation reaches modifyEntry although its network instance was not found: " + p.describe(c.P)
		}
		// the empty name must have been excluded
		call := p.Events[li].Node.(*ast.CallExpr)
		xt := pe.xlat(nil, nil)
		xt.pathMode = false
		niTerm, _ := xt.term(call.Args[0])
		if !p.Entails(fnot(eqF("const:\"\"", niTerm))) {
			bad = "an operation with an empty network instance name can reach modifyEntry: " + p.describe(c.P)
		}
	}
	if n == 0 {
		c.vanished(rule, fi.Name, "modifyEntry paths", "no path through the loop body reaches modifyEntry")
		return
	}
	c.check(bad == "", rule, fi.Name, "only operations with a non-empty, known network instance reach modifyEntry", c.P.pos(loop.Pos()), fmt.Sprintf("%d paths", n), bad)
}

// doGet guards
func ruleDoGetGuards(c *Ctx) {
	const rule = "GET-REQUEST-GUARDS"
	fi := c.need("server", "Server", "doGet")
	if fi == nil {
		return
	}
	info := fi.Pkg.TypesInfo
	req := paramObjs(info, fi.Decl)[0]
	ev := func(n ast.Node) []Event {
		var out []Event
		inspectNoFuncLit(n, func(m ast.Node) bool {
			switch x := m.(type) {
			case *ast.CallExpr:
				if isMethod(calleeObj(info, x), ribPkg, "RIBHolder", "GetRIB") {
					out = append(out, Event{Kind: "emit", Node: x})
				}
			case *ast.SelectorExpr:
				if objOfIdent(info, x.X) == req && info.Defs[x.Sel] == nil {
					out = append(out, Event{Kind: "use-req", Node: x})
				}
			}
			return true
		})
		return out
	}
	paths, pe := enumFunc(fi, ev, nil)
	c.Sites += len(paths)
	if pe.overflow {
		c.undecided(rule, fi.Name, "body", c.P.pos(fi.Decl.Pos()), "path enumeration incomplete")
		return
	}
	bad := ""
	emits := 0
	for _, p := range paths {
		if i := idx(p, "use-req"); i >= 0 {
			if factsAfter(info, p, -1, i).Obj(req) != +1 {
				bad = "the request is dereferenced on a path that has not established it is non-nil: " + p.describe(c.P)
			}
		}
		if idx(p, "emit") >= 0 {
			emits++
		}
	}
	// an empty instance name never leads to emission
	for _, p := range paths {
		if idx(p, "emit") < 0 {
			continue
		}
		for _, cs := range p.Conds {
			if cs.Expr != nil && cs.Taken {
				if be, ok := ast.Unparen(cs.Expr).(*ast.BinaryExpr); ok && types.ExprString(be.Y) == `""` && be.Op.String() == "==" {
					bad = "a request naming the empty network instance reaches emission: " + p.describe(c.P)
				}
			}
		}
	}
	if emits == 0 {
		c.vanished(rule, fi.Name, "emission paths", "no path reaches GetRIB")
		return
	}
	c.check(bad == "", rule, fi.Name, "nil request and empty instance name are rejected before any emission", c.P.pos(fi.Decl.Pos()), fmt.Sprintf("%d emitting paths", emits), bad)
	// the AFT filter accepts exactly ALL + the five kinds
	ks := c.kindsOK()
	if ks == nil {
		return
	}
	var accepted []string
	hasRejectingDefault := false
	inspectNoFuncLit(fi.Decl.Body, func(n ast.Node) bool {
		sw, ok := n.(*ast.SwitchStmt)
		if !ok {
			return true
		}
		isAft := false
		for _, cc := range sw.Body.List {
			cl := cc.(*ast.CaseClause)
			for _, e := range cl.List {
				if cn := constName(info, e); strings.HasPrefix(cn, "AFTType_") {
					isAft = true
					accepted = append(accepted, cn)
				}
			}
		}
		if isAft {
			for _, cc := range sw.Body.List {
				cl := cc.(*ast.CaseClause)
				if cl.List == nil {
					for _, st := range cl.Body {
						if _, isSend := st.(*ast.SendStmt); isSend {
							hasRejectingDefault = true
						}
					}
				}
			}
		}
		return true
	})
	sort.Strings(accepted)
	want := []string{"AFTType_ALL"}
	for _, k := range ks {
		want = append(want, k.AFTType)
	}
	sort.Strings(want)
	c.check(strings.Join(accepted, ",") == strings.Join(want, ",") && hasRejectingDefault, rule, fi.Name, "accepted AFT types = ALL + the five kinds, anything else is an error", c.P.pos(fi.Decl.Pos()),
		strings.Join(accepted, ","), fmt.Sprintf("doGet accepts %v (want %v), rejecting default: %v", accepted, want, hasRejectingDefault))
}

// R12.4
func ruleRecoverOnConversion(c *Ctx) {
	const rule = "PANIC-CONTAINMENT"
	cg := c.P.callGraph()
	// the partial conversion functions of the dependency
	targets := map[*types.Func]bool{}
	var tnames []string
	for callee := range cg.callers {
		if callee.Pkg() != nil && callee.Pkg().Path() == "github.com/openconfig/ygot/protomap" && callee.Name() == "PathsFromProto" {
			targets[callee] = true
			tnames = append(tnames, callee.FullName())
		}
	}
	if len(targets) == 0 {
		c.vanished(rule, "repo", "protomap.PathsFromProto", "no call to the reflective proto→paths conversion found")
		return
	}
	// functions that contain a deferred recover
	recovers := map[*types.Func]bool{}
	for _, pk := range c.P.All {
		if isGeneratedPkg(pk.PkgPath) {
			continue
		}
		for _, f := range pk.Syntax {
			for _, d := range f.Decls {
				fd, ok := d.(*ast.FuncDecl)
				if !ok || fd.Body == nil {
					continue
				}
				has := false
				for _, st := range fd.Body.List {
					ds, ok := st.(*ast.DeferStmt)
					if !ok {
						continue
					}
					// recover() stops a panic only when the deferred function itself calls it: directly in the
					// deferred closure's body, or directly in the body of the deferred named function — not one
					// call level further down
					switch fn := ast.Unparen(ds.Call.Fun).(type) {
					case *ast.FuncLit:
						if callsRecoverDirectly(pk.TypesInfo, fn.Body) {
							has = true
						}
					default:
						if callee, ok := calleeObj(pk.TypesInfo, ds.Call).(*types.Func); ok {
							if cd := c.P.declOf[callee]; cd != nil && cd.Body != nil {
								if cpk := c.P.Pkgs[callee.Pkg().Path()]; cpk != nil && callsRecoverDirectly(cpk.TypesInfo, cd.Body) {
									has = true
								}
							}
						}
					}
				}
				if has {
					if o, ok := pk.TypesInfo.Defs[fd.Name].(*types.Func); ok {
						recovers[o] = true
					}
				}
			}
		}
	}
	for _, root := range [][3]string{{"server", "Server", "Modify"}, {"server", "Server", "Flush"}, {"server", "Server", "Get"}} {
		fi := c.need(root[0], root[1], root[2])
		if fi == nil {
			continue
		}
		c.Sites++
		path := cg.reaches(fi.Obj, targets, recovers)
		var names []string
		for _, f := range path {
			names = append(names, displayNameAny(f))
		}
		// is the conversion reachable at all from this root?
		any := cg.reaches(fi.Obj, targets, nil)
		switch {
		case any == nil:
			c.ok(rule, fi.Name, "conversion of client data", c.P.pos(fi.Decl.Pos()), "the reflective conversion is not reachable from this RPC")
		case path == nil:
			c.ok(rule, fi.Name, "conversion of client data", c.P.pos(fi.Decl.Pos()), fmt.Sprintf("every call chain to %s passes a function with a deferred recover", strings.Join(tnames, ",")))
		default:
			c.fail(rule, fi.Name, "conversion of client data", c.P.pos(fi.Decl.Pos()), "client-supplied protobufs reach the reflective conversion with no deferred recover on the chain "+strings.Join(names, " → ")+": an undefined enum number panics the whole server")
		}
	}
}

func displayNameAny(f *types.Func) string {
	if isRepoPkg(f.Pkg()) {
		return displayName(f)
	}
	return f.FullName()
}

// callsRecoverDirectly: body contains a call of the builtin recover that is not inside a nested function literal nor
// inside the spliced-in body of a helper (an inline frame stands for a call).
func callsRecoverDirectly(info *types.Info, body *ast.BlockStmt) bool {
	found := false
	ast.Inspect(body, func(n ast.Node) bool {
		switch x := n.(type) {
		case *ast.FuncLit:
			return false
		case *ast.BlockStmt:
			if inlineFrames[x] != nil {
				return false
			}
		case *ast.CallExpr:
			if id, ok := x.Fun.(*ast.Ident); ok && id.Name == "recover" {
				if _, isB := info.Uses[id].(*types.Builtin); isB {
					found = true
				}
			}
		}
		return true
	})
	return found
}

// effectFree: the statements contain only returns, definitions of / assignments to plain locals, if statements and
// calls of Get* methods (generated getters) or conversions — nothing that changes state or talks to anyone.
func effectFree(info *types.Info, n ast.Node) bool {
	ok := true
	ast.Inspect(n, func(m ast.Node) bool {
		switch x := m.(type) {
		case *ast.CallExpr:
			if tv, isT := info.Types[x.Fun]; isT && tv.IsType() {
				return true
			}
			if f, isF := calleeObj(info, x).(*types.Func); isF && strings.HasPrefix(f.Name(), "Get") && f.Type().(*types.Signature).Recv() != nil {
				return true
			}
			ok = false
		case *ast.AssignStmt:
			for _, l := range x.Lhs {
				if _, isID := ast.Unparen(l).(*ast.Ident); !isID {
					ok = false
				}
			}
		case *ast.SendStmt, *ast.GoStmt, *ast.DeferStmt, *ast.IncDecStmt, *ast.FuncLit, *ast.ForStmt, *ast.RangeStmt:
			ok = false
		}
		return ok
	})
	return ok
}
