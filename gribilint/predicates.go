package main

// Predicates written as functions.
//
// A condition is often given a name: `if ids.behind() {…}`, `case stale(op, cur):`, with
//
//	func (e electionIDs) behind() bool { return e.op.Cmp(e.session) < 0 || e.op.Cmp(e.current) < 0 }
//
// For the path engine the call is opaque. When the function is new to the rules, is a single `return <expr>` of
// type bool, and is called in a condition (if / for / tagless switch case, under !, &&, || and parentheses) with
// side-effect-free arguments (identifiers, field selections, constants), the call is replaced in the loaded syntax
// tree by a copy of <expr> with the parameters (and the receiver) replaced by the arguments. Evaluation order and
// laziness are those of the original: the expression is evaluated where the call was.

import (
	"go/ast"
	"go/token"
	"go/types"
	"reflect"
)

func expandPredicates(p *Prog, info *types.Info, fd *ast.FuncDecl) int {
	n := 0
	var expand func(e ast.Expr, depth int) ast.Expr
	simple := func(e ast.Expr) bool {
		for {
			switch x := ast.Unparen(e).(type) {
			case *ast.Ident, *ast.BasicLit:
				return true
			case *ast.SelectorExpr:
				e = x.X
			case *ast.StarExpr:
				e = x.X
			default:
				return false
			}
		}
	}
	inlineCall := func(call *ast.CallExpr, depth int) ast.Expr {
		f, ok := calleeObj(info, call).(*types.Func)
		if !ok || !isNewFunc(f) || depth > 3 {
			return nil
		}
		decl := p.declOf[f]
		if decl == nil || decl.Body == nil || len(decl.Body.List) != 1 || decl == fd {
			return nil
		}
		if pk := p.Pkgs[f.Pkg().Path()]; pk == nil || pk.TypesInfo != info {
			return nil
		}
		rs, ok := decl.Body.List[0].(*ast.ReturnStmt)
		if !ok || len(rs.Results) != 1 {
			return nil
		}
		sig := f.Type().(*types.Signature)
		if sig.Variadic() || sig.TypeParams() != nil || sig.RecvTypeParams() != nil || sig.Results().Len() != 1 || !isBoolType(sig.Results().At(0).Type()) || sig.Params().Len() != len(call.Args) {
			return nil
		}
		bind := map[types.Object]ast.Expr{}
		if decl.Recv != nil {
			se, ok := ast.Unparen(call.Fun).(*ast.SelectorExpr)
			if !ok || !simple(se.X) {
				return nil
			}
			if len(decl.Recv.List) == 1 && len(decl.Recv.List[0].Names) == 1 {
				bind[info.Defs[decl.Recv.List[0].Names[0]]] = se.X
			}
		}
		i := 0
		for _, fld := range decl.Type.Params.List {
			if len(fld.Names) == 0 {
				i++
				continue
			}
			for _, nm := range fld.Names {
				if i >= len(call.Args) || !simple(call.Args[i]) {
					return nil
				}
				bind[info.Defs[nm]] = call.Args[i]
				i++
			}
		}
		for _, a := range call.Args {
			if !simple(a) {
				return nil
			}
		}
		okBody := true
		ast.Inspect(rs.Results[0], func(m ast.Node) bool {
			switch m.(type) {
			case *ast.FuncLit, *ast.CompositeLit:
				okBody = false
			}
			return okBody
		})
		if !okBody {
			return nil
		}
		nodes := map[ast.Node]ast.Node{}
		ne := cloneValue(reflect.ValueOf(rs.Results[0]), nodes).Interface().(ast.Expr)
		for old, nw := range nodes {
			if o, ok := old.(*ast.Ident); ok {
				if u, ok := info.Uses[o]; ok {
					info.Uses[nw.(*ast.Ident)] = u
				}
			}
			if oe, ok := old.(ast.Expr); ok {
				if tv, ok := info.Types[oe]; ok {
					info.Types[nw.(ast.Expr)] = tv
				}
			}
			if os, ok := old.(*ast.SelectorExpr); ok {
				if sel, ok := info.Selections[os]; ok {
					info.Selections[nw.(*ast.SelectorExpr)] = sel
				}
			}
		}
		// parameters → arguments
		good := true
		var subst func(e *ast.Expr)
		subst = func(e *ast.Expr) {
			switch x := (*e).(type) {
			case nil:
			case *ast.Ident:
				if a, ok := bind[info.Uses[x]]; ok && info.Uses[x] != nil {
					*e = a
				}
			case *ast.ParenExpr:
				subst(&x.X)
			case *ast.SelectorExpr:
				subst(&x.X)
			case *ast.StarExpr:
				subst(&x.X)
			case *ast.UnaryExpr:
				if x.Op == token.AND {
					good = false
				}
				subst(&x.X)
			case *ast.BinaryExpr:
				subst(&x.X)
				subst(&x.Y)
			case *ast.CallExpr:
				subst(&x.Fun)
				for i := range x.Args {
					subst(&x.Args[i])
				}
			case *ast.IndexExpr:
				subst(&x.X)
				subst(&x.Index)
			case *ast.TypeAssertExpr:
				subst(&x.X)
			case *ast.BasicLit:
			default:
				good = false
			}
		}
		subst(&ne)
		if !good {
			return nil
		}
		ne = expand(ne, depth+1)
		par := &ast.ParenExpr{Lparen: call.Pos(), X: ne, Rparen: call.End()}
		if tv, ok := info.Types[call]; ok {
			info.Types[par] = tv
		}
		n++
		return par
	}
	expand = func(e ast.Expr, depth int) ast.Expr {
		switch x := e.(type) {
		case *ast.ParenExpr:
			x.X = expand(x.X, depth)
		case *ast.UnaryExpr:
			if x.Op == token.NOT {
				x.X = expand(x.X, depth)
			}
		case *ast.BinaryExpr:
			if x.Op == token.LAND || x.Op == token.LOR {
				x.X = expand(x.X, depth)
				x.Y = expand(x.Y, depth)
			}
		case *ast.CallExpr:
			if r := inlineCall(x, depth); r != nil {
				return r
			}
		}
		return e
	}
	ast.Inspect(fd.Body, func(m ast.Node) bool {
		switch x := m.(type) {
		case *ast.IfStmt:
			x.Cond = expand(x.Cond, 0)
		case *ast.ForStmt:
			if x.Cond != nil {
				x.Cond = expand(x.Cond, 0)
			}
		case *ast.SwitchStmt:
			if x.Tag == nil {
				for _, cc := range x.Body.List {
					cl := cc.(*ast.CaseClause)
					for i := range cl.List {
						cl.List[i] = expand(cl.List[i], 0)
					}
				}
			}
		}
		return true
	})
	return n
}
