#!/usr/bin/env python3
"""Generates selftest/variants.json: the catalogue of mutants (each breaks one rule instance while still type-checking)
and neutral rewrites (behaviour-preserving) used by the thorough tier to test the checker both ways."""
import json
V=[]
def M(id,prop,file,old,new,expect,occ=0,note=""):
    V.append(dict(id=id,property=prop,file=file,old=old,new=new,occ=occ,expect=expect,neutral=False,note=note))
def N(id,prop,file,old,new,occ=0,note=""):
    V.append(dict(id=id,property=prop,file=file,old=old,new=new,occ=occ,expect="",neutral=True,note=note))

R="rib/rib.go"; S="server/server.go"; C="client/gribiclient.go"; K="chk/chk.go"; F="fluent/fluent.go"; D="rib/reconciler/reconcile.go"

# ---------------- C01
M("c01-no-delete-before-merge","C01",R,"\tdelete(r.r.GetAfts().Ipv6Entry, pfx)\n","","REPLACE-TOTAL")
M("c01-label-range-check-off","C01",R,"\tif e.GetLabelUint64() > math.MaxUint32 {","\tif false && e.GetLabelUint64() > math.MaxUint32 {","KEY-NARROWING")
M("c01-explicit-replace-unchecked","C01",R,"\tif explicitReplace && !r.ipv6Exists(e.GetPrefix()) {","\tif false && !r.ipv6Exists(e.GetPrefix()) {","EXPLICIT-REPLACE")
M("c01-replace-flag-from-add","C01",R,"\tif op.GetOp() == spb.AFTOperation_REPLACE {\n\t\texplicitReplace = true\n\t}","\tif op.GetOp() == spb.AFTOperation_ADD {\n\t\texplicitReplace = true\n\t}","EXPLICIT-REPLACE")
M("c01-delete-wrong-table","C01",R,"\tr.doDeleteIPv6(e.GetPrefix())","\tr.doDeleteIPv4(e.GetPrefix())","DELETE-KEY")
M("c01-delete-helper-wrong-map","C01",R,"\tdelete(r.r.Afts.NextHopGroup, idx)","\tdelete(r.r.Afts.NextHop, idx)","DELETE-KEY")
M("c01-delete-not-idempotent","C01",R,"\tde := r.retrieveNH(e.GetIndex())","\tde := r.retrieveNH(e.GetIndex())\n\tif de == nil {\n\t\treturn false, nil, nil\n\t}","DELETE-IDEMPOTENT")
M("c01-fib-before-rib","C01",S,"\t\t\tStatus: spb.AFTResult_RIB_PROGRAMMED,","\t\t\tStatus: spb.AFTResult_FIB_PROGRAMMED,","RESULT-MAPPING")
N("c01-n-rename-key-param","C01",R,"func (r *RIBHolder) doAddIPv6(pfx string, newRIB *aft.RIB) (bool, error) {\n\tr.mu.Lock()\n\tdefer r.mu.Unlock()\n\n\tif nhg, nh := len(newRIB.Afts.NextHopGroup), len(newRIB.Afts.NextHop); nhg != 0 || nh != 0 {\n\t\treturn false, fmt.Errorf(\"candidate RIB specifies entries other than NextHopGroups, got: %d nhg, %d nh\", nhg, nh)\n\t}\n\n\t_, implicit := r.r.GetAfts().Ipv6Entry[pfx]\n\n\tdelete(r.r.GetAfts().Ipv6Entry, pfx)","func (r *RIBHolder) doAddIPv6(prefix string, newRIB *aft.RIB) (bool, error) {\n\tr.mu.Lock()\n\tdefer r.mu.Unlock()\n\n\t_, implicit := r.r.GetAfts().Ipv6Entry[prefix]\n\n\tif nhg, nh := len(newRIB.Afts.NextHopGroup), len(newRIB.Afts.NextHop); nhg != 0 || nh != 0 {\n\t\treturn false, fmt.Errorf(\"candidate RIB specifies entries other than NextHopGroups, got: %d nhg, %d nh\", nhg, nh)\n\t}\n\n\tdelete(r.r.GetAfts().Ipv6Entry, prefix)",note="rename the key parameter and reorder two independent statements")
N("c01-n-switch-to-if","C01",R,"\t\tswitch {\n\t\tcase err != nil:\n\t\t\t// the check told us this was fatal for this entry -> we should return.\n\t\t\treturn false, nil, err\n\t\tcase !ok:\n\t\t\t// otherwise, we just didn't do this operation.\n\t\t\treturn false, nil, nil\n\t\t}\n\t}\n\n\tr.doDeleteIPv4(e.GetPrefix())","\t\tif err != nil {\n\t\t\treturn false, nil, err\n\t\t}\n\t\tif !ok {\n\t\t\treturn false, nil, nil\n\t\t}\n\t}\n\n\tr.doDeleteIPv4(e.GetPrefix())",note="tagless switch → if chain")

# ---------------- C02
M("c02-member-lookup-wrong-key","C02",R,"\t\t\tif _, ok := niRIB.GetNextHop(n.GetIndex()); !ok {","\t\t\tif _, ok := niRIB.GetNextHop(n.GetIndex() + g.GetId()); !ok {","CAN-RESOLVE")
M("c02-missing-member-accepted","C02",R,"\t\t\t\t// this is not an error - it's just that we can't resolve this seemingly\n\t\t\t\t// valid looking NHG at this point.\n\t\t\t\treturn false, nil","\t\t\t\tcontinue","CAN-RESOLVE")
M("c02-v6-ignores-group-ni","C02",R,"\t\treturn nhgResolvable(niRIB, i.GetNextHopGroupNetworkInstance(), i.GetNextHopGroup())\n\t}\n\n\tfor _, i := range caft.LabelEntry {","\t\treturn nhgResolvable(niRIB, \"\", i.GetNextHopGroup())\n\t}\n\n\tfor _, i := range caft.LabelEntry {","CAN-RESOLVE")
M("c02-new-ni-without-check","C02",R,"\tif r.ribCheck {\n\t\trhOpt = append(rhOpt, RIBHolderCheckFn(r.checkFn))\n\t}\n\tif r.disableForwardReferences {","\tif r.disableForwardReferences {","CHECK-WIRING")
M("c02-installed-not-unheld","C02",R,"\t\tr.rmPending(op.GetId())\n\n\t\t*oks","\t\t*oks","RETRY-AFTER-INSTALL")
M("c02-gate-dropped-nh","C02",R,"\t\tif !ok {\n\t\t\t// Entry is not valid for installation right now.\n\t\t\treturn false, nil, nil\n\t\t}\n\t}\n\n\tif _, err := r.doAddNH(","\t\t_ = ok\n\t}\n\n\tif _, err := r.doAddNH(","RESOLVE-GATE")
M("c02-checkfn-dispatch-swapped","C02",R,"\tcase constants.Add:\n\t\t// Replace has exactly the same validation as Add, we always just get called\n\t\t// with Add (since Add can be an implicit replace anyway).\n\t\treturn r.canResolve(ni, candidate)","\tcase constants.Add, constants.Replace:\n\t\treturn r.canDelete(ni, candidate)","TABLE-CHECKFN")
M("c02-retry-only-same-ni","C02",R,"\t\tfor _, e := range r.getPending() {\n\t\t\terr := r.addEntryInternal(e.ni, e.op, oks, fails, installStack)","\t\tfor _, e := range r.getPending() {\n\t\t\terr := r.addEntryInternal(ni, e.op, oks, fails, installStack)","RETRY-AFTER-INSTALL")
N("c02-n-own-ni-explicit","C02",R,"\t\tif otherNI != \"\" {\n\t\t\tresolveRIB, ok = r.NetworkInstanceRIB(otherNI)","\t\tif otherNI != \"\" && otherNI != netInst {\n\t\t\tresolveRIB, ok = r.NetworkInstanceRIB(otherNI)",note="naming one's own instance explicitly resolves in the same holder")

# ---------------- C03
M("c03-delete-v6-no-release","C03",R,"\t\t\treferencingRIB.decNHGRefCount(originalv6.GetNextHopGroup())","\t\t\t_ = referencingRIB","DELETE-REFS")
M("c03-replace-decs-new","C03",R,"\t\t\t\trr.decNHGRefCount(origNHG)","\t\t\t\trr.decNHGRefCount(newNHG)","TABLE-REFERENCES")
M("c03-same-ignores-ni","C03",R,"\t\tcase newNHGNI == origNHGNI && newNHG == origNHG:","\t\tcase newNHG == origNHG:","TABLE-REFERENCES")
M("c03-flush-nhg-keeps-members","C03",R,"\tfor idx := range de.NextHop {\n\t\tr.decNHRefCount(idx)\n\t}\n","","FLUSH-REFS")
M("c03-candelete-ignores-refs","C03",R,"\t\treturn !niRIB.nhgReferenced(id), nil","\t\treturn true, nil","CAN-DELETE")
M("c03-referenced-off-by-one","C03",R,"\treturn r.refCounts.NextHop[i] > 0","\treturn r.refCounts.NextHop[i] > 1","COUNTER-PRIMITIVES")
M("c03-inc-in-wrong-ni","C03",R,"\t\treferencingRIB, err := r.refdRIB(niRIB, newNHGNI)","\t\treferencingRIB, err := r.refdRIB(niRIB, \"\")","TABLE-REFERENCES")
M("c03-nhg-members-not-released-on-delete","C03",R,"\t\t\tfor id := range originalNHG.NextHop {\n\t\t\t\tniR.decNHRefCount(id)\n\t\t\t}","\t\t\t_ = originalNHG","DELETE-REFS")
M("c03-delete-gate-wrong-op","C03",R,"\t\tok, err := r.checkFn(constants.Delete, rr)\n\t\tswitch {\n\t\tcase err != nil:\n\t\t\t// the check told us this was fatal for this entry -> we should return.\n\t\t\treturn false, nil, err\n\t\tcase !ok:\n\t\t\t// otherwise, we just didn't do this operation.\n\t\t\treturn false, nil, nil\n\t\t}\n\t}\n\n\tr.doDeleteNHG(e.GetId())","\t\tok, err := r.checkFn(constants.Add, rr)\n\t\tswitch {\n\t\tcase err != nil:\n\t\t\treturn false, nil, err\n\t\tcase !ok:\n\t\t\treturn false, nil, nil\n\t\t}\n\t}\n\n\tr.doDeleteNHG(e.GetId())","DELETE-GATE")
N("c03-n-switch-to-ifelse","C03",R,"\t\tswitch {\n\t\tcase newNHGNI == origNHGNI && newNHG == origNHG:\n\t\t\t// We are referencing the same entries, so this is a NOOP.\n\t\t\tincRefCounts = false\n\t\tcase newNHGNI != origNHGNI || newNHG != origNHG:","\t\tswitch {\n\t\tcase newNHG == origNHG && newNHGNI == origNHGNI:\n\t\t\tincRefCounts = false\n\t\tcase newNHG != origNHG || newNHGNI != origNHGNI:",note="commute the conjuncts/disjuncts")

# ---------------- C04
M("c04-non-master-accepted","C04",S,"\tcase election.client != election.master:","\tcase false:","TABLE-ELECTION-GATE")
M("c04-stale-op-id-accepted","C04",S,"\tif thisID.Cmp(currentClientID) != 0 {","\tif thisID.Cmp(currentClientID) > 0 {","TABLE-ELECTION-GATE")
M("c04-lower-than-current-accepted","C04",S,"\tcase thisID.Cmp(currentID) < 0:","\tcase thisID.Cmp(currentID) < 0 && false:","TABLE-ELECTION-GATE")
M("c04-uint128-swapped","C04",S,"\tthisID := uint128.New(opElecID.Low, opElecID.High)","\tthisID := uint128.New(opElecID.High, opElecID.Low)","UINT128-ARG-ORDER")
M("c04-snapshot-wrong-latest","C04",S,"\telec.clientLatest = cs.lastElecID","\telec.clientLatest = elec.ID","ELECTION-SNAPSHOT")
M("c04-invalid-op-reaches-rib","C04",S,"\t\toks, faileds, ribFatalErr = r.DeleteEntry(ni, op)\n\tdefault:","\t\toks, faileds, ribFatalErr = r.DeleteEntry(ni, op)\n\tcase spb.AFTOperation_INVALID:\n\t\toks, faileds, ribFatalErr = r.AddEntry(ni, op)\n\tdefault:","TABLE-MODIFY-ENTRY")
N("c04-n-equals-instead-of-cmp","C04",S,"\tif thisID.Cmp(currentClientID) != 0 {","\tif !thisID.Equals(currentClientID) {",note="Cmp()!=0 → !Equals()")

# ---------------- C05
M("c05-low-without-high","C05",S,"\tif cand.High == exist.High && cand.Low > exist.Low {","\tif cand.Low > exist.Low {","TABLE-128BIT-ORDER")
M("c05-election-under-rlock","C05",S,"\ts.elecMu.Lock()\n\tdefer s.elecMu.Unlock()\n\tnm, _, err := isNewMaster(elecID, s.curElecID)","\ts.elecMu.RLock()\n\tdefer s.elecMu.RUnlock()\n\tnm, _, err := isNewMaster(elecID, s.curElecID)","GUARDED-BY")
M("c05-reply-with-announced","C05",S,"\treturn &spb.ModifyResponse{\n\t\tElectionId: s.curElecID,\n\t}, nil","\treturn &spb.ModifyResponse{\n\t\tElectionId: elecID,\n\t}, nil","TABLE-ELECTION")
M("c05-zero-accepted","C05",S,"\tif inputID, zero := uint128.New(elecID.Low, elecID.High), uint128.New(0, 0); zero.Cmp(inputID) == 0 {\n\t\treturn nil, status.Newf(codes.InvalidArgument, \"client ID %s, zero is an invalid election ID\", id).Err()\n\t}\n","","TABLE-ELECTION")
M("c05-master-not-updated","C05",S,"\t\ts.curElecID = elecID\n\t\ts.curMaster = id","\t\ts.curElecID = elecID","TABLE-ELECTION")
N("c05-n-switch-form","C05",S,"\tif cand.High > exist.High {\n\t\treturn true, false, nil\n\t}\n\tif cand.High == exist.High && cand.Low > exist.Low {\n\t\treturn true, false, nil\n\t}","\tswitch {\n\tcase cand.High > exist.High:\n\t\treturn true, false, nil\n\tcase cand.High == exist.High && cand.Low > exist.Low:\n\t\treturn true, false, nil\n\t}",note="if chain → switch")

# ---------------- C06
M("c06-empty-ni-two-replies","C06",S,"\t\t\t\t}},\n\t\t\t}\n\t\t\tcontinue\n\t\t}\n\t\tif _, ok := s.masterRIB.NetworkInstanceRIB(ni); !ok {","\t\t\t\t}},\n\t\t\t}\n\t\t}\n\t\tif _, ok := s.masterRIB.NetworkInstanceRIB(ni); !ok {","EXACTLY-ONE-REPLY")
M("c06-failed-stays-held","C06",R,"\t\tr.rmPending(op.GetId())\n\t\t*fails = append(*fails, &OpResult{","\t\t*fails = append(*fails, &OpResult{","ONE-VERDICT")
M("c06-fib-unconditional","C06",S,"\t\tif fibACK {\n\t\t\tresults = append(results, &spb.AFTResult{\n\t\t\t\tId:     ok.ID,\n\t\t\t\tStatus: spb.AFTResult_FIB_PROGRAMMED,\n\t\t\t})\n\t\t}","\t\tresults = append(results, &spb.AFTResult{\n\t\t\tId:     ok.ID,\n\t\t\tStatus: spb.AFTResult_FIB_PROGRAMMED,\n\t\t})","RESULT-MAPPING")
M("c06-fail-answered-with-op-id","C06",S,"\t\t\tId:     fail.ID,","\t\t\tId:     op.Id,","RESULT-MAPPING")
M("c06-err-and-result","C06",S,"\t\t\terrCh <- err\n\t\t\treturn false\n\t\tdefault:\n\t\t\tresCh <- res\n\t\t}","\t\t\terrCh <- err\n\t\t\tresCh <- res\n\t\t\treturn false\n\t\tdefault:\n\t\t\tresCh <- res\n\t\t}","EXACTLY-ONE-REPLY")
N("c06-n-rename-loop-var","C06",S,"\tfor _, o := range ops {\n\t\tni := o.GetNetworkInstance()","\tfor _, o := range ops {\n\t\tni := o.NetworkInstance",note="getter → field access")

# ---------------- C07
M("c07-v6-under-v4-filter","C07",R,"\tif filter[spb.AFTType_IPV6] {\n\t\tfor pfx, e := range r.r.Afts.Ipv6Entry {","\tif filter[spb.AFTType_IPV4] {\n\t\tfor pfx, e := range r.r.Afts.Ipv6Entry {","GET-BLOCKS")
M("c07-all-misses-mpls","C07",R,"\t\t\tspb.AFTType_MPLS:          true,\n","","GET-BLOCKS")
M("c07-wrong-schema-prefix","C07",R,"\t\t\tName: \"next-hop-groups\",\n\t\t}, {\n\t\t\tName: \"next-hop-group\",","\t\t\tName: \"next-hops\",\n\t\t}, {\n\t\t\tName: \"next-hop-group\",","SCHEMA-PATH")
M("c07-all-means-default-only","C07",S,"\t\tnetInstances = s.masterRIB.KnownNetworkInstances()\n\t}\n\n\tfilter","\t\tnetInstances = []string{DefaultNetworkInstanceName}\n\t}\n\n\tfilter","GET-SCOPE")
M("c07-rebuild-drops-mpls","C07","rib/helpers.go","\t\t\t\tniAFTs[ni].LabelEntry = append(niAFTs[ni].LabelEntry, t.Mpls)","\t\t\t\tniAFTs[ni].LabelEntry = append(niAFTs[ni].LabelEntry)","REBUILD-FROM-GET")
M("c07-extra-aft-accepted","C07",S,"spb.AFTType_MPLS, spb.AFTType_IPV6:","spb.AFTType_MPLS, spb.AFTType_IPV6, spb.AFTType_POLICY_FORWARDING:","GET-REQUEST-GUARDS")
M("c07-entry-untagged","C07",R,"\t\t\t\t\t\tNetworkInstance: r.name,\n\t\t\t\t\t\tEntry: &spb.AFTEntry_Mpls{","\t\t\t\t\t\tEntry: &spb.AFTEntry_Mpls{","GET-BLOCKS")

# ---------------- C08
M("c08-equal-id-not-primary","C08",S,"\tif candidate.Cmp(existing) < 0 {","\tif candidate.Cmp(existing) <= 0 {","TABLE-FLUSH-REQUEST")
M("c08-missing-id-accepted","C08",S,"\tcase req.GetOverride() != nil:","\tcase req.GetOverride() != nil || req.GetId() == nil:","TABLE-FLUSH-REQUEST")
M("c08-wrong-reason","C08",S,"\t\t\tStatus: spb.FlushResponseError_ELECTION_ID_IN_ALL_PRIMARY,","\t\t\tStatus: spb.FlushResponseError_NOT_PRIMARY,","TABLE-FLUSH-REQUEST")
M("c08-named-flushes-all","C08",S,"\t\tnis = []string{t.Name}","\t\tnis = s.masterRIB.KnownNetworkInstances()","TABLE-FLUSH-RPC")
M("c08-backup-not-checked","C08",R,"\t\t\tif _, ok := niR.r.Afts.NextHopGroup[id]; !ok {\n\t\t\t\tcontinue\n\t\t\t}\n","","FLUSH-KEYS-PRESENT")
M("c08-nh-not-flushed","C08",R,"\t\tfor n := range niR.r.Afts.NextHop {\n\t\t\tif err := niR.locklessDeleteNH(n); err != nil {\n\t\t\t\terrs = append(errs, err)\n\t\t\t}\n\t\t}\n","","FLUSH-REFS")
M("c08-unlocked-election-read","C08",S,"\tcurElecID := s.getElection().ID","\tcurElecID := s.curElecID","GUARDED-BY")
N("c08-n-if-chain","C08",S,"\tswitch {\n\tcase id == nil && curElecID == nil:\n\t\t// We are in ALL_PRIMARY mode and not given an election ID, which is fine.\n\t\treturn nil\n\tcase id == nil && curElecID != nil:","\tif id == nil && curElecID == nil {\n\t\treturn nil\n\t}\n\tswitch {\n\tcase id == nil && curElecID != nil:",note="first case hoisted into an if")

# ---------------- C09
M("c09-two-fields-accepted","C09",S,"(in.Params != nil && in.Operation != nil), (in.ElectionId != nil && in.Operation != nil):","(in.Params != nil && in.Operation != nil):","TABLE-DISPATCH")
M("c09-first-message-flag","C09",S,"\t\t\tgotmsg = true","\t\t\tgotmsg = gotmsg || in.Params == nil","TABLE-DISPATCH")
M("c09-election-error-not-fatal","C09",S,"\t\t\t\tif err != nil {\n\t\t\t\t\terrCh <- err\n\t\t\t\t\treturn\n\t\t\t\t}\n\t\t\tcase in.Operation != nil:","\t\t\t\tif err != nil {\n\t\t\t\t\terrCh <- err\n\t\t\t\t}\n\t\t\tcase in.Operation != nil:","TABLE-DISPATCH")
M("c09-delete-persistence-accepted","C09",S,"\tif p.Persistence != spb.SessionParameters_PRESERVE {","\tif p.Persistence != spb.SessionParameters_PRESERVE && false {","TABLE-CHECK-PARAMS")
M("c09-own-session-compared","C09",S,"\t\tif id == cid {\n\t\t\tcontinue\n\t\t}\n","","PARAMS-CONSISTENT")
M("c09-equal-skips-fiback","C09",S,"cp.Persist == n.Persist && cp.FIBAck == n.FIBAck && cp.ExpectElecID == n.ExpectElecID","cp.Persist == n.Persist && cp.ExpectElecID == n.ExpectElecID","PARAMS-FIELDS")
M("c09-session-leaks","C09",S,"\t// when this client goes away, we need to clean up its state.\n\ts.deleteClient(cid)","","SESSION-FOOTPRINT")
M("c09-persist-not-required","C09",S,"\tcase cs.params == nil || !cs.params.ExpectElecID || !cs.params.Persist:","\tcase cs.params == nil || !cs.params.ExpectElecID:","TABLE-MODIFY-PRECONDITION")
M("c09-params-settable-twice","C09",S,"\ts.cs[id].setParams = true\n","","TABLE-UPDATE-PARAMS")
N("c09-n-swap-independent-checks","C09",S,"\tif p.Redundancy != spb.SessionParameters_SINGLE_PRIMARY {\n\t\treturn nil, addModifyErrDetailsOrReturn(status.Newf(codes.Unimplemented, \"redundancy modes other than SINGLE_PRIMARY are not supported\"), &spb.ModifyRPCErrorDetails{\n\t\t\tReason: spb.ModifyRPCErrorDetails_UNSUPPORTED_PARAMS,\n\t\t})\n\t}\n","\tif spb.SessionParameters_SINGLE_PRIMARY != p.Redundancy {\n\t\treturn nil, addModifyErrDetailsOrReturn(status.Newf(codes.Unimplemented, \"redundancy modes other than SINGLE_PRIMARY are not supported\"), &spb.ModifyRPCErrorDetails{\n\t\t\tReason: spb.ModifyRPCErrorDetails_UNSUPPORTED_PARAMS,\n\t\t})\n\t}\n",note="comparison operands swapped")

# ---------------- C10
M("c10-stop-nonblocking-send","C10",S,"\tdefer close(stopCh)","\tdefer func() {\n\t\tselect {\n\t\tcase stopCh <- struct{}{}:\n\t\tdefault:\n\t\t}\n\t}()","STOP-SIGNAL")
M("c10-bare-send-under-lock","C10",R,"\t\t\t\tif !send(&spb.GetResponse{\n\t\t\t\t\tEntry: []*spb.AFTEntry{{\n\t\t\t\t\t\tNetworkInstance: r.name,\n\t\t\t\t\t\tEntry: &spb.AFTEntry_Ipv6{\n\t\t\t\t\t\t\tIpv6: p,\n\t\t\t\t\t\t},\n\t\t\t\t\t}},\n\t\t\t\t}) {\n\t\t\t\t\treturn nil\n\t\t\t\t}","\t\t\t\tmsgCh <- &spb.GetResponse{\n\t\t\t\t\tEntry: []*spb.AFTEntry{{\n\t\t\t\t\t\tNetworkInstance: r.name,\n\t\t\t\t\t\tEntry: &spb.AFTEntry_Ipv6{\n\t\t\t\t\t\t\tIpv6: p,\n\t\t\t\t\t\t},\n\t\t\t\t\t}},\n\t\t\t\t}","BLOCK-UNDER-LOCK")
M("c10-teardown-flushes","C10",S,"\tdelete(s.cs, id)\n}","\tdelete(s.cs, id)\n\tif len(s.cs) == 0 {\n\t\ts.masterRIB.Flush(s.masterRIB.KnownNetworkInstances())\n\t}\n}","TEARDOWN-MUST-NOT-REACH")
M("c10-unlock-missing","C10",S,"func (s *Server) deleteClient(id string) {\n\ts.csMu.Lock()\n\tdefer s.csMu.Unlock()","func (s *Server) deleteClient(id string) {\n\ts.csMu.Lock()","LOCK-PAIRING")
N("c10-n-rename-channels","C10",S,"\tstopCh := make(chan struct{})","\tstopCh := make(chan struct{}, 0)",note="explicit zero capacity")

# ---------------- C11
M("c11-setparams-under-rlock","C11",S,"func (s *Server) setClientParams(id string, p *clientParams) error {\n\ts.csMu.Lock()\n\tdefer s.csMu.Unlock()","func (s *Server) setClientParams(id string, p *clientParams) error {\n\ts.csMu.RLock()\n\tdefer s.csMu.RUnlock()","GUARDED-BY")
M("c11-pending-unlocked","C11",R,"\tr.pendMu.RLock()\n\tdefer r.pendMu.RUnlock()\n\tp := []*pendingEntry{}","\tp := []*pendingEntry{}","GUARDED-BY")
M("c11-delete-helper-unlocked","C11",R,"func (r *RIBHolder) doDeleteNH(id uint64) {\n\tr.mu.Lock()\n\tdefer r.mu.Unlock()","func (r *RIBHolder) doDeleteNH(id uint64) {","GUARDED-BY")
M("c11-nirib-unlocked","C11",R,"\tr.nrMu.RLock()\n\tdefer r.nrMu.RUnlock()\n\trh, ok := r.niRIB[s]\n\treturn rh, ok","\trh, ok := r.niRIB[s]\n\treturn rh, ok","GUARDED-BY")
M("c11-refcount-read-unlocked","C11",R,"\tr.refCounts.mu.RLock()\n\tdefer r.refCounts.mu.RUnlock()\n\treturn r.refCounts.NextHopGroup[i] > 0","\treturn r.refCounts.NextHopGroup[i] > 0","GUARDED-BY")
M("c11-add-under-rlock","C11",R,"func (r *RIBHolder) doAddNHG(ID uint64, newRIB *aft.RIB) (bool, error) {\n\tr.mu.Lock()\n\tdefer r.mu.Unlock()","func (r *RIBHolder) doAddNHG(ID uint64, newRIB *aft.RIB) (bool, error) {\n\tr.mu.RLock()\n\tdefer r.mu.RUnlock()","GUARDED-BY")
M("c11-lock-order-cycle","C11",R,"func (r *RIB) KnownNetworkInstances() []string {\n\tr.nrMu.RLock()\n\tdefer r.nrMu.RUnlock()","func (r *RIB) KnownNetworkInstances() []string {\n\tr.nrMu.Lock()\n\tdefer r.nrMu.Unlock()","LOCK-ORDER",note="an exclusive acquirer of nrMu reachable from the RPCs closes the nrMu/RIBHolder.mu cycle")
N("c11-n-explicit-unlock","C11",S,"\ts.elecMu.RLock()\n\tdefer s.elecMu.RUnlock()\n\treturn &electionDetails{\n\t\tmaster: s.curMaster,\n\t\tID:     s.curElecID,\n\t}","\ts.elecMu.RLock()\n\td := &electionDetails{\n\t\tmaster: s.curMaster,\n\t\tID:     s.curElecID,\n\t}\n\ts.elecMu.RUnlock()\n\treturn d",note="deferred unlock → explicit unlock before return")

# ---------------- C12
M("c12-no-recover","C12",R,"\tdefer func() {\n\t\tif p := recover(); p != nil {\n\t\t\tnr, err = nil, fmt.Errorf(\"invalid entry provided, cannot be converted, %v\", p)\n\t\t}\n\t}()\n","","PANIC-CONTAINMENT")
M("c12-nil-guard-dropped","C12",R,"\tif e == nil {\n\t\treturn false, nil, errors.New(\"nil IPv6 Entry provided\")\n\t}\n","","NIL-GUARD")
M("c12-validate-error-ignored","C12",R,"\t}); err != nil {\n\t\treturn nil, fmt.Errorf(\"invalid entry provided, %v\", err)\n\t}","\t}); err != nil {\n\t\tlog.Errorf(\"invalid entry provided, %v\", err)\n\t}","VALIDATE-BEFORE-MUTATE")
M("c12-zero-nhg-id-accepted","C12",R,"\t\tif g.GetId() == 0 {\n\t\t\treturn false, fmt.Errorf(\"invalid zero-index NHG\")\n\t\t}\n","","CAN-RESOLVE")
M("c12-unknown-ni-reaches-rib","C12",S,"\t\t\t\t\t},\n\t\t\t\t}},\n\t\t\t}\n\t\t\tcontinue\n\t\t}\n\n\t\t// We do not try","\t\t\t\t\t},\n\t\t\t\t}},\n\t\t\t}\n\t\t}\n\n\t\t// We do not try","NI-REJECTED-IN-BAND")
M("c12-nil-get-request","C12",S,"\tif req == nil {\n\t\terrCh <- status.Errorf(codes.InvalidArgument, \"invalid nil GetRequest received\")\n\t\treturn\n\t}\n","","GET-REQUEST-GUARDS")
# (removed: dropping DeleteEntry's default arm is an equivalent mutant — all five kinds are covered and a nil entry is rejected earlier)
N("c12-n-rename-candidate","C12",R,"\tnr, err := candidateRIB(&aftpb.Afts{\n\t\tNextHop: []*aftpb.Afts_NextHopKey{e},\n\t})\n\tif err != nil {\n\t\treturn false, nil, fmt.Errorf(\"invalid NextHop, %v\", err)\n\t}","\tnr, cerr := candidateRIB(&aftpb.Afts{\n\t\tNextHop: []*aftpb.Afts_NextHopKey{e},\n\t})\n\tif cerr != nil {\n\t\treturn false, nil, fmt.Errorf(\"invalid NextHop, %v\", cerr)\n\t}",note="rename the error variable")

# ---------------- C13
M("c13-rib-ack-completes-in-fib-mode","C13",C,"\t\tcase c.state.SessParams.GetAckType() != spb.SessionParameters_RIB_AND_FIB_ACK:\n\t\t\t// RIB ACK dequeues when we are not expecting FIB ACK.\n\t\t\tdelete(c.qs.pendq.Ops, op.Id)","\t\tcase true:\n\t\t\tdelete(c.qs.pendq.Ops, op.Id)","TABLE-CLEAR-PENDING")
M("c13-failed-not-dequeued","C13",C,"\tcase spb.AFTResult_FAILED:\n\t\tdelete(c.qs.pendq.Ops, op.Id)\n\t}","\t}","TABLE-CLEAR-PENDING")
M("c13-v6-key-in-v4-field","C13",C,"\t\tdet.IPv6Prefix = opEntry.Ipv6.GetPrefix()","\t\tdet.IPv4Prefix = opEntry.Ipv6.GetPrefix()","RESULT-DETAILS")
M("c13-converged-or","C13",C,"\treturn len(c.qs.sendq) == 0 && c.qs.pendq.Len() == 0","\treturn len(c.qs.sendq) == 0 || c.qs.pendq.Len() == 0","CONVERGENCE")
M("c13-election-not-pending","C13",C,"\tif p.Election != nil {\n\t\ti++\n\t}\n","","CONVERGENCE")
M("c13-errors-need-both","C13",C,"len(sendE) != 0 || len(recvE) != 0 {","len(sendE) != 0 && len(recvE) != 0 {","TABLE-AWAIT")
M("c13-ack-under-rlock","C13",C,"\tc.qs.resultMu.Lock()\n\tdefer c.qs.resultMu.Unlock()\n\tnrq := []*OpResult{}","\tc.qs.resultMu.RLock()\n\tdefer c.qs.resultMu.RUnlock()\n\tnrq := []*OpResult{}","GUARDED-BY")
M("c13-unknown-id-tolerated","C13",C,"\t\treturn nil, fmt.Errorf(\"could not dequeue operation %d, unknown operation\", op.Id)\n\t}\n\n\t// We know","\t\treturn &OpResult{OperationID: op.GetId()}, nil\n\t}\n\n\t// We know","TABLE-CLEAR-PENDING")
N("c13-n-commute-conjuncts","C13",C,"\treturn len(c.qs.sendq) == 0 && c.qs.pendq.Len() == 0","\treturn c.qs.pendq.Len() == 0 && len(c.qs.sendq) == 0",note="commute the conjunction")

# ---------------- C14
M("c14-read-error-not-recorded","C14",C,"\t\t\tc.addReadErr(err)\n\t\t\treturn true\n\t\t}\n\t\tif err := c.handleModifyResponse(in); err != nil {","\t\t\treturn true\n\t\t}\n\t\tif err := c.handleModifyResponse(in); err != nil {","ERROR-RECORDED")
M("c14-reset-keeps-results","C14",C,"\tc.qs.resultq = nil\n","","RESET-FORGETS")
M("c14-add-inside-goroutine","C14",C,"\tc.wg.Add(1)\n\tgo func() {\n\t\tdefer c.wg.Done()\n\t\tdefer informDone(\"sender\")","\tgo func() {\n\t\tc.wg.Add(1)\n\t\tdefer c.wg.Done()\n\t\tdefer informDone(\"sender\")","LIFECYCLE")
M("c14-bare-send","C14",C,"\tselect {\n\tcase c.qs.modifyCh <- m:\n\tcase <-c.sendExitCh:\n\t\t// The sender exited after we checked but before it could take this\n\t\t// message; nothing will ever read modifyCh, so do not wait for it.\n\t}","\tc.qs.modifyCh <- m","BLOCK-UNDER-LOCK")
M("c14-exit-not-announced","C14",C,"\t\t\tc.sendExitCh <- struct{}{}\n\t\t\tclose(c.sendExitCh)","\t\t\tclose(c.sendExitCh)","LIFECYCLE",note="only closing is also fine semantically? the rule demands send+close as today")
M("c14-disconnect-no-wait","C14",C,"\t\tclose(c.qs.modifyCh)\n\t}\n\tc.wg.Wait()","\t\tclose(c.qs.modifyCh)\n\t\tc.wg.Wait()\n\t}","LIFECYCLE")
N("c14-n-reorder-reset","C14",C,"\tc.qs.resultMu.Lock()\n\tdefer c.qs.resultMu.Unlock()\n\tc.qs.resultq = nil\n\n\tc.qs.modifyCh = make(chan *spb.ModifyRequest, 5)","\tc.qs.modifyCh = make(chan *spb.ModifyRequest, 5)\n\n\tc.qs.resultMu.Lock()\n\tdefer c.qs.resultMu.Unlock()\n\tc.qs.resultq = nil",note="reorder independent statements")

# ---------------- C15
M("c15-nhg-replace-in-nh-bucket","C15",D,"\t\t\t\t\tops.Replace.NHG = append(ops.Replace.NHG, op)","\t\t\t\t\tops.Replace.NH = append(ops.Replace.NH, op)","DIFF-TABLES")
M("c15-equal-entries-emitted","C15",D,"Ipv6Entry[pfx]; !ok || !reflect.DeepEqual(srcE, dstE) {","Ipv6Entry[pfx]; !ok || reflect.DeepEqual(srcE, dstE) {","DIFF-TABLES")
M("c15-id-not-advanced","C15",D,"\t\t\tif _, ok := srcNIEntries.GetAfts().LabelEntry[lbl]; !ok {\n\t\t\t\tid.Add(1)","\t\t\tif _, ok := srcNIEntries.GetAfts().LabelEntry[lbl]; !ok {","DIFF-TABLES")
M("c15-delete-as-add","C15",D,"\t\t\t\top, err := nhOperation(spb.AFTOperation_DELETE, srcNI, id, dstE)","\t\t\t\top, err := nhOperation(spb.AFTOperation_ADD, srcNI, id, dstE)","DIFF-TABLES")
M("c15-builder-drops-ni","C15",D,"\t\tNetworkInstance: ni,\n\t\tOp:              method,\n\t\tEntry: &spb.AFTOperation_Mpls{","\t\tOp:              method,\n\t\tEntry: &spb.AFTOperation_Mpls{","OP-BUILDERS")
M("c15-target-only-ni-ignored","C15",D,"\tfor ni := range dstContents {\n\t\tnis[ni] = true\n\t}\n","","DIFF-INSTANCES")
N("c15-n-rename-ni","C15",D,"\tfor ni := range srcContents {\n\t\tnis[ni] = true\n\t}","\tfor name := range srcContents {\n\t\tnis[name] = true\n\t}",note="rename loop variable")

# ---------------- C16
M("c16-flush-announces-add","C16",R,"\t\tr.postChangeHook(constants.Delete, unixTS(), r.name, de)","\t\tr.postChangeHook(constants.Add, unixTS(), r.name, de)","NOTIFY",occ=3)
M("c16-new-ni-no-hook","C16",R,"\tnir.postChangeHook = r.postChangeHook\n","","HOOK-EVERY-INSTANCE")
M("c16-mpls-announced-as-v4","C16",R,"\t\t\taft = constants.MPLS\n\t\t\tkey = mplsLabel","\t\t\taft = constants.IPv4\n\t\t\tkey = mplsLabel","RESOLVED-NOTIFY")
M("c16-v6-delete-silent","C16",R,"\t\t\tcallHook = true\n\t\t\taft = constants.IPv6","\t\t\taft = constants.IPv6","RESOLVED-NOTIFY")
M("c16-add-hook-dropped","C16",R,"\tif r.postChangeHook != nil {\n\t\tfor _, nhg := range nr.Afts.NextHopGroup {\n\t\t\tr.postChangeHook(constants.Add, unixTS(), r.name, nhg)\n\t\t}\n\t}\n","","NOTIFY")
M("c16-hook-wrong-name","C16",R,"\t\tr.postChangeHook(constants.Delete, unixTS(), r.name, de)","\t\tr.postChangeHook(constants.Delete, unixTS(), \"\", de)","NOTIFY",occ=1)
N("c16-n-hoist-hook","C16",R,"\tif r.postChangeHook != nil {\n\t\tr.postChangeHook(constants.Delete, unixTS(), r.name, de)\n\t}\n\n\treturn true, de, nil\n}\n\n// retrieveIPv4","\tif hook := r.postChangeHook; hook != nil {\n\t\thook(constants.Delete, unixTS(), r.name, de)\n\t}\n\n\treturn true, de, nil\n}\n\n// retrieveIPv4",note="hook read into a local first")

M("c07-poptoplabel-not-copied","C07",R,"\tif e.PopTopLabel != nil {\n\t\tnhproto.PopTopLabel = &wpb.BoolValue{Value: e.GetPopTopLabel()}\n\t}\n","","WIRE-FIELD-ROUNDTRIP")
M("c07-poptoplabel-only-when-true","C07",R,"\tif e.PopTopLabel != nil {\n\t\tnhproto.PopTopLabel","\tif e.GetPopTopLabel() {\n\t\tnhproto.PopTopLabel","WIRE-FIELD-ROUNDTRIP",note="an explicit false is installed but not reported")
N("c07-n-poptoplabel-deref","C07",R,"\tif e.PopTopLabel != nil {\n\t\tnhproto.PopTopLabel = &wpb.BoolValue{Value: e.GetPopTopLabel()}","\tif nil != e.PopTopLabel {\n\t\tnhproto.PopTopLabel = &wpb.BoolValue{Value: *e.PopTopLabel}",note="commuted nil test, dereference instead of getter")
# ---------------- C17
M("c17-mpls-want-unchecked","C17",K,"\t\tdefault:\n\t\t\tt.Fatalf(\"test error: cannot check for wanted message %v, its details identify no entry\", want)\n","","CACHED-DELEGATES")
M("c17-servererror-inverted","C17",K,"\tif !hasIncludeServerError(opt) {","\tif hasIncludeServerError(opt) {","IGNORE-OPTIONS")
M("c17-recv-counts-send","C17",K,"\tif l := len(ce.Recv); l != count {","\tif l := len(ce.Send); l != count {","COUNT-HELPERS")
M("c17-absent-only-logged","C17",K,"\t\tt.Fatal(buf.String())","\t\tt.Log(buf.String())","FATAL-IFF-ABSENT")
M("c17-v6-looked-up-in-v4","C17",K,"\t\t\tif _, ok := ni.ipv6[v.Ipv6.GetPrefix()]; !ok {","\t\t\tif _, ok := ni.ipv4[v.Ipv6.GetPrefix()]; !ok {","GET-ENTRIES-LOOKUP")
M("c17-nil-always-ok","C17",K,"\tif err == nil && count == 0 {\n\t\treturn\n\t}\n\n\tce := clientError(t, err)\n\tif l := len(ce.Recv)","\tif err == nil {\n\t\treturn\n\t}\n\n\tce := clientError(t, err)\n\tif l := len(ce.Recv)","COUNT-HELPERS")
M("c17-nh-looked-up-in-nhg-index","C17",K,"[]*client.OpResult{byNHID[want.Details.NextHopIndex]}","[]*client.OpResult{byNHGID[want.Details.NextHopIndex]}","CACHED-DELEGATES")
N("c17-n-early-return","C17",K,"\tif !found {\n\t\tbuf := &bytes.Buffer{}","\tif found {\n\t\treturn\n\t}\n\t{\n\t\tbuf := &bytes.Buffer{}",note="inverted condition with early return")

# ---------------- C18
M("c18-ipinip-swapped","C18",F,"\t\tSrcIp: &wpb.StringValue{Value: srcIP},\n\t\tDstIp: &wpb.StringValue{Value: dstIP},","\t\tSrcIp: &wpb.StringValue{Value: dstIP},\n\t\tDstIp: &wpb.StringValue{Value: srcIP},","SETTER-ROWS")
M("c18-no-clone","C18",F,"\t\t\tMpls: proto.Clone(l.pb).(*aftpb.Afts_LabelEntryKey),\n\t\t},\n\t\tElectionId: l.electionID,","\t\t\tMpls: l.pb,\n\t\t},\n\t\tElectionId: l.electionID,","CLONE-DISCIPLINE")
M("c18-ids-from-zero","C18",F,"\t\tg.parent.opCount++\n\t\tep.Id = g.parent.opCount","\t\tep.Id = g.parent.opCount\n\t\tg.parent.opCount++","TABLE-STAMPING")
M("c18-own-election-id-overwritten","C18",F,"g.parent.connection.redundMode == ElectedPrimaryClient && ep.ElectionId == nil {","g.parent.connection.redundMode == ElectedPrimaryClient {","TABLE-STAMPING")
M("c18-update-not-recorded","C18",F,"\tg.parent.currentElectionID = eid\n\tg.parent.c.Q(&spb.ModifyRequest{ElectionId: eid})","\tg.parent.c.Q(&spb.ModifyRequest{ElectionId: eid})","CURRENT-ELECTION-ID")
M("c18-replace-sends-add","C18",F,"\tm, err := g.entriesToModifyRequest(spb.AFTOperation_REPLACE, entries)","\tm, err := g.entriesToModifyRequest(spb.AFTOperation_ADD, entries)","MODIFY-VERBS")
M("c18-backup-also-sets-id","C18",F,"\tn.pb.NextHopGroup.BackupNextHopGroup = &wpb.UintValue{Value: id}","\tn.pb.Id = id\n\tn.pb.NextHopGroup.BackupNextHopGroup = &wpb.UintValue{Value: id}","SETTER-ROWS")
N("c18-n-local-wrapper","C18",F,"\tn.pb.NextHop.MacAddress = &wpb.StringValue{Value: mac}","\tv := &wpb.StringValue{Value: mac}\n\tn.pb.NextHop.MacAddress = v",note="wrapper built in a local first")

# ---------------- C19
M("c19-fib-variant-runs-rib","C19","compliance/compliance.go","\t\t\tFn:             makeTestWithACK(DeleteNextHopGroup, fluent.InstalledInFIB),","\t\t\tFn:             makeTestWithACK(DeleteNextHopGroup, fluent.InstalledInRIB),","REGISTRY-ACK")
M("c19-no-flush","C19","compliance/compliance.go","func AddUnreferencedNextHopGroup(c *fluent.GRIBIClient, wantACK fluent.ProgrammingResult, t testing.TB, _ ...TestOpt) {\n\tdefer flushServer(c, t)\n","func AddUnreferencedNextHopGroup(c *fluent.GRIBIClient, wantACK fluent.ProgrammingResult, t testing.TB, _ ...TestOpt) {\n","CLEANUP-PAIRED")
M("c19-counter-not-advanced","C19","compliance/compliance.go","func DoModifyOps(c *fluent.GRIBIClient, t testing.TB, ops []func(), wantACK fluent.ProgrammingResult, randomise bool) []*client.OpResult {\n\tdefer electionID.Inc()\n","func DoModifyOps(c *fluent.GRIBIClient, t testing.TB, ops []func(), wantACK fluent.ProgrammingResult, randomise bool) []*client.OpResult {\n","ELECTION-IDS-FORWARD")
M("c19-zero-id","C19","compliance/flush.go","\telectionID.Inc()\n\taddFlushEntriesToNI(c, defaultNetworkInstanceName, wantACK, t)","\taddFlushEntriesToNI(c, defaultNetworkInstanceName, wantACK, t)","ELECTION-IDS-FORWARD")
M("c19-add-too-small","C19","compliance/election.go","\tdefer electionID.Add(2)","\tdefer electionID.Add(1)","ELECTION-IDS-FORWARD")
N("c19-n-explicit-flush","C19","compliance/mpls.go","\tdefer flushServer(c, t)","\tdefer func() { flushServer(c, t) }()",note="deferred closure calling flushServer")

# ---------------- round 4 rules
M("c09-undefined-redundancy-accepted","C09",S,"\tif p.Redundancy != spb.SessionParameters_SINGLE_PRIMARY {","\tif p.Redundancy == spb.SessionParameters_ALL_PRIMARY {","TABLE-CHECK-PARAMS",note="revert of fix bc8a3eb (one of three tests)")
M("c09-undefined-acktype-accepted","C09",S,"\tif at := p.AckType; at != spb.SessionParameters_RIB_ACK && at != spb.SessionParameters_RIB_AND_FIB_ACK {","\tif at := p.AckType; false && at != spb.SessionParameters_RIB_ACK {","TABLE-CHECK-PARAMS")
M("c14-failed-connect-leaves-exit-open","C14",C,"\t\tclose(c.sendExitCh)\n\t\treturn fmt.Errorf(\"cannot open Modify RPC, %v\", err)","\t\treturn fmt.Errorf(\"cannot open Modify RPC, %v\", err)","LIFECYCLE",note="revert of fix 7f38404")
M("c01-lookup-key-rewritten","C01",R,"\treturn r.r.Afts.Ipv6Entry[prefix]","\treturn r.r.Afts.Ipv6Entry[fmt.Sprintf(\"%s\", prefix)+\"\"]","TABLE-KEY-IDENTITY")
M("c06-readd-nexthop-parked","C06",R,"\tif _, err := r.doAddNH(","\tif r.nhExists(e.GetIndex()) && !explicitReplace && e.GetNextHop() == nil {\n\t\treturn false, nil, nil\n\t}\n\tif _, err := r.doAddNH(","HELD-ONLY-UNRESOLVED")
M("c07-invalid-holder-skipped","C07",S,"\t\tif err := netInst.GetRIB(filter, msgCh, stopCh); err != nil {","\t\tif !netInst.IsValid() {\n\t\t\tcontinue\n\t\t}\n\t\tif err := netInst.GetRIB(filter, msgCh, stopCh); err != nil {","GET-SCOPE")
M("c08-flush-deletes-counter","C08",R,"\tdelete(r.r.Afts.NextHop, index)\n\tif r.postChangeHook != nil {","\tdelete(r.r.Afts.NextHop, index)\n\tdelete(r.refCounts.NextHop, index)\n\tif r.postChangeHook != nil {","COUNTER-CALLERS")
M("c09-new-session-preserve","C09",S,"\t\tparams: &clientParams{},","\t\tparams: &clientParams{Persist: true},","NEW-SESSION-DEFAULTS")
M("c14-read-eof-not-recorded","C14",C,"func (c *Client) addReadErr(err error) {\n","func (c *Client) addReadErr(err error) {\n\tif err == io.EOF {\n\t\treturn\n\t}\n","ERROR-SINKS")
M("c16-flush-silences-hook","C16",R,"\t\tniR.mu.Lock()\n\t\tdefer niR.mu.Unlock()\n","\t\tniR.mu.Lock()\n\t\tdefer niR.mu.Unlock()\n\t\tsaved := niR.postChangeHook\n\t\tniR.postChangeHook = nil\n\t\tdefer func() { niR.postChangeHook = saved }()\n","HOOK-WRITERS")
M("c18-start-puts-initial-id-back","C18",F,"\t\topts = append(opts, client.ElectedPrimaryClient(g.connection.electionID))","\t\topts = append(opts, client.ElectedPrimaryClient(g.connection.electionID))\n\t\tg.currentElectionID = g.connection.electionID","CURRENT-ELECTION-ID")
M("c19-close-without-conn-skips-teardown","C19",C,"func (c *Client) Close() error {\n\tc.disconnect()\n\tif c.conn == nil {\n\t\treturn nil\n\t}","func (c *Client) Close() error {\n\tif c.conn == nil {\n\t\treturn nil\n\t}\n\tc.disconnect()","LIFECYCLE")
M("c10-master-cleared-on-exit","C10",S,"\tdelete(s.cs, id)","\tdelete(s.cs, id)\n\ts.elecMu.Lock()\n\tif s.curMaster == id {\n\t\ts.curMaster = \"\"\n\t}\n\ts.elecMu.Unlock()","ELECTION-WRITERS")
N("c13-n-errsink-local","C13",C,"\tc.sendErr = append(c.sendErr, err)","\te := err\n\tc.sendErr = append(c.sendErr, e)",note="error handed on through a local")
# ---------------- round 3 rules
M("c13-nil-result-appended","C13",C,"\t\tif err != nil {\n\t\t\treturn fmt.Errorf(\"cannot remove pending operation %d, %v\", r.Id, err)\n\t\t}\n\t\t// There is no result to report for an operation that has already been\n\t\t// completed - the result queue never holds nil entries.\n\t\tif res != nil {\n\t\t\tc.qs.resultq = append(c.qs.resultq, res)\n\t\t}","\t\tc.qs.resultq = append(c.qs.resultq, res)\n\t\tif err != nil {\n\t\t\treturn fmt.Errorf(\"cannot remove pending operation %d, %v\", r.Id, err)\n\t\t}","RESPONSE-ACCOUNTING",note="revert of fix dfe44f8")
M("c02-probe-wrong-option-type","C02",R,"func hasDisableCheckFn(opt []RIBOpt) bool {\n\tfor _, o := range opt {\n\t\tif _, ok := o.(*disableCheckFn); ok {","func hasDisableCheckFn(opt []RIBOpt) bool {\n\tfor _, o := range opt {\n\t\tif _, ok := o.(*disableForwardRef); ok {","OPTION-PROBES",note="disallowing forward references also switches the gate off")
M("c02-probe-any-option","C02",R,"func hasDisableForwardRef(opt []RIBOpt) bool {\n\tfor _, o := range opt {\n\t\tif _, ok := o.(*disableForwardRef); ok {\n\t\t\treturn true\n\t\t}\n\t}","func hasDisableForwardRef(opt []RIBOpt) bool {\n\tfor _, o := range opt {\n\t\tif _, ok := o.(*disableForwardRef); ok || o != nil {\n\t\t\treturn true\n\t\t}\n\t}","OPTION-PROBES")
M("c02-server-option-miswired","C02",S,"\tif hasWithNoRIBForwardReferences(opt) {\n\t\tribOpt = append(ribOpt, rib.DisableForwardReferences())","\tif hasWithNoRIBForwardReferences(opt) {\n\t\tribOpt = append(ribOpt, rib.DisableRIBCheckFn())","SERVER-WIRING")
M("c16-hook-probe-first-option-only","C16",S,"func hasPostChangeRIBHook(opt []ServerOpt) *postChangeRibHook {\n\tfor _, o := range opt {\n\t\tif v, ok := o.(*postChangeRibHook); ok {\n\t\t\treturn v\n\t\t}\n\t}","func hasPostChangeRIBHook(opt []ServerOpt) *postChangeRibHook {\n\tfor _, o := range opt {\n\t\tif v, ok := o.(*postChangeRibHook); ok {\n\t\t\treturn v\n\t\t}\n\t\treturn nil\n\t}","OPTION-PROBES",note="the hook is only found when it is the first option")
M("c16-vrfs-only-with-hook","C16",S,"\tif vrfs := hasWithVRFs(opt); vrfs != nil {\n\t\tfor _, n := range vrfs {","\tif vrfs := hasWithVRFs(opt); vrfs != nil && hasPostChangeRIBHook(opt) != nil {\n\t\tfor _, n := range vrfs {","SERVER-WIRING")
N("c16-n-hook-probe-into-local","C16",S,"\tif v := hasPostChangeRIBHook(opt); v != nil {\n\t\ts.masterRIB.SetPostChangeHook(v.fn)\n\t}","\thook := hasPostChangeRIBHook(opt)\n\tif hook != nil {\n\t\ts.masterRIB.SetPostChangeHook(hook.fn)\n\t}",note="probe answer held in a local")
M("c10-wait-for-producer-before-stop","C10",S,"\tvar done bool\n\n\tfor !done {","\tvar done bool\n\tdefer func() {\n\t\tif !done {\n\t\t\t<-doneCh\n\t\t}\n\t}()\n\n\tfor !done {","STOP-SIGNAL",note="deferred wait declared after the deferred close runs before it")
N("c10-n-close-in-closure","C10",S,"\tdefer close(stopCh)\n","\tdefer func() { close(stopCh) }()\n",note="deferred closure closing the stop channel")
M("c17-mpls-index-unguarded","C17",K,"\t\t\tif _, ok := v.Mpls.GetLabel().(*aftpb.Afts_LabelEntryKey_LabelUint64); ok {\n\t\t\t\tni.mpls[v.Mpls.GetLabelUint64()] = r\n\t\t\t}","\t\t\tif v.Mpls != nil {\n\t\t\t\tni.mpls[v.Mpls.GetLabelUint64()] = r\n\t\t\t}\n\t\t\tvar _ *aftpb.Afts","GET-ENTRIES-LOOKUP")
M("c17-allowunimpl-strips-all-details","C17",K,"\t\t\tif ignoreUnimplDets && wo.Code() == codes.Unimplemented || ignoreDets {","\t\t\tif ignoreUnimplDets || ignoreDets {","STATUS-OPTIONS")
M("c19-allowunimpl-strips-all-details","C19",K,"\t\t\tif ignoreUnimplDets && wo.Code() == codes.Unimplemented || ignoreDets {","\t\t\tif ignoreUnimplDets || ignoreDets {","STATUS-OPTIONS")
N("c17-n-named-condition","C17",K,"\t\t\tif ignoreUnimplDets && wo.Code() == codes.Unimplemented || ignoreDets {","\t\t\tunimplAlt := wo.Code() == codes.Unimplemented && ignoreUnimplDets\n\t\t\tif ignoreDets || unimplAlt {",note="named sub-condition, commuted")
M("c18-update-only-when-higher","C18",F,"\tg.parent.currentElectionID = eid\n\tg.parent.c.Q(&spb.ModifyRequest{ElectionId: eid})","\tif g.parent.currentElectionID == nil || g.parent.currentElectionID.Low < low {\n\t\tg.parent.currentElectionID = eid\n\t}\n\tg.parent.c.Q(&spb.ModifyRequest{ElectionId: eid})","CURRENT-ELECTION-ID")
M("c03-orig-read-after-install","C03",R,"\tvar orig *aft.Afts_Ipv6Entry\n\tif r.ipv6Exists(e.GetPrefix()) {\n\t\torig = r.retrieveIPv6(e.GetPrefix())\n\t}\n","\tvar orig *aft.Afts_Ipv6Entry\n\thad := r.ipv6Exists(e.GetPrefix())\n\tdefer func() { _ = had }()\n","INSTALL-REFS",note="never hands back the replaced entry")
M("c03-dup-member-counted-twice","C03",R,"\t\tif seen[nh.GetIndex()] {\n\t\t\tcontinue\n\t\t}\n\t\tseen[nh.GetIndex()] = true\n","\t\t_ = seen\n","NHG-REFERENCES",note="revert of fix 7206dbc")
M("c03-dup-seen-never-recorded","C03",R,"\t\tseen[nh.GetIndex()] = true\n","","NHG-REFERENCES")
N("c03-n-member-set-two-loops","C03",R,"\tseen := map[uint64]bool{}\n\tfor _, nh := range new.NextHop {\n\t\tif seen[nh.GetIndex()] {\n\t\t\tcontinue\n\t\t}\n\t\tseen[nh.GetIndex()] = true\n\t\tniRIB.incNHRefCount(nh.GetIndex())\n\t}","\tmembers := map[uint64]bool{}\n\tfor _, nh := range new.NextHop {\n\t\tmembers[nh.GetIndex()] = true\n\t}\n\tfor idx := range members {\n\t\tniRIB.incNHRefCount(idx)\n\t}",note="set of member ids built first, then one increment per id")
N("c03-n-dec-by-map-key","C03",R,"\t\tfor _, nh := range original.NextHop {\n\t\t\tniRIB.decNHRefCount(nh.GetIndex())\n\t\t}","\t\tfor idx := range original.NextHop {\n\t\t\tniRIB.decNHRefCount(idx)\n\t\t}",note="the installed map's key is the member id")
M("c12-zero-index-same-pass","C12",R,"\t\t\t\treturn false, fmt.Errorf(\"invalid zero index NH in NHG %d, NI %s\", g.GetId(), netInst)\n\t\t\t}\n\t\t}\n\t\tfor _, n := range g.NextHop {\n","\t\t\t\treturn false, fmt.Errorf(\"invalid zero index NH in NHG %d, NI %s\", g.GetId(), netInst)\n\t\t\t}\n","CAN-RESOLVE",note="revert of fix 3a1fa73: validation and resolution in one pass over the map")
M("c09-fatal-op-continues","C09",S,"\t\t\terrCh <- err\n\t\t\treturn false\n","\t\t\terrCh <- err\n","FATAL-ENDS-SESSION")
M("c09-loop-ignores-domodify-verdict","C09",S,"\t\t\t\tif !s.doModify(cid, in.Operation, resultChan, errCh) {\n\t\t\t\t\t// A fatal error was reported, the RPC is being torn down so\n\t\t\t\t\t// nothing further from this client is handled.\n\t\t\t\t\treturn\n\t\t\t\t}\n","\t\t\t\ts.doModify(cid, in.Operation, resultChan, errCh)\n","TABLE-DISPATCH")
M("c01-fatal-op-continues","C01",S,"\t\t\terrCh <- err\n\t\t\treturn false\n","\t\t\terrCh <- err\n","FATAL-ENDS-SESSION")
M("c06-results-sorted","C06",S,"\treturn &spb.ModifyResponse{\n\t\tResult: results,\n\t}, nil","\tif n := len(results); n > 1 {\n\t\tresults[0], results[n-1] = results[n-1], results[0]\n\t}\n\treturn &spb.ModifyResponse{\n\t\tResult: results,\n\t}, nil","RESULT-MAPPING",note="re-orders the built list")
M("c06-oks-truncated","C06",S,"\tfor _, ok := range oks {\n\t\tlog.V(2)","\tif len(oks) > 1 {\n\t\toks = oks[:1]\n\t}\n\tfor _, ok := range oks {\n\t\tlog.V(2)","RESULT-MAPPING")

# ---------------- round 5 rules
M("c02-rib-new-wrong-probe","C02",R,"\tif hasDisableForwardRef(opt) {\n\t\trhOpt = append(rhOpt, DisableForwardReferences())","\tif hasDisableCheckFn(opt) {\n\t\trhOpt = append(rhOpt, DisableForwardReferences())","RIB-WIRING",note="the gate option also forbids forward references; the forward-reference option is ignored")
M("c02-holder-forwardref-always","C02",R,"\tif hasRHDisableForwardRef(opts) {\n\t\tr.disableForwardRef = true\n\t}","\tr.disableForwardRef = true\n\t_ = hasRHDisableForwardRef(opts)","RIB-WIRING")
M("c02-inline-probe-wrong-type","C02",R,"\tif hasDisableForwardRef(opt) {\n\t\trhOpt = append(rhOpt, DisableForwardReferences())\n\t\tr.disableForwardReferences = true\n\t}","\tfor _, o := range opt {\n\t\tif _, ok := o.(*disableCheckFn); ok {\n\t\t\trhOpt = append(rhOpt, DisableForwardReferences())\n\t\t\tr.disableForwardReferences = true\n\t\t\tbreak\n\t\t}\n\t}","RIB-WIRING",note="probe written in line, asserting the wrong option type")
N("c02-n-inline-probe","C02",R,"\tif hasDisableForwardRef(opt) {\n\t\trhOpt = append(rhOpt, DisableForwardReferences())\n\t\tr.disableForwardReferences = true\n\t}","\tfor _, o := range opt {\n\t\tif _, ok := o.(*disableForwardRef); ok {\n\t\t\trhOpt = append(rhOpt, DisableForwardReferences())\n\t\t\tr.disableForwardReferences = true\n\t\t\tbreak\n\t\t}\n\t}",note="probe written in line (folded back into a probe call)")
M("c10-result-channel-closed","C10",S,"\terr := <-errCh\n\tclose(resultDone)","\terr := <-errCh\n\tclose(resultDone)\n\tclose(resultChan)","CLOSE-BY-SENDER",note="closed by the handler while the receive goroutine may still send")
M("c12-recover-one-level-down","C12",R,"\tdefer func() {\n\t\tif p := recover(); p != nil {\n\t\t\tnr, err = nil, fmt.Errorf(\"invalid entry provided, cannot be converted, %v\", p)\n\t\t}\n\t}()","\tdefer func() {\n\t\tfunc() {\n\t\t\tif p := recover(); p != nil {\n\t\t\t\tnr, err = nil, fmt.Errorf(\"invalid entry provided, cannot be converted, %v\", p)\n\t\t\t}\n\t\t}()\n\t}()","PANIC-CONTAINMENT",note="recover() called one call level below the deferred function does not stop the panic")
M("c17-clienterror-fabricated","C17",K,"\tif !ok {\n\t\tt.Fatalf(\"error returned from client was not expected type, got: %T, want: *client.ClientError\", err)\n\t}\n\treturn ce","\tif !ok {\n\t\treturn &client.ClientErr{Recv: []error{err}}\n\t}\n\treturn ce","CLIENT-ERROR-CONVERSION")
M("c17-mpls-key-narrowed","C17",K,"\t\t\tif _, ok := ni.mpls[v.Mpls.GetLabelUint64()]; !ok {","\t\t\tif _, ok := ni.mpls[uint64(uint32(v.Mpls.GetLabelUint64()))]; !ok {","GET-ENTRIES-LOOKUP")
M("c14-await-consumes-done","C14",C,"\t\ttime.Sleep(BusyLoopDelay) // avoid busy looping.","\t\tselect {\n\t\tcase <-c.doneCh:\n\t\tcase <-time.After(BusyLoopDelay):\n\t\t}","DONE-SIGNAL")
M("c19-stop-leaves-stub-session","C19",F,"\t\tg.c.StopSending()\n\t\tif err := g.c.Close(); err != nil {\n\t\t\tlog.Infof(\"cannot disconnect from server, %v\", err)\n\t\t}","\t\tg.c.StopSending()\n\t\tif g.connection != nil && g.connection.stub != nil {\n\t\t\treturn\n\t\t}\n\t\tif err := g.c.Close(); err != nil {\n\t\t\tlog.Infof(\"cannot disconnect from server, %v\", err)\n\t\t}","STOP-CLOSES")
M("c19-unknown-id-not-an-error","C19",C,"\t\treturn nil, fmt.Errorf(\"could not dequeue operation %d, unknown operation\", op.Id)\n\t}\n\n\t// We know","\t\treturn &OpResult{Timestamp: unixTS(), OperationID: op.GetId(), ClientError: \"unknown operation\"}, nil\n\t}\n\n\t// We know","TABLE-CLEAR-PENDING")
M("c13-rejected-response-only-logged","C13",C,"\t\tif err := c.handleModifyResponse(in); err != nil {\n\t\t\tlog.Errorf(\"got error processing message received from server, %v\", err)\n\t\t\tc.addReadErr(err)\n\t\t\treturn true\n\t\t}","\t\tif err := c.handleModifyResponse(in); err != nil {\n\t\t\tlog.Errorf(\"got error processing message received from server, %v\", err)\n\t\t}","ERROR-RECORDED")
M("c03-counter-written-by-new-helper","C03",R,"\tr.doDeleteNH(e.GetIndex())","\tr.doDeleteNH(e.GetIndex())\n\tfunc(i uint64) {\n\t\tr.refCounts.mu.Lock()\n\t\tdefer r.refCounts.mu.Unlock()\n\t\tr.refCounts.NextHop[i] = 0\n\t}(e.GetIndex())","COUNTER-CALLERS",note="a counter entry reset outside the primitives")
M("c02-results-filtered","C02",S,"\tfor _, ok := range oks {\n\t\tlog.V(2)","\tif len(oks) > 1 {\n\t\toks = oks[:1]\n\t}\n\tfor _, ok := range oks {\n\t\tlog.V(2)","RESULT-MAPPING")
M("c03-lookup-key-rewritten","C03",R,"\treturn r.r.Afts.Ipv6Entry[prefix]","\treturn r.r.Afts.Ipv6Entry[fmt.Sprintf(\"%s\", prefix)+\"\"]","TABLE-KEY-IDENTITY")

M("c06-handler-does-not-wait-for-writer","C06",S,"\t// A result that was handed to the sender is written before the RPC\n\t// returns - returning ends the stream, and the result would be lost.\n\t<-sendDone\n","","FORWARDER-JOINED",note="revert of fix e19f8ff (the join)")
M("c11-writer-blocks-on-errch","C11",S,"\t\t\t\t\tselect {\n\t\t\t\t\tcase errCh <- status.Errorf(codes.Internal, \"cannot write message to client channel, %s\", res):\n\t\t\t\t\tcase <-resultDone:\n\t\t\t\t\t}\n","\t\t\t\t\terrCh <- status.Errorf(codes.Internal, \"cannot write message to client channel, %s\", res)\n","FORWARDER-JOINED",note="a joined writer that can block for ever on the error channel")
M("c11-election-id-overwritten-in-place","C11",S,"\t\ts.curElecID = elecID\n","\t\tif s.curElecID == nil {\n\t\t\ts.curElecID = &spb.Uint128{}\n\t\t}\n\t\ts.curElecID.High, s.curElecID.Low = elecID.GetHigh(), elecID.GetLow()\n","ENTRY-IMMUTABLE")
M("c11-copyribs-holds-all-read-locks","C11",R,"\t\tniR.mu.RLock()\n\t\t// this is likely expensive on very large RIBs, but with today's implementation\n\t\t// it seems acceptable, since we then allow the caller not to have to figure out\n\t\t// any locking since they have their own RIB to work on.\n\t\tdupRIB, err := ygot.DeepCopy(niR.r)\n\t\tif err != nil {\n\t\t\treturn nil, fmt.Errorf(\"cannot copy RIB for NI %s, %v\", name, err)\n\t\t}\n\t\trib[name] = dupRIB.(*aft.RIB)\n\t\tniR.mu.RUnlock()\n","\t\tniR.mu.RLock()\n\t\tdefer niR.mu.RUnlock()\n\t\tdupRIB, err := ygot.DeepCopy(niR.r)\n\t\tif err != nil {\n\t\t\treturn nil, fmt.Errorf(\"cannot copy RIB for NI %s, %v\", name, err)\n\t\t}\n\t\trib[name] = dupRIB.(*aft.RIB)\n","LOCK-ORDER",note="read locks of all instances accumulated in map order against Flush's sorted write locks")
M("c16-hook-called-from-reference-bookkeeping","C16",R,"\t\tfor _, nh := range original.NextHop {\n\t\t\tniRIB.decNHRefCount(nh.GetIndex())\n\t\t}\n","\t\tfor _, nh := range original.NextHop {\n\t\t\tniRIB.decNHRefCount(nh.GetIndex())\n\t\t}\n\t\tif niRIB.postChangeHook != nil {\n\t\t\tniRIB.postChangeHook(constants.Delete, unixTS(), niRIB.name, original)\n\t\t}\n","HOOK-CALLERS")
M("c15-mpls-replace-overlays","C15",R,"\tdelete(r.r.GetAfts().LabelEntry, aft.UnionUint32(label))\n","","REPLACE-TOTAL")

json.dump(V, open('/verif/selftest/variants.json','w'), indent=1)
print(len(V),'variants;', sum(1 for v in V if v['neutral']),'neutral')
