package main

// C03 — referenced groups/next-hops cannot be deleted; unreferenced ones always can.
//
// Invariant targeted: for every network instance n and id g,
//   refCounts[n].NextHopGroup[g] = number of installed IPv4/IPv6/MPLS entries whose
//   (group network instance or own, group) is (n, g); NextHop[i] likewise for groups.
// The checker discharges the inductive step at every mutation site and the
// completeness of the list of mutation sites.

import (
	"fmt"
	"go/ast"
	"go/token"
	"go/types"
	"sort"
	"strings"
)

func init() { propRules["C03"] = rulesC03 }

func rulesC03(c *Ctx) {
	c.Decided = append(c.Decided,
		"R3.0 every construct that mutates an installed AFT table is one of the audited install / remove / flush-remove helpers, each called only from its audited callers",
		"R3.1 install and replace: addEntryInternal adjusts references exactly on the installed branch, with the replaced entry returned by the same AddXXX and the new payload of the same operation; handleReferences' decision table (original nil? same target?) → {inc, dec}; handleNHGReferences increments every new member and decrements every old one",
		"R3.2 delete: DeleteEntry releases the removed entry's target (top-level kinds), every member (group), nothing (next-hop), only when something was removed",
		"R3.3 flush: every top-level entry removed by Flush releases its target in the referenced instance; locklessDeleteNHG releases every member",
		"R3.4 verdict: canDelete's decision table; the counter primitives are ++ / guarded -- / > 0 under the counter lock; the DeleteXXX gate consults checkFn(Delete, candidate of the same key)",
		"R3.5 nobody else calls the counter primitives or stores to the counter maps")
	c.NotDec = append(c.NotDec, "counter values on concrete histories (the induction over histories is in DESIGN.md)", "partial flushes that leave cross-instance counters for entries that still exist elsewhere (outside the property's premise)")
	ribFamily(c, famSel{delGate: true, keyAgree: true, replacedOrig: true})
	ruleMutationSites(c)
	ruleInstallRefs(c)
	ruleHandleReferencesTable(c)
	ruleNHGReferences(c)
	ruleDeleteRefs(c)
	ruleFlushRefs(c)
	ruleCanDeleteTable(c)
	ruleCounterPrimitives(c)
	ruleCounterCallers(c)
	ruleStateWriters(c, writersRIB)
	// the entry whose references are released is the entry that is removed: lookups and mutations use the key as handed in (shared with C01)
	ruleTableKeyIdentity(c)
	ruleCheckWiring(c) // every holder, also one created later, consults the deletability gate: the options passed at each creation site agree (shared with C02)
}

// R3.0
func ruleMutationSites(c *Ctx) {
	const rule = "MUTATION-SITES"
	ks := c.kindsOK()
	if ks == nil {
		return
	}
	info := c.P.pkg("rib").TypesInfo
	helpers := c.P.holderHelpers()
	cg := c.P.callGraph()
	// audited owners
	addOf, delOf := map[*types.Func]string{}, map[*types.Func]string{}
	for _, k := range ks {
		addOf[k.Add.Obj] = k.Table
		delOf[k.Delete.Obj] = k.Table
	}
	flush := c.need("rib", "RIB", "Flush")
	n := 0
	for _, tm := range c.P.tableMutations() {
		c.Sites++
		fn := tm.Fn
		c.Analysed[fn.Name] = true
		if tm.Fresh {
			c.note("mutation of a RIB allocated by %s itself (not shared yet): outside the premise", fn.Name)
			continue
		}
		n++
		construct := tm.Kind
		if tm.Table != "" {
			construct += " " + tm.Table
		}
		pos := c.P.pos(tm.Node.Pos())
		if strings.HasPrefix(tm.Kind, "method:") || strings.HasPrefix(tm.Kind, "assign") {
			c.fail(rule, fn.Name, construct, pos, "installed AFT state is mutated by a construct that is not one of the audited install/remove steps (UNACCOUNTED-MUTATION): reference counts and notifications would not follow")
			continue
		}
		callers := cg.callersOf(fn.Obj)
		var cn []string
		for _, cl := range callers {
			cn = append(cn, displayName(cl))
		}
		sort.Strings(cn)
		hi := helpers[fn.Obj]
		switch {
		case hi != nil && hi.Merges:
			// install helper: callers ⊆ AddXXX; deletes inside it are the replace step
			ok := len(callers) > 0
			for _, cl := range callers {
				if !onBehalfOf(c.P.callGraph(), cl, func(g *types.Func) bool { _, isAdd := addOf[g]; return isAdd }) {
					ok = false
				}
			}
			if _, self := addOf[fn.Obj]; self {
				ok = true
			}
			c.check(ok, rule, fn.Name, construct, pos, "install step, called only from "+strings.Join(cn, ", "), "a function that merges into installed state is called from outside the AddXXX family: "+strings.Join(cn, ", "))
		default:
			// removal: either the locked helper of a DeleteXXX of the same table, or a lockless flush helper
			okDel, okFlush := len(callers) > 0, len(callers) > 0
			cgM := c.P.callGraph()
			for _, cl := range callers {
				// (a helper new to the rules that only the audited function calls acts on its behalf)
				if !onBehalfOf(cgM, cl, func(g *types.Func) bool { t, isDel := delOf[g]; return isDel && t == tm.Table }) {
					okDel = false
				}
				if flush == nil || !onBehalfOf(cgM, cl, func(g *types.Func) bool { return g == flush.Obj }) {
					okFlush = false
				}
			}
			if t, self := delOf[fn.Obj]; self && t == tm.Table {
				okDel = true
			}
			c.check(okDel || okFlush, rule, fn.Name, construct, pos, "remove step, called only from "+strings.Join(cn, ", "), "a function that deletes from installed table "+tm.Table+" is called from "+strings.Join(cn, ", ")+": expected only the DeleteXXX of that table, or only RIB.Flush")
		}
	}
	_ = info
	c.floor(rule, "mutation constructs on installed tables", n, 20)
}

// refRole names an object position-free: p<i> for parameters, recv for the receiver, otherwise its name.
func refRole(info *types.Info, fd *ast.FuncDecl, e ast.Expr) string {
	if v, ok := objOfIdent(info, e).(*types.Var); ok && !v.IsField() && !isParamOf(info, fd, v) {
		if def := soleDefinition(info, fd, v); def != nil {
			if _, isCall := ast.Unparen(def).(*ast.CallExpr); !isCall || defaultPure(info, ast.Unparen(def).(*ast.CallExpr)) {
				return refRole(info, fd, def)
			}
		}
	}
	obj, path := selectorPath(info, e)
	if obj == nil {
		return "?" + types.ExprString(e)
	}
	r := paramRole(info, fd, obj)
	if len(path) > 0 {
		r += "." + strings.Join(path, ".")
	}
	return r
}

// refRecv renders the receiver of a counter primitive: a holder looked up with
// refdRIB(base holder, instance name) or a plain holder object.
func refRecv(info *types.Info, fd *ast.FuncDecl, e ast.Expr) string {
	if v, ok := objOfIdent(info, e).(*types.Var); ok && !v.IsField() {
		if call, i := soleTupleDef(info, fd, v); call != nil && i == 0 {
			if f, ok := calleeObj(info, call).(*types.Func); ok && f.Name() == "refdRIB" && len(call.Args) == 2 {
				return "refdRIB(" + refRole(info, fd, call.Args[0]) + "," + refRole(info, fd, call.Args[1]) + ")"
			}
		}
		if def := soleDefinition(info, fd, v); def != nil {
			return refRole(info, fd, def)
		}
	}
	return refRole(info, fd, e)
}

// refEvents extracts reference-counter events with canonical receiver/argument roles.
func refEvents(fi *FuncInfo) func(n ast.Node) []Event {
	info := fi.Pkg.TypesInfo
	return func(n ast.Node) []Event {
		var out []Event
		calls := callsIn(n)
		sort.SliceStable(calls, func(i, j int) bool { return calls[i].End() < calls[j].End() })
		for _, call := range calls {
			f, ok := calleeObj(info, call).(*types.Func)
			if !ok || f.Pkg() == nil || f.Pkg().Path() != ribPkg {
				continue
			}
			switch f.Name() {
			case "incNHGRefCount", "decNHGRefCount", "incNHRefCount", "decNHRefCount":
				se := ast.Unparen(call.Fun).(*ast.SelectorExpr)
				arg := call.Args[0]
				// a local defined once by a getter chain is rendered by its definition
				if v, ok := objOfIdent(info, arg).(*types.Var); ok && !v.IsField() {
					if def := soleDefinition(info, fi.Decl, v); def != nil {
						arg = def
					}
				}
				out = append(out, Event{Kind: fmt.Sprintf("%s[%s](%s)", strings.TrimSuffix(f.Name(), "RefCount"), refRecv(info, fi.Decl, se.X), refRole(info, fi.Decl, arg)), Node: call})
			case "handleReferences", "handleNHGReferences":
				var as []string
				for _, a := range call.Args {
					as = append(as, refRole(info, fi.Decl, a))
				}
				out = append(out, Event{Kind: f.Name() + "(" + strings.Join(as, ",") + ")", Node: call})
			default:
				// a helper that wraps counter events (extracted from a caller): its
				// summary is spliced in with the caller's arguments
				if f == fi.Obj {
					continue
				}
				sum, okSum := refHelperSummary(f)
				if !okSum {
					out = append(out, Event{Kind: "opaque-helper:" + f.Name(), Node: call})
					continue
				}
				if len(sum) == 0 {
					continue
				}
				roles := map[string]string{}
				if se, ok := ast.Unparen(call.Fun).(*ast.SelectorExpr); ok {
					roles["recv"] = refRole(info, fi.Decl, se.X)
				}
				for i, a := range call.Args {
					roles["p"+itoa(i)] = refRole(info, fi.Decl, a)
				}
				for _, k := range sum {
					out = append(out, Event{Kind: substRoles(k, roles), Node: call})
				}
			}
		}
		return out
	}
}

// R3.1 (call sites in addEntryInternal)
func ruleInstallRefs(c *Ctx) {
	const rule = "INSTALL-REFS"
	fi := c.need("rib", "RIB", "addEntryInternal")
	ks := c.kindsOK()
	if fi == nil || ks == nil {
		return
	}
	info := fi.Pkg.TypesInfo
	// the type switch over the operation's entry
	var ts *ast.TypeSwitchStmt
	inspectNoFuncLit(fi.Decl.Body, func(n ast.Node) bool {
		if t, ok := n.(*ast.TypeSwitchStmt); ok && ts == nil {
			ts = t
		}
		return true
	})
	if ts == nil {
		c.vanished(rule, fi.Name, "type switch", "no type switch over the operation's entry")
		return
	}
	_ = recvName
	for _, cc := range ts.Body.List {
		cl := cc.(*ast.CaseClause)
		if len(cl.List) != 1 {
			continue
		}
		tv, ok := info.Types[cl.List[0]]
		if !ok {
			continue
		}
		var k *Kind
		for _, kk := range ks {
			if isNamed(tv.Type, spbPath, kk.OpOneof) {
				k = kk
			}
		}
		if k == nil {
			continue
		}
		c.Sites++
		// events of this clause
		var addCall *ast.CallExpr
		var lhs []types.Object
		ast.Inspect(cl, func(n ast.Node) bool {
			if as, ok := n.(*ast.AssignStmt); ok && len(as.Rhs) == 1 {
				if call, ok := ast.Unparen(as.Rhs[0]).(*ast.CallExpr); ok && calleeObj(info, call) == k.Add.Obj {
					addCall = call
					lhs = nil
					for _, l := range as.Lhs {
						lhs = append(lhs, objOfIdent(info, l))
					}
				}
			}
			return true
		})
		pos := c.P.pos(cl.Pos())
		if addCall == nil || len(lhs) != 3 {
			c.fail(rule, fi.Name, "case "+k.OpOneof, pos, "the arm for "+k.OpOneof+" does not call "+k.Add.Obj.Name()+" with a (done, original, err) assignment")
			continue
		}
		done, orig, errO := lhs[0], lhs[1], lhs[2]
		tvar := ""
		if id, ok := ts.Assign.(*ast.AssignStmt); ok {
			tvar = id.Lhs[0].(*ast.Ident).Name
		}
		holder := ""
		if se, ok := ast.Unparen(addCall.Fun).(*ast.SelectorExpr); ok {
			holder = refRole(info, fi.Decl, se.X)
		}
		origTerm := nameOrBlank(orig) // the replaced entry: result #1 of this very AddXXX call (bound above)
		// expected reference event
		want := ""
		switch {
		case k.TopLevel:
			want = fmt.Sprintf("handleReferences(recv,%s,%s,%s.%s.%s)", holder, origTerm, tvar, k.OneofField, k.PayloadFld)
		case k.Table == "NextHopGroup":
			want = fmt.Sprintf("handleNHGReferences(%s,%s,%s.%s.%s)", holder, origTerm, tvar, k.OneofField, k.PayloadFld)
			if c.P.Func("rib", "RIB", "handleNHGReferences") == nil {
				want = "<member bookkeeping in place>" // judged by NHG-REFERENCES on this very branch
			}
		}
		ev := refEvents(fi)
		paths, _ := enumPaths(info, cl.Body, ev)
		bad := ""
		for _, p := range paths {
			f := factsAfter(info, p, -1, len(p.Events))
			installedPath := done != nil && errO != nil && f.Obj(done) == +1 && f.Obj(errO) == -1
			var evs []string
			for _, e := range p.Events {
				evs = append(evs, e.Kind)
			}
			got := strings.Join(evs, ";")
			if want == "<member bookkeeping in place>" && installedPath {
				for _, e := range evs {
					if !strings.HasPrefix(e, "incNH["+holder+"]") && !strings.HasPrefix(e, "decNH["+holder+"]") {
						bad = fmt.Sprintf("on the installed branch of the next-hop-group arm the bookkeeping contains %s, expected only member counter events on the group's own holder", e)
					}
				}
				continue
			}
			switch {
			case installedPath && got != want:
				bad = fmt.Sprintf("on the installed branch the reference bookkeeping is [%s], expected [%s]", got, want)
			case !installedPath && got != "":
				bad = fmt.Sprintf("reference bookkeeping [%s] runs although the entry was not installed (%s)", got, p.describe(c.P))
			}
		}
		// the operand handed to AddXXX is the same oneof payload
		if a0 := refRole(info, fi.Decl, addCall.Args[0]); a0 != tvar+"."+k.OneofField {
			bad = "AddXXX is handed " + a0 + ", expected the operation's own " + k.OneofField + " entry"
		}
		okd := "no references (next-hops reference nothing)"
		if want != "" {
			okd = want + " exactly on the installed branch"
		}
		c.check(bad == "", rule, fi.Name, "case "+k.OpOneof, pos, okd, bad)
	}
}

func nameOrBlank(o types.Object) string {
	if o == nil {
		return "_"
	}
	return o.Name()
}

// handleReferences decision table
func ruleHandleReferencesTable(c *Ctx) {
	fi := c.need("rib", "", "handleReferences")
	if fi == nil {
		return
	}
	r, ni, orig, nw := paramName(fi, 0), paramName(fi, 1), paramName(fi, 2), paramName(fi, 3)
	aNil := "b:isNil(" + orig + ")"
	aSameNI := eqAtom(nw+".NextHopGroupNetworkInstance.Value", orig+".NextHopGroupNetworkInstance")
	aSameID, _ := orderAtom(nw+".NextHopGroup.Value", orig+".NextHopGroup")
	aErrOld := eqAtom("call:refdRIB#1.1", "nil")
	aErrNew := eqAtom("call:refdRIB#2.1", "nil")
	_, _ = r, ni
	dec := "decNHG[refdRIB(p1,p2.NextHopGroupNetworkInstance)](p2.NextHopGroup)"
	inc := "incNHG[refdRIB(p1,p3.NextHopGroupNetworkInstance.Value)](p3.NextHopGroup.Value)"
	runTable(c, tableSpec{
		Rule: "TABLE-REFERENCES", Fn: fi, Construct: "handleReferences: (original nil?, same target?) → {dec old, inc new}",
		Events: refEvents(fi),
		Atoms:  map[string]int{aNil: 2, aSameNI: 2, aSameID: 3, aErrOld: 2, aErrNew: 2},
		Expected: func(v *Valuation) (string, bool) {
			var evs []string
			doInc := true
			if !v.B(aNil) {
				same := v.B(aSameNI) && v.Ord(aSameID) == 0
				if same {
					doInc = false
				} else if v.B(aErrOld) {
					evs = append(evs, dec)
				}
			}
			if doInc && v.B(aErrNew) {
				evs = append(evs, inc)
			}
			if len(evs) == 0 {
				return "end:fall", true
			}
			return "end:fall effects[" + strings.Join(evs, ",") + "]", true
		},
	})
}

// handleNHGReferences: one loop inc(new member), one loop dec(original member) guarded by non-nil
func ruleNHGReferences(c *Ctx) {
	const rule = "NHG-REFERENCES"
	// the member bookkeeping lives in handleNHGReferences — or, when that helper has been folded into its
	// caller, in the installed branch of addEntryInternal's next-hop-group arm: the rule works on a region
	// (statements + the roles holder / replaced group / new group), whichever of the two exists
	reg := nhgRefRegion(c)
	if reg == nil {
		return
	}
	fi := reg.fi
	info := fi.Pkg.TypesInfo
	holder, orig, nw := reg.holder, reg.orig, reg.nw
	regionBody := &ast.BlockStmt{List: reg.body}
	// which member loop does each counter call sit in
	type loopOf struct {
		root types.Object
		path string
		val  types.Object // the member (range value) — its Index is the member id
		key  types.Object // the member id itself, when the ranged collection is keyed by it
		rs   *ast.RangeStmt
	}
	// member sets: a local map filled, unconditionally and only, with the member
	// ids of a loop over new.NextHop / original.NextHop  (m[nh.GetIndex()] = true);
	// ranging over it visits every member id exactly once
	type memberSet struct {
		root types.Object
		ok   bool
	}
	sets := map[types.Object]*memberSet{}
	isMemberRange := func(rs *ast.RangeStmt) (types.Object, bool) {
		ro, rp := aliasedSelectorPath(info, fi.Decl, resolveLocal(info, fi.Decl, rs.X))
		if ro == orig && strings.Join(rp, ".") == "NextHop" {
			return orig, true
		}
		if reg.isNew(ro, rp[:max(len(rp)-1, 0)]) && len(rp) > 0 && rp[len(rp)-1] == "NextHop" {
			return nw, true
		}
		return nil, false
	}
	inspectNoFuncLit(regionBody, func(n ast.Node) bool {
		rs, ok := n.(*ast.RangeStmt)
		if !ok {
			return true
		}
		root, isM := isMemberRange(rs)
		if !isM {
			return true
		}
		val := objOfIdent(info, rs.Value)
		_, rangedIsMap := info.TypeOf(rs.X).Underlying().(*types.Map)
		key := types.Object(nil)
		if rangedIsMap {
			key = objOfIdent(info, rs.Key)
		}
		for _, st := range rs.Body.List {
			as, ok := st.(*ast.AssignStmt)
			if !ok || as.Tok != token.ASSIGN || len(as.Lhs) != 1 {
				continue
			}
			ie, ok := ast.Unparen(as.Lhs[0]).(*ast.IndexExpr)
			if !ok {
				continue
			}
			m, _ := objOfIdent(info, ie.X).(*types.Var)
			if m == nil || m.IsField() {
				continue
			}
			if _, isMap := m.Type().Underlying().(*types.Map); !isMap {
				continue
			}
			io, ip := selectorPath(info, resolveLocal(info, fi.Decl, ie.Index))
			isID := (val != nil && io == val && strings.Join(ip, ".") == "Index") || (key != nil && io == key && len(ip) == 0)
			ms := sets[m]
			if ms == nil {
				ms = &memberSet{root: root, ok: true}
				sets[m] = ms
			}
			if !isID || ms.root != root {
				ms.ok = false
			}
		}
		return true
	})
	// any other write to a candidate member set disqualifies it
	inspectNoFuncLit(regionBody, func(n ast.Node) bool {
		switch x := n.(type) {
		case *ast.AssignStmt:
			for _, l := range x.Lhs {
				if ie, ok := ast.Unparen(l).(*ast.IndexExpr); ok {
					if ms := sets[objOfIdent(info, ie.X)]; ms != nil {
						// must be one of the unconditional fills found above: its parent is a member loop body
						encl := false
						inspectNoFuncLit(regionBody, func(q ast.Node) bool {
							if rs, ok := q.(*ast.RangeStmt); ok {
								if _, isM := isMemberRange(rs); isM {
									for _, st := range rs.Body.List {
										if st == ast.Stmt(x) {
											encl = true
										}
									}
								}
							}
							return true
						})
						if !encl {
							ms.ok = false
						}
					}
				} else if ms := sets[objOfIdent(info, l)]; ms != nil && x.Tok == token.ASSIGN {
					ms.ok = false
				}
			}
		case *ast.CallExpr:
			if id, ok := ast.Unparen(x.Fun).(*ast.Ident); ok && id.Name == "delete" && len(x.Args) == 2 {
				if ms := sets[objOfIdent(info, x.Args[0])]; ms != nil {
					ms.ok = false
				}
			}
		}
		return true
	})
	callLoop := map[*ast.CallExpr]loopOf{}
	memberLoops := map[ast.Node]bool{}
	seenGuards := map[ast.Expr]bool{}      // `if seen[id] { continue }` of a first-occurrence loop
	dupFree := map[*ast.RangeStmt]string{} // counter loop → why its domain names every member once ("" = it may not)
	inspectNoFuncLit(regionBody, func(n ast.Node) bool {
		rs, ok := n.(*ast.RangeStmt)
		if !ok {
			return true
		}
		ro, rp := selectorPath(info, resolveLocal(info, fi.Decl, rs.X))
		lo := loopOf{root: ro, path: strings.Join(rp, "."), val: objOfIdent(info, rs.Value), rs: rs}
		_, rangedIsMap := info.TypeOf(rs.X).Underlying().(*types.Map)
		if mr, isM := isMemberRange(rs); isM {
			lo.root, lo.path = mr, "NextHop"
			memberLoops[rs] = true
			if rangedIsMap {
				lo.key = objOfIdent(info, rs.Key)
				dupFree[rs] = "the installed group's member map (keys are unique)"
			} else if g := seenIdiom(info, fi.Decl, rs, lo.val); g != nil {
				dupFree[rs] = "the wire list, first occurrence of each id only (seen-set)"
				seenGuards[g.Cond] = true
			}
		} else if ms := sets[objOfIdent(info, rs.X)]; ms != nil && ms.ok {
			memberLoops[rs] = true
			lo.root, lo.path, lo.val, lo.key = ms.root, "NextHop", nil, objOfIdent(info, rs.Key)
			dupFree[rs] = "a set of the member ids (map keys are unique)"
		}
		for _, call := range callsIn(rs.Body) {
			if _, seen := callLoop[call]; !seen {
				callLoop[call] = lo
			}
		}
		return true
	})
	ev := func(n ast.Node) []Event {
		var out []Event
		for _, call := range callsIn(n) {
			f, ok := calleeObj(info, call).(*types.Func)
			if !ok || (f.Name() != "incNHRefCount" && f.Name() != "decNHRefCount") || len(call.Args) != 1 {
				continue
			}
			se, _ := ast.Unparen(call.Fun).(*ast.SelectorExpr)
			onHolder := se != nil && frameArgRoot(info, fi.Decl, objOfIdent(info, se.X)) == holder
			lp, inLoop := callLoop[call]
			ao, ap := selectorPath(info, resolveLocal(info, fi.Decl, call.Args[0]))
			argIsMember := inLoop && ((lp.val != nil && ao == lp.val && strings.Join(ap, ".") == "Index") || (lp.key != nil && ao == lp.key && len(ap) == 0))
			kind := "stray:" + f.Name() + "(" + types.ExprString(call.Args[0]) + ")"
			if onHolder && argIsMember && lp.path == "NextHop" {
				switch {
				case f.Name() == "incNHRefCount" && lp.root == nw:
					kind = "inc-new-member"
				case f.Name() == "decNHRefCount" && lp.root == orig:
					kind = "dec-old-member"
				}
			}
			out = append(out, Event{Kind: kind, Node: call})
		}
		return out
	}
	// every member loop is taken to run once: what happens to one member happens to all
	pe := &pathEnum{info: info, ev: ev, cap: pathCap, atLeastOnce: func(n ast.Node) bool { return memberLoops[n] }, fd: fi.Decl}
	paths, _ := pe.run(reg.body)
	c.Sites += len(paths)
	if pe.overflow || len(pe.unsup) > 0 || len(paths) == 0 {
		c.undecided(rule, fi.Name, "body", reg.pos, "path enumeration incomplete")
		return
	}
	bad := ""
	origNil := eqAtom("nil", varKey(orig))
	for _, p := range paths {
		if p.End == "panic" {
			continue
		}
		repeated := false
		for _, cs := range p.Conds {
			if cs.Expr != nil && seenGuards[cs.Expr] && cs.Taken {
				repeated = true // a later occurrence of a member already counted: nothing is due
			}
		}
		if repeated {
			continue
		}
		var evs []string
		for _, e := range p.Events {
			evs = append(evs, e.Kind)
		}
		sort.Strings(evs)
		got := strings.Join(evs, ",")
		isNil := p.Entails(&FLit{origNil, 2, 2})
		notNil := p.Entails(&FLit{origNil, 2, 1})
		switch {
		case isNil && got == "inc-new-member":
		case notNil && got == "dec-old-member,inc-new-member":
		case !isNil && !notNil:
			bad = "a path does not decide whether an entry was replaced: " + p.describe(c.P)
		default:
			want := "inc-new-member"
			if notNil {
				want = "dec-old-member,inc-new-member"
			}
			bad = fmt.Sprintf("per member the path performs [%s], want [%s] (every member of the new group gains a reference, every member of the replaced group loses one, unconditionally): %s", got, want, p.describe(c.P))
		}
	}
	c.check(bad == "" && len(memberLoops) >= 2, rule, fi.Name, "inc every new member, dec every replaced member", reg.pos,
		fmt.Sprintf("%d paths: for m in new.NextHop: inc(m.Index); if original != nil: for m in original.NextHop: dec(m.Index)", len(paths)), bad)
	// the domain of every counter loop names each member once: the installed group is a map keyed by
	// member id, so a later delete / replace / flush releases each member exactly once — a loop over the
	// wire list (a slice, which may repeat an id) counts a repeated member twice and the counter never
	// returns to zero.
	seenLoops := map[*ast.RangeStmt]bool{}
	for call, lp := range callLoop {
		f, ok := calleeObj(info, call).(*types.Func)
		if !ok || (f.Name() != "incNHRefCount" && f.Name() != "decNHRefCount") || !memberLoops[lp.rs] || seenLoops[lp.rs] {
			continue
		}
		seenLoops[lp.rs] = true
	}
	var loops []*ast.RangeStmt
	for rs := range seenLoops {
		loops = append(loops, rs)
	}
	sort.Slice(loops, func(i, j int) bool { return loops[i].Pos() < loops[j].Pos() })
	for i, rs := range loops {
		c.Sites++
		c.check(dupFree[rs] != "", rule, fi.Name, fmt.Sprintf("counter loop #%d visits every member once", i+1), c.P.pos(rs.Pos()), dupFree[rs],
			"the counter loop ranges over "+types.ExprString(rs.X)+", a list that may name the same next-hop twice, while the installed group holds each member once and every release (delete, replace, flush) iterates the installed map: a group listing one next-hop twice leaves its counter above zero for ever and the next-hop can never be deleted")
	}
}

// seenIdiom: the loop body starts with `if seen[id] { continue }` (or the comma-ok form) and records
// `seen[id] = true` at its top level, where id is the member id of the ranged value.
func seenIdiom(info *types.Info, fd *ast.FuncDecl, rs *ast.RangeStmt, val types.Object) *ast.IfStmt {
	if val == nil {
		return nil
	}
	var guard *ast.IfStmt
	isID := func(e ast.Expr) bool {
		o, p := selectorPath(info, resolveLocal(info, fd, e))
		return o == val && strings.Join(p, ".") == "Index"
	}
	var set types.Object
	guarded, recorded := false, false
	for _, st := range rs.Body.List {
		switch x := st.(type) {
		case *ast.IfStmt:
			if guarded || x.Else != nil || len(x.Body.List) != 1 {
				continue
			}
			if b, ok := x.Body.List[0].(*ast.BranchStmt); !ok || b.Tok != token.CONTINUE {
				continue
			}
			var ie *ast.IndexExpr
			if x.Init == nil {
				ie, _ = ast.Unparen(x.Cond).(*ast.IndexExpr)
			} else if as, ok := x.Init.(*ast.AssignStmt); ok && len(as.Lhs) == 2 && len(as.Rhs) == 1 && objOfIdent(info, x.Cond) != nil && objOfIdent(info, x.Cond) == objOfIdent(info, as.Lhs[1]) {
				ie, _ = ast.Unparen(as.Rhs[0]).(*ast.IndexExpr)
			}
			if ie != nil && isID(ie.Index) {
				if m, ok := objOfIdent(info, ie.X).(*types.Var); ok && !m.IsField() {
					if _, isMap := m.Type().Underlying().(*types.Map); isMap {
						set, guarded, guard = m, true, x
					}
				}
			}
		case *ast.AssignStmt:
			if guarded && x.Tok == token.ASSIGN && len(x.Lhs) == 1 {
				if ie, ok := ast.Unparen(x.Lhs[0]).(*ast.IndexExpr); ok && objOfIdent(info, ie.X) == set && isID(ie.Index) {
					recorded = true
				}
			}
		case *ast.ExprStmt:
			// a counter call before the id is recorded as seen defeats the guard only if it precedes the guard
			if !guarded {
				for range callsIn(x) {
					return nil
				}
			}
		}
	}
	if guarded && recorded {
		return guard
	}
	return nil
}

// R3.2
func ruleDeleteRefs(c *Ctx) {
	const rule = "DELETE-REFS"
	fi := c.need("rib", "RIB", "DeleteEntry")
	ks := c.kindsOK()
	if fi == nil || ks == nil {
		return
	}
	info := fi.Pkg.TypesInfo
	_ = recvName
	// which locals receive the results of each DeleteXXX
	type res struct {
		removed, orig, err types.Object
		origTerm           string
	}
	got := map[string]res{}
	var holder string
	ast.Inspect(fi.Decl.Body, func(n ast.Node) bool {
		as, ok := n.(*ast.AssignStmt)
		if !ok || len(as.Rhs) != 1 || len(as.Lhs) != 3 {
			return true
		}
		call, ok := ast.Unparen(as.Rhs[0]).(*ast.CallExpr)
		if !ok {
			return true
		}
		for _, k := range ks {
			if calleeObj(info, call) == k.Delete.Obj {
				got[k.Table] = res{objOfIdent(info, as.Lhs[0]), objOfIdent(info, as.Lhs[1]), objOfIdent(info, as.Lhs[2]), nameOrBlank(objOfIdent(info, as.Lhs[1]))}
				if se, ok := ast.Unparen(call.Fun).(*ast.SelectorExpr); ok {
					holder = refRole(info, fi.Decl, se.X)
				}
			}
		}
		return true
	})
	if len(got) != 5 {
		c.vanished(rule, fi.Name, "DeleteXXX calls", fmt.Sprintf("found result assignments for %d of the 5 DeleteXXX", len(got)))
		return
	}
	origKind := map[types.Object]*Kind{}
	for _, k := range ks {
		if o := got[k.Table].orig; o != nil {
			origKind[o] = k
		}
	}
	ev := refEvents(fi)
	base := ev
	// add events marking which DeleteXXX ran
	ev = func(n ast.Node) []Event {
		out := base(n)
		for _, call := range callsIn(n) {
			for _, k := range ks {
				if calleeObj(info, call) == k.Delete.Obj {
					out = append([]Event{{Kind: "delete:" + k.Table, Node: call}}, out...)
				}
			}
		}
		return out
	}
	atLeastOnce := func(n ast.Node) bool { return false }
	paths, pe := enumFunc(fi, ev, atLeastOnce)
	c.Sites += len(paths)
	if pe.overflow || len(pe.unsup) > 0 {
		c.undecided(rule, fi.Name, "body", c.P.pos(fi.Decl.Pos()), "path enumeration incomplete")
		return
	}
	bad := map[string]string{}
	seen := map[string]int{}
	nRemoved, nOrigPresent := map[string]int{}, map[string]int{}
	for _, p := range paths {
		var k *Kind
		for _, e := range p.Events {
			if strings.HasPrefix(e.Kind, "delete:") {
				for _, kk := range ks {
					if "delete:"+kk.Table == e.Kind {
						k = kk
					}
				}
			}
		}
		if k == nil || p.End == "panic" {
			continue
		}
		seen[k.Table]++
		r := got[k.Table]
		f := factsAfter(info, p, -1, len(p.Events))
		var evs []string
		for _, e := range p.Events {
			if !strings.HasPrefix(e.Kind, "delete:") {
				evs = append(evs, e.Kind)
			}
		}
		gotEv := strings.Join(evs, ";")
		removed := r.removed != nil && r.err != nil && f.Obj(r.removed) == +1 && f.Obj(r.err) == -1
		origNonNil := r.orig != nil && f.Obj(r.orig) == +1
		origNil := r.orig == nil || f.Obj(r.orig) == -1
		if removed {
			nRemoved[k.Table]++
			if origNonNil {
				nOrigPresent[k.Table]++
			}
		}
		want := ""
		switch {
		case !removed:
			want = ""
		case k.TopLevel && origNonNil:
			want = fmt.Sprintf("decNHG[refdRIB(%s,%s.NextHopGroupNetworkInstance)](%s.NextHopGroup)", holder, r.origTerm, r.origTerm)
		case k.Table == "NextHopGroup" && origNonNil:
			// a loop over the members: zero or one iteration in the structural model
			wantOne := fmt.Sprintf("decNH[%s](%s)", holder, "?")
			if !deleteNHGLoopOK(info, fi, r.orig, holder) {
				bad[k.Table] = "removing a group does not release every member's reference in the group's own instance (no loop over the removed group's members calling decNHRefCount)"
				continue
			}
			if gotEv == "" {
				continue // loop×0 path
			}
			_ = wantOne
			okLoop := false
			// the event must be decNH on the holder with the ranged key/value of originalNHG.NextHop
			if strings.HasPrefix(gotEv, "decNH["+holder+"](") && !strings.Contains(gotEv, ";") {
				okLoop = deleteNHGLoopOK(info, fi, r.orig, holder)
			}
			if !okLoop {
				bad[k.Table] = "removing a group must release exactly its own members in its own instance; got [" + gotEv + "]"
			}
			continue
		case origNil:
			want = ""
		default:
			continue // nil-ness of the original not decided on this path (cannot happen with a tagless switch on it)
		}
		// a refdRIB failure ends the path fatally before the decrement
		if want != "" && gotEv == "" {
			if rs, ok := p.EndNode.(*ast.ReturnStmt); ok && len(rs.Results) == 3 && !isNilIdent(info, rs.Results[2]) {
				continue
			}
		}
		if gotEv != want {
			bad[k.Table] = fmt.Sprintf("reference bookkeeping on a path with removed=%v original-present=%v is [%s], expected [%s] (%s)", removed, origNonNil, gotEv, want, p.describe(c.P))
		}
	}
	for _, k := range ks {
		if seen[k.Table] == 0 {
			c.vanished(rule, fi.Name, "arm "+k.Table, "no path deletes a "+k.Table)
			continue
		}
		// the entry that DeleteXXX hands back must be looked at on some path that removed something: when it goes
		// into a variable nobody tests, no path is known to hold a removed entry and nothing above was compared
		if (k.TopLevel || k.Table == "NextHopGroup") && bad[k.Table] == "" && nRemoved[k.Table] > 0 && nOrigPresent[k.Table] == 0 {
			bad[k.Table] = fmt.Sprintf("no path that removed a %s knows the removed entry to be present (the value returned by %s is not the one tested): its references are never released", k.Table, k.Delete.Obj.Name())
		}
		okd := "releases the removed entry's group in the referenced instance, only when something was removed"
		if k.Table == "NextHopGroup" {
			okd = "releases every member of the removed group in the group's own instance"
		}
		if k.Table == "NextHop" {
			okd = "next-hops reference nothing: no counter is touched"
		}
		c.check(bad[k.Table] == "", rule, fi.Name, "arm "+k.Table, c.P.pos(fi.Decl.Pos()), fmt.Sprintf("%d paths; %s", seen[k.Table], okd), bad[k.Table])
	}
}

// deleteNHGLoopOK: the decrement loop ranges over <orig>.NextHop and releases each member on the holder.
func deleteNHGLoopOK(info *types.Info, fi *FuncInfo, orig types.Object, holder string) bool {
	ok := false
	inspectNoFuncLit(fi.Decl.Body, func(n ast.Node) bool {
		rs, isR := n.(*ast.RangeStmt)
		if !isR {
			return true
		}
		ro, rp := selectorPath(info, rs.X)
		if ro != orig || strings.Join(rp, ".") != "NextHop" || len(rs.Body.List) != 1 {
			return true
		}
		for _, call := range callsIn(rs.Body) {
			if f, isF := calleeObj(info, call).(*types.Func); isF && f.Name() == "decNHRefCount" {
				se := ast.Unparen(call.Fun).(*ast.SelectorExpr)
				if refRole(info, fi.Decl, se.X) != holder {
					continue
				}
				// argument: the map key (member index) or value.Index
				if objOfIdent(info, call.Args[0]) != nil && objOfIdent(info, call.Args[0]) == objOfIdent(info, rs.Key) {
					ok = true
				}
				if ao, ap := selectorPath(info, call.Args[0]); ao != nil && ao == objOfIdent(info, rs.Value) && strings.Join(ap, ".") == "Index" {
					ok = true
				}
			}
		}
		return true
	})
	return ok
}

// R3.3
func ruleFlushRefs(c *Ctx) {
	const rule = "FLUSH-REFS"
	fi := c.need("rib", "RIB", "Flush")
	ks := c.kindsOK()
	if fi == nil || ks == nil {
		return
	}
	info := fi.Pkg.TypesInfo
	_ = recvName
	helpers := c.P.holderHelpers()
	// loops over the holder's tables
	seen := map[string]bool{}
	inspectNoFuncLit(fi.Decl.Body, func(n ast.Node) bool {
		rs, ok := n.(*ast.RangeStmt)
		if !ok {
			return true
		}
		table := tableOfExpr(info, rs.X)
		if table == "" || !rootedAtHolderR(info, rs.X) {
			return true
		}
		var k *Kind
		for _, kk := range ks {
			if kk.Table == table {
				k = kk
			}
		}
		if k == nil {
			return true
		}
		holderExpr := holderOf(rs.X)
		holderTerm := refRole(info, fi.Decl, holderNode(rs.X))
		keyO, valO := objOfIdent(info, rs.Key), objOfIdent(info, rs.Value)
		// does the body remove the ranged key from this table?
		removes := false
		for _, call := range callsIn(rs.Body) {
			if f, ok := calleeObj(info, call).(*types.Func); ok {
				if hi := helpers[f]; hi != nil && hi.Deletes[table] && len(call.Args) == 1 && objOfIdent(info, call.Args[0]) == keyO && keyO != nil {
					if se, ok := ast.Unparen(call.Fun).(*ast.SelectorExpr); ok && types.ExprString(se.X) == holderExpr {
						removes = true
					}
				}
			}
			// through a local closure (delNHG)
			if id, ok := ast.Unparen(call.Fun).(*ast.Ident); ok {
				if v, ok := info.ObjectOf(id).(*types.Var); ok {
					if fl, ok := ast.Unparen(soleDefinition(info, fi.Decl, v)).(*ast.FuncLit); ok && len(call.Args) == 1 && objOfIdent(info, call.Args[0]) == keyO && keyO != nil {
						for _, ic := range callsIn(fl.Body) {
							if f, ok := calleeObj(info, ic).(*types.Func); ok {
								if hi := helpers[f]; hi != nil && hi.Deletes[table] {
									removes = true
								}
							}
						}
					}
				}
			}
		}
		if !removes {
			return true // e.g. the pre-pass collecting backup group ids
		}
		seen[table] = true
		c.Sites++
		pos := c.P.pos(rs.Pos())
		if !k.TopLevel {
			c.ok(rule, fi.Name, "loop "+table, pos, "removes every "+table+" of the instance (member references are released by the removal helper)")
			return true
		}
		if valO == nil {
			c.fail(rule, fi.Name, "loop "+table, pos, "the flushed entry is not bound, its group reference cannot be released")
			return true
		}
		ev := refEvents(fi)
		paths, _ := enumPaths(info, rs.Body.List, ev)
		want := fmt.Sprintf("decNHG[refdRIB(%s,%s.NextHopGroupNetworkInstance)](%s.NextHopGroup)", holderTerm, valO.Name(), valO.Name())
		bad := ""
		for _, p := range paths {
			var evs []string
			for _, e := range p.Events {
				evs = append(evs, e.Kind)
			}
			gotEv := strings.Join(evs, ";")
			// the path on which refdRIB failed releases nothing (logged)
			errKnownNonNil := false
			for _, cs := range p.Conds {
				if cs.Expr != nil && cs.Taken && strings.Contains(types.ExprString(cs.Expr), "!= nil") {
					errKnownNonNil = true
				}
			}
			if gotEv == "" && errKnownNonNil {
				continue
			}
			if gotEv != want {
				bad = fmt.Sprintf("flushing a %s must release its group reference exactly once: got [%s], expected [%s]", table, gotEv, want)
			}
		}
		c.check(bad == "", rule, fi.Name, "loop "+table, pos, "dec of the entry's group in the referenced instance + removal of the ranged key", bad)
		return true
	})
	for _, k := range ks {
		if !seen[k.Table] {
			c.fail(rule, fi.Name, "loop "+k.Table, c.P.pos(fi.Decl.Pos()), "Flush has no loop removing the "+k.Table+" entries of the flushed instance")
		}
	}
	// locklessDeleteNHG releases every member before deleting the group
	for f, hi := range helpers {
		if hi.Merges || !hi.Deletes["NextHopGroup"] {
			continue
		}
		hf := c.P.infoFor(f)
		callers := c.P.callGraph().callersOf(f)
		isFlushHelper := false
		for _, cl := range callers {
			if cl == fi.Obj {
				isFlushHelper = true
			}
		}
		if !isFlushHelper {
			continue
		}
		hinfo := hf.Pkg.TypesInfo
		hrecv := recvObj(hinfo, hf.Decl)
		ok := false
		inspectNoFuncLit(hf.Decl.Body, func(n ast.Node) bool {
			rs, isR := n.(*ast.RangeStmt)
			if !isR || len(rs.Body.List) != 1 {
				return true
			}
			_, rp := selectorPath(hinfo, rs.X)
			if len(rp) == 0 || rp[len(rp)-1] != "NextHop" {
				return true
			}
			for _, call := range callsIn(rs.Body) {
				if fn, isF := calleeObj(hinfo, call).(*types.Func); isF && fn.Name() == "decNHRefCount" {
					se := ast.Unparen(call.Fun).(*ast.SelectorExpr)
					if objOfIdent(hinfo, se.X) == hrecv && objOfIdent(hinfo, call.Args[0]) != nil && objOfIdent(hinfo, call.Args[0]) == objOfIdent(hinfo, rs.Key) {
						ok = true
					}
				}
			}
			return true
		})
		c.Sites++
		c.check(ok, rule, hf.Name, "flush removal of a group releases its members", c.P.pos(hf.Decl.Pos()), "for every member index of the removed group: decNHRefCount on the same holder", "the flush-path removal of a group does not release its members' references")
	}
}

func holderNode(e ast.Expr) ast.Expr {
	for {
		e = ast.Unparen(e)
		se, ok := e.(*ast.SelectorExpr)
		if !ok {
			return e
		}
		if se.Sel.Name == "r" {
			return se.X
		}
		e = se.X
	}
}

func holderOf(e ast.Expr) string {
	// <holder>.r.Afts.<Table> → <holder>
	for {
		e = ast.Unparen(e)
		se, ok := e.(*ast.SelectorExpr)
		if !ok {
			return types.ExprString(e)
		}
		if se.Sel.Name == "r" {
			return types.ExprString(se.X)
		}
		e = se.X
	}
}

// R3.4
func ruleCanDeleteTable(c *Ctx) {
	fi := c.need("rib", "RIB", "canDelete")
	if fi == nil {
		return
	}
	info := fi.Pkg.TypesInfo
	recv, netInst, cand := recvName(fi), paramName(fi, 0), paramName(fi, 1)
	_ = netInst
	caft := cand + ".Afts"
	aNilAfts := eqAtom(caft, "nil")
	aCandErr := eqAtom("call:checkCandidate#1", "nil")
	aNIok := "b:call:NetworkInstanceRIB#1.1"
	lenAtom := func(t string) string { k, _ := orderAtom("const:0", "len("+caft+"."+t+")"); return k }
	a4, a6, aM := lenAtom("Ipv4Entry"), lenAtom("Ipv6Entry"), lenAtom("LabelEntry")
	// events: which existence / reference predicates are consulted
	ev := func(n ast.Node) []Event { return nil }
	_ = ev
	_ = info
	_ = recv
	// The verdict for groups / next-hops is inside loops over the candidate's
	// single entry; model them with the loop known to run once when the table is non-empty.
	runTable(c, tableSpec{
		Rule: "TABLE-CAN-DELETE", Fn: fi, Construct: "canDelete: top-level kinds are always deletable",
		Atoms: map[string]int{aNilAfts: 2, aCandErr: 2, aNIok: 2, a4: 3, a6: 3, aM: 3},
		Expected: func(v *Valuation) (string, bool) {
			switch {
			case v.B(aNilAfts):
				return "ret(false, err(plain))", true
			case !v.B(aCandErr):
				return "ret(false, call:checkCandidate)", true
			case !v.B(aNIok):
				return "ret(false, err(plain))", true
			case v.Ord(a4) != 0 || v.Ord(a6) != 0 || v.Ord(aM) != 0:
				return "ret(true, nil)", true
			}
			return "", false // group / next-hop verdicts: checked by the loop obligations below
		},
	})
	// group / next-hop arms
	for _, t := range []struct{ table, exists, referenced string }{{"NextHopGroup", "nhgExists", "nhgReferenced"}, {"NextHop", "nhExists", "nhReferenced"}} {
		var rs *ast.RangeStmt
		for _, st := range fi.Decl.Body.List {
			if r, ok := st.(*ast.RangeStmt); ok && tableOfExpr(info, r.X) == t.table {
				rs = r
			}
		}
		if rs == nil {
			c.vanished("CAN-DELETE", fi.Name, t.table+" arm", "no loop over the candidate's "+t.table)
			continue
		}
		key := objOfIdent(info, rs.Key)
		if key == nil {
			c.undecided("CAN-DELETE", fi.Name, t.table+" arm", c.P.pos(rs.Pos()), "the candidate's key is not bound")
			continue
		}
		// the holder consulted: local from r.NetworkInstanceRIB(netInst)
		evp := func(n ast.Node) []Event {
			var out []Event
			for _, call := range callsIn(n) {
				if f, ok := calleeObj(info, call).(*types.Func); ok && recvTypeName(f) == "RIBHolder" && len(call.Args) == 1 && objOfIdent(info, call.Args[0]) == key {
					out = append(out, Event{Kind: f.Name(), Node: call})
				}
			}
			return out
		}
		pe := &pathEnum{info: info, ev: evp, cap: pathCap, fd: fi.Decl}
		paths, _ := pe.run(rs.Body.List)
		c.Sites += len(paths)
		good, why := len(paths) > 0, ""
		zeroK, _ := orderAtom("const:0", key.Name())
		for _, p := range paths {
			out := defaultOutcomeNoEv(info, fi.Decl, p)
			zero := p.Entails(&FLit{zeroK, 3, 2})
			nonzero := p.Entails(&FLit{zeroK, 3, 5})
			existsT := p.Entails(&FLit{"b:call:" + t.exists + "#1", 2, 2})
			existsF := p.Entails(&FLit{"b:call:" + t.exists + "#1", 2, 1})
			switch {
			case zero && out == "ret(false, err(plain))":
			case nonzero && existsF && out == "ret(true, nil)":
			case nonzero && existsT && out == "ret(!call:"+t.referenced+", nil)" && p.has(t.referenced):
			default:
				good, why = false, fmt.Sprintf("path %s yields %s (zero=%v nonzero=%v exists=%v/%v)", p.describe(c.P), out, zero, nonzero, existsT, existsF)
			}
		}
		c.check(good, "CAN-DELETE", fi.Name, t.table+": id 0 → error; not installed → deletable; else deletable ⇔ not referenced", c.P.pos(rs.Pos()), fmt.Sprintf("%d paths", len(paths)), why)
	}
}

// counter primitives' shape
func ruleCounterPrimitives(c *Ctx) {
	const rule = "COUNTER-PRIMITIVES"
	for _, t := range []struct{ name, fld, kind string }{
		{"incNHGRefCount", "NextHopGroup", "inc"}, {"decNHGRefCount", "NextHopGroup", "dec"}, {"nhgReferenced", "NextHopGroup", "ref"},
		{"incNHRefCount", "NextHop", "inc"}, {"decNHRefCount", "NextHop", "dec"}, {"nhReferenced", "NextHop", "ref"},
	} {
		fi := c.need("rib", "RIBHolder", t.name)
		if fi == nil {
			continue
		}
		info := fi.Pkg.TypesInfo
		p0 := paramObjs(info, fi.Decl)[0]
		c.Sites++
		onField := func(e ast.Expr) bool {
			ie, ok := ast.Unparen(e).(*ast.IndexExpr)
			if !ok || frameArgRoot(info, fi.Decl, objOfIdent(info, ie.Index)) != p0 {
				return false
			}
			// (a map handed to a spliced-in helper as a parameter stands for the argument)
			x := ast.Unparen(ie.X)
			for hops := 0; hops < 3; hops++ {
				id, isID := x.(*ast.Ident)
				if !isID {
					break
				}
				var arg ast.Expr
				for _, fr := range framesIn(fi.Decl) {
					if a, ok := fr.Binds[info.ObjectOf(id)]; ok {
						arg = a
					}
				}
				if arg == nil {
					break
				}
				x = ast.Unparen(arg)
			}
			se, ok := x.(*ast.SelectorExpr)
			return ok && se.Sel.Name == t.fld
		}
		// an assignment that only defines locals (e.g. the parameter bindings of a spliced-in helper) changes no counter
		definesLocals := func(as *ast.AssignStmt) bool {
			if as.Tok != token.DEFINE {
				return false
			}
			for _, l := range as.Lhs {
				if _, ok := l.(*ast.Ident); !ok {
					return false
				}
			}
			return true
		}
		good, why := false, ""
		switch t.kind {
		case "inc":
			n := 0
			inspectNoFuncLit(fi.Decl.Body, func(m ast.Node) bool {
				switch s := m.(type) {
				case *ast.IncDecStmt:
					n++
					good = s.Tok == token.INC && onField(s.X)
				case *ast.AssignStmt:
					if definesLocals(s) {
						break
					}
					n++
					good = false
				case *ast.ReturnStmt:
					if len(s.Results) > 0 {
						n += 10
					}
				case *ast.IfStmt, *ast.SwitchStmt:
					n += 10
				}
				return true
			})
			good = good && n == 1
			why = "expected a single unconditional counter[" + p0.Name() + "]++"
		case "dec":
			paths, _ := enumPaths(info, fi.Decl.Body.List, func(n ast.Node) []Event {
				var out []Event
				inspectNoFuncLit(n, func(m ast.Node) bool {
					if s, ok := m.(*ast.IncDecStmt); ok && s.Tok == token.DEC && onField(s.X) {
						out = append(out, Event{Kind: "dec", Node: s})
					} else if _, ok := m.(*ast.IncDecStmt); ok {
						out = append(out, Event{Kind: "other", Node: m})
					}
					if as, ok := m.(*ast.AssignStmt); ok && !definesLocals(as) {
						out = append(out, Event{Kind: "other", Node: m})
					}
					return true
				})
				return out
			})
			good = len(paths) == 2
			zk, _ := orderAtom("const:0", recvName(fi)+".refCounts."+t.fld+"["+p0.Name()+"]")
			for _, p := range paths {
				zero := p.Entails(&FLit{zk, 3, 2})
				switch {
				case zero && len(p.Events) == 0:
				case !zero && len(p.Events) == 1 && p.Events[0].Kind == "dec":
				default:
					good = false
				}
			}
			why = "expected: if counter == 0 return; counter--"
		case "ref":
			// every return yields a formula equivalent to counter[i] > 0 (locals
			// holding the comparison are inlined by the translator)
			good = true
			nret := 0
			counter := recvName(fi) + ".refCounts." + t.fld + "[" + p0.Name() + "]"
			paths, pe := enumPaths(info, fi.Decl.Body.List, func(ast.Node) []Event { return nil })
			if pe.overflow || len(pe.unsup) > 0 {
				good = false
			}
			for _, p := range paths {
				rs, ok := p.EndNode.(*ast.ReturnStmt)
				if !ok || p.End != "return" {
					good = false
					continue
				}
				nret++
				if len(rs.Results) != 1 {
					good = false
					continue
				}
				f := pe.xlatP(&p).formula(rs.Results[0])
				zk, zflip := orderAtom(counter, "const:0")
				lit, isLit := f.(*FLit)
				if !isLit || lit.Atom != zk {
					// a local holding the comparison: equivalent to counter > 0 on this path
					want := &FLit{zk, 3, maskFor(token.GTR, zflip)}
					if p.Entails(fnot(fand(f, fnot(want)))) && p.Entails(fnot(fand(want, fnot(f)))) {
						continue
					}
				}
				if !isLit {
					good = false
					continue
				}
				ok0 := lit.Atom == zk && (lit.Mask == maskFor(token.GTR, zflip) || lit.Mask == maskFor(token.NEQ, zflip))
				ok1 := false
				if k1, f1 := orderAtom(counter, "const:1"); lit.Atom == k1 {
					ok1 = lit.Mask == maskFor(token.GEQ, f1)
				}
				if !ok0 && !ok1 {
					good = false
				}
			}
			good = good && nret >= 1
			why = "expected: return counter[" + p0.Name() + "] > 0"
		}
		c.check(good, rule, fi.Name, "shape", c.P.pos(fi.Decl.Pos()), t.kind+" of "+t.fld+"["+p0.Name()+"]", "counter primitive deviates: "+why)
	}
}

// R3.5
func ruleCounterCallers(c *Ctx) {
	const rule = "COUNTER-CALLERS"
	cg := c.P.callGraph()
	allow := map[string][]string{
		"incNHGRefCount": {"rib.handleReferences"},
		"decNHGRefCount": {"rib.handleReferences", "rib.(*RIB).DeleteEntry", "rib.(*RIB).Flush"},
		"incNHRefCount":  {"rib.(*RIB).handleNHGReferences"},
		"decNHRefCount":  {"rib.(*RIB).handleNHGReferences", "rib.(*RIB).DeleteEntry", "rib.(*RIBHolder).locklessDeleteNHG"},
	}
	if c.P.Func("rib", "RIB", "handleNHGReferences") == nil {
		// the helper was folded into its only caller, which takes its place in the audit (NHG-REFERENCES judges the
		// bookkeeping there)
		for _, n := range []string{"incNHRefCount", "decNHRefCount"} {
			allow[n] = append(allow[n], "rib.(*RIB).addEntryInternal")
		}
	}
	for _, name := range []string{"incNHGRefCount", "decNHGRefCount", "incNHRefCount", "decNHRefCount"} {
		fi := c.need("rib", "RIBHolder", name)
		if fi == nil {
			continue
		}
		var bad, all []string
		for _, cl := range cg.callersOf(fi.Obj) {
			dn := displayName(cl)
			all = append(all, dn)
			// an audited function, or a helper all of whose callers are audited (its
			// effect is then accounted at those call sites through its summary)
			var okCaller func(f *types.Func, depth int) bool
			okCaller = func(f *types.Func, depth int) bool {
				for _, a := range allow[name] {
					if a == displayName(f) {
						return true
					}
				}
				if depth >= 3 {
					return false
				}
				// a helper new to the rules is spliced into its callers (or judged in the second view), so its
				// effect is accounted where it is called; an older helper must have a decidable summary
				if _, decidable := refHelperSummary(f); !decidable && !isNewFunc(f) {
					return false
				}
				cs := cg.callersOf(f)
				if len(cs) == 0 {
					return false
				}
				for _, c2 := range cs {
					if c2 == f || !okCaller(c2, depth+1) {
						return false
					}
				}
				return true
			}
			if !okCaller(cl, 0) {
				bad = append(bad, dn)
			}
		}
		c.Sites += len(all)
		c.check(len(bad) == 0 && len(all) > 0, rule, fi.Name, "callers", c.P.pos(fi.Decl.Pos()), "called only from "+strings.Join(all, ", "), "counter primitive called from unaudited code: "+strings.Join(bad, ", ")+" (audited: "+strings.Join(allow[name], ", ")+")")
	}
	// stores to the counter maps only inside the primitives — or in a helper new to the rules that only the
	// primitives call (an extracted piece of them)
	cgW := c.P.callGraph()
	var viaPrimitive func(d *types.Func, depth int) bool
	viaPrimitive = func(d *types.Func, depth int) bool {
		if (strings.HasPrefix(d.Name(), "inc") || strings.HasPrefix(d.Name(), "dec")) && recvTypeName(d) == "RIBHolder" && !isNewFunc(d) {
			return true
		}
		if !isNewFunc(d) || depth >= 3 {
			return false
		}
		cs := cgW.callersOf(d)
		if len(cs) == 0 {
			return false
		}
		for _, c2 := range cs {
			if !viaPrimitive(c2, depth+1) {
				return false
			}
		}
		return true
	}
	for _, fld := range []string{"NextHop", "NextHopGroup"} {
		fv := c.P.Field("rib", "niRefCounter", fld)
		if fv == nil {
			c.vanished(rule, "rib.niRefCounter", fld, "field not found")
			continue
		}
		var bad []string
		n := 0
		for _, sp := range c.P.SSAPkgs {
			if isGeneratedPkg(sp.Pkg.Path()) {
				continue
			}
			for fn := range ssaFuncsOf(c.P, sp) {
				allInstrs(fn, true, func(f *ssaFn, _ *ssaBlock, in ssaInstr) {
					// delete(m, k) / clear(m) on the counter map: an entry (or all of them) is forgotten, whatever it counted
					if call, ok := in.(*ssaCall); ok {
						if b, isB := call.Call.Value.(*ssaBuiltin); isB && (b.Name() == "delete" || b.Name() == "clear") && len(call.Call.Args) >= 1 && isLoadOfField(call.Call.Args[0], fv) {
							n++
							nm := "?"
							if d := declaredOf(f); d != nil {
								nm = displayName(d)
							}
							bad = append(bad, nm+" ("+b.Name()+"s counter entries)")
						}
					}
					if mu, ok := in.(*ssaMapUpdate); ok {
						if isLoadOfField(mu.Map, fv) {
							n++
							d := declaredOf(f)
							if d == nil || !viaPrimitive(d, 0) {
								nm := "?"
								if d != nil {
									nm = displayName(d)
								}
								bad = append(bad, nm)
							}
						}
					}
				})
			}
		}
		// the map itself is only ever assigned by the constructor of the holder
		c.P.fieldWriteOnce(fv)
		for _, st := range c.P.fieldStores[fv] {
			n++
			d := declaredOf(st.Parent())
			if d == nil || !onBehalfOf(cgW, d, func(g *types.Func) bool { return g.Name() == "NewRIBHolder" && !isNewFunc(g) }) {
				nm := "?"
				if d != nil {
					nm = displayName(d)
				}
				bad = append(bad, nm+" (replaces the whole map)")
			}
		}
		c.Sites += n
		c.check(len(bad) == 0 && n >= 2, rule, "rib.niRefCounter", "writers of "+fld, "-", fmt.Sprintf("%d writes, all inside the inc/dec primitives or the holder's constructor", n), "reference counter "+fld+" written outside the audited primitives: "+strings.Join(bad, ", ")+" — counts of references held by entries elsewhere would be lost")
	}
}

// maskFor: the mask over {<,=,>} of "a op b" for the atom built by orderAtom(a, b).
func maskFor(op token.Token, flipped bool) uint8 {
	m := opMask[op]
	if flipped {
		m = flipMask(m)
	}
	return m
}

// ---- summaries of helpers wrapping reference events --------------------------------

var refSummaryMemo = map[*types.Func][]string{}
var refSummaryOK = map[*types.Func]bool{}
var refSummaryBusy = map[*types.Func]bool{}

// refHelperSummary: the reference events a rib helper performs, in terms of
// its own roles (recv, p0, …). Decidable when every path that returns a nil
// error (or has no error result) performs the same events and every failing
// path performs none. Functions without counter events have the empty summary.
func refHelperSummary(f *types.Func) ([]string, bool) {
	if s, ok := refSummaryMemo[f]; ok {
		return s, refSummaryOK[f]
	}
	if refSummaryBusy[f] || gProg == nil {
		return nil, true
	}
	fi := gProg.infoFor(f)
	if fi == nil || fi.Decl.Body == nil {
		return nil, true
	}
	// cheap pre-check: mentions a counter primitive or reference handler at all?
	mentions := false
	info := fi.Pkg.TypesInfo
	for _, call := range callsIn(fi.Decl.Body) {
		if g, ok := calleeObj(info, call).(*types.Func); ok && g.Pkg() != nil && g.Pkg().Path() == ribPkg {
			switch g.Name() {
			case "incNHGRefCount", "decNHGRefCount", "incNHRefCount", "decNHRefCount", "handleReferences", "handleNHGReferences":
				mentions = true
			}
		}
	}
	if !mentions {
		refSummaryMemo[f], refSummaryOK[f] = nil, true
		return nil, true
	}
	refSummaryBusy[f] = true
	defer delete(refSummaryBusy, f)
	paths, pe := enumFunc(fi, refEvents(fi), nil)
	ok := !pe.overflow && len(pe.unsup) == 0
	var sum []string
	have := false
	sig := fi.Obj.Type().(*types.Signature)
	errIdx := -1
	if n := sig.Results().Len(); n > 0 && types.Identical(sig.Results().At(n-1).Type(), types.Universe.Lookup("error").Type()) {
		errIdx = n - 1
	}
	for _, p := range paths {
		if p.End == "panic" {
			continue
		}
		var evs []string
		for _, e := range p.Events {
			evs = append(evs, e.Kind)
		}
		failing := false
		if rs, isRet := p.EndNode.(*ast.ReturnStmt); isRet && errIdx >= 0 && errIdx < len(rs.Results) {
			failing = !isNilIdent(info, rs.Results[errIdx])
		}
		if failing {
			if len(evs) > 0 {
				ok = false
			}
			continue
		}
		if !have {
			sum, have = evs, true
		} else if strings.Join(sum, ";") != strings.Join(evs, ";") {
			ok = false
		}
	}
	refSummaryMemo[f], refSummaryOK[f] = sum, ok
	return sum, ok
}

// substRoles replaces the role tokens (recv, p0, p1, …) of a helper's event by the caller's terms.
func substRoles(kind string, roles map[string]string) string {
	var b strings.Builder
	i := 0
	for i < len(kind) {
		if isIdentChar(kind[i]) && (i == 0 || !isIdentChar(kind[i-1]) && kind[i-1] != '.') {
			j := i
			for j < len(kind) && isIdentChar(kind[j]) {
				j++
			}
			tok := kind[i:j]
			if r, ok := roles[tok]; ok {
				b.WriteString(r)
			} else {
				b.WriteString(tok)
			}
			i = j
			continue
		}
		b.WriteByte(kind[i])
		i++
	}
	return b.String()
}

// nhgRegion: where the member bookkeeping of a next-hop-group install is written, with its roles.
type nhgRegion struct {
	fi           *FuncInfo
	body         []ast.Stmt
	holder, orig types.Object
	nw           types.Object                                // stands for "the new group" in events (a parameter, or the type-switch variable)
	isNew        func(root types.Object, path []string) bool // does root.path denote the new group's payload
	pos          string
}

func nhgRefRegion(c *Ctx) *nhgRegion {
	const rule = "NHG-REFERENCES"
	if fi := c.P.Func("rib", "RIB", "handleNHGReferences"); fi != nil && fi.Decl.Body != nil {
		c.Analysed[fi.Name] = true
		info := fi.Pkg.TypesInfo
		ps := paramObjs(info, fi.Decl)
		if len(ps) != 3 {
			c.undecided(rule, fi.Name, "signature", c.P.pos(fi.Decl.Pos()), "unexpected parameters")
			return nil
		}
		nw := ps[2]
		return &nhgRegion{fi: fi, body: fi.Decl.Body.List, holder: ps[0], orig: ps[1], nw: nw, pos: c.P.pos(fi.Decl.Pos()),
			isNew: func(root types.Object, path []string) bool { return root == nw && len(path) == 0 }}
	}
	// folded into the caller: the installed branch of the NextHopGroup arm of addEntryInternal
	fi := c.need("rib", "RIB", "addEntryInternal")
	ks := c.kindsOK()
	if fi == nil || ks == nil {
		return nil
	}
	info := fi.Pkg.TypesInfo
	var k *Kind
	for _, kk := range ks {
		if kk.Table == "NextHopGroup" {
			k = kk
		}
	}
	var ts *ast.TypeSwitchStmt
	inspectNoFuncLit(fi.Decl.Body, func(n ast.Node) bool {
		if t, ok := n.(*ast.TypeSwitchStmt); ok && ts == nil {
			ts = t
		}
		return true
	})
	if ts == nil || k == nil {
		c.vanished(rule, fi.Name, "next-hop-group arm", "neither handleNHGReferences nor a type switch over the operation's entry exists")
		return nil
	}
	var tvar types.Object
	for _, cc := range ts.Body.List {
		cl := cc.(*ast.CaseClause)
		if len(cl.List) != 1 || !isNamed(info.TypeOf(cl.List[0]), spbPath, k.OpOneof) {
			continue
		}
		tvar = info.Implicits[cl]
		var holder, orig, done types.Object
		ast.Inspect(cl, func(n ast.Node) bool {
			if as, ok := n.(*ast.AssignStmt); ok && len(as.Rhs) == 1 && len(as.Lhs) == 3 {
				if call, ok := ast.Unparen(as.Rhs[0]).(*ast.CallExpr); ok && calleeObj(info, call) == k.Add.Obj {
					if se, ok := ast.Unparen(call.Fun).(*ast.SelectorExpr); ok {
						holder = objOfIdent(info, se.X)
					}
					done, orig = objOfIdent(info, as.Lhs[0]), objOfIdent(info, as.Lhs[1])
				}
			}
			return true
		})
		if holder == nil || orig == nil || done == nil {
			continue
		}
		// the statements executed when done is true: `case done:` of a tagless switch, or `if done {…}`
		var body []ast.Stmt
		ast.Inspect(cl, func(n ast.Node) bool {
			switch x := n.(type) {
			case *ast.CaseClause:
				if len(x.List) == 1 && objOfIdent(info, x.List[0]) == done {
					body = x.Body
				}
			case *ast.IfStmt:
				if objOfIdent(info, x.Cond) == done && body == nil {
					body = x.Body.List
				}
			}
			return true
		})
		if body == nil {
			continue
		}
		tv := tvar
		return &nhgRegion{fi: fi, body: body, holder: holder, orig: orig, nw: tv, pos: c.P.pos(cl.Pos()),
			isNew: func(root types.Object, path []string) bool {
				return root == tv && len(path) == 2 && path[0] == k.OneofField && path[1] == k.PayloadFld
			}}
	}
	c.vanished(rule, fi.Name, "next-hop-group arm", "handleNHGReferences does not exist and the installed branch of the next-hop-group arm of addEntryInternal cannot be identified")
	return nil
}
