#!/usr/bin/env python3
"""Developer aid: adhoc.py <mutants.json>  — each mutant {id, file, old, new[, occ]} is applied through the overlay
loader (nothing is written to /repo) and all 19 quick checks run; prints which properties report it."""
import json, os, subprocess, sys, tempfile, shutil
from concurrent.futures import ThreadPoolExecutor
env0 = dict(os.environ, PATH="/opt/veriftools/go1.26.8/bin:" + os.environ["PATH"], GOTOOLCHAIN="local", GOFLAGS="-mod=mod", GOPROXY="off", GOSUMDB="off")
BIN = os.environ.get("GRIBILINT_BIN", "/verif/bin/gribilint")
REPO = os.environ.get("GRIBILINT_REPO", "/repo")
PROPS = [f"C{i:02d}" for i in range(1, 20)]
def run(m):
    src = open(os.path.join(REPO, m["file"])).read()
    parts = src.split(m["old"]); occ = m.get("occ", 0)
    if len(parts) - 1 <= occ: return m["id"], "SITE-NOT-FOUND", {}
    mut = m["old"].join(parts[:occ + 1]) + m["new"] + m["old"].join(parts[occ + 1:])
    tmp = tempfile.mkdtemp(prefix="gladhoc_")
    try:
        json.dump({m["file"]: mut}, open(tmp + "/overlay.json", "w"))
        shutil.copy("/verif/known_findings.json", tmp)
        env = dict(env0, GRIBILINT_OVERLAY=tmp + "/overlay.json", GRIBILINT_VERIF=tmp)
        hits = {}
        for p in (m.get("props") or PROPS):
            r = subprocess.run([BIN, p, "quick"], env=env, capture_output=True, text=True)
            if r.returncode == 2: return m["id"], "DOES-NOT-TYPECHECK " + (r.stdout + r.stderr)[:300], {}
            if r.returncode == 1:
                ls = [l for l in r.stdout.splitlines() if " VIOLATED " in l or " UNDECIDED " in l or " VANISHED " in l]
                hits[p] = ls[0][:230] if ls else "?"
        return m["id"], "ok", hits
    finally:
        shutil.rmtree(tmp, ignore_errors=True)
ms = json.load(open(sys.argv[1]))
with ThreadPoolExecutor(max_workers=6) as ex:
    for mid, st, hits in ex.map(run, ms):
        print(f"{mid:45s} {st if st != 'ok' else ''} {'MISSED' if st == 'ok' and not hits else ' '.join(sorted(hits))}")
        if "-v" in sys.argv:
            for p, l in hits.items(): print("      ", l)
