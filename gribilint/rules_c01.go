package main

// C01 — installed state equals the fold of acknowledged operations.

import (
	"fmt"
	"go/ast"
	"go/token"
	"go/types"
	"strings"
)

func init() { propRules["C01"] = rulesC01 }

func rulesC01(c *Ctx) {
	c.Decided = append(c.Decided,
		"R1.1 a replace is total: every function that merges a candidate into a holder's RIB first deletes the keyed entry of the installed kind, with a key derived from the entry being installed",
		"R1.2 the key is the named key: a wire-derived key never passes a narrowing integer conversion unless schema validation of the same entry or an explicit range test precedes it",
		"R1.3 failures leave no trace: no AddXXX/DeleteXXX returns 'not done' after its install/remove step ran (unless that step itself failed), and returns 'done' only after it ran; a DELETE of a missing key is a success and removes exactly the table/key of its own kind",
		"R1.4 the RIB verdicts are translated to FAILED / RIB_PROGRAMMED(+FIB_PROGRAMMED) one to one (shared with C06 R6.2)",
		"R1.6 an operation that is never answered leaves no trace: once doModify has failed the RPC it applies no further operation of the request (shared with C09 R9.9)",
		"R1.5 a held operation is later installed with its own network instance and payload (retry walk, shared with C02 R2.4)")
	c.NotDec = append(c.NotDec, "ygot's merge/validate semantics", "the order of effects across operations and interleaved flushes", "the fold over concrete histories")
	ribFamily(c, famSel{mergeTotal: true, noTrace: true, delIdem: true, keyAgree: true})
	ruleNarrowingKeys(c)
	ruleResultMapping(c)
	ruleExplicitReplace(c)
	ruleRetryAfterInstall(c)
	ruleOpResultID(c)
	ruleFatalEndsSession(c)
	ruleTableKeyIdentity(c)
	rulePendingWriters(c)    // an accepted operation that is held leaves the held set only with a verdict (shared with C02/C06)
	rulePendingPrimitives(c) // …
	ruleFlushTotal(c)        // a flush acknowledged OK leaves nothing installed in the flushed instances (shared with C08)
	ruleForwarderJoined(c)   // installed ⇒ acknowledged: a result produced for the stream is written before the RPC ends (shared with C06)
}

// R1.2
func ruleNarrowingKeys(c *Ctx) {
	const rule = "KEY-NARROWING"
	n, nf := 0, 0
	for _, fi := range c.P.AllFuncs("rib") {
		if fi.Decl.Body == nil {
			continue
		}
		info := fi.Pkg.TypesInfo
		// narrowing conversions of wire-derived values in this function
		var sites []*ast.CallExpr
		ast.Inspect(fi.Decl.Body, func(m ast.Node) bool {
			call, ok := m.(*ast.CallExpr)
			if !ok || len(call.Args) != 1 {
				return true
			}
			tv, ok := info.Types[call.Fun]
			if !ok || !tv.IsType() {
				return true
			}
			dst, ok1 := tv.Type.Underlying().(*types.Basic)
			at, ok2 := info.Types[call.Args[0]]
			if !ok1 || !ok2 {
				return true
			}
			src, ok3 := at.Type.Underlying().(*types.Basic)
			if !ok3 || dst.Info()&types.IsInteger == 0 || src.Info()&types.IsInteger == 0 {
				return true
			}
			if intBits(dst) >= intBits(src) {
				return true
			}
			if wireDerived(info, fi.Decl, call.Args[0]) {
				sites = append(sites, call)
			}
			return true
		})
		if len(sites) == 0 {
			continue
		}
		c.Analysed[fi.Name] = true
		nf++
		isSite := map[*ast.CallExpr]bool{}
		for _, s := range sites {
			isSite[s] = true
		}
		params := paramObjs(info, fi.Decl)
		var eObj types.Object
		if len(params) > 0 {
			eObj = params[0]
		}
		base := familyEvents(c, fi, c.P.holderHelpers(), eObj)
		ev := func(nd ast.Node) []Event {
			out := base(nd)
			inspectNoFuncLit(nd, func(m ast.Node) bool {
				if call, ok := m.(*ast.CallExpr); ok && isSite[call] {
					out = append(out, Event{Kind: "narrow", Node: call})
				}
				return true
			})
			return out
		}
		paths, pe := enumFunc(fi, ev, nil)
		if pe.overflow || len(pe.unsup) > 0 {
			c.undecided(rule, fi.Name, "body", c.P.pos(fi.Decl.Pos()), "path enumeration incomplete")
			continue
		}
		bad := map[*ast.CallExpr]string{}
		for _, p := range paths {
			for i, e := range p.Events {
				if e.Kind != "narrow" {
					continue
				}
				call := e.Node.(*ast.CallExpr)
				// (a) validated candidate of the same entry with nil error before the conversion
				sanitised := false
				for j := 0; j < i; j++ {
					if p.Events[j].Kind == "cand" {
						cd := p.Events[j].Data.(*addEvData)
						if cd.hasE && cd.err != nil && factsAfter(info, p, j, i).Obj(cd.err) == -1 {
							sanitised = true
						}
					}
				}
				// (b) an explicit range test of the same value against a constant
				if !sanitised {
					xt := &condXlat{info: info, fd: fi.Decl, uniq: new(int), pure: func(cl *ast.CallExpr) bool { return defaultPure(info, cl) }}
					t, _ := xt.term(call.Args[0])
					for _, cs := range p.Conds {
						if cs.At > i || cs.F == nil {
							continue
						}
						atoms := map[string]int{}
						atomsOf(cs.F, atoms)
						for a := range atoms {
							if strings.HasPrefix(a, "ord:") && strings.Contains(a, t) && strings.Contains(a, "const:") {
								// the path must have decided that the value is not above the bound
								k := a
								if p.Entails(&FLit{k, 3, 3}) || p.Entails(&FLit{k, 3, 6}) || p.Entails(&FLit{k, 3, 1}) || p.Entails(&FLit{k, 3, 4}) {
									sanitised = true
								}
							}
						}
					}
				}
				if !sanitised {
					bad[call] = "wire-derived key " + types.ExprString(call.Args[0]) + " is truncated by " + types.ExprString(call) + " without prior schema validation of the entry or a range test: distinct keys alias one table entry (" + p.describe(c.P) + ")"
				}
			}
		}
		for _, s := range sites {
			n++
			c.Sites++
			c.check(bad[s] == "", rule, fi.Name, "narrowing "+types.ExprString(s), c.P.pos(s.Pos()), "dominated by validation of the same entry or a range test", bad[s])
		}
	}
	c.floor(rule, "narrowing conversions of wire-derived keys", n, 2)
	c.floor(rule, "functions narrowing a wire-derived key (add and delete of the label table)", nf, 2)
}

func intBits(b *types.Basic) int {
	switch b.Kind() {
	case types.Int8, types.Uint8:
		return 8
	case types.Int16, types.Uint16:
		return 16
	case types.Int32, types.Uint32:
		return 32
	}
	return 64
}

// wireDerived: the expression is a getter chain rooted at a parameter whose type is a protobuf message.
func wireDerived(info *types.Info, fd *ast.FuncDecl, e ast.Expr) bool {
	obj, path := selectorPath(info, e)
	if obj == nil || len(path) == 0 {
		if id, ok := ast.Unparen(e).(*ast.Ident); ok {
			if v, ok := info.ObjectOf(id).(*types.Var); ok {
				if def := soleDefinition(info, fd, v); def != nil {
					return wireDerived(info, fd, def)
				}
			}
		}
		return false
	}
	if !isParamOf(info, fd, obj) {
		return false
	}
	n := namedOf(obj.Type())
	return n != nil && n.Obj().Pkg() != nil && (n.Obj().Pkg().Path() == aftpbPath || n.Obj().Pkg().Path() == spbPath)
}

// ruleExplicitReplace: REPLACE requires the entry to exist — each AddXXX
// refuses an explicit replace of a key that is not installed, before installing.
func ruleExplicitReplace(c *Ctx) {
	const rule = "EXPLICIT-REPLACE"
	ks := c.kindsOK()
	if ks == nil {
		return
	}
	helpers := c.P.holderHelpers()
	for _, k := range ks {
		fi := k.Add
		info := fi.Pkg.TypesInfo
		params := paramObjs(info, fi.Decl)
		if len(params) < 2 || params[1] == nil {
			continue
		}
		er := params[1]
		base := familyEvents(c, fi, helpers, params[0])
		ev := func(n ast.Node) []Event {
			out := base(n)
			for _, call := range callsIn(n) {
				if f, ok := calleeObj(info, call).(*types.Func); ok && recvTypeName(f) == "RIBHolder" && strings.HasSuffix(f.Name(), "Exists") {
					out = append(out, Event{Kind: "exists", Node: call})
				}
			}
			return out
		}
		paths, pe := enumFunc(fi, ev, nil)
		c.Sites += len(paths)
		if pe.overflow {
			c.undecided(rule, fi.Name, "body", c.P.pos(fi.Decl.Pos()), "path enumeration incomplete")
			continue
		}
		bad := ""
		seen := 0
		for _, p := range paths {
			ii := idx(p, "install")
			if ii < 0 {
				continue
			}
			// on a path that installs with explicitReplace == true, an existence test must have succeeded
			if !p.Entails(&FLit{"b:" + varKey(er), 2, 1}) { // not known to be false → may be an explicit replace
				seen++
				okExists := false
				for _, cs := range p.Conds {
					if cs.At <= ii && cs.F != nil {
						atoms := map[string]int{}
						atomsOf(cs.F, atoms)
						for a := range atoms {
							if strings.HasPrefix(a, "b:call:") && strings.Contains(a, "Exists#") {
								if p.Entails(fnot(fand(&FLit{"b:" + varKey(er), 2, 2}, &FLit{a, 2, 1}))) {
									okExists = true
								}
							}
						}
					}
				}
				if !okExists {
					bad = "an explicit REPLACE can reach the install step without the entry having been found installed: " + p.describe(c.P)
				}
			}
		}
		if seen == 0 {
			c.vanished(rule, fi.Name, "install paths", "no install path that may be an explicit replace")
			continue
		}
		c.check(bad == "", rule, fi.Name, "explicit replace requires an installed entry", c.P.pos(fi.Decl.Pos()), fmt.Sprintf("%d install paths", seen), bad)
	}
	// addEntryInternal: explicitReplace ⇔ op is REPLACE
	fi := c.need("rib", "RIB", "addEntryInternal")
	if fi == nil {
		return
	}
	info := fi.Pkg.TypesInfo
	ok := false
	var erVar types.Object
	ast.Inspect(fi.Decl.Body, func(n ast.Node) bool {
		if as, isAs := n.(*ast.AssignStmt); isAs && len(as.Lhs) == 1 && len(as.Rhs) == 1 {
			if b, isB := boolConst(info, as.Rhs[0]); isB && b {
				if ifs := enclosingIf(fi.Decl.Body, as); ifs != nil {
					if be, isBe := ast.Unparen(ifs.Cond).(*ast.BinaryExpr); isBe && constName(info, be.Y) == "AFTOperation_REPLACE" {
						ok = true
						erVar = objOfIdent(info, as.Lhs[0])
					}
				}
			}
		}
		return true
	})
	// or: flag := op.Op == REPLACE (declared once, never reassigned)
	if !ok {
		ast.Inspect(fi.Decl.Body, func(n ast.Node) bool {
			as, isAs := n.(*ast.AssignStmt)
			if !isAs || len(as.Lhs) != 1 || len(as.Rhs) != 1 {
				return true
			}
			be, isBe := ast.Unparen(as.Rhs[0]).(*ast.BinaryExpr)
			if !isBe || be.Op != token.EQL {
				return true
			}
			if constName(info, be.Y) != "AFTOperation_REPLACE" && constName(info, be.X) != "AFTOperation_REPLACE" {
				return true
			}
			if v, isVar := objOfIdent(info, as.Lhs[0]).(*types.Var); isVar && soleDefinition(info, fi.Decl, v) != nil {
				ok = true
				erVar = v
			}
			return true
		})
	}
	// every AddXXX call passes that variable
	pass := 0
	for _, call := range callsIn(fi.Decl.Body) {
		for _, k := range ks {
			if calleeObj(info, call) == k.Add.Obj {
				if len(call.Args) == 2 && erVar != nil && objOfIdent(info, call.Args[1]) == erVar {
					pass++
				}
			}
		}
	}
	c.check(ok && pass == 5, rule, fi.Name, "explicitReplace ⇔ operation is REPLACE, passed to all five AddXXX", c.P.pos(fi.Decl.Pos()), "5 call sites", fmt.Sprintf("explicit-replace flag derivation or propagation deviates (derived=%v, passed to %d of 5 AddXXX)", ok, pass))
}

// TABLE-KEY-IDENTITY — the installed tables are keyed by the install step with the key exactly as the
// client wrote it (the candidate is merged under the entry's own key). Every other access of a holder to
// its tables — existence tests, retrievals, deletes — must therefore use the key it was handed, unchanged:
// a helper that normalises, parses or otherwise rewrites its key looks in a different slot than the
// install wrote, so an entry installed under a non-canonical spelling can no longer be found, replaced
// explicitly or deleted, and its references are never released. Allowed in a key: identifiers, field
// selections, getters of the entry (Get…()), and type conversions (range-checked separately by
// KEY-NARROWING).
func ruleTableKeyIdentity(c *Ctx) {
	const rule = "TABLE-KEY-IDENTITY"
	n := 0
	for _, fi := range c.P.AllFuncs("rib") {
		if fi.Decl.Body == nil || recvTypeName(fi.Obj) != "RIBHolder" {
			continue
		}
		info := fi.Pkg.TypesInfo
		var keys []ast.Expr
		ast.Inspect(fi.Decl.Body, func(m ast.Node) bool {
			switch x := m.(type) {
			case *ast.IndexExpr:
				if tableOfExpr(info, x.X) != "" && rootedAtHolderR(info, x.X) {
					keys = append(keys, x.Index)
				}
			case *ast.CallExpr:
				if id, ok := ast.Unparen(x.Fun).(*ast.Ident); ok && id.Name == "delete" && len(x.Args) == 2 {
					if _, isB := info.Uses[id].(*types.Builtin); isB && tableOfExpr(info, x.Args[0]) != "" && rootedAtHolderR(info, x.Args[0]) {
						keys = append(keys, x.Args[1])
					}
				}
			}
			return true
		})
		if len(keys) == 0 {
			continue
		}
		c.Analysed[fi.Name] = true
		bad := ""
		for _, k := range keys {
			n++
			c.Sites++
			if why := keyRewritten(info, fi.Decl, k, 0); why != "" {
				bad = fmt.Sprintf("the table is accessed under %s, which passes the key through %s: the install step files the entry under the key as the client wrote it, so this access looks in a different slot", types.ExprString(k), why)
			}
		}
		c.check(bad == "", rule, fi.Name, "tables are accessed under the key as handed in", c.P.pos(fi.Decl.Pos()), fmt.Sprintf("%d table accesses, keys unchanged", len(keys)), bad)
	}
	c.floor(rule, "keyed accesses to installed tables in RIBHolder methods", n, 20)
}

// keyRewritten returns the name of a call that rewrites the key expression ("" when the key is plain).
func keyRewritten(info *types.Info, fd *ast.FuncDecl, e ast.Expr, depth int) string {
	why := ""
	ast.Inspect(e, func(m ast.Node) bool {
		if why != "" {
			return false
		}
		switch x := m.(type) {
		case *ast.CallExpr:
			if tv, ok := info.Types[x.Fun]; ok && tv.IsType() {
				return true // conversion
			}
			if se, ok := ast.Unparen(x.Fun).(*ast.SelectorExpr); ok && len(x.Args) == 0 && strings.HasPrefix(se.Sel.Name, "Get") {
				return true // getter of the entry
			}
			why = types.ExprString(x.Fun)
			return false
		case *ast.Ident:
			// a local defined once stands for its definition
			if v, ok := info.ObjectOf(x).(*types.Var); ok && !v.IsField() && !isParamOf(info, fd, v) && depth < 4 {
				// bound to the result of a helper that was spliced in: the helper computes the key
				for _, fr := range inlineFrames {
					for _, l := range fr.Lhs {
						if objOfIdent(info, l) == v {
							why = fr.CalleeObj.Name()
						}
					}
				}
				if def := soleDefinition(info, fd, v); def != nil && why == "" {
					if w := keyRewritten(info, fd, def, depth+1); w != "" {
						why = w
					}
				}
			}
		case *ast.BinaryExpr:
			why = "an arithmetic/string operation (" + x.Op.String() + ")"
			return false
		}
		return true
	})
	return why
}
