#!/usr/bin/env python3
"""Developer aid: apply one textual mutation to a scratch copy of /repo, check that it
still compiles, and run gribilint properties against the copy.
usage: mutate.py <relfile> <old> <new> <props,comma> [occurrence-index]
"""
import os, shutil, subprocess, sys, tempfile
rel, old, new, props = sys.argv[1:5]
occ = int(sys.argv[5]) if len(sys.argv) > 5 else 0
d = tempfile.mkdtemp(prefix="glmut_")
try:
    subprocess.check_call(["rsync", "-a", "--exclude", ".git", "/repo/", d + "/"])
    p = os.path.join(d, rel)
    s = open(p).read()
    parts = s.split(old)
    if len(parts) - 1 <= occ:
        print("MUTATION SITE NOT FOUND", len(parts) - 1); sys.exit(3)
    s = old.join(parts[:occ + 1]) + new + old.join(parts[occ + 1:])
    open(p, "w").write(s)
    env = dict(os.environ, PATH="/opt/veriftools/go1.26.8/bin:" + os.environ["PATH"], GOTOOLCHAIN="local", GOFLAGS="-mod=mod", GOPROXY="off", GOSUMDB="off", GRIBILINT_REPO=d, GRIBILINT_VERIF=tempfile.mkdtemp(prefix="glev_"))
    shutil.copy("/verif/known_findings.json", env["GRIBILINT_VERIF"])
    r = subprocess.run(["go", "build", "./..."], cwd=d, env=env, capture_output=True, text=True)
    if r.returncode != 0:
        print("DOES NOT COMPILE:", r.stderr[:500]); sys.exit(4)
    for pr in props.split(","):
        r = subprocess.run(["/verif/bin/gribilint", pr, "quick"], env=env, capture_output=True, text=True)
        lines = [l for l in r.stdout.splitlines() if not l.startswith("VIOLATION") and not l.startswith("KNOWN-FINDING")]
        print(f"--- {pr} rc={r.returncode}")
        for l in lines: print("   ", l[:400])
        if r.stderr.strip(): print("    STDERR", r.stderr[:400])
    shutil.rmtree(env["GRIBILINT_VERIF"], ignore_errors=True)
finally:
    shutil.rmtree(d, ignore_errors=True)
