package main

// Loading of /repo and lookup helpers. Everything is resolved through
// go/types objects, never by text.

import (
	"encoding/json"
	"fmt"
	"go/ast"
	"go/token"
	"go/types"
	"os"
	"path/filepath"
	"sort"
	"strings"

	"golang.org/x/tools/go/packages"
	"golang.org/x/tools/go/ssa"
	"golang.org/x/tools/go/ssa/ssautil"
)

const modPath = "github.com/openconfig/gribigo"

// Prog is the loaded program.
type Prog struct {
	Fset        *token.FileSet
	Pkgs        map[string]*packages.Package // repo packages by import path
	All         []*packages.Package          // repo packages, sorted
	SSA         *ssa.Program
	SSAPkgs     map[string]*ssa.Package
	RepoDir     string
	Thorough    bool
	declOf      map[*types.Func]*ast.FuncDecl
	nFolded     int
	fileOf      map[*ast.File]*packages.Package
	nFuncs      int
	nInlined    int
	cg          *CG
	kindsCache  []*Kind
	lockAn      *lockAnalysis
	fieldStores map[*types.Var][]ssa.Instruction
	storesSeen  map[*ssa.Function]bool
	depSyn      map[string]*packages.Package
	writers     map[*types.Var]map[*types.Func]bool
}

func repoDir() string {
	if d := os.Getenv("GRIBILINT_REPO"); d != "" {
		return d
	}
	return "/repo"
}

// Load loads every package of the module. In thorough mode dependencies are
// loaded from source as well so that SSA bodies exist for them.
func Load(thorough bool) (*Prog, error) {
	mode := packages.LoadSyntax | packages.NeedModule
	if thorough {
		mode = packages.LoadAllSyntax | packages.NeedModule
	}
	dir := repoDir()
	env := os.Environ()
	cfg := &packages.Config{Mode: mode, Dir: dir, Tests: false, Env: env}
	// Overlay (self-test only): analyse a variant of the tree held in memory.
	if ov := os.Getenv("GRIBILINT_OVERLAY"); ov != "" {
		b, err := os.ReadFile(ov)
		if err != nil {
			return nil, fmt.Errorf("overlay: %v", err)
		}
		m := map[string]string{}
		if err := json.Unmarshal(b, &m); err != nil {
			return nil, fmt.Errorf("overlay: %v", err)
		}
		cfg.Overlay = map[string][]byte{}
		for rel, content := range m {
			cfg.Overlay[filepath.Join(dir, rel)] = []byte(content)
		}
	}
	pkgs, err := packages.Load(cfg, "./...")
	if err != nil {
		return nil, fmt.Errorf("packages.Load: %v", err)
	}
	if len(pkgs) < 17 {
		return nil, fmt.Errorf("loaded only %d packages from %s (want >= 17)", len(pkgs), dir)
	}
	p := &Prog{
		Pkgs:     map[string]*packages.Package{},
		SSAPkgs:  map[string]*ssa.Package{},
		RepoDir:  dir,
		Thorough: thorough,
		declOf:   map[*types.Func]*ast.FuncDecl{},
		fileOf:   map[*ast.File]*packages.Package{},
	}
	var errs []string
	for _, pk := range pkgs {
		for _, e := range pk.Errors {
			errs = append(errs, e.Error())
		}
		if pk.Fset != nil {
			p.Fset = pk.Fset
		}
		p.Pkgs[pk.PkgPath] = pk
		p.All = append(p.All, pk)
		for _, f := range pk.Syntax {
			p.fileOf[f] = pk
			for _, d := range f.Decls {
				if fd, ok := d.(*ast.FuncDecl); ok {
					if o, ok := pk.TypesInfo.Defs[fd.Name].(*types.Func); ok {
						p.declOf[o] = fd
						p.nFuncs++
					}
				}
			}
		}
	}
	if len(errs) > 0 {
		return nil, fmt.Errorf("type/load errors in %s: %s", dir, strings.Join(errs, "; "))
	}
	sort.Slice(p.All, func(i, j int) bool { return p.All[i].PkgPath < p.All[j].PkgPath })
	// Build-tagged files would be invisible to the analysis: assert none.
	for _, pk := range p.All {
		if len(pk.IgnoredFiles) > 0 {
			var ig []string
			for _, f := range pk.IgnoredFiles {
				if strings.HasSuffix(f, ".go") {
					ig = append(ig, f)
				}
			}
			if len(ig) > 0 {
				return nil, fmt.Errorf("package %s has build-ignored Go files %v: analysis would not cover them", pk.PkgPath, ig)
			}
		}
	}
	var prog *ssa.Program
	var spkgs []*ssa.Package
	if thorough {
		prog, spkgs = ssautil.AllPackages(pkgs, ssa.InstantiateGenerics)
	} else {
		prog, spkgs = ssautil.Packages(pkgs, ssa.InstantiateGenerics)
	}
	prog.Build()
	p.SSA = prog
	for i, sp := range spkgs {
		if sp != nil {
			p.SSAPkgs[pkgs[i].PkgPath] = sp
		}
	}
	gProg = p
	// after SSA is built: calls to functions new to the rules become inline frames in the syntax (see inline.go)
	p.nFolded = foldProbeLoops(p)
	p.nInlined = virtualInline(p)
	return p, nil
}

// pkg returns the repo package with the given path relative to the module
// ("" for the root is not used).
func (p *Prog) pkg(rel string) *packages.Package {
	return p.Pkgs[modPath+"/"+rel]
}

// FuncInfo bundles the views of one source function.
type FuncInfo struct {
	Name string // display name pkg.(Recv).Name
	Obj  *types.Func
	Decl *ast.FuncDecl
	Pkg  *packages.Package
	SSA  *ssa.Function
}

// Func resolves a function or method declared in repo package rel. recv is
// the bare receiver type name ("" for functions).
func (p *Prog) Func(rel, recv, name string) *FuncInfo {
	pk := p.pkg(rel)
	if pk == nil {
		return nil
	}
	var obj *types.Func
	if recv == "" {
		o, _ := pk.Types.Scope().Lookup(name).(*types.Func)
		obj = o
	} else {
		tn, _ := pk.Types.Scope().Lookup(recv).(*types.TypeName)
		if tn == nil {
			return nil
		}
		named, _ := tn.Type().(*types.Named)
		if named == nil {
			return nil
		}
		for i := 0; i < named.NumMethods(); i++ {
			if m := named.Method(i); m.Name() == name {
				obj = m
			}
		}
	}
	if obj == nil {
		// moved: a function of this name that is new to the rules, on another receiver (or none) of the same
		// package — when there is exactly one, it is the anchor under its new receiver
		var cands []*types.Func
		for o := range p.declOf {
			if o.Pkg() == pk.Types && o.Name() == name && isNewFunc(o) {
				cands = append(cands, o)
			}
		}
		if len(cands) != 1 {
			return nil
		}
		obj = cands[0]
	}
	return p.infoFor(obj)
}

func (p *Prog) infoFor(obj *types.Func) *FuncInfo {
	fd := p.declOf[obj]
	if fd == nil {
		return nil
	}
	pk := p.Pkgs[obj.Pkg().Path()]
	fi := &FuncInfo{Obj: obj, Decl: fd, Pkg: pk, Name: displayName(obj)}
	fi.SSA = p.SSA.FuncValue(obj)
	return fi
}

func displayName(obj *types.Func) string {
	rel := strings.TrimPrefix(obj.Pkg().Path(), modPath+"/")
	sig := obj.Type().(*types.Signature)
	if r := sig.Recv(); r != nil {
		t := r.Type()
		ptr := ""
		if pt, ok := t.(*types.Pointer); ok {
			t = pt.Elem()
			ptr = "*"
		}
		tn := "?"
		if n, ok := t.(*types.Named); ok {
			tn = n.Obj().Name()
		}
		return fmt.Sprintf("%s.(%s%s).%s", rel, ptr, tn, obj.Name())
	}
	return rel + "." + obj.Name()
}

// AllFuncs returns every declared function of repo package rel, sorted by name.
func (p *Prog) AllFuncs(rel string) []*FuncInfo {
	pk := p.pkg(rel)
	if pk == nil {
		return nil
	}
	var out []*FuncInfo
	for obj := range p.declOf {
		if obj.Pkg() == pk.Types {
			out = append(out, p.infoFor(obj))
		}
	}
	sort.Slice(out, func(i, j int) bool {
		if out[i].Name != out[j].Name {
			return out[i].Name < out[j].Name
		}
		return out[i].Decl.Pos() < out[j].Decl.Pos()
	})
	return out
}

// pos renders a position relative to the repo root.
func (p *Prog) pos(pos token.Pos) string {
	if !pos.IsValid() {
		return "-"
	}
	ps := p.Fset.Position(pos)
	rel, err := filepath.Rel(p.RepoDir, ps.Filename)
	if err != nil {
		rel = ps.Filename
	}
	return fmt.Sprintf("%s:%d", rel, ps.Line)
}

// Field returns the *types.Var of field name in struct type tname of package rel.
func (p *Prog) Field(rel, tname, field string) *types.Var {
	pk := p.pkg(rel)
	if pk == nil {
		return nil
	}
	tn, _ := pk.Types.Scope().Lookup(tname).(*types.TypeName)
	if tn == nil {
		return nil
	}
	st, _ := tn.Type().Underlying().(*types.Struct)
	if st == nil {
		return nil
	}
	for i := 0; i < st.NumFields(); i++ {
		if st.Field(i).Name() == field {
			return st.Field(i)
		}
	}
	return nil
}

// isRepoPkg reports whether a types.Package belongs to the module.
func isRepoPkg(pk *types.Package) bool {
	return pk != nil && (pk.Path() == modPath || strings.HasPrefix(pk.Path(), modPath+"/"))
}

// isGenerated reports whether the package is generated code that rules skip.
func isGeneratedPkg(path string) bool {
	switch strings.TrimPrefix(path, modPath+"/") {
	case "aft", "ocrt", "proto/gribi_aft", "proto/gribi_aft/enums", "proto/service":
		return true
	}
	return strings.HasPrefix(path, modPath+"/proto/")
}
