package main

// C19 — compliance verdicts: conformant passes in any order; violations are flagged.

import (
	"fmt"
	"go/ast"
	"go/token"
	"go/types"
	"sort"
	"strings"
)

func init() { propRules["C19"] = rulesC19 }

const compPkg = modPath + "/compliance"

type regEntry struct {
	lit       *ast.CompositeLit // the Test literal
	fn        *types.Func       // the test function (unwrapped from makeTestWithACK)
	ack       string            // "" if not wrapped
	shortName string
	fibFlag   bool
	pos       token.Pos
}

// suiteEntries parses the TestSuite composite literal.
func suiteEntries(c *Ctx) []regEntry {
	pk := c.P.pkg("compliance")
	if pk == nil {
		return nil
	}
	info := pk.TypesInfo
	var out []regEntry
	for _, f := range pk.Syntax {
		for _, d := range f.Decls {
			gd, ok := d.(*ast.GenDecl)
			if !ok || gd.Tok != token.VAR {
				continue
			}
			for _, sp := range gd.Specs {
				vs, ok := sp.(*ast.ValueSpec)
				if !ok || len(vs.Names) != 1 || vs.Names[0].Name != "TestSuite" || len(vs.Values) != 1 {
					continue
				}
				for _, cl := range litsOfType(info, vs.Values[0], compPkg, "Test") {
					e := regEntry{lit: cl, pos: cl.Pos()}
					f := compositeFields(cl)
					if tv, ok := info.Types[f["ShortName"]]; ok && tv.Value != nil {
						e.shortName = strings.Trim(tv.Value.ExactString(), `"`)
					}
					if b, isB := boolConst(info, f["RequiresFIBACK"]); isB {
						e.fibFlag = b
					}
					switch x := ast.Unparen(f["Fn"]).(type) {
					case *ast.Ident:
						e.fn, _ = info.ObjectOf(x).(*types.Func)
					case *ast.CallExpr:
						if isFunc(calleeObj(info, x), compPkg, "makeTestWithACK") && len(x.Args) == 2 {
							e.fn, _ = objOfIdent(info, x.Args[0]).(*types.Func)
							e.ack = constName(info, x.Args[1])
							if e.ack == "" {
								if se, ok := ast.Unparen(x.Args[1]).(*ast.SelectorExpr); ok {
									e.ack = se.Sel.Name
								}
							}
						}
					}
					out = append(out, e)
				}
			}
		}
	}
	return out
}

func rulesC19(c *Ctx) {
	c.Decided = append(c.Decided,
		"R19.1 registry consistency: a suite entry built for an acknowledgement type is flagged RequiresFIBACK exactly when that type is FIB; every exported test function of the package is registered",
		"R19.2 clean-up pairing: every registered test that programs entries flushes the server afterwards on every non-fatal path (deferred before the first programming step, or explicit)",
		"R19.3 election ids only move forward: a test leaves the shared counter above every id it announced, and an id below the counter is only used where the counter is provably at least that much above 1",
		"R19.4 every registered test can fail: it reaches a verdict (chk.*, t.Fatal*/Error*) that is not cut off by an unconditional Skip",
		"R19.7 the shared clean-up helper flushes all network instances with the election override and fails the test when the flush is refused",
		"R19.5 configuration set through the exported setters is read when a test runs: no package-level initialiser or init function reads a configurable variable",
		"R19.6 a result assertion inside a loop depends on the iteration (otherwise one acknowledgement satisfies every iteration and a repeated operation is never examined)",
		"R19.8 the result list a matcher examines is one client's own results, never a list accumulated from several clients")
	c.NotDec = append(c.NotDec, "actual pass/fail of any test against any server — that is an execution", "the fault catalogue: whether each requirement's tests detect a server violating it")
	entries := suiteEntries(c)
	if len(entries) < 75 {
		c.vanished("REGISTRY", "compliance.TestSuite", "entries", fmt.Sprintf("parsed %d suite entries, floor 75", len(entries)))
		return
	}
	ruleRegistryFIB(c, entries)
	ruleRegisteredAll(c, entries)
	ruleCleanup(c, entries)
	ruleElectionForward(c, entries)
	ruleCanFail(c, entries)
	ruleConfigAtCallTime(c)
	ruleVerdictPerIteration(c)
	ruleFlushServerHelper(c)
	// the matchers the suite's verdicts are built from fail when the wanted item is absent (shared with C17)
	ruleFoundFlag(c)
	ruleCachedDelegates(c)
	ruleGetEntriesLookups(c)
	ruleStatusCompare(c)
	ruleStatusOptions(c)
	ruleCompareStructural(c)
	ruleStopCloses(c)            // fluent's Stop ends the session whenever a client is held
	ruleCleanupOrder(c)          // and the tests' deferred flush / Stop run in the order that ends the session
	clearPendingTable(c, false)  // a result for an operation the client never sent surfaces as a receive error, which is what the isolation tests look for (shared with C13, whose known finding F25 — the FIB-ack tolerance — is its own)
	ruleClientErrorConversion(c) // the count matchers examine the caller's own error (shared with C17)
	ruleResultsPerClient(c)      // a verdict about a client is computed from that client's own results
	ruleConnectLifecycle(c)      // a finished test's session really ends (Stop → Close → disconnect on every path): a session left open constrains the parameters of every later test on a long-lived server (shared with C14)
}

func ruleRegistryFIB(c *Ctx, entries []regEntry) {
	const rule = "REGISTRY-ACK"
	n := 0
	for _, e := range entries {
		if e.ack == "" {
			continue
		}
		n++
		c.Sites++
		isFIB := e.ack == "InstalledInFIB"
		name := "?"
		if e.fn != nil {
			name = e.fn.Name()
		}
		c.check(isFIB == e.fibFlag, rule, "compliance.TestSuite", fmt.Sprintf("%q (%s)", e.shortName, name), c.P.pos(e.pos),
			fmt.Sprintf("ack=%s RequiresFIBACK=%v", e.ack, e.fibFlag),
			fmt.Sprintf("entry %q runs %s with %s but RequiresFIBACK=%v: the FIB-acknowledgement requirement is %s by this entry", e.shortName, name, e.ack, e.fibFlag, map[bool]string{true: "not exercised", false: "demanded without being declared"}[e.fibFlag]))
	}
	c.floor(rule, "suite entries built for an acknowledgement type", n, 45)
}

func ruleRegisteredAll(c *Ctx, entries []regEntry) {
	const rule = "REGISTRY-COMPLETE"
	reg := map[*types.Func]bool{}
	for _, e := range entries {
		if e.fn != nil {
			reg[e.fn] = true
		}
	}
	n := 0
	for _, fi := range c.P.AllFuncs("compliance") {
		if !fi.Obj.Exported() || fi.Decl.Recv != nil {
			continue
		}
		sig := fi.Obj.Type().(*types.Signature)
		if sig.Results().Len() != 0 || !sig.Variadic() || sig.Params().Len() < 3 {
			continue
		}
		if !isNamed(sig.Params().At(0).Type(), fluentPkg, "GRIBIClient") {
			continue
		}
		n++
		c.Sites++
		c.check(reg[fi.Obj], rule, fi.Name, "registered in TestSuite", c.P.pos(fi.Decl.Pos()), "referenced by a suite entry", "an exported compliance test is not part of TestSuite: the requirement it checks is never exercised")
	}
	c.floor(rule, "exported test functions", n, 60)
}

// programsEntries: does the function (or compliance helpers it calls, 2 levels) call Modify().AddEntry/ReplaceEntry/DeleteEntry?
func programsEntries(c *Ctx, fi *FuncInfo, depth int, seen map[*types.Func]bool) bool {
	if fi == nil || fi.Decl.Body == nil || seen[fi.Obj] {
		return false
	}
	seen[fi.Obj] = true
	info := fi.Pkg.TypesInfo
	found := false
	ast.Inspect(fi.Decl.Body, func(n ast.Node) bool {
		call, ok := n.(*ast.CallExpr)
		if !ok {
			return true
		}
		if f, ok := calleeObj(info, call).(*types.Func); ok {
			if f.Pkg() != nil && f.Pkg().Path() == fluentPkg && recvTypeName(f) == "gRIBIModify" && (f.Name() == "AddEntry" || f.Name() == "ReplaceEntry" || f.Name() == "DeleteEntry") {
				found = true
			}
			if depth > 0 && f.Pkg() != nil && f.Pkg().Path() == compPkg {
				if programsEntries(c, c.P.infoFor(f), depth-1, seen) {
					found = true
				}
			}
		}
		return !found
	})
	return found
}

func ruleCleanup(c *Ctx, entries []regEntry) {
	const rule = "CLEANUP-PAIRED"
	done := map[*types.Func]bool{}
	n, deferred, explicit := 0, 0, 0
	for _, e := range entries {
		if e.fn == nil || done[e.fn] {
			continue
		}
		done[e.fn] = true
		fi := c.P.infoFor(e.fn)
		if fi == nil {
			continue
		}
		if !programsEntries(c, fi, 2, map[*types.Func]bool{}) {
			continue
		}
		n++
		c.Sites++
		c.Analysed[fi.Name] = true
		info := fi.Pkg.TypesInfo
		isFlush := func(call *ast.CallExpr) bool { return isFunc(calleeObj(info, call), compPkg, "flushServer") }
		// events along the structural paths: program (direct or through helpers), flush, deferred flush
		ev := func(nd ast.Node) []Event {
			var out []Event
			if ds, ok := nd.(*ast.DeferStmt); ok {
				if isFlush(ds.Call) {
					return []Event{{Kind: "defer-flush", Node: ds}}
				}
				// a deferred closure that flushes unconditionally
				if fl, ok := ds.Call.Fun.(*ast.FuncLit); ok {
					for _, st := range fl.Body.List {
						if es, ok := st.(*ast.ExprStmt); ok {
							if call, ok := es.X.(*ast.CallExpr); ok && isFlush(call) {
								return []Event{{Kind: "defer-flush", Node: ds}}
							}
						}
					}
				}
				return nil
			}
			inspectNoFuncLit(nd, func(m ast.Node) bool {
				call, ok := m.(*ast.CallExpr)
				if !ok {
					return true
				}
				if isFlush(call) {
					out = append(out, Event{Kind: "flush", Node: call})
					return true
				}
				if f, ok := calleeObj(info, call).(*types.Func); ok && f.Pkg() != nil {
					if f.Pkg().Path() == compPkg && programsEntries(c, c.P.infoFor(f), 2, map[*types.Func]bool{}) {
						out = append(out, Event{Kind: "program", Node: call})
					}
					// DoModifyOps runs the closures it is handed
					if f.Pkg().Path() == compPkg && f.Name() == "DoModifyOps" {
						out = append(out, Event{Kind: "program", Node: call})
					}
					if f.Pkg().Path() == fluentPkg && recvTypeName(f) == "gRIBIModify" && (f.Name() == "AddEntry" || f.Name() == "ReplaceEntry" || f.Name() == "DeleteEntry") {
						out = append(out, Event{Kind: "program", Node: call})
					}
				}
				return true
			})
			return out
		}
		paths, pe := enumFunc(fi, ev, nil)
		if pe.overflow {
			c.undecided(rule, fi.Name, "body", c.P.pos(fi.Decl.Pos()), "path enumeration incomplete")
			continue
		}
		bad := ""
		usesDefer := false
		for _, p := range paths {
			if p.End == "panic" {
				continue // Fatal/Skip: only against a non-conformant server (or skipped before anything ran)
			}
			pi := lastIdx(p, "program")
			if pi < 0 {
				continue
			}
			firstProgram := idx(p, "program")
			okp := false
			for i, ev := range p.Events {
				if ev.Kind == "defer-flush" && i < firstProgram {
					okp, usesDefer = true, true
				}
				if ev.Kind == "flush" && i > pi {
					okp = true
				}
			}
			if !okp {
				bad = "a non-fatal path programs entries and returns without flushing the server afterwards: the next test starts on a dirty RIB (" + p.describe(c.P) + ")"
			}
		}
		if usesDefer {
			deferred++
		} else {
			explicit++
		}
		c.check(bad == "", rule, fi.Name, "flushes after programming", c.P.pos(fi.Decl.Pos()), map[bool]string{true: "deferred flushServer before the first programming step", false: "explicit flushServer after the last programming step"}[usesDefer], bad)
	}
	c.floor(rule, "registered tests that program entries", n, 40)
	c.note("clean-up census: %d tests flush by defer, %d explicitly", deferred, explicit)
}

// electionDelta describes how a function moves the shared election counter.
type electionUse struct {
	plus, minus []int64 // offsets k of electionID.Load()+k / Load()-k used as ids
	minusPos    []token.Pos
}

func isElectionIDCall(info *types.Info, call *ast.CallExpr, name string) bool {
	se, ok := ast.Unparen(call.Fun).(*ast.SelectorExpr)
	if !ok || se.Sel.Name != name {
		return false
	}
	if v, ok := objOfIdent(info, se.X).(*types.Var); ok && v.Name() == "electionID" && v.Pkg() != nil && v.Pkg().Path() == compPkg {
		return true
	}
	return false
}

func incAmount(info *types.Info, call *ast.CallExpr) int64 {
	if isElectionIDCall(info, call, "Inc") {
		return 1
	}
	if isElectionIDCall(info, call, "Add") && len(call.Args) == 1 {
		if v, ok := constInt(info, call.Args[0]); ok {
			return v
		}
	}
	return 0
}

// netIncrement: total guaranteed increment of the counter by a call to fi (deferred + direct + helpers), memoised.
func netIncrement(c *Ctx, fi *FuncInfo, memo map[*types.Func]int64, depth int) int64 {
	if fi == nil || fi.Decl.Body == nil || depth > 4 {
		return 0
	}
	if v, ok := memo[fi.Obj]; ok {
		return v
	}
	memo[fi.Obj] = 0
	info := fi.Pkg.TypesInfo
	var total int64
	for _, st := range fi.Decl.Body.List {
		switch x := st.(type) {
		case *ast.DeferStmt:
			total += incAmount(info, x.Call)
		case *ast.ExprStmt:
			if call, ok := x.X.(*ast.CallExpr); ok {
				total += incAmount(info, call)
			}
		}
		// helper calls at the top level of the statement (not inside closures, not under conditions)
		switch st.(type) {
		case *ast.ExprStmt, *ast.AssignStmt:
			inspectNoFuncLit(st, func(m ast.Node) bool {
				if call, ok := m.(*ast.CallExpr); ok {
					if f, ok := calleeObj(info, call).(*types.Func); ok && f.Pkg() != nil && f.Pkg().Path() == compPkg && f != fi.Obj {
						total += netIncrement(c, c.P.infoFor(f), memo, depth+1)
					}
				}
				return true
			})
		}
	}
	memo[fi.Obj] = total
	return total
}

func ruleElectionForward(c *Ctx, entries []regEntry) {
	const rule = "ELECTION-IDS-FORWARD"
	memo := map[*types.Func]int64{}
	done := map[*types.Func]bool{}
	// every function of the package that reads the counter, registered or helper
	n := 0
	for _, fi := range c.P.AllFuncs("compliance") {
		if fi.Decl.Body == nil || done[fi.Obj] {
			continue
		}
		done[fi.Obj] = true
		if isSimpleHelperDecl(fi.Decl) || isNewFunc(fi.Obj) {
			continue // a `return <expr>` helper, or a helper unknown to the rules: its reads are attributed to its call sites
		}
		info := fi.Pkg.TypesInfo
		var use electionUse
		loads := 0
		var scan func(info *types.Info, root ast.Node, at token.Pos, depth int)
		scan = func(info *types.Info, root ast.Node, at token.Pos, depth int) {
			ast.Inspect(root, func(m ast.Node) bool {
				switch x := m.(type) {
				case *ast.BinaryExpr:
					if call, ok := ast.Unparen(x.X).(*ast.CallExpr); ok && isElectionIDCall(info, call, "Load") {
						if k, isC := constInt(info, x.Y); isC {
							if x.Op == token.ADD {
								use.plus = append(use.plus, k)
							}
							if x.Op == token.SUB {
								use.minus = append(use.minus, k)
								if at != token.NoPos {
									use.minusPos = append(use.minusPos, at)
								} else {
									use.minusPos = append(use.minusPos, x.Pos())
								}
							}
						}
					}
				case *ast.CallExpr:
					if isElectionIDCall(info, x, "Load") {
						loads++
					}
					if hfi, ret := simpleHelper(info, x); hfi != nil && depth < 3 {
						pos := at
						if pos == token.NoPos {
							pos = x.Pos()
						}
						scan(hfi.Pkg.TypesInfo, ret, pos, depth+1)
					} else if f, ok := calleeObj(info, x).(*types.Func); ok && isNewFunc(f) && depth < 3 {
						if hfi := c.P.infoFor(f); hfi != nil && hfi.Decl.Body != nil {
							pos := at
							if pos == token.NoPos {
								pos = x.Pos()
							}
							scan(hfi.Pkg.TypesInfo, hfi.Decl.Body, pos, depth+1)
						}
					}
				}
				return true
			})
		}
		scan(info, fi.Decl.Body, token.NoPos, 0)
		if loads == 0 {
			continue
		}
		n++
		c.Sites++
		c.Analysed[fi.Name] = true
		var maxPlus int64
		for _, k := range use.plus {
			if k > maxPlus {
				maxPlus = k
			}
		}
		net := netIncrement(c, fi, memo, 0)
		// ids announced at Load()+k must be left behind when the function returns. A function whose only
		// uses are Load()-k reads ids of sessions that were opened (and left behind) by its helpers.
		announces := loads > len(use.minus)
		if announces {
			c.check(net >= maxPlus+1, rule, fi.Name, "leaves the counter above every id it used", c.P.pos(fi.Decl.Pos()), fmt.Sprintf("uses up to Load()+%d, guaranteed increment %d", maxPlus, net),
				fmt.Sprintf("the function announces ids up to electionID.Load()+%d but only guarantees an increment of %d: the next test would announce an id the server has already seen, and not become primary", maxPlus, net))
		}
		// Load()-k: the counter must provably be ≥ k+1 at that statement
		for i, k := range use.minus {
			lb := int64(1) + incrementsBefore(c, fi, use.minusPos[i], memo)
			c.check(lb-k >= 1, rule, fi.Name, fmt.Sprintf("Load()-%d stays a valid (non-zero) id", k), c.P.pos(use.minusPos[i]), fmt.Sprintf("counter ≥ %d at this point", lb),
				fmt.Sprintf("electionID.Load()-%d is used as an election id where the counter is only known to be ≥ %d: when the suite starts at 1 and this test runs first the id is %d — zero is rejected as invalid rather than as 'not primary'", k, lb, lb-k))
		}
	}
	c.floor(rule, "functions reading the election counter", n, 20)
}

// incrementsBefore: guaranteed increments executed before the top-level statement containing pos.
func incrementsBefore(c *Ctx, fi *FuncInfo, pos token.Pos, memo map[*types.Func]int64) int64 {
	info := fi.Pkg.TypesInfo
	var total int64
	for _, st := range fi.Decl.Body.List {
		if st.Pos() <= pos && pos < st.End() {
			break
		}
		switch x := st.(type) {
		case *ast.ExprStmt:
			if call, ok := x.X.(*ast.CallExpr); ok {
				total += incAmount(info, call)
			}
		}
		switch st.(type) {
		case *ast.ExprStmt, *ast.AssignStmt:
			inspectNoFuncLit(st, func(m ast.Node) bool {
				if call, ok := m.(*ast.CallExpr); ok {
					if f, ok := calleeObj(info, call).(*types.Func); ok && f.Pkg() != nil && f.Pkg().Path() == compPkg {
						total += netIncrement(c, c.P.infoFor(f), memo, 1)
					}
				}
				return true
			})
		}
	}
	return total
}

func ruleCanFail(c *Ctx, entries []regEntry) {
	const rule = "CAN-FAIL"
	done := map[*types.Func]bool{}
	n := 0
	var reachesVerdict func(fi *FuncInfo, depth int, seen map[*types.Func]bool) bool
	reachesVerdict = func(fi *FuncInfo, depth int, seen map[*types.Func]bool) bool {
		if fi == nil || fi.Decl.Body == nil || seen[fi.Obj] {
			return false
		}
		seen[fi.Obj] = true
		info := fi.Pkg.TypesInfo
		found := false
		ast.Inspect(fi.Decl.Body, func(m ast.Node) bool {
			call, ok := m.(*ast.CallExpr)
			if !ok {
				return true
			}
			if f, ok := calleeObj(info, call).(*types.Func); ok && f.Pkg() != nil {
				switch {
				case f.Pkg().Path() == chkPkg:
					found = true
				case f.Pkg().Path() == "testing" && (strings.HasPrefix(f.Name(), "Fatal") || strings.HasPrefix(f.Name(), "Error")):
					found = true
				case f.Pkg().Path() == compPkg && depth > 0:
					if reachesVerdict(c.P.infoFor(f), depth-1, seen) {
						found = true
					}
				}
			}
			return !found
		})
		return found
	}
	for _, e := range entries {
		if e.fn == nil || done[e.fn] {
			continue
		}
		done[e.fn] = true
		fi := c.P.infoFor(e.fn)
		if fi == nil {
			continue
		}
		n++
		c.Sites++
		info := fi.Pkg.TypesInfo
		// an unconditional Skip at the top level before any verdict
		skipped := false
		for _, st := range fi.Decl.Body.List {
			es, ok := st.(*ast.ExprStmt)
			if !ok {
				continue
			}
			if call, ok := es.X.(*ast.CallExpr); ok {
				if f, ok := calleeObj(info, call).(*types.Func); ok && f.Pkg() != nil && f.Pkg().Path() == "testing" && strings.HasPrefix(f.Name(), "Skip") {
					skipped = true
				}
			}
			break
		}
		switch {
		case skipped:
			c.fail(rule, fi.Name, "unconditional skip", c.P.pos(fi.Decl.Pos()), "the registered test skips unconditionally before doing anything: it can never flag a violation of its requirement")
		case !reachesVerdict(fi, 3, map[*types.Func]bool{}):
			c.fail(rule, fi.Name, "reaches a verdict", c.P.pos(fi.Decl.Pos()), "the registered test never reaches a chk.* assertion or t.Fatal*/Error*: it passes against any server")
		default:
			c.ok(rule, fi.Name, "reaches a verdict", c.P.pos(fi.Decl.Pos()), "calls chk.* / t.Fatal* / t.Error* (directly or in a helper)")
		}
	}
	c.floor(rule, "distinct registered test functions", n, 60)
	sort.Strings(nil)
}

// R19.5 configuration is read when a test runs, not when the package is
// initialised: the package-level variables that the exported setters assign
// (network instance names, …) are not read by any package-level initialiser or
// init function — a value captured there ignores a later SetXXX, so part of a
// test would address one instance and the rest another.
func ruleConfigAtCallTime(c *Ctx) {
	const rule = "CONFIG-AT-CALL-TIME"
	pk := c.P.pkg("compliance")
	if pk == nil {
		c.vanished(rule, "compliance", "package", "package not loaded")
		return
	}
	info := pk.TypesInfo
	// configuration variables: package-level vars assigned inside a function
	conf := map[types.Object]string{}
	for _, f := range pk.Syntax {
		for _, d := range f.Decls {
			fd, ok := d.(*ast.FuncDecl)
			if !ok || fd.Body == nil || fd.Name.Name == "init" {
				continue
			}
			ast.Inspect(fd.Body, func(n ast.Node) bool {
				if as, ok := n.(*ast.AssignStmt); ok && as.Tok == token.ASSIGN {
					for _, l := range as.Lhs {
						if v, ok := objOfIdent(info, l).(*types.Var); ok && v.Parent() == pk.Types.Scope() {
							conf[v] = fd.Name.Name
						}
					}
				}
				return true
			})
		}
	}
	if len(conf) == 0 {
		c.vanished(rule, "compliance", "configuration variables", "no package-level variable is assigned by a function (SetDefaultNetworkInstanceName … expected)")
		return
	}
	n := 0
	reads := func(root ast.Node, where string, pos token.Pos) {
		var hit []string
		ast.Inspect(root, func(m ast.Node) bool {
			if _, isLit := m.(*ast.FuncLit); isLit {
				return false // a closure body runs later, when it is called
			}
			if id, ok := m.(*ast.Ident); ok {
				if setter, ok := conf[info.Uses[id]]; ok {
					hit = append(hit, id.Name+" (set by "+setter+")")
				}
			}
			return true
		})
		n++
		c.Sites++
		c.check(len(hit) == 0, rule, "compliance", where, c.P.pos(pos), "reads no configurable variable at initialisation", "initialised once from "+strings.Join(hit, ", ")+": a later call of the setter is ignored here while the rest of the suite follows it")
	}
	for _, f := range pk.Syntax {
		for _, d := range f.Decls {
			switch x := d.(type) {
			case *ast.GenDecl:
				if x.Tok != token.VAR {
					continue
				}
				for _, sp := range x.Specs {
					vs := sp.(*ast.ValueSpec)
					for i, v := range vs.Values {
						name := "?"
						if i < len(vs.Names) {
							name = vs.Names[i].Name
						}
						if name == "TestSuite" {
							// the registry holds functions; its closures run at test time (checked separately)
						}
						reads(v, "initialiser of "+name, v.Pos())
					}
				}
			case *ast.FuncDecl:
				if x.Name.Name == "init" && x.Recv == nil && x.Body != nil {
					reads(x.Body, "init function", x.Pos())
				}
			}
		}
	}
	c.floor(rule, "package-level initialisers examined", n, 3)
}

// R19.6 no verdict is asked twice of the same evidence: a chk result assertion
// inside a loop whose arguments do not depend on the iteration is satisfied by
// the same acknowledgement every time, so the iterations after the first
// assert nothing (a repeated operation is then never examined).
func ruleVerdictPerIteration(c *Ctx) {
	const rule = "VERDICT-PER-ITERATION"
	n, loops := 0, 0
	for _, fi := range c.P.AllFuncs("compliance") {
		if fi.Decl.Body == nil {
			continue
		}
		info := fi.Pkg.TypesInfo
		var visit func(n ast.Node, loopStack []ast.Node)
		declaredIn := func(o types.Object, loop ast.Node) bool {
			return o != nil && o.Pos() >= loop.Pos() && o.Pos() < loop.End()
		}
		visit = func(root ast.Node, loopStack []ast.Node) {
			ast.Inspect(root, func(m ast.Node) bool {
				if m == root {
					return true
				}
				switch x := m.(type) {
				case *ast.FuncLit:
					// a closure defined in a loop is a different execution context; its own loops are visited
					visit(x.Body, nil)
					return false
				case *ast.ForStmt:
					loops++
					visit(x, append(append([]ast.Node{}, loopStack...), x))
					return false
				case *ast.RangeStmt:
					loops++
					visit(x, append(append([]ast.Node{}, loopStack...), x))
					return false
				case *ast.CallExpr:
					f, ok := calleeObj(info, x).(*types.Func)
					if !ok || f.Pkg() == nil || f.Pkg().Path() != chkPkg || !strings.HasPrefix(f.Name(), "Has") || len(loopStack) == 0 {
						return true
					}
					n++
					c.Sites++
					loop := loopStack[len(loopStack)-1]
					varies := false
					for _, a := range x.Args {
						ast.Inspect(a, func(k ast.Node) bool {
							switch y := k.(type) {
							case *ast.Ident:
								if o := info.Uses[y]; o != nil {
									if _, isVar := o.(*types.Var); isVar && declaredIn(o, loop) {
										varies = true
									}
								}
							case *ast.CallExpr:
								// a call that is not a builder / option constructor may fetch new evidence
								if g, ok := calleeObj(info, y).(*types.Func); ok && g.Pkg() != nil {
									switch g.Pkg().Path() {
									case modPath + "/fluent", chkPkg, modPath + "/constants":
									default:
										varies = true
									}
								} else {
									varies = true
								}
							}
							return true
						})
					}
					c.check(varies, rule, fi.Name, "assertion in a loop: "+f.Name()+" #"+itoa(n), c.P.pos(x.Pos()), "arguments depend on the iteration", "chk."+f.Name()+" is called in a loop with arguments that are the same on every iteration: the result that satisfies the first iteration satisfies all of them, so the repeated operation is never examined")
				}
				return true
			})
		}
		visit(fi.Decl.Body, nil)
	}
	c.note("VERDICT-PER-ITERATION: %d loops in package compliance, %d chk assertions inside loops", loops, n)
}

// R19.7 the clean-up every test relies on really cleans up: flushServer flushes
// all network instances with the election override and fails the test when the
// server refuses (a later test would otherwise start from leftovers).
func ruleFlushServerHelper(c *Ctx) {
	const rule = "CLEANUP-HELPER"
	fi := c.need("compliance", "", "flushServer")
	if fi == nil {
		return
	}
	info := fi.Pkg.TypesInfo
	// the builder chain ending in Send()
	var send *ast.CallExpr
	for _, call := range callsIn(fi.Decl.Body) {
		if se, ok := ast.Unparen(call.Fun).(*ast.SelectorExpr); ok && se.Sel.Name == "Send" {
			if f, ok := calleeObj(info, call).(*types.Func); ok && recvTypeName(f) == "gRIBIFlush" {
				send = call
			}
		}
	}
	if send == nil {
		c.vanished(rule, fi.Name, "Flush().…Send()", "flushServer sends no Flush")
		return
	}
	chain := map[string]bool{}
	for e := ast.Expr(send); e != nil; {
		call, ok := ast.Unparen(e).(*ast.CallExpr)
		if !ok {
			break
		}
		se, ok := ast.Unparen(call.Fun).(*ast.SelectorExpr)
		if !ok {
			break
		}
		chain[se.Sel.Name] = true
		e = se.X
	}
	c.Sites++
	c.check(chain["WithAllNetworkInstances"] && chain["WithElectionOverride"] && !chain["WithNetworkInstance"] && !chain["WithElectionID"], rule, fi.Name, "flushes every network instance, whoever is primary", c.P.pos(send.Pos()),
		"Flush().WithElectionOverride().WithAllNetworkInstances().Send()", "the clean-up flush is not (all network instances, election override): entries of other instances or of another primary survive into the next test")
	// an error of Send is fatal
	ev := func(n ast.Node) []Event {
		var out []Event
		for _, call := range callsIn(n) {
			if call == send {
				d := &addEvData{call: call}
				if as := assignedFromCall(info, n, call); len(as) == 2 {
					d.err = as[1]
				}
				out = append(out, Event{Kind: "send", Node: call, Data: d})
			}
		}
		return out
	}
	paths, _ := enumFunc(fi, ev, nil)
	bad := ""
	nErr := 0
	for _, p := range paths {
		si := idx(p, "send")
		if si < 0 {
			continue
		}
		d := p.Events[si].Data.(*addEvData)
		if d.err == nil {
			bad = "the error of Send is dropped"
			continue
		}
		if factsAfter(info, p, si, len(p.Events)).Obj(d.err) == +1 {
			nErr++
			fatal := false
			if p.End == "panic" {
				if es, ok := p.EndNode.(*ast.ExprStmt); ok {
					if call, ok := es.X.(*ast.CallExpr); ok {
						if se, ok := ast.Unparen(call.Fun).(*ast.SelectorExpr); ok && strings.HasPrefix(se.Sel.Name, "Fatal") {
							fatal = true
						}
					}
				}
			}
			if !fatal {
				bad = "a refused clean-up flush does not fail the test: " + p.describe(c.P)
			}
		}
	}
	c.check(bad == "" && nErr >= 1, rule, fi.Name, "a refused clean-up is fatal", c.P.pos(fi.Decl.Pos()), fmt.Sprintf("%d error path(s), all Fatal", nErr), bad)
}

// STOP-CLOSES — fluent's Stop really ends the session: whenever the fluent client holds a client (g.c != nil) it stops
// sending and closes it — on every path, whatever else is configured (a session left open by a finished test keeps its
// parameters registered on a long-lived server and makes the next test's negotiation fail).
func ruleStopCloses(c *Ctx) {
	fi := c.need("fluent", "GRIBIClient", "Stop")
	if fi == nil {
		return
	}
	info := fi.Pkg.TypesInfo
	r := recvName(fi)
	aNil := eqAtom(r+".c", "nil")
	ev := func(n ast.Node) []Event {
		var out []Event
		for _, call := range callsIn(n) {
			f, ok := calleeObj(info, call).(*types.Func)
			if !ok || recvTypeName(f) != "Client" || f.Pkg() == nil || f.Pkg().Path() != modPath+"/client" {
				continue
			}
			if f.Name() == "StopSending" || f.Name() == "Close" {
				out = append(out, Event{Kind: f.Name(), Node: call})
			}
		}
		return out
	}
	runTable(c, tableSpec{
		Rule: "STOP-CLOSES", Fn: fi, Construct: "Stop: a held client is stopped and closed", Events: ev,
		Atoms: map[string]int{aNil: 2},
		Outcome: func(p Path) string {
			var evs []string
			for _, e := range p.Events {
				evs = append(evs, e.Kind)
			}
			return "effects[" + strings.Join(evs, ",") + "]"
		},
		Expected: func(v *Valuation) (string, bool) {
			if v.B(aNil) {
				return "effects[]", true
			}
			return "effects[StopSending,Close]", true
		},
	})
}

// CLEANUP-ORDER — deferred calls run last-in first-out: a `defer flushServer(x, t)` declared after `defer x.Stop(t)`
// runs before that Stop, on a client whose session is still open; flushServer restarts the client, the Stop then
// closes the replacement and the first session stays registered on a long-lived server — every later test that
// negotiates other parameters fails. The flush of a client is deferred before (runs after) the Stop of that client.
func ruleCleanupOrder(c *Ctx) {
	const rule = "CLEANUP-ORDER"
	n := 0
	var bad []string
	for _, fi := range c.P.AllFuncs("compliance") {
		if fi.Decl.Body == nil {
			continue
		}
		info := fi.Pkg.TypesInfo
		stopped := map[types.Object]token.Pos{}
		for _, st := range fi.Decl.Body.List {
			ds, ok := st.(*ast.DeferStmt)
			if !ok {
				continue
			}
			if se, ok := ast.Unparen(ds.Call.Fun).(*ast.SelectorExpr); ok && se.Sel.Name == "Stop" {
				if o := objOfIdent(info, se.X); o != nil {
					stopped[o] = ds.Pos()
				}
				continue
			}
			if f, ok := calleeObj(info, ds.Call).(*types.Func); ok && f.Name() == "flushServer" && len(ds.Call.Args) >= 1 {
				n++
				if o := objOfIdent(info, ds.Call.Args[0]); o != nil {
					if _, was := stopped[o]; was {
						bad = append(bad, fmt.Sprintf("%s: flushServer(%s) deferred at %s after %s.Stop", fi.Name, o.Name(), c.P.pos(ds.Pos()), o.Name()))
					}
				}
			}
		}
	}
	c.Sites += n
	c.check(len(bad) == 0, rule, "compliance", "a client's flush is deferred before its Stop", "-", fmt.Sprintf("%d deferred flushes, none declared after the Stop of the same client", n),
		"the deferred flush runs before the client's deferred Stop (last-in first-out), on a session that is still open: "+strings.Join(bad, "; "))
	c.floor(rule, "deferred flushServer calls in the compliance tests", n, 20)
}

// ruleResultsPerClient: a verdict about a client is computed from that client's own results. The result list handed to
// chk.HasResult / HasResultsCache is one client's Results(t) (directly, through a local defined by one call, or a
// parameter); a list accumulated with append from the Results of clients pools several sessions: an expectation
// meant for one client is then satisfied by what another one received (a server that misreports to the second client
// passes).
func ruleResultsPerClient(c *Ctx) {
	const rule = "RESULTS-PER-CLIENT"
	isOpResults := func(t types.Type) bool {
		sl, ok := t.Underlying().(*types.Slice)
		return ok && isNamed(sl.Elem(), modPath+"/client", "OpResult")
	}
	sites := 0
	for _, fi := range c.P.AllFuncs("compliance") {
		if fi.Decl.Body == nil {
			continue
		}
		info := fi.Pkg.TypesInfo
		// locals of result-list type that gather the Results(…) of more than one client: two different receivers among
		// everything assigned or appended to the local, or one receiver that changes with the iteration of a loop
		// the accumulation sits in
		pooled := map[types.Object]token.Pos{}
		sources := map[types.Object]map[string]bool{}
		var loops []ast.Node
		var walk func(n ast.Node)
		walk = func(root ast.Node) {
			ast.Inspect(root, func(n ast.Node) bool {
				if n == nil || n == root {
					return true
				}
				switch x := n.(type) {
				case *ast.ForStmt, *ast.RangeStmt:
					loops = append(loops, x)
					walk(x)
					loops = loops[:len(loops)-1]
					return false
				case *ast.AssignStmt:
					if len(x.Lhs) != len(x.Rhs) {
						return true
					}
					for i, l := range x.Lhs {
						o := objOfIdent(info, l)
						if o == nil || !isOpResults(o.Type()) {
							continue
						}
						ast.Inspect(x.Rhs[i], func(m ast.Node) bool {
							var key string
							var root types.Object
							switch y := m.(type) {
							case *ast.CallExpr:
								f, ok := calleeObj(info, y).(*types.Func)
								if !ok || f.Name() != "Results" || f.Pkg() == nil || f.Pkg().Path() != modPath+"/fluent" {
									return true
								}
								se, ok := ast.Unparen(y.Fun).(*ast.SelectorExpr)
								if !ok {
									return true
								}
								ro, rp := selectorPath(info, se.X)
								if ro == nil {
									key = types.ExprString(se.X)
								} else {
									root, key = ro, fmt.Sprintf("%s@%d.%s", ro.Name(), ro.Pos(), strings.Join(rp, "."))
								}
							case *ast.Ident:
								v, ok := info.ObjectOf(y).(*types.Var)
								if !ok || v == o || !isOpResults(v.Type()) {
									return true
								}
								root, key = v, fmt.Sprintf("list %s@%d", v.Name(), v.Pos())
							default:
								return true
							}
							if sources[o] == nil {
								sources[o] = map[string]bool{}
							}
							sources[o][key] = true
							varying := false
							for _, lp := range loops {
								if root != nil && lp.Pos() <= root.Pos() && root.Pos() < lp.End() {
									varying = true
								}
							}
							if (len(sources[o]) > 1 || varying) && pooled[o] == 0 {
								pooled[o] = x.Pos()
							}
							return true
						})
					}
				}
				return true
			})
		}
		walk(fi.Decl.Body)
		for _, call := range callsIn(fi.Decl.Body) {
			f, ok := calleeObj(info, call).(*types.Func)
			if !ok || f.Pkg() == nil || f.Pkg().Path() != modPath+"/chk" || (f.Name() != "HasResult" && f.Name() != "HasResultsCache") || len(call.Args) < 3 {
				continue
			}
			sites++
			c.Sites++
			c.Analysed[fi.Name] = true
			if o := objOfIdent(info, call.Args[1]); o != nil {
				if pos, isPooled := pooled[frameArgRoot(info, fi.Decl, o)]; isPooled {
					c.fail(rule, fi.Name, "result list of "+f.Name(), c.P.pos(call.Pos()),
						"the results examined are accumulated with append from the results of clients ("+c.P.pos(pos)+"): an expectation about one client is satisfied by what another client received")
				}
			}
		}
		for o, pos := range pooled {
			_ = o
			c.Analysed[fi.Name] = true
			// (reported once per function even when no matcher reads it directly: it may be handed to a helper)
			used := false
			for _, call := range callsIn(fi.Decl.Body) {
				for _, a := range call.Args {
					if objOfIdent(info, a) == o {
						used = true
					}
				}
			}
			if used {
				c.fail(rule, fi.Name, "pooled result list", c.P.pos(pos), "a list of operation results is accumulated from several Results(…) calls and handed on: verdicts computed from it no longer belong to one client")
			}
		}
	}
	// (anti-vacuity only: 121 on the unchanged tree; wrapping the matcher in a helper lowers the count)
	c.floor(rule, "result matchers whose result list was traced", sites, 40)
	if sites >= 40 {
		c.ok(rule, "compliance", "result lists", "-", fmt.Sprintf("%d HasResult/HasResultsCache calls read one client's results (no accumulated list)", sites))
	}
}
