package server

import (
	"context"
	"io"
	"sync"
	"testing"
	"time"

	"google.golang.org/grpc/metadata"

	aftpb "github.com/openconfig/gribi/v1/proto/gribi_aft"
	spb "github.com/openconfig/gribi/v1/proto/service"
)

type slowStream struct {
	mu   sync.Mutex
	in   []*spb.ModifyRequest
	sent []*spb.ModifyResponse
}

func (f *slowStream) Recv() (*spb.ModifyRequest, error) {
	f.mu.Lock()
	defer f.mu.Unlock()
	if len(f.in) == 0 {
		return nil, io.EOF // the client half-closed: it still reads responses
	}
	m := f.in[0]
	f.in = f.in[1:]
	return m, nil
}
func (f *slowStream) Send(m *spb.ModifyResponse) error {
	time.Sleep(20 * time.Millisecond) // the transport takes a moment to write
	f.mu.Lock()
	defer f.mu.Unlock()
	f.sent = append(f.sent, m)
	return nil
}
func (f *slowStream) SetHeader(metadata.MD) error  { return nil }
func (f *slowStream) SendHeader(metadata.MD) error { return nil }
func (f *slowStream) SetTrailer(metadata.MD)       {}
func (f *slowStream) Context() context.Context     { return context.Background() }
func (f *slowStream) SendMsg(any) error            { return nil }
func (f *slowStream) RecvMsg(any) error            { return nil }

func TestF29LastResultWrittenBeforeReturn(t *testing.T) {
	s, err := New()
	if err != nil {
		t.Fatal(err)
	}
	st := &slowStream{in: []*spb.ModifyRequest{
		{Params: &spb.SessionParameters{Redundancy: spb.SessionParameters_SINGLE_PRIMARY, Persistence: spb.SessionParameters_PRESERVE}},
		{ElectionId: &spb.Uint128{Low: 1}},
		{Operation: []*spb.AFTOperation{{
			Id: 1, NetworkInstance: DefaultNetworkInstanceName, Op: spb.AFTOperation_ADD, ElectionId: &spb.Uint128{Low: 1},
			Entry: &spb.AFTOperation_NextHop{NextHop: &aftpb.Afts_NextHopKey{Index: 1, NextHop: &aftpb.Afts_NextHop{}}},
		}}},
	}}
	if err := s.Modify(st); err != nil {
		t.Fatalf("Modify: %v", err)
	}
	// The RPC has returned: whatever was not written by now is never delivered (gRPC ends the stream).
	st.mu.Lock()
	defer st.mu.Unlock()
	gotOp := false
	for _, m := range st.sent {
		for _, r := range m.Result {
			if r.Id == 1 {
				gotOp = true
			}
		}
	}
	if !gotOp {
		t.Fatalf("operation 1 was programmed but its result was not written before Modify returned; sent: %v", st.sent)
	}
}
