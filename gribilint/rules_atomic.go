package main

// ATOMIC-UPDATE — a guarded field that is rewritten from its own previous value (filter a queue, append to
// it, bump a counter read earlier) must be read and written inside one critical section. If the lock is
// released between the read and the write, an update made by another goroutine in the gap is overwritten
// with a value computed from stale state — a lost update that no race detector reports, since every access
// is locked.
//
// Per SSA function and per guarded struct field F with a direct store in the function: D is the set of
// values data-dependent on a load of F in the function (closed over operands: phi, range/next/extract,
// index, slice, append, conversions, calls taking a D value). For a store of a D value into F, no release
// (Unlock/RUnlock, not deferred) of the guarding lock may lie on a control-flow path from a load of F that
// feeds the stored value to the store; and the load must itself be made with the lock held.

import (
	"fmt"
	"go/types"
	"sort"
	"strings"

	"golang.org/x/tools/go/ssa"
)

func ruleAtomicUpdate(c *Ctx, pkgs []string, floor int) {
	const rule = "ATOMIC-UPDATE"
	la := c.P.locks()
	inPkg := func(f *ssa.Function) bool {
		rel := relOfFn(f)
		for _, p := range pkgs {
			if p == rel {
				return true
			}
		}
		return false
	}
	nPairs := 0
	var fns []*ssa.Function
	for _, f := range la.order {
		if inPkg(f) && f.Blocks != nil {
			fns = append(fns, f)
		}
	}
	sort.Slice(fns, func(i, j int) bool { return fns[i].String() < fns[j].String() })
	for _, f := range fns {
		// stores to guarded fields
		type storeSite struct {
			st  *ssa.Store
			fld *types.Var
			g   *guardEntry
		}
		var stores []storeSite
		loads := map[*types.Var][]*ssa.UnOp{}
		for _, b := range f.Blocks {
			for _, in := range b.Instrs {
				switch x := in.(type) {
				case *ssa.Store:
					if fa, ok := x.Addr.(*ssa.FieldAddr); ok {
						fv := fieldOfAddr(fa)
						if g := la.guards[fv]; g != nil {
							stores = append(stores, storeSite{x, fv, g})
						}
					}
				case *ssa.UnOp:
					if fa, ok := x.X.(*ssa.FieldAddr); ok && x.Op.String() == "*" {
						fv := fieldOfAddr(fa)
						if la.guards[fv] != nil {
							loads[fv] = append(loads[fv], x)
						}
					}
				}
			}
		}
		if len(stores) == 0 {
			continue
		}
		// releases of each lock path (not deferred)
		type rel struct {
			in   ssa.Instruction
			path string
		}
		var rels []rel
		for _, b := range f.Blocks {
			for _, in := range b.Instrs {
				if call, ok := in.(*ssa.Call); ok {
					if op, addr := mutexOp(call); op == "Unlock" || op == "RUnlock" {
						rels = append(rels, rel{call, la.path(addr, 0)})
					}
				}
			}
		}
		for _, s := range stores {
			if len(loads[s.fld]) == 0 {
				continue
			}
			// forward closure of dependence from each load
			for _, ld := range loads[s.fld] {
				dep := map[ssa.Value]bool{ld: true}
				changed := true
				for changed {
					changed = false
					for _, b := range f.Blocks {
						for _, in := range b.Instrs {
							v, isVal := in.(ssa.Value)
							if !isVal || dep[v] {
								continue
							}
							for _, op := range in.Operands(nil) {
								if op != nil && *op != nil && dep[*op] {
									dep[v] = true
									changed = true
									break
								}
							}
						}
					}
				}
				if !dep[s.st.Val] {
					continue
				}
				nPairs++
				c.Sites++
				lockPath := ""
				if fa, ok := s.st.Addr.(*ssa.FieldAddr); ok {
					lockPath = guardLockPath(la, fa, s.g)
				}
				bad := ""
				for _, r := range rels {
					if lockPath != "" && r.path != lockPath {
						continue
					}
					if instrReaches(ld, r.in) && instrReaches(r.in, s.st) {
						bad = fmt.Sprintf("%s is rewritten (%s) from a value read at %s, and %s is released in between (%s): an update made by another goroutine in the gap is overwritten with the stale copy", s.fld.Name(), c.P.pos(s.st.Pos()), c.P.pos(ld.Pos()), r.path, c.P.pos(r.in.Pos()))
					}
				}
				key := fmt.Sprintf("%s ← f(%s)", s.fld.Name(), s.fld.Name())
				c.check(bad == "", rule, fnDisplay(f), key, c.P.pos(s.st.Pos()), "read and rewritten without releasing "+s.g.Lock+" in between", bad)
			}
		}
	}
	c.floor(rule, "read-modify-write pairs on guarded fields in "+strings.Join(pkgs, ","), nPairs, floor)
}

func fieldOfAddr(fa *ssa.FieldAddr) *types.Var {
	pt, ok := fa.X.Type().Underlying().(*types.Pointer)
	if !ok {
		return nil
	}
	st, ok := pt.Elem().Underlying().(*types.Struct)
	if !ok {
		return nil
	}
	return st.Field(fa.Field)
}

// guardLockPath: the instance path of the lock guarding the field addressed by fa ("" when it cannot be named).
func guardLockPath(la *lockAnalysis, fa *ssa.FieldAddr, g *guardEntry) string {
	base := la.path(fa.X, 0)
	if base == "" || g == nil {
		return ""
	}
	return base + "." + g.Lock
}

// instrReaches: can control flow from instruction a (after it) reach instruction b?
func instrReaches(a, b ssa.Instruction) bool {
	ba, bb := a.Block(), b.Block()
	if ba == nil || bb == nil {
		return false
	}
	idx := func(in ssa.Instruction) int {
		for i, x := range in.Block().Instrs {
			if x == in {
				return i
			}
		}
		return -1
	}
	if ba == bb && idx(a) < idx(b) {
		return true
	}
	seen := map[*ssa.BasicBlock]bool{}
	var walk func(x *ssa.BasicBlock) bool
	walk = func(x *ssa.BasicBlock) bool {
		for _, s := range x.Succs {
			if s == bb {
				return true
			}
			if !seen[s] {
				seen[s] = true
				if walk(s) {
					return true
				}
			}
		}
		return false
	}
	return walk(ba)
}
