package main

// OPTION-PROBES — the functional-option probes (`hasX(opts) …`) are the switches
// that turn whole mechanisms on and off: the resolvability gate, forward
// references, the change hooks, the VRFs a server starts with, the fields a chk
// helper ignores. Each is a loop over the options with a type assertion. The
// rule decides for every probe of a package, on all paths:
//   - a positive answer (true / the option / one of its fields) is returned only
//     where the assertion of the loop's element to the probe's own option type
//     succeeded, a negative one (false / nil) only after the loop;
//   - the asserted type has a constructor (an exported function returning it);
//   - two probes over the same option interface never assert the same type (a
//     copy-paste slip makes one option switch two mechanisms);
//   - a probe answering with a value answers with the matched option itself or a
//     field of it.
// The probe ↔ option-type table is printed in the evidence.

import (
	"fmt"
	"go/ast"
	"go/types"
	"sort"
	"strings"
)

func ruleOptionProbes(c *Ctx, rel string, floor int) {
	const rule = "OPTION-PROBES"
	pk := c.P.pkg(rel)
	if pk == nil {
		c.vanished(rule, rel, "package", "package not loaded")
		return
	}
	type probe struct {
		fi    *FuncInfo
		iface string
		typ   string
	}
	var probes []probe
	for _, fi := range c.P.AllFuncs(rel) {
		if fi.Decl.Recv != nil || fi.Decl.Body == nil {
			continue
		}
		if optionParserFuncs[fi.Obj] != nil {
			continue // answers several probes in one pass (verified and folded by foldprobes.go)
		}
		sig := fi.Obj.Type().(*types.Signature)
		if sig.Params().Len() != 1 || sig.Results().Len() != 1 {
			continue
		}
		sl, ok := sig.Params().At(0).Type().Underlying().(*types.Slice)
		if !ok {
			continue
		}
		in := namedOf(sl.Elem())
		if in == nil || in.Obj().Pkg() != pk.Types {
			continue
		}
		if _, isI := in.Underlying().(*types.Interface); !isI {
			continue
		}
		// the marker interfaces have one unexported method and no others
		probes = append(probes, probe{fi: fi, iface: in.Obj().Name()})
	}
	n := 0
	byIface := map[string]map[string]string{}
	for i := range probes {
		pr := &probes[i]
		fi := pr.fi
		info := fi.Pkg.TypesInfo
		c.Analysed[fi.Name] = true
		opts := paramObjs(info, fi.Decl)[0]
		// the loop over the options
		var loop *ast.RangeStmt
		for _, st := range fi.Decl.Body.List {
			if rs, ok := st.(*ast.RangeStmt); ok && objOfIdent(info, rs.X) == opts {
				loop = rs
			}
		}
		if loop == nil {
			// a wrapper that hands the question to another probe (a generic one, folded by foldprobes.go)
			if typ, bad, isDel := delegatingProbe(c, fi); isDel {
				n++
				c.Sites++
				if bad == "" {
					pr.typ = typ
					if byIface[pr.iface] == nil {
						byIface[pr.iface] = map[string]string{}
					}
					if other, dup := byIface[pr.iface][pr.typ]; dup {
						bad = fmt.Sprintf("%s and %s both look for *%s among %s options: one option switches two mechanisms and the other mechanism's own option is never seen", other, fi.Obj.Name(), pr.typ, pr.iface)
					}
					byIface[pr.iface][pr.typ] = fi.Obj.Name()
				}
				c.check(bad == "", rule, fi.Name, "answers positively iff its own option is present", c.P.pos(fi.Decl.Pos()), fmt.Sprintf("hands the question for *%s to the generic probe and answers as it does", typ), bad)
			}
			continue // not a probe (some other function over an option slice)
		}
		n++
		c.Sites++
		elem := objOfIdent(info, rs2v(loop))
		// assertions of the element inside the loop
		type asrt struct {
			typ    string
			okObj  types.Object
			valObj types.Object
		}
		var as []asrt
		ast.Inspect(loop.Body, func(m ast.Node) bool {
			a, ok := m.(*ast.AssignStmt)
			if !ok || len(a.Lhs) != 2 || len(a.Rhs) != 1 {
				return true
			}
			ta, ok := ast.Unparen(a.Rhs[0]).(*ast.TypeAssertExpr)
			if !ok || ta.Type == nil || objOfIdent(info, ta.X) != elem || elem == nil {
				return true
			}
			if nt := namedOf(info.TypeOf(ta.Type)); nt != nil {
				as = append(as, asrt{typ: nt.Obj().Name(), okObj: objOfIdent(info, a.Lhs[1]), valObj: objOfIdent(info, a.Lhs[0])})
			}
			return true
		})
		bad := ""
		if len(as) != 1 {
			bad = fmt.Sprintf("the probe makes %d type assertions on the option, want exactly 1", len(as))
		}
		paths, pe := enumFunc(fi, func(ast.Node) []Event { return nil }, nil)
		if pe.overflow || len(pe.unsup) > 0 || len(paths) == 0 {
			c.undecided(rule, fi.Name, "body", c.P.pos(fi.Decl.Pos()), "path enumeration incomplete")
			continue
		}
		posSeen, negSeen := false, false
		for _, p := range paths {
			if p.End == "panic" || bad != "" {
				continue
			}
			rs, ok := p.EndNode.(*ast.ReturnStmt)
			if !ok || len(rs.Results) != 1 {
				bad = "a path leaves the probe without returning a value: " + p.describe(c.P)
				continue
			}
			inLoop := rs.Pos() >= loop.Body.Pos() && rs.End() <= loop.Body.End()
			negative := isNilIdent(info, rs.Results[0])
			if b, isB := boolConst(info, rs.Results[0]); isB {
				negative = !b
			}
			matched := factsAfter(info, p, -1, len(p.Events)).Obj(as[0].okObj) == +1
			switch {
			case negative && inLoop:
				bad = "the probe answers negatively from inside the loop (before all options were looked at): " + p.describe(c.P)
			case negative:
				negSeen = true
			case !inLoop || !matched:
				bad = "the probe answers positively on a path where the option was not matched: " + p.describe(c.P)
			default:
				posSeen = true
				// a value answer is the matched option or a field of it
				if _, isB := boolConst(info, rs.Results[0]); !isB {
					if o, _ := selectorPath(info, rs.Results[0]); o == nil || o != as[0].valObj {
						bad = "the probe answers with " + types.ExprString(rs.Results[0]) + ", not with the matched option (or a field of it)"
					}
				}
			}
		}
		if bad == "" && (!posSeen || !negSeen) {
			bad = fmt.Sprintf("the probe cannot answer both ways (positive: %v, negative: %v)", posSeen, negSeen)
		}
		if bad == "" {
			pr.typ = as[0].typ
			// constructor: an exported function of the package returning *T
			hasCtor := false
			for _, g := range c.P.AllFuncs(rel) {
				if g.Decl.Recv != nil || !g.Obj.Exported() {
					continue
				}
				rsig := g.Obj.Type().(*types.Signature)
				if rsig.Results().Len() == 1 {
					if nt := namedOf(rsig.Results().At(0).Type()); nt != nil && nt.Obj().Name() == pr.typ && nt.Obj().Pkg() == pk.Types {
						hasCtor = true
					}
				}
			}
			if !hasCtor {
				bad = "no exported constructor returns the option type *" + pr.typ + " the probe looks for: the mechanism can never be switched"
			}
			if byIface[pr.iface] == nil {
				byIface[pr.iface] = map[string]string{}
			}
			if other, dup := byIface[pr.iface][pr.typ]; dup && bad == "" {
				bad = fmt.Sprintf("%s and %s both look for *%s among %s options: one option switches two mechanisms and the other mechanism's own option is never seen", other, fi.Obj.Name(), pr.typ, pr.iface)
			}
			byIface[pr.iface][pr.typ] = fi.Obj.Name()
		}
		c.check(bad == "", rule, fi.Name, "answers positively iff its own option is present", c.P.pos(fi.Decl.Pos()), fmt.Sprintf("looks for *%s among []%s", pr.typ, pr.iface), bad)
	}
	// probes written in line in their caller (folded into a call by foldprobes.go): the loop answers
	// positively iff its own option is present by construction of the fold
	var folded []string
	for k, cnt := range foldedProbeSites[rel] {
		folded = append(folded, fmt.Sprintf("%s (%d in-line)", k, cnt))
		n++
	}
	sort.Strings(folded)
	c.floor(rule, "option probes of package "+rel, n, floor)
	var tbl []string
	tbl = append(tbl, folded...)
	for _, pr := range probes {
		if pr.typ != "" {
			tbl = append(tbl, pr.fi.Obj.Name()+"→*"+pr.typ)
		}
	}
	sort.Strings(tbl)
	c.note("OPTION-PROBES %s: %s", rel, strings.Join(tbl, ", "))
}

func rs2v(rs *ast.RangeStmt) ast.Expr {
	if rs.Value != nil {
		return rs.Value
	}
	return rs.Key
}

// probeTable: probe function → option type name it asserts (syntactic, single assertion on the range element).
func probeTable(c *Ctx, rel string) map[*types.Func]string {
	out := map[*types.Func]string{}
	pk := c.P.pkg(rel)
	if pk == nil {
		return out
	}
	for _, fi := range c.P.AllFuncs(rel) {
		if fi.Decl.Recv != nil || fi.Decl.Body == nil {
			continue
		}
		sig := fi.Obj.Type().(*types.Signature)
		if sig.Params().Len() != 1 || sig.Results().Len() != 1 {
			continue
		}
		if _, ok := sig.Params().At(0).Type().Underlying().(*types.Slice); !ok {
			continue
		}
		info := fi.Pkg.TypesInfo
		var ts []string
		ast.Inspect(fi.Decl.Body, func(m ast.Node) bool {
			if ta, ok := m.(*ast.TypeAssertExpr); ok && ta.Type != nil {
				if nt := namedOf(info.TypeOf(ta.Type)); nt != nil && nt.Obj().Pkg() == pk.Types {
					ts = append(ts, nt.Obj().Name())
				}
			}
			return true
		})
		if len(ts) == 1 {
			out[fi.Obj] = ts[0]
		}
		if len(ts) == 0 {
			if call := delegatedCall(info, fi); call != nil {
				out[fi.Obj] = foldedProbes[calleeObj(info, call).(*types.Func)]
			}
		}
	}
	for f, t := range foldedProbes {
		if f.Pkg() == pk.Types {
			out[f] = t
		}
	}
	return out
}

// SERVER-WIRING — server.New turns each server option into its effect on the RIB,
// and nothing else does: a frozen table keyed by the exported option constructor
// (API names) says which effect each option has; the option's type is found
// through the constructor's result type and the probe that looks for it through
// OPTION-PROBES' table. Every effect call in New must sit under the positive
// answer of exactly its own option's probe, and every option must have its effect.
func ruleServerWiring(c *Ctx, which []string) {
	const rule = "SERVER-WIRING"
	fi := c.need("server", "", "New")
	if fi == nil {
		return
	}
	info := fi.Pkg.TypesInfo
	want := map[string]string{ // exported constructor → effect
		"DisableRIBCheckFn":          "ribopt:DisableRIBCheckFn",
		"WithNoRIBForwardReferences": "ribopt:DisableForwardReferences",
		"WithPostChangeRIBHook":      "call:SetPostChangeHook",
		"WithRIBResolvedEntryHook":   "call:SetResolvedEntryHook",
		"WithVRFs":                   "call:AddNetworkInstance",
	}
	// constructor → option type
	typeOfCtor := map[string]string{}
	for _, g := range c.P.AllFuncs("server") {
		if g.Decl.Recv != nil || want[g.Obj.Name()] == "" {
			continue
		}
		rs := g.Obj.Type().(*types.Signature).Results()
		if rs.Len() == 1 {
			if nt := namedOf(rs.At(0).Type()); nt != nil {
				typeOfCtor[g.Obj.Name()] = nt.Obj().Name()
			}
		}
	}
	probes := probeTable(c, "server")
	// the option type governing a node: the enclosing if whose condition is a positive probe answer
	parents := map[ast.Node]ast.Node{}
	var stack []ast.Node
	ast.Inspect(fi.Decl.Body, func(m ast.Node) bool {
		if m == nil {
			stack = stack[:len(stack)-1]
			return true
		}
		if len(stack) > 0 {
			parents[m] = stack[len(stack)-1]
		}
		stack = append(stack, m)
		return true
	})
	probeOfExpr := func(e ast.Expr) string {
		if call, ok := ast.Unparen(e).(*ast.CallExpr); ok {
			if f, ok := calleeObj(info, call).(*types.Func); ok {
				return probes[f]
			}
		}
		return ""
	}
	governing := func(n ast.Node) []string {
		var out []string
		child := n
		for p := parents[n]; p != nil; child, p = p, parents[p] {
			// for _, x := range probe(opt) { … }: nothing happens unless the option is present
			if rs, ok := p.(*ast.RangeStmt); ok && child == ast.Node(rs.Body) {
				if t := probeOfExpr(rs.X); t != "" {
					out = append(out, t)
					continue
				}
				if v, ok := objOfIdent(info, rs.X).(*types.Var); ok {
					if def := soleDefinition(info, fi.Decl, v); def != nil {
						if t := probeOfExpr(def); t != "" {
							out = append(out, t)
						}
					}
				}
				continue
			}
			ifs, ok := p.(*ast.IfStmt)
			if !ok || child != ast.Node(ifs.Body) {
				continue
			}
			// if probe(opt) { … }
			if t := probeOfExpr(ifs.Cond); t != "" {
				out = append(out, t)
				continue
			}
			// if v := probe(opt); v != nil { … }
			if as, ok := ifs.Init.(*ast.AssignStmt); ok && len(as.Lhs) == 1 && len(as.Rhs) == 1 {
				if t := probeOfExpr(as.Rhs[0]); t != "" {
					if be, ok := ast.Unparen(ifs.Cond).(*ast.BinaryExpr); ok && be.Op.String() == "!=" && objOfIdent(info, be.X) == objOfIdent(info, as.Lhs[0]) && isNilIdent(info, be.Y) {
						out = append(out, t)
						continue
					}
				}
			}
			// v := probe(opt) … if v != nil { … }
			if be, ok := ast.Unparen(ifs.Cond).(*ast.BinaryExpr); ok && be.Op.String() == "!=" && isNilIdent(info, be.Y) {
				if v, ok := objOfIdent(info, be.X).(*types.Var); ok {
					if def := soleDefinition(info, fi.Decl, v); def != nil {
						if t := probeOfExpr(def); t != "" {
							out = append(out, t)
							continue
						}
					}
				}
			}
			out = append(out, "?")
		}
		return out
	}
	got := map[string][]string{} // effect → governing option types
	for _, call := range callsIn(fi.Decl.Body) {
		f, ok := calleeObj(info, call).(*types.Func)
		if !ok || f.Pkg() == nil || f.Pkg().Path() != ribPkg {
			continue
		}
		eff := ""
		switch {
		case f.Name() == "DisableRIBCheckFn" || f.Name() == "DisableForwardReferences":
			eff = "ribopt:" + f.Name()
		case recvTypeName(f) == "RIB" && (f.Name() == "SetPostChangeHook" || f.Name() == "SetResolvedEntryHook" || f.Name() == "AddNetworkInstance"):
			eff = "call:" + f.Name()
		}
		if eff == "" {
			continue
		}
		c.Sites++
		gs := governing(call)
		sort.Strings(gs)
		var uq []string
		for i, g := range gs {
			if i == 0 || g != gs[i-1] {
				uq = append(uq, g)
			}
		}
		got[eff] = append(got[eff], strings.Join(uq, "&"))
	}
	for _, ctor := range which {
		eff := want[ctor]
		t := typeOfCtor[ctor]
		switch {
		case t == "":
			c.vanished(rule, fi.Name, "option "+ctor, "no exported constructor "+ctor+" in package server")
		case len(got[eff]) == 0:
			c.fail(rule, fi.Name, "option "+ctor+" has its effect", c.P.pos(fi.Decl.Pos()), "server.New never performs "+eff+": the option "+ctor+" is accepted and ignored")
		default:
			ok := true
			for _, g := range got[eff] {
				if g != t {
					ok = false
				}
			}
			c.check(ok, rule, fi.Name, "option "+ctor+" has its effect", c.P.pos(fi.Decl.Pos()), eff+" under the probe for *"+t,
				fmt.Sprintf("%s is performed under %v, want only under the positive answer of the probe for *%s (option %s): another option switches this mechanism, or it is switched unconditionally", eff, got[eff], t, ctor))
		}
	}
}

// RIB-WIRING — rib.New and rib.NewRIBHolder turn each option into its effect, and
// nothing else does. Decision table over the answers of the probes for the option
// types returned by the exported constructors (DisableRIBCheckFn,
// DisableForwardReferences, RIBHolderCheckFn); the probe looked at is found through
// the option type, not by name:
//
//	New:          RIBHolderCheckFn passed and RIB.ribCheck set     iff DisableRIBCheckFn absent
//	              DisableForwardReferences passed and
//	              RIB.disableForwardReferences set                 iff DisableForwardReferences present
//	NewRIBHolder: RIBHolder.checkFn set                            iff RIBHolderCheckFn present
//	              RIBHolder.disableForwardRef set                  iff DisableForwardReferences present
func ruleRIBWiring(c *Ctx) {
	const rule = "RIB-WIRING"
	pk := c.P.pkg("rib")
	if pk == nil {
		c.vanished(rule, "rib", "package", "package not loaded")
		return
	}
	ctorType := func(name string) string {
		if g := c.P.Func("rib", "", name); g != nil {
			rs := g.Obj.Type().(*types.Signature).Results()
			if rs.Len() == 1 {
				if nt := namedOf(rs.At(0).Type()); nt != nil {
					return nt.Obj().Name()
				}
			}
		}
		c.vanished(rule, "rib."+name, "constructor", "no exported option constructor "+name+" in package rib")
		return ""
	}
	tDC, tDF, tCF := ctorType("DisableRIBCheckFn"), ctorType("DisableForwardReferences"), ctorType("RIBHolderCheckFn")
	if tDC == "" || tDF == "" || tCF == "" {
		return
	}
	probes := probeTable(c, "rib")
	// atom of the probe for option type typ among the options of fi (the element type of its variadic parameter)
	atomFor := func(fi *FuncInfo, typ string) string {
		sig := fi.Obj.Type().(*types.Signature)
		if sig.Params().Len() == 0 {
			return ""
		}
		pt := sig.Params().At(sig.Params().Len() - 1).Type()
		var names []string
		for f, t := range probes {
			fs := f.Type().(*types.Signature)
			if t != typ || fs.Params().Len() != 1 || !types.Identical(fs.Params().At(0).Type(), pt) {
				continue
			}
			if b, ok := fs.Results().At(0).Type().Underlying().(*types.Basic); ok && b.Kind() == types.Bool {
				names = append(names, "b:call:"+f.Name()+"#1")
			} else {
				names = append(names, "¬"+eqAtom("call:"+f.Name()+"#1", "nil"))
			}
		}
		sort.Strings(names)
		if len(names) == 0 {
			return ""
		}
		return names[0]
	}
	type row struct {
		typ  string
		when bool // effects happen when the option is present (true) / absent (false)
		effs []string
	}
	run := func(fi *FuncInfo, recvT string, rows []row) {
		info := fi.Pkg.TypesInfo
		atoms := map[string]int{}
		var rowAtoms []string
		for _, r := range rows {
			a := atomFor(fi, r.typ)
			if a == "" {
				c.fail(rule, fi.Name, "option *"+r.typ+" is looked for", c.P.pos(fi.Decl.Pos()), "no probe looks for *"+r.typ+" among the options of "+fi.Name+": the option is accepted and ignored")
				return
			}
			rowAtoms = append(rowAtoms, a)
			atoms[strings.TrimPrefix(a, "¬")] = 2
		}
		var pe *pathEnum
		ev := func(n ast.Node) []Event {
			var out []Event
			switch x := n.(type) {
			case *ast.AssignStmt:
				for i, l := range x.Lhs {
					se, ok := ast.Unparen(l).(*ast.SelectorExpr)
					if !ok {
						continue
					}
					if fv, ok := info.ObjectOf(se.Sel).(*types.Var); ok && fv.IsField() && fieldOwner(fv) == recvT && len(x.Rhs) == len(x.Lhs) {
						out = append(out, Event{Kind: "store:" + fv.Name(), Node: x.Rhs[i]})
					}
				}
				// opts = append(opts, Ctor(…))
				if len(x.Rhs) == 1 {
					if call, ok := ast.Unparen(x.Rhs[0]).(*ast.CallExpr); ok {
						if id, ok := call.Fun.(*ast.Ident); ok && id.Name == "append" {
							for _, a := range call.Args[1:] {
								if ac, ok := ast.Unparen(a).(*ast.CallExpr); ok {
									if f, ok := calleeObj(info, ac).(*types.Func); ok && f.Pkg() == pk.Types && f.Exported() {
										out = append(out, Event{Kind: "pass:" + f.Name(), Node: ac})
									}
								}
							}
						}
					}
				}
			}
			// fields given in a literal of the structure: &T{f: v}
			if _, isStmt := n.(ast.Stmt); isStmt {
				inspectNoFuncLit(n, func(m ast.Node) bool {
					if st, ok := m.(ast.Stmt); ok && st != n {
						if _, simple := st.(*ast.ExprStmt); !simple {
							return false // nested statements are handed to ev on their own
						}
					}
					if kv, ok := m.(*ast.KeyValueExpr); ok {
						if k, ok := kv.Key.(*ast.Ident); ok {
							if fv, ok := info.ObjectOf(k).(*types.Var); ok && fv.IsField() && fieldOwner(fv) == recvT {
								out = append(out, Event{Kind: "store:" + fv.Name(), Node: kv.Value})
							}
						}
					}
					return true
				})
			}
			return out
		}
		watched := map[string]bool{}
		for _, r := range rows {
			for _, e := range r.effs {
				watched[e] = true
			}
		}
		var outcomeV func(p Path, val map[string]int) string
		outcome := func(p Path) string { return outcomeV(p, nil) }
		outcomeV = func(p Path, val map[string]int) string {
			set := map[string]bool{}
			for _, e := range p.Events {
				k := e.Kind
				if strings.HasPrefix(k, "store:") {
					if !watched[k] {
						continue
					}
					rhs, _ := e.Node.(ast.Expr)
					if rhs == nil || pe == nil {
						k += "=?"
					} else if tv, ok := info.Types[rhs]; ok && tv.Type != nil && isBoolType(tv.Type) {
						f := pe.xlatP(&p).formula(rhs)
						switch {
						case p.Entails(f):
						case p.Entails(fnot(f)):
							continue // the zero value of a fresh structure
						default:
							// the value stored is decided by the valuation (`f: hasX(opts)` in a literal): true is the
							// store, false the zero value
							decided := val != nil
							if decided {
								as := map[string]int{}
								atomsOf(f, as)
								for a := range as {
									if _, ok := val[a]; !ok {
										decided = false
									}
								}
							}
							switch {
							case !decided:
								k += "=?"
							case !evalF(f, val):
								continue
							}
						}
					} else if isNilIdent(info, rhs) {
						continue
					}
				} else if !watched[k] {
					k = "other-" + k
				}
				set[k] = true
			}
			var l []string
			for k := range set {
				l = append(l, k)
			}
			sort.Strings(l)
			return "effects[" + strings.Join(l, ",") + "]"
		}
		runTable(c, tableSpec{
			Rule: rule, Fn: fi, Construct: "option → effect", Events: ev, Outcome: outcome, OutcomeV: outcomeV, PE: &pe, LinkFields: true,
			Atoms: atoms,
			Expected: func(v *Valuation) (string, bool) {
				var l []string
				for i, r := range rows {
					a := rowAtoms[i]
					present := v.B(strings.TrimPrefix(a, "¬"))
					if strings.HasPrefix(a, "¬") {
						present = !present
					}
					if present == r.when {
						l = append(l, r.effs...)
					}
				}
				sort.Strings(l)
				return "effects[" + strings.Join(l, ",") + "]", true
			},
		})
	}
	if fi := c.need("rib", "", "New"); fi != nil {
		run(fi, "RIB", []row{
			{tDC, false, []string{"pass:RIBHolderCheckFn", "store:ribCheck"}},
			{tDF, true, []string{"pass:DisableForwardReferences", "store:disableForwardReferences"}},
		})
	}
	if fi := c.need("rib", "", "NewRIBHolder"); fi != nil {
		run(fi, "RIBHolder", []row{
			{tCF, true, []string{"store:checkFn"}},
			{tDF, true, []string{"store:disableForwardRef"}},
		})
	}
}

func isBoolType(t types.Type) bool {
	b, ok := t.Underlying().(*types.Basic)
	return ok && b.Kind() == types.Bool
}

// delegatedCall: the single call of fi (a function of one option-slice parameter and one result, without loops) to a
// folded probe, with fi's own parameter as the argument; nil when fi is not of that shape.
func delegatedCall(info *types.Info, fi *FuncInfo) *ast.CallExpr {
	sig := fi.Obj.Type().(*types.Signature)
	if fi.Decl.Recv != nil || fi.Decl.Body == nil || sig.Params().Len() != 1 || sig.Results().Len() != 1 {
		return nil
	}
	ps := paramObjs(info, fi.Decl)
	if len(ps) != 1 {
		return nil
	}
	var found *ast.CallExpr
	ok := true
	ast.Inspect(fi.Decl.Body, func(m ast.Node) bool {
		switch x := m.(type) {
		case *ast.ForStmt, *ast.RangeStmt, *ast.GoStmt, *ast.DeferStmt, *ast.FuncLit:
			ok = false
		case *ast.CallExpr:
			f, isF := calleeObj(info, x).(*types.Func)
			if !isF {
				if _, isB := calleeObj(info, x).(*types.Builtin); !isB {
					if tv, okT := info.Types[x.Fun]; !okT || !tv.IsType() {
						ok = false
					}
				}
				return true
			}
			if _, isProbe := foldedProbes[f]; isProbe && len(x.Args) == 1 && objOfIdent(info, x.Args[0]) == ps[0] && found == nil {
				found = x
			} else {
				ok = false
			}
		}
		return true
	})
	if !ok {
		return nil
	}
	return found
}

// delegatingProbe decides whether fi answers exactly as the probe it calls: positively (true, the matched option or a
// field of it) on the paths where that probe answered positively, negatively (false, nil) on the others.
func delegatingProbe(c *Ctx, fi *FuncInfo) (typ, bad string, is bool) {
	info := fi.Pkg.TypesInfo
	call := delegatedCall(info, fi)
	if call == nil {
		return "", "", false
	}
	callee := calleeObj(info, call).(*types.Func)
	typ = foldedProbes[callee]
	paths, pe := enumFunc(fi, func(ast.Node) []Event { return nil }, nil)
	if pe.overflow || len(pe.unsup) > 0 || len(paths) == 0 {
		return typ, "path enumeration incomplete", true
	}
	name := pe.callOrd[call]
	var A Formula
	valueProbe := !isBoolType(callee.Type().(*types.Signature).Results().At(0).Type())
	if valueProbe {
		A = fnot(eqF(name, "nil"))
	} else {
		A = &FLit{"b:" + name, 2, 2}
	}
	implies := func(a, b Formula) Formula { return fnot(fand(a, fnot(b))) }
	// the local holding the probe's answer
	var ansObj types.Object
	ast.Inspect(fi.Decl.Body, func(m ast.Node) bool {
		if as, ok := m.(*ast.AssignStmt); ok && len(as.Rhs) == 1 && ast.Unparen(as.Rhs[0]) == ast.Expr(call) && len(as.Lhs) == 1 {
			ansObj = objOfIdent(info, as.Lhs[0])
		}
		return true
	})
	for _, p := range paths {
		if p.End == "panic" {
			continue
		}
		rs, ok := p.EndNode.(*ast.ReturnStmt)
		if !ok || len(rs.Results) != 1 {
			return typ, "a path leaves the probe without returning a value: " + p.describe(c.P), true
		}
		r := ast.Unparen(rs.Results[0])
		if r == ast.Expr(call) {
			continue // returns the probe's own answer
		}
		if tv, ok := info.Types[r]; ok && tv.Type != nil && isBoolType(tv.Type) {
			f := pe.xlatP(&p).formula(r)
			if !p.Entails(implies(A, f)) || !p.Entails(implies(fnot(A), fnot(f))) {
				return typ, "the answer " + types.ExprString(r) + " is not the answer of the probe it consults: " + p.describe(c.P), true
			}
			continue
		}
		switch {
		case isNilIdent(info, r):
			if !p.Entails(fnot(A)) {
				return typ, "the probe answers negatively on a path where the option may have been matched: " + p.describe(c.P), true
			}
		case ansObj != nil && objOfIdent(info, r) == ansObj:
			// the matched option itself (nil when absent)
		default:
			o, _ := selectorPath(info, r)
			if o == nil || o != ansObj || !p.Entails(A) {
				return typ, "the probe answers with " + types.ExprString(r) + " on a path where the option was not matched, or not with (a field of) the matched option: " + p.describe(c.P), true
			}
		}
	}
	return typ, "", true
}
