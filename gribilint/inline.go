package main

// Virtual inlining of functions that are new to the rules.
//
// A function that did not exist when the rules were written (isNewFunc) can
// only be a helper extracted from — or added next to — an audited function.
// So that the rules still see the logic where they expect it, every call to
// such a function in statement position
//
//	helper(a, b)            x, err := helper(a, b)            return helper(a, b)
//	if err := helper(a); err != nil { … }
//
// is replaced, in the loaded syntax tree only (after SSA was built; /repo is
// never written), by a synthetic block
//
//	{ p1 := a; p2 := b; <the statements of helper's body> }
//
// whose binding statements define helper's parameter objects, so that the
// alias-following term machinery maps them to the caller's arguments. The
// body's statement nodes are shared, not copied: their type information stays
// valid and reports cite the helper's own lines. The path enumerator knows the
// frames: a `return` inside one ends the frame, binding the results to the
// left-hand side of the replaced statement.
//
// A call nested in the expressions of a simple statement (`return &T{X: helper(a)}`)
// is first hoisted into a synthetic local evaluated by such a frame.
//
// Not inlined (left as an opaque call, as before): recursive helpers, variadic
// or generic ones, helpers containing defer (their effects would move),
// helpers of other packages. A helper called several times (up to four) from
// the same function is spliced in once per call site from a deep copy of its
// body with fresh objects for its parameters and locals (astclone.go).

import (
	"go/ast"
	"go/token"
	"go/types"
	"os"
)

type inlineFrame struct {
	Block     *ast.BlockStmt
	Orig      ast.Stmt
	Call      *ast.CallExpr
	Callee    *ast.FuncDecl
	CalleeObj *types.Func
	Lhs       []ast.Expr
	Tok       token.Token
	IsReturn  bool
	Results   []types.Object            // named results of the callee (for bare returns)
	Binds     map[types.Object]ast.Expr // parameter / receiver object → argument expression
}

var inlineFrames = map[*ast.BlockStmt]*inlineFrame{}

// funcParamBinds: function-typed parameter of a spliced-in helper → the argument it is bound to (nil when the
// helper's shared body is bound differently at several call sites).
var funcParamBinds = map[types.Object]ast.Expr{}

// funcValueOf: the function-valued argument a function-typed parameter of a spliced-in helper stands for: while a
// frame is being enumerated its own binding, otherwise the binding when it is the same everywhere.
func funcValueOf(o types.Object) ast.Expr {
	for i := len(curFrames) - 1; i >= 0; i-- {
		if a, ok := curFrames[i].Binds[o]; ok {
			return a
		}
	}
	return funcParamBinds[o]
}

// framesIn lists the frames spliced into fd.
func framesIn(fd *ast.FuncDecl) []*inlineFrame {
	var frames []*inlineFrame
	ast.Inspect(fd.Body, func(n ast.Node) bool {
		if b, ok := n.(*ast.BlockStmt); ok {
			if fr := inlineFrames[b]; fr != nil {
				frames = append(frames, fr)
			}
		}
		return true
	})
	return frames
}

// frameArgRoot follows the parameter bindings of the helpers spliced into fd from an object to the caller's object
// it was bound to (the object itself when it is not such a parameter). The body of a helper spliced into several
// functions is shared, so the binding is looked up among the frames inside fd only.
func frameArgRoot(info *types.Info, fd *ast.FuncDecl, o types.Object) types.Object {
	frames := framesIn(fd)
	for hops := 0; hops < 4 && o != nil; hops++ {
		var arg ast.Expr
		for _, fr := range frames {
			if a, ok := fr.Binds[o]; ok {
				arg = a
			}
		}
		if arg == nil {
			break
		}
		o2 := objOfIdent(info, arg)
		if o2 == nil {
			break
		}
		o = o2
	}
	return o
}

// frameResultTarget: the variable of fd that receives local (returned by a helper spliced into fd), or local itself.
func frameResultTarget(info *types.Info, fd *ast.FuncDecl, local types.Object) types.Object {
	frames := framesIn(fd)
	for hops := 0; hops < 4; hops++ {
		next := types.Object(nil)
		for _, fr := range frames {
			for i, l := range fr.Lhs {
				y := objOfIdent(info, l)
				if y == nil || y == local {
					continue
				}
				ast.Inspect(fr.Block, func(n ast.Node) bool {
					if _, isLit := n.(*ast.FuncLit); isLit {
						return false
					}
					if b, isB := n.(*ast.BlockStmt); isB && b != fr.Block && inlineFrames[b] != nil {
						return false
					}
					if rs, ok := n.(*ast.ReturnStmt); ok && i < len(rs.Results) && objOfIdent(info, rs.Results[i]) == local {
						next = y
					}
					return true
				})
			}
		}
		if next == nil {
			break
		}
		local = next
	}
	return local
}

const inlineDepth = 3

// virtualInline rewrites the loaded syntax of the repo packages. It returns the number of frames created.
func virtualInline(p *Prog) int {
	state := map[*ast.FuncDecl]int{} // 1 = in progress, 2 = done
	n := 0
	callCount := map[*types.Func]int{} // calls to each new function in the function being processed
	var process func(fd *ast.FuncDecl, info *types.Info, depth int)
	// the last top-level statement of the function being processed: a helper called there may contain defers (they
	// run when the helper returns, which is when the caller returns)
	var curTail ast.Stmt
	deferOK := false
	inlinable := func(info *types.Info, call *ast.CallExpr) (*types.Func, *ast.FuncDecl) {
		f, ok := calleeObj(info, call).(*types.Func)
		if !ok || !isNewFunc(f) {
			return nil, nil
		}
		fd := p.declOf[f]
		if fd == nil || fd.Body == nil {
			return nil, nil
		}
		sig := f.Type().(*types.Signature)
		if sig.Variadic() || sig.TypeParams() != nil || sig.RecvTypeParams() != nil {
			return nil, nil
		}
		if sig.Params().Len() != len(call.Args) {
			return nil, nil
		}
		if sig.Recv() != nil {
			if _, ok := ast.Unparen(call.Fun).(*ast.SelectorExpr); !ok {
				return nil, nil
			}
		}
		hasDefer := false
		ast.Inspect(fd.Body, func(n ast.Node) bool {
			switch n.(type) {
			case *ast.DeferStmt:
				hasDefer = true
			case *ast.FuncLit:
				return false
			}
			return true
		})
		if hasDefer && !deferOK {
			return nil, nil
		}
		return f, fd
	}
	mkFrame := func(info *types.Info, s ast.Stmt, depth int) ast.Stmt {
		if depth >= inlineDepth {
			return s
		}
		var call *ast.CallExpr
		fr := &inlineFrame{Orig: s}
		switch x := s.(type) {
		case *ast.ExprStmt:
			call, _ = ast.Unparen(x.X).(*ast.CallExpr)
		case *ast.AssignStmt:
			if len(x.Rhs) == 1 && (x.Tok == token.DEFINE || x.Tok == token.ASSIGN) && !storesToPlace(x) {
				call, _ = ast.Unparen(x.Rhs[0]).(*ast.CallExpr)
				fr.Lhs, fr.Tok = x.Lhs, x.Tok
			}
		case *ast.ReturnStmt:
			if len(x.Results) == 1 {
				call, _ = ast.Unparen(x.Results[0]).(*ast.CallExpr)
				fr.IsReturn = true
			}
		}
		if call == nil {
			return s
		}
		deferOK = s == curTail
		f, fd := inlinable(info, call)
		deferOK = false
		if f == nil {
			return s
		}
		if state[fd] == 1 {
			return s // recursion
		}
		cinfo := p.Pkgs[f.Pkg().Path()].TypesInfo
		if cinfo != info {
			return s // other package: different type information
		}
		if state[fd] == 0 {
			process(fd, cinfo, depth+1)
		}
		// called several times from this function: every call site gets its own copy of the body, with fresh
		// objects for the helper's parameters and locals (the shared body could not be told apart per call site)
		body := fd.Body.List
		objOf := func(o types.Object) types.Object { return o }
		if callCount[f] != 1 {
			if callCount[f] > 6 || depth > 0 || os.Getenv("GRIBILINT_SPLICE_MULTI") == "" {
				return s // opaque call: judged by the simple-helper classification and the event summaries
			}
			cb, remap := cloneFuncBody(info, fd)
			body = cb
			objOf = func(o types.Object) types.Object {
				if r, ok := remap[o]; ok {
					return r
				}
				return o
			}
		}
		sig := f.Type().(*types.Signature)
		if len(fr.Lhs) > 0 && sig.Results().Len() != len(fr.Lhs) {
			return s
		}
		fr.Call, fr.Callee, fr.CalleeObj = call, fd, f
		var list []ast.Stmt
		bind := func(obj types.Object, arg ast.Expr) {
			if obj == nil || obj.Name() == "_" || obj.Name() == "" || arg == nil {
				return
			}
			id := &ast.Ident{Name: obj.Name(), NamePos: call.Pos()}
			info.Defs[id] = obj
			if fr.Binds == nil {
				fr.Binds = map[types.Object]ast.Expr{}
			}
			fr.Binds[obj] = arg
			if prev, seen := allParamBinds[obj]; seen && prev != arg {
				allParamBinds[obj] = nil
			} else if !seen {
				allParamBinds[obj] = arg
			}
			if _, isSig := obj.Type().Underlying().(*types.Signature); isSig {
				if prev, seen := funcParamBinds[obj]; seen && prev != arg {
					funcParamBinds[obj] = nil // bound differently at several call sites (shared body): only decided while enumerating a frame
				} else if !seen {
					funcParamBinds[obj] = arg
				}
			}
			list = append(list, &ast.AssignStmt{Lhs: []ast.Expr{id}, Tok: token.DEFINE, TokPos: call.Pos(), Rhs: []ast.Expr{arg}})
		}
		if fd.Recv != nil && len(fd.Recv.List) == 1 && len(fd.Recv.List[0].Names) == 1 {
			if se, ok := ast.Unparen(call.Fun).(*ast.SelectorExpr); ok {
				bind(objOf(info.Defs[fd.Recv.List[0].Names[0]]), se.X)
			}
		}
		i := 0
		if fd.Type.Params != nil {
			for _, fld := range fd.Type.Params.List {
				if len(fld.Names) == 0 {
					i++
					continue
				}
				for _, nm := range fld.Names {
					if i < len(call.Args) {
						bind(objOf(info.Defs[nm]), call.Args[i])
					}
					i++
				}
			}
		}
		if fd.Type.Results != nil {
			for _, fld := range fd.Type.Results.List {
				for _, nm := range fld.Names {
					fr.Results = append(fr.Results, objOf(info.Defs[nm]))
				}
			}
		}
		list = append(list, body...)
		fr.Block = &ast.BlockStmt{Lbrace: s.Pos(), List: list, Rbrace: s.End()}
		inlineFrames[fr.Block] = fr
		n++
		if os.Getenv("GRIBILINT_DEBUG_FRAMES") != "" {
			println("frame:", f.Name(), "at", p.pos(s.Pos()))
		}
		return fr.Block
	}
	// hoist: a call to a new single-result function nested in the expressions of a simple
	// statement (`return &T{X: helper(a)}`, `x := f(helper(a))`) is evaluated into a synthetic
	// local by a frame placed before the statement; the call is replaced by that local.
	nTmp := 0
	hoist := func(info *types.Info, pkg *types.Package, s ast.Stmt, depth int) []ast.Stmt {
		var pre []ast.Stmt
		var scope ast.Node = s
		switch x := s.(type) {
		case *ast.ReturnStmt, *ast.AssignStmt, *ast.ExprStmt, *ast.SendStmt:
		case *ast.RangeStmt:
			// for … := range helper(…): the ranged expression is evaluated once, before the loop
			scope = x.X
		case *ast.IfStmt:
			// if helper(…) {…} (no init statement): the condition is evaluated once, before the branches
			if x.Init != nil {
				return nil
			}
			scope = x.Cond
		case *ast.SwitchStmt:
			// switch helper(…) {…} (no init statement): the tag is evaluated once, before the clauses
			if x.Init != nil || x.Tag == nil {
				return nil
			}
			scope = x.Tag
		default:
			return nil
		}
		for round := 0; round < 4 && depth < inlineDepth; round++ {
			var target *ast.CallExpr
			if rs, isRange := s.(*ast.RangeStmt); isRange {
				scope = rs.X
			}
			if is, isIf := s.(*ast.IfStmt); isIf {
				scope = is.Cond
			}
			if ss, isSw := s.(*ast.SwitchStmt); isSw {
				scope = ss.Tag
			}
			ast.Inspect(scope, func(n ast.Node) bool {
				if target != nil {
					return false
				}
				switch x := n.(type) {
				case *ast.FuncLit:
					return false
				case *ast.BinaryExpr:
					if x.Op == token.LAND || x.Op == token.LOR {
						return false // the right operand is evaluated conditionally
					}
				case *ast.CallExpr:
					if f, fd := inlinable(info, x); f != nil && state[fd] != 1 && (callCount[f] == 1 || (callCount[f] <= 4 && os.Getenv("GRIBILINT_SPLICE_MULTI") != "")) && f.Type().(*types.Signature).Results().Len() == 1 {
						// not the statement's own top-level call (mkFrame handles those)
						top := false
						switch y := s.(type) {
						case *ast.ExprStmt:
							top = ast.Unparen(y.X) == x
						case *ast.AssignStmt:
							top = len(y.Rhs) == 1 && ast.Unparen(y.Rhs[0]) == x && !storesToPlace(y)
						case *ast.ReturnStmt:
							top = len(y.Results) == 1 && ast.Unparen(y.Results[0]) == x
						}
						if !top {
							target = x
							return false
						}
					}
				}
				return true
			})
			if target == nil {
				break
			}
			f, _ := calleeObj(info, target).(*types.Func)
			rt := f.Type().(*types.Signature).Results().At(0).Type()
			nTmp++
			tmp := types.NewVar(target.Pos(), pkg, "inl·"+itoa(nTmp), rt)
			def := &ast.Ident{Name: tmp.Name(), NamePos: target.Pos()}
			use := &ast.Ident{Name: tmp.Name(), NamePos: target.Pos()}
			info.Defs[def] = tmp
			info.Uses[use] = tmp
			info.Types[use] = types.TypeAndValue{Type: rt}
			synth := &ast.AssignStmt{Lhs: []ast.Expr{def}, Tok: token.DEFINE, TokPos: target.Pos(), Rhs: []ast.Expr{target}}
			fb := mkFrame(info, synth, depth)
			if _, isFrame := fb.(*ast.BlockStmt); !isFrame {
				break
			}
			replaced := false
			if rs, isRange := s.(*ast.RangeStmt); isRange {
				if ast.Unparen(rs.X) == ast.Expr(target) {
					rs.X = use
					replaced = true
				} else {
					replaced = replaceExpr(&ast.ExprStmt{X: rs.X}, target, use)
				}
			} else if is, isIf := s.(*ast.IfStmt); isIf {
				if ast.Unparen(is.Cond) == ast.Expr(target) {
					is.Cond = use
					replaced = true
				} else {
					replaced = replaceExpr(&ast.ExprStmt{X: is.Cond}, target, use)
				}
			} else if ss, isSw := s.(*ast.SwitchStmt); isSw {
				if ast.Unparen(ss.Tag) == ast.Expr(target) {
					ss.Tag = use
					replaced = true
				} else {
					replaced = replaceExpr(&ast.ExprStmt{X: ss.Tag}, target, use)
				}
			} else {
				replaced = replaceExpr(s, target, use)
			}
			if !replaced {
				// could not splice the local in: undo by leaving the statement as it was (the frame is simply not used)
				delete(inlineFrames, fb.(*ast.BlockStmt))
				n--
				break
			}
			pre = append(pre, fb)
		}
		return pre
	}
	var rewriteList func(info *types.Info, pkg *types.Package, list []ast.Stmt, depth int) []ast.Stmt
	var rewriteStmt func(info *types.Info, pkg *types.Package, s ast.Stmt, depth int)
	rewriteList = func(info *types.Info, pkg *types.Package, list []ast.Stmt, depth int) []ast.Stmt {
		var out []ast.Stmt
		for _, s := range list {
			rewriteStmt(info, pkg, s, depth)
			out = append(out, hoist(info, pkg, s, depth)...)
			out = append(out, mkFrame(info, s, depth))
		}
		return out
	}
	rewriteStmt = func(info *types.Info, pkg *types.Package, s ast.Stmt, depth int) {
		switch x := s.(type) {
		case *ast.BlockStmt:
			if inlineFrames[x] == nil {
				x.List = rewriteList(info, pkg, x.List, depth)
			}
		case *ast.LabeledStmt:
			rewriteStmt(info, pkg, x.Stmt, depth)
		case *ast.IfStmt:
			if x.Init != nil {
				x.Init = mkFrame(info, x.Init, depth)
			}
			x.Body.List = rewriteList(info, pkg, x.Body.List, depth)
			if x.Else != nil {
				rewriteStmt(info, pkg, x.Else, depth)
			}
		case *ast.ForStmt:
			x.Body.List = rewriteList(info, pkg, x.Body.List, depth)
		case *ast.RangeStmt:
			x.Body.List = rewriteList(info, pkg, x.Body.List, depth)
		case *ast.SwitchStmt:
			if x.Init != nil {
				x.Init = mkFrame(info, x.Init, depth)
			}
			for _, cc := range x.Body.List {
				cl := cc.(*ast.CaseClause)
				cl.Body = rewriteList(info, pkg, cl.Body, depth)
			}
		case *ast.TypeSwitchStmt:
			if x.Init != nil {
				x.Init = mkFrame(info, x.Init, depth)
			}
			for _, cc := range x.Body.List {
				cl := cc.(*ast.CaseClause)
				cl.Body = rewriteList(info, pkg, cl.Body, depth)
			}
		case *ast.SelectStmt:
			for _, cc := range x.Body.List {
				cl := cc.(*ast.CommClause)
				cl.Body = rewriteList(info, pkg, cl.Body, depth)
			}
		}
		// statements inside function literals written in this statement's own expressions
		// (goroutine bodies, handlers); nested statement blocks are reached by the recursion above
		if _, isBlock := s.(*ast.BlockStmt); isBlock {
			return
		}
		ast.Inspect(s, func(n ast.Node) bool {
			switch y := n.(type) {
			case *ast.BlockStmt:
				return false
			case *ast.FuncLit:
				// (a helper called as the literal's last statement may contain defers: they run when the literal returns)
				saved := curTail
				curTail = nil
				if len(y.Body.List) > 0 {
					curTail = y.Body.List[len(y.Body.List)-1]
				}
				y.Body.List = rewriteList(info, pkg, y.Body.List, depth)
				curTail = saved
				return false
			}
			return true
		})
	}
	process = func(fd *ast.FuncDecl, info *types.Info, depth int) {
		if state[fd] != 0 || fd.Body == nil {
			return
		}
		state[fd] = 1
		n += expandPredicates(p, info, fd)
		saved := callCount
		callCount = map[*types.Func]int{}
		ast.Inspect(fd.Body, func(n ast.Node) bool {
			if call, ok := n.(*ast.CallExpr); ok {
				if f, ok := calleeObj(info, call).(*types.Func); ok && isNewFunc(f) {
					callCount[f]++
				}
			}
			return true
		})
		savedTail := curTail
		curTail = nil
		if len(fd.Body.List) > 0 {
			curTail = fd.Body.List[len(fd.Body.List)-1]
		}
		defer func() { callCount = saved; curTail = savedTail }()
		var pkg *types.Package
		if o := info.Defs[fd.Name]; o != nil {
			pkg = o.Pkg()
		}
		fd.Body.List = rewriteList(info, pkg, fd.Body.List, depth)
		state[fd] = 2
	}
	for _, pk := range p.All {
		if isGeneratedPkg(pk.PkgPath) {
			continue
		}
		for _, f := range pk.Syntax {
			for _, d := range f.Decls {
				if fd, ok := d.(*ast.FuncDecl); ok {
					process(fd, pk.TypesInfo, 0)
				}
			}
		}
	}
	return n
}

// replaceExpr replaces the expression node old by new inside root (first occurrence).
func replaceExpr(root ast.Node, old, new ast.Expr) bool {
	done := false
	rep := func(e *ast.Expr) {
		if !done && *e != nil && ast.Unparen(*e) == old {
			*e = new
			done = true
		}
	}
	ast.Inspect(root, func(n ast.Node) bool {
		if done {
			return false
		}
		switch x := n.(type) {
		case *ast.FuncLit:
			return false
		case *ast.ReturnStmt:
			for i := range x.Results {
				rep(&x.Results[i])
			}
		case *ast.AssignStmt:
			for i := range x.Rhs {
				rep(&x.Rhs[i])
			}
		case *ast.ExprStmt:
			rep(&x.X)
		case *ast.SendStmt:
			rep(&x.Value)
		case *ast.CallExpr:
			for i := range x.Args {
				rep(&x.Args[i])
			}
			if se, ok := x.Fun.(*ast.SelectorExpr); ok {
				rep(&se.X)
			}
		case *ast.CompositeLit:
			for i := range x.Elts {
				rep(&x.Elts[i])
			}
		case *ast.KeyValueExpr:
			rep(&x.Value)
		case *ast.UnaryExpr:
			rep(&x.X)
		case *ast.BinaryExpr:
			rep(&x.X)
			rep(&x.Y)
		case *ast.ParenExpr:
			rep(&x.X)
		case *ast.SelectorExpr:
			rep(&x.X)
		case *ast.IndexExpr:
			rep(&x.X)
			rep(&x.Index)
		case *ast.StarExpr:
			rep(&x.X)
		case *ast.TypeAssertExpr:
			rep(&x.X)
		}
		return true
	})
	return done
}

// frameReturnAliases: the locals of spliced-in helpers whose value is handed back into obj
// (`obj := helper(…)` became a frame; the helper ends with `return x`): x stands for obj.
func frameReturnAliases(info *types.Info, obj types.Object) []types.Object {
	var out []types.Object
	if obj == nil {
		return nil
	}
	for _, fr := range inlineFrames {
		for i, l := range fr.Lhs {
			if objOfIdent(info, l) != obj {
				continue
			}
			ast.Inspect(fr.Block, func(n ast.Node) bool {
				if _, isLit := n.(*ast.FuncLit); isLit {
					return false
				}
				if b, isB := n.(*ast.BlockStmt); isB && b != fr.Block && inlineFrames[b] != nil {
					return false // a nested frame's returns are its own
				}
				if rs, ok := n.(*ast.ReturnStmt); ok && i < len(rs.Results) {
					if o := objOfIdent(info, rs.Results[i]); o != nil {
						out = append(out, o)
					}
				}
				return true
			})
		}
	}
	return out
}

// storesToPlace: `x.f = helper()` / `m[k] = helper()` — one result stored into a field or element. The statement is
// kept (rules look for it) and the call is hoisted into a synthetic local evaluated by a frame just before it.
func storesToPlace(as *ast.AssignStmt) bool {
	if len(as.Lhs) != 1 {
		return false
	}
	_, isIdent := ast.Unparen(as.Lhs[0]).(*ast.Ident)
	return !isIdent
}
