package main

import (
	"fmt"
	"os"
	"sort"
	"strconv"
	"time"
)

// propRules maps a property id to the function arming its rules.
var propRules = map[string]func(*Ctx){}

func usage() {
	fmt.Fprintln(os.Stderr, "usage: gribilint <property|all> <quick|thorough>")
	os.Exit(2)
}

func main() {
	if len(os.Args) < 3 {
		usage()
	}
	prop, tier := os.Args[1], os.Args[2]
	if tier != "quick" && tier != "thorough" {
		usage()
	}
	seed := 0
	if s := os.Getenv("VERIF_SEED"); s != "" {
		if n, err := strconv.Atoi(s); err == nil {
			seed = n
		}
	}
	t0 := time.Now()
	defer func() {
		if r := recover(); r != nil {
			// an analysis panic is an infrastructure failure, never a pass
			fmt.Fprintf(os.Stderr, "gribilint: analysis panic: %v\n", r)
			panic(r)
		}
	}()
	p, err := Load(tier == "thorough" && os.Getenv("GRIBILINT_NO_DEPS") == "")
	if err != nil {
		fmt.Fprintln(os.Stderr, "gribilint: cannot load /repo:", err)
		os.Exit(2)
	}
	var ids []string
	if prop == "all" {
		for id := range propRules {
			ids = append(ids, id)
		}
		sort.Strings(ids)
	} else {
		if propRules[prop] == nil {
			fmt.Fprintln(os.Stderr, "gribilint: unknown property", prop)
			os.Exit(2)
		}
		ids = []string{prop}
	}
	exit := 0
	for _, id := range ids {
		c := newCtx(p, id)
		propRules[id](c)
		extra := map[string]any{}
		if tier == "thorough" {
			thoroughExtras(c, extra)
		}
		if rc := c.finish(tier, seed, t0, extra); rc > exit {
			exit = rc
		}
	}
	os.Exit(exit)
}

// thoroughExtras is extended by selftest.go.
var thoroughExtras = func(c *Ctx, extra map[string]any) {}
