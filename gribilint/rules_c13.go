package main

// C13 — client accounting: operations are queued, pending or resulted; converged = answered.
// C14 — the client terminates cleanly under server faults.

import (
	"fmt"
	"go/ast"
	"go/token"
	"go/types"
	"os"
	"strings"
)

func init() {
	propRules["C13"] = rulesC13
	propRules["C14"] = rulesC14
}

var clientLockClasses = []string{"Client.sendErrMu", "Client.readErrMu", "Client.awaiting", "clientQs.sendMu", "clientQs.pendMu", "clientQs.resultMu"}

func rulesC13(c *Ctx) {
	c.Decided = append(c.Decided,
		"R13.1 clearPendingOp's decision table (benchmark override off): a pending operation is dequeued by FAILED, by FIB_PROGRAMMED/FIB_FAILED, and by RIB_PROGRAMMED only when FIB acknowledgement was not requested; an unknown id with a terminal status is an error; the result carries type and key of the pending operation (all five kinds)",
		"R13.2 conservation shape: every operation of a queued request is registered pending before the request can reach the send channel; handleModifyResponse rejects multi-kind responses before any effect and produces exactly one dequeue decision and one result per AFTResult",
		"R13.3 convergence: isConverged ⇔ nothing queued and nothing pending (operations, election, session parameters); AwaitConverged's decision table: recorded errors → ClientErr with both lists, else converged → nil, else keep waiting, all inside one exclusive awaiting section",
		"R13.4 guarded-by for the six client lock classes under the client thread model; lock order acyclic in the data-plane group")
	c.NotDec = append(c.NotDec, "behaviour against adversarial servers over time", "latency fields", "eventual delivery of queued requests")
	ruleClearPendingTable(c)
	ruleOneofSwitches(c, []string{"client"})
	ruleRequestRegistration(c)
	ruleResponseHandling(c)
	ruleConvergence(c)
	ruleLockDiscipline(c, lockSel{classes: clientLockClasses, pkgs: []string{"client"}, pairing: true})
	ruleLockOrder(c, "client data plane")
	ruleAtomicUpdate(c, []string{"client"}, 3) // a queue rewritten from its own contents is read and written in one critical section (no lost result)
	ruleResetForgets(c)                        // Reset forgets what was queued for the old stream, the request channel's buffer included (shared with C14): a stale request would be sent unaccounted
	ruleErrorSinks(c)                          // the recorded errors AwaitConverged returns are complete (shared with C14)
	ruleStatusSnapshot(c)                      // an operation is never absent from a Status() snapshot
	ruleShadowedVerdict(c, []string{"client"}) // the error a handler goes on to test is the one its call assigned
	ruleErrorsRecorded(c)                      // a response the client rejects (unknown id, duplicate terminal result) is recorded as a receive error and ends the receive loop (shared with C14)
	ruleStateWriters(c, writersClient)
}

func rulesC14(c *Ctx) {
	c.Decided = append(c.Decided,
		"R14.1 no channel operation that can block forever is executed while a client lock is held (directly or in a callee): queueing cannot wedge behind a dead sender",
		"R14.2 lifecycle pairing: both goroutines of Connect are counted in the wait group before they start, signal Done and the wait group on every exit, the sender announces and closes its exit channel on every exit; disconnect waits for the group; the done notification never blocks",
		"R14.3 a stream error is recorded before the loop that saw it exits (send and receive side)",
		"R14.4 Reset reassigns or drains every transient field of the client",
		"R14.5 lock order acyclic for Reset/Close/StartSending concurrent with Q")
	c.NotDec = append(c.NotDec, "bounded time", "what gRPC does on failure", "goroutine census at run time")
	ruleLockDiscipline(c, lockSel{classes: clientLockClasses, pkgs: []string{"client"}, blocking: true, pairing: true, noGuarded: true})
	ruleConnectLifecycle(c)
	ruleErrorsRecorded(c)
	ruleErrorSinks(c)
	ruleResetForgets(c)
	ruleDoneSignal(c) // Done is signalled to the application: nothing inside the library consumes the one-slot token
	ruleStateWriters(c, writersClient)
	ruleLockOrder(c, "client Reset")
	ruleLockOrder(c, "client Close")
	ruleLockOrder(c, "client StartSending")
	ruleQSkipsDeadSender(c)
	ruleConvergence(c) // AwaitConverged returns the recorded send / receive errors instead of waiting or reporting success (shared with C13)
}

func ruleClearPendingTable(c *Ctx) { clearPendingTable(c, true) }

// clearPendingTable: withTolerated adds the cell of the FIB-ack tolerance (known finding F25 of C13) as an obligation of its own.
func clearPendingTable(c *Ctx, withTolerated bool) {
	fi := c.need("client", "Client", "clearPendingOp")
	if fi == nil {
		return
	}
	info := fi.Pkg.TypesInfo
	recv, op := recvName(fi), paramName(fi, 0)
	aFlag := "b:TreatRIBACKAsCompletedInFIBACKMode"
	// the lookup `<entry>, <found> := <…>.pendq.Ops[op.Id]` names the two locals the table is about
	pendVar, okVar := "v", "ok"
	nLookup := 0
	inspectNoFuncLit(fi.Decl.Body, func(m ast.Node) bool {
		as, isAs := m.(*ast.AssignStmt)
		if !isAs || len(as.Lhs) != 2 || len(as.Rhs) != 1 {
			return true
		}
		ie, isIdx := ast.Unparen(as.Rhs[0]).(*ast.IndexExpr)
		if !isIdx {
			return true
		}
		if strings.HasSuffix(canonTerm(fi, ie.X), "pendq.Ops") && canonTerm(fi, ie.Index) == op+".Id" {
			if a, b := identOf(as.Lhs[0]), identOf(as.Lhs[1]); a != nil && b != nil {
				pendVar, okVar = varKey(info.ObjectOf(a)), varKey(info.ObjectOf(b))
				nLookup++
			}
		}
		return true
	})
	if nLookup != 1 {
		c.vanished("TABLE-CLEAR-PENDING", fi.Name, "pending lookup", fmt.Sprintf("%d lookups of the result's id in the pending queue (want exactly 1)", nLookup))
		return
	}
	aPending := "b:" + okVar
	st := func(n string) string { return eqAtom("const:AFTResult_"+n, op+".Status") }
	aFIBMode := eqAtom(recv+".state.SessParams.AckType", "const:SessionParameters_RIB_AND_FIB_ACK")
	aVNil := eqAtom("nil", pendVar)
	ev := func(n ast.Node) []Event {
		var out []Event
		inspectNoFuncLit(n, func(m ast.Node) bool {
			if call, ok := m.(*ast.CallExpr); ok {
				if id, ok := ast.Unparen(call.Fun).(*ast.Ident); ok && id.Name == "delete" && len(call.Args) == 2 {
					if strings.HasSuffix(canonTerm(fi, call.Args[0]), "pendq.Ops") && canonTerm(fi, call.Args[1]) == op+".Id" {
						out = append(out, Event{Kind: "dequeue", Node: call})
					} else {
						out = append(out, Event{Kind: "delete-other", Node: call})
					}
				}
			}
			return true
		})
		return out
	}
	full := "lit:OpResult{Details,Latency,OperationID,ProgrammingResult,ServerError,Timestamp}"
	runTable(c, tableSpec{
		Rule: "TABLE-CLEAR-PENDING", Fn: fi, Construct: "clearPendingOp decision table (override off)", Events: ev,
		Atoms: map[string]int{aFlag: 2, aPending: 2, st("FAILED"): 2, st("RIB_PROGRAMMED"): 2, st("FIB_PROGRAMMED"): 2, st("FIB_FAILED"): 2, aFIBMode: 2, aVNil: 2},
		Expected: func(v *Valuation) (string, bool) {
			if v.B(aFlag) {
				return "", false // benchmarking mode: outside the property
			}
			failed, rib, fibp, fibf := v.B(st("FAILED")), v.B(st("RIB_PROGRAMMED")), v.B(st("FIB_PROGRAMMED")), v.B(st("FIB_FAILED"))
			fibMode := v.B(aFIBMode)
			if !v.B(aPending) {
				if rib && fibMode {
					return "", false // deliberately permissive cell (RIB ack after FIB ack)
				}
				return "ret(nil, err(plain))", true
			}
			if v.B(aVNil) {
				return "", false // nil entry in the pending map: error, with or without dequeue
			}
			dq := failed || fibp || fibf || (rib && !fibMode)
			if dq {
				return "ret(" + full + ", nil) effects[dequeue]", true
			}
			return "ret(" + full + ", nil)", true
		},
	})
	if !withTolerated {
		return
	}
	// the cell the main table leaves out, as an obligation of its own: in FIB-ack mode a RIB_PROGRAMMED for an
	// id that is not pending is tolerated as "RIB ack after FIB ack" — for any id, also one that was never sent
	runTable(c, tableSpec{
		Rule: "TABLE-CLEAR-PENDING", Fn: fi, Construct: "a result for an id that is not pending is an error, also RIB_PROGRAMMED in FIB-ack mode", Events: ev,
		Atoms: map[string]int{aFlag: 2, aPending: 2, st("FAILED"): 2, st("RIB_PROGRAMMED"): 2, st("FIB_PROGRAMMED"): 2, st("FIB_FAILED"): 2, aFIBMode: 2, aVNil: 2},
		Expected: func(v *Valuation) (string, bool) {
			if v.B(aFlag) || v.B(aPending) || !(v.B(st("RIB_PROGRAMMED")) && v.B(aFIBMode)) {
				return "", false
			}
			return "ret(nil, err(plain))", true
		},
	})
	// the result's fields come from the pending operation / the received result
	good := true
	why := ""
	for _, cl := range litsOfType(info, fi.Decl.Body, modPath+"/client", "OpResult") {
		f := compositeFields(cl)
		if f["Details"] == nil {
			continue
		}
		if f["OperationID"] == nil || canonTerm(fi, f["OperationID"]) != op+".Id" {
			good, why = false, "OperationID is not the result's id"
		}
		if f["ProgrammingResult"] == nil || canonTerm(fi, f["ProgrammingResult"]) != op+".Status" {
			good, why = false, "ProgrammingResult is not the received status"
		}
	}
	// details: type from the pending op, key from the pending op's entry of the same kind
	ks := c.kindsOK()
	if ks != nil {
		keyField := map[string]string{"Ipv4Entry": "IPv4Prefix", "Ipv6Entry": "IPv6Prefix", "LabelEntry": "MPLSLabel", "NextHopGroup": "NextHopGroupID", "NextHop": "NextHopIndex"}
		keyGetter := map[string]string{"Ipv4Entry": "Prefix", "Ipv6Entry": "Prefix", "LabelEntry": "LabelUint64", "NextHopGroup": "Id", "NextHop": "Index"}
		inspectNoFuncLit(fi.Decl.Body, func(n ast.Node) bool {
			ts, ok := n.(*ast.TypeSwitchStmt)
			if !ok {
				return true
			}
			tvar := ""
			if as, ok := ts.Assign.(*ast.AssignStmt); ok {
				tvar = as.Lhs[0].(*ast.Ident).Name
				if ta, ok := ast.Unparen(as.Rhs[0]).(*ast.TypeAssertExpr); ok {
					if _, p := aliasedSelectorPath(info, fi.Decl, ta.X); strings.Join(p, ".") != "Op.Entry" {
						good, why = false, "details are not taken from the pending operation's entry"
					}
				}
			}
			for _, cc := range ts.Body.List {
				cl := cc.(*ast.CaseClause)
				if len(cl.List) != 1 || len(cl.Body) != 1 {
					continue
				}
				tv := info.Types[cl.List[0]]
				for _, k := range ks {
					if !isNamed(tv.Type, spbPath, k.OpOneof) {
						continue
					}
					as, ok := cl.Body[0].(*ast.AssignStmt)
					if !ok {
						good, why = false, "arm "+k.Table+" is not a single assignment"
						continue
					}
					_, lp := selectorPath(info, as.Lhs[0])
					ro, rp := selectorPath(info, as.Rhs[0])
					if len(lp) != 1 || lp[0] != keyField[k.Table] || ro == nil || ro.Name() != tvar || strings.Join(rp, ".") != k.OneofField+"."+keyGetter[k.Table] {
						good, why = false, fmt.Sprintf("arm %s stores %s into details.%s", k.Table, strings.Join(rp, "."), strings.Join(lp, "."))
					}
				}
			}
			return true
		})
	}
	c.check(good, "RESULT-DETAILS", fi.Name, "result carries id/status of the AFTResult and type/key of the pending operation", c.P.pos(fi.Decl.Pos()), "5 kinds", why)
}

// R13.2 (a)
func ruleRequestRegistration(c *Ctx) {
	const rule = "REGISTER-BEFORE-SEND"
	q := c.need("client", "Client", "Q")
	h := c.need("client", "Client", "handleModifyRequest")
	if q == nil || h == nil {
		return
	}
	info := q.Pkg.TypesInfo
	m := paramObjs(info, q.Decl)[0]
	ev := func(n ast.Node) []Event {
		var out []Event
		inspectNoFuncLit(n, func(x ast.Node) bool {
			switch y := x.(type) {
			case *ast.CallExpr:
				obj := calleeObj(info, y)
				switch {
				case obj == h.Obj && len(y.Args) == 1 && objOfIdent(info, y.Args[0]) == m:
					out = append(out, Event{Kind: "register", Node: y})
				case isMethod(obj, modPath+"/client", "Client", "q"):
					out = append(out, Event{Kind: "hand-over", Node: y})
				}
			case *ast.AssignStmt:
				if o, args := appendTarget(info, y); o == nil {
					// field append: c.qs.sendq = append(c.qs.sendq, m)
					if len(y.Lhs) == 1 {
						if _, p := selectorPath(info, y.Lhs[0]); len(p) > 0 && p[len(p)-1] == "sendq" {
							out = append(out, Event{Kind: "hand-over", Node: y})
						}
					}
				} else {
					_ = args
				}
			}
			return true
		})
		return out
	}
	paths, _ := enumFunc(q, ev, nil)
	c.Sites += len(paths)
	bad := ""
	n := 0
	for _, p := range paths {
		hi := idx(p, "hand-over")
		if hi < 0 {
			continue
		}
		n++
		if ri := idx(p, "register"); ri < 0 || ri > hi {
			bad = "a request can be handed to the send queue/channel before its operations are registered as pending: " + p.describe(c.P)
		}
	}
	if n == 0 {
		c.vanished(rule, q.Name, "hand-over paths", "Q never hands the request to the send queue or channel")
	} else {
		c.check(bad == "", rule, q.Name, "operations are registered pending before the request is queued or sent", c.P.pos(q.Decl.Pos()), fmt.Sprintf("%d paths", n), bad)
	}
	// a registration error is recorded as a send error (AwaitConverged then reports it instead of success)
	{
		qev := func(n ast.Node) []Event {
			var out []Event
			for _, call := range callsIn(n) {
				obj := calleeObj(info, call)
				switch {
				case obj == h.Obj:
					d := &addEvData{call: call}
					if as := assignedFromCall(info, n, call); len(as) == 1 {
						d.err = as[0]
					}
					out = append(out, Event{Kind: "register", Node: call, Data: d})
				case isMethod(obj, modPath+"/client", "Client", "addSendErr"):
					out = append(out, Event{Kind: "record", Node: call})
				}
			}
			return out
		}
		qpaths, _ := enumFunc(q, qev, nil)
		badRec, nErr := "", 0
		for _, p := range qpaths {
			ri := idx(p, "register")
			if ri < 0 {
				continue
			}
			d := p.Events[ri].Data.(*addEvData)
			if d.err == nil {
				badRec = "the error of handleModifyRequest is dropped"
				continue
			}
			if factsAfter(info, p, ri, len(p.Events)).Obj(d.err) == +1 {
				nErr++
				if !p.has("record") {
					badRec = "a request whose operations could not be registered (duplicate pending id) is not recorded as a send error: " + p.describe(c.P)
				}
			}
		}
		c.check(badRec == "" && nErr >= 1, rule, q.Name, "a registration error is recorded as a send error", c.P.pos(q.Decl.Pos()), fmt.Sprintf("%d error paths, all call addSendErr", nErr), badRec)
	}
	// handleModifyRequest registers every operation: one addPendingOp per element, the walk ends early only with its error
	hinfo := h.Pkg.TypesInfo
	hm := paramObjs(hinfo, h.Decl)[0]
	var oploop *ast.RangeStmt
	inspectNoFuncLit(h.Decl.Body, func(n ast.Node) bool {
		if rs, ok := n.(*ast.RangeStmt); ok && oploop == nil {
			if o, p := selectorPath(hinfo, resolveLocal(hinfo, h.Decl, rs.X)); o == hm && strings.Join(p, ".") == "Operation" {
				oploop = rs
			}
		}
		return true
	})
	c.Sites++
	if oploop == nil {
		c.fail(rule, h.Name, "every operation of the request is registered", c.P.pos(h.Decl.Pos()), "handleModifyRequest has no loop over the request's operations")
	} else {
		hev := func(n ast.Node) []Event {
			var out []Event
			for _, call := range callsIn(n) {
				if isMethod(calleeObj(hinfo, call), modPath+"/client", "Client", "addPendingOp") && len(call.Args) == 1 {
					d := &addEvData{call: call}
					if as := assignedFromCall(hinfo, n, call); len(as) == 1 {
						d.err = as[0]
					}
					k := "add"
					if objOfIdent(hinfo, call.Args[0]) != objOfIdent(hinfo, oploop.Value) || oploop.Value == nil {
						k = "add-other"
					}
					out = append(out, Event{Kind: k, Node: call, Data: d})
				}
			}
			return out
		}
		lp, _ := enumPaths(hinfo, oploop.Body.List, hev)
		badReg := ""
		for _, p := range lp {
			if p.End == "panic" {
				continue
			}
			ai := idx(p, "add")
			switch {
			case p.has("add-other"):
				badReg = "something other than the current operation is registered: " + p.describe(c.P)
			case ai < 0 || p.count("add") != 1:
				badReg = "an operation of the request is not registered exactly once: " + p.describe(c.P)
			case p.End == "break":
				badReg = "the walk over the request's operations stops early: the remaining operations are sent without being registered: " + p.describe(c.P)
			case p.End == "return":
				d := p.Events[ai].Data.(*addEvData)
				rs, _ := p.EndNode.(*ast.ReturnStmt)
				if d.err == nil || factsAfter(hinfo, p, ai, len(p.Events)).Obj(d.err) != +1 || rs == nil || len(rs.Results) != 1 || isNilIdent(hinfo, rs.Results[0]) {
					badReg = "the walk over the request's operations is left without the registration error: " + p.describe(c.P)
				}
			}
		}
		c.check(badReg == "" && len(lp) >= 2, rule, h.Name, "every operation of the request is registered", c.P.pos(oploop.Pos()), fmt.Sprintf("%d paths through the loop body: addPendingOp(o) once, early exit only with its error", len(lp)), badReg)
	}
	// addPendingOp: a duplicate id is an error and nothing is overwritten; otherwise the operation itself is stored under its id
	ap := c.need("client", "Client", "addPendingOp")
	if ap != nil {
		ainfo := ap.Pkg.TypesInfo
		aop := paramName(ap, 0)
		storeTerm := recvName(ap) + ".qs.pendq.Ops[" + aop + ".Id]" // the slot written, as the function names it
		aev := func(n ast.Node) []Event {
			var out []Event
			inspectNoFuncLit(n, func(m ast.Node) bool {
				as, ok := m.(*ast.AssignStmt)
				if !ok || len(as.Lhs) != 1 || len(as.Rhs) != 1 {
					return true
				}
				ie, ok := ast.Unparen(as.Lhs[0]).(*ast.IndexExpr)
				if !ok || !strings.HasSuffix(canonTerm(ap, ie.X), "pendq.Ops") {
					return true
				}
				k := "store-other"
				storeTerm = canonTerm(ap, as.Lhs[0])
				if canonTerm(ap, ie.Index) == aop+".Id" {
					if cl, isLit := unAddr(resolveLocal(ainfo, ap.Decl, as.Rhs[0])).(*ast.CompositeLit); isLit {
						if f := compositeFields(cl); f["Op"] != nil && canonTerm(ap, f["Op"]) == aop {
							k = "store"
						}
					}
				}
				out = append(out, Event{Kind: k, Node: as})
				return true
			})
			return out
		}
		apaths, _ := enumFunc(ap, aev, nil)
		c.Sites += len(apaths)
		badAdd := ""
		nStore, nDup := 0, 0
		dupAtom := eqAtom("nil", storeTerm)
		for _, p := range apaths {
			rs, _ := p.EndNode.(*ast.ReturnStmt)
			retNil := rs != nil && len(rs.Results) == 1 && isNilIdent(ainfo, rs.Results[0])
			present := p.Entails(&FLit{dupAtom, 2, 1})
			absent := p.Entails(&FLit{dupAtom, 2, 2})
			switch {
			case p.has("store-other"):
				badAdd = "the pending queue is written with something other than {Op: the operation} under the operation's id: " + p.describe(c.P)
			case present && !p.has("store") && !retNil:
				nDup++
			case absent && p.count("store") == 1 && retNil:
				nStore++
			default:
				badAdd = "addPendingOp must reject an id that is already pending without overwriting it, and otherwise store the operation under its id: " + p.describe(c.P)
			}
		}
		c.check(badAdd == "" && nStore >= 1 && nDup >= 1, rule, ap.Name, "stored under the operation's id; a duplicate pending id is an error", c.P.pos(ap.Decl.Pos()), fmt.Sprintf("%d paths: pendq.Ops[op.Id] = {Op: op} ⇔ the id is not pending", len(apaths)), badAdd)
	}
}

// R13.2 (b)
func ruleResponseHandling(c *Ctx) {
	const rule = "RESPONSE-ACCOUNTING"
	fi := c.need("client", "Client", "handleModifyResponse")
	if fi == nil {
		return
	}
	info := fi.Pkg.TypesInfo
	m := paramObjs(info, fi.Decl)[0]
	resOf := map[*ast.CallExpr]types.Object{}
	// A local accumulator of results: `resultq = append(resultq, acc...)` where acc is a local list that is otherwise
	// only created empty and grown by `acc = append(acc, x)`. A staged append then counts as the iteration's result,
	// and the whole-function clause below requires the accumulator to be flushed into the result queue on every
	// path that made a dequeue decision (an early error return included: what was dequeued before it is accounted).
	appendCall := func(e ast.Expr) *ast.CallExpr {
		if call, ok := ast.Unparen(e).(*ast.CallExpr); ok && len(call.Args) == 2 {
			if id, ok := ast.Unparen(call.Fun).(*ast.Ident); ok && id.Name == "append" {
				if _, isB := info.ObjectOf(id).(*types.Builtin); isB {
					return call
				}
			}
		}
		return nil
	}
	var accObj types.Object
	inspectNoFuncLit(fi.Decl.Body, func(x ast.Node) bool {
		if as, ok := x.(*ast.AssignStmt); ok && len(as.Lhs) == 1 && len(as.Rhs) == 1 {
			if _, p := selectorPath(info, as.Lhs[0]); len(p) > 0 && p[len(p)-1] == "resultq" {
				if call := appendCall(as.Rhs[0]); call != nil && call.Ellipsis.IsValid() && types.ExprString(call.Args[0]) == types.ExprString(as.Lhs[0]) {
					if id, ok := ast.Unparen(call.Args[1]).(*ast.Ident); ok {
						if v, ok := info.ObjectOf(id).(*types.Var); ok && !v.IsField() && v.Parent() != nil && v.Parent() != v.Pkg().Scope() && frameArgRoot(info, fi.Decl, v) == types.Object(v) && v != m {
							accObj = v
						}
					}
				}
			}
		}
		return true
	})
	isStage := func(as *ast.AssignStmt) bool {
		if accObj == nil || len(as.Lhs) != 1 || len(as.Rhs) != 1 || objOfIdentPlain(info, as.Lhs[0]) != accObj {
			return false
		}
		call := appendCall(as.Rhs[0])
		return call != nil && !call.Ellipsis.IsValid() && objOfIdentPlain(info, call.Args[0]) == accObj
	}
	if accObj != nil {
		// every other write to the accumulator creates it empty; it is not handed to anything else
		okAcc := true
		ast.Inspect(fi.Decl.Body, func(x ast.Node) bool {
			switch y := x.(type) {
			case *ast.FuncLit:
				ast.Inspect(y, func(z ast.Node) bool {
					if id, ok := z.(*ast.Ident); ok && info.ObjectOf(id) == accObj {
						okAcc = false
					}
					return true
				})
				return false
			case *ast.AssignStmt:
				for i, l := range y.Lhs {
					if objOfIdentPlain(info, l) != accObj || isStage(y) {
						continue
					}
					empty := false
					if len(y.Rhs) == len(y.Lhs) {
						switch r := ast.Unparen(y.Rhs[i]).(type) {
						case *ast.CallExpr:
							if id, ok := ast.Unparen(r.Fun).(*ast.Ident); ok && id.Name == "make" && len(r.Args) >= 2 {
								if tv, ok := info.Types[r.Args[1]]; ok && tv.Value != nil && tv.Value.String() == "0" {
									empty = true
								}
							}
						case *ast.CompositeLit:
							empty = len(r.Elts) == 0
						case *ast.Ident:
							empty = isNilIdent(info, r)
						}
					}
					if !empty {
						okAcc = false
					}
				}
			case *ast.UnaryExpr:
				if y.Op == token.AND && objOfIdentPlain(info, y.X) == accObj {
					okAcc = false
				}
			}
			return true
		})
		if !okAcc {
			accObj = nil
		}
	}
	ev := func(n ast.Node) []Event {
		var out []Event
		inspectNoFuncLit(n, func(x ast.Node) bool {
			switch y := x.(type) {
			case *ast.CallExpr:
				if f, ok := calleeObj(info, y).(*types.Func); ok && recvTypeName(f) == "Client" {
					switch f.Name() {
					case "clearPendingOp", "clearPendingElection", "clearPendingSessionParams":
						var errObj types.Object
						if as := assignedFromCall(info, n, y); len(as) == 2 {
							errObj = as[1]
							resOf[y] = as[0]
						}
						out = append(out, Event{Kind: f.Name(), Node: y, Data: errObj})
					}
				}
			case *ast.AssignStmt:
				if len(y.Lhs) == 1 {
					if _, p := selectorPath(info, y.Lhs[0]); len(p) > 0 && p[len(p)-1] == "resultq" {
						kind := "result"
						if call := appendCall(y.Rhs[0]); accObj != nil && len(y.Rhs) == 1 && call != nil && call.Ellipsis.IsValid() && objOfIdentPlain(info, call.Args[1]) == accObj {
							kind = "flush"
						}
						out = append(out, Event{Kind: kind, Node: y})
					} else if isStage(y) {
						out = append(out, Event{Kind: "result", Node: y, Data: "staged"})
					}
				}
			}
			return true
		})
		return out
	}
	pe := &pathEnum{info: info, ev: ev, cap: pathCap, fd: fi.Decl}
	paths, _ := pe.run(fi.Decl.Body.List)
	c.Sites += len(paths)
	if pe.overflow {
		c.undecided(rule, fi.Name, "body", c.P.pos(fi.Decl.Pos()), "path enumeration incomplete")
		return
	}
	bad := ""
	// the loop over m.Result: per iteration exactly one clearPendingOp followed by exactly one result append
	var loop *ast.RangeStmt
	inspectNoFuncLit(fi.Decl.Body, func(n ast.Node) bool {
		if rs, ok := n.(*ast.RangeStmt); ok && loop == nil {
			if o, p := selectorPath(info, resolveLocal(info, fi.Decl, rs.X)); frameArgRoot(info, fi.Decl, o) == m && strings.Join(p, ".") == "Result" {
				loop = rs
			}
		}
		return true
	})
	if loop == nil {
		c.vanished(rule, fi.Name, "loop over results", "no loop over m.Result")
		return
	}
	lp, _ := enumPaths(info, loop.Body.List, ev)
	for _, p := range lp {
		var seq []string
		for _, e := range p.Events {
			seq = append(seq, e.Kind)
		}
		// a result that cannot be accounted for (unknown id, duplicate terminal result) ends the handling with an
		// error at once — carrying the error over to later results of the batch would let a later success overwrite
		// it — and puts nothing into the result queue (the value returned with the error is nil: Results() would hand
		// out a nil entry and AckResult dereference it); an accounted result is appended exactly once, non-nil
		ci := idx(p, "clearPendingOp")
		if ci != 0 || p.count("clearPendingOp") != 1 {
			bad = "an AFTResult produces [" + strings.Join(seq, ",") + "], want exactly one dequeue decision first: " + p.describe(c.P)
			continue
		}
		errObj, _ := p.Events[ci].Data.(types.Object)
		resObj := resOf[p.Events[ci].Node.(*ast.CallExpr)]
		if errObj == nil || resObj == nil {
			bad = "the result and error of clearPendingOp are not kept"
			continue
		}
		f := factsAfter(info, p, ci, len(p.Events))
		nRes := p.count("result")
		switch {
		case f.Obj(errObj) == +1:
			rs, isRet := p.EndNode.(*ast.ReturnStmt)
			if p.End != "return" || !isRet || len(rs.Results) != 1 || isNilIdent(info, rs.Results[0]) {
				bad = "a result that matches no pending operation does not end the handling with an error (the loop goes on, and the error can be lost): " + p.describe(c.P)
			} else if nRes != 0 {
				bad = "the value returned together with an error (nil) is appended to the result queue: Results() then contains a nil entry and AckResult dereferences it: " + p.describe(c.P)
			}
		case f.Obj(errObj) == -1:
			ri := idx(p, "result")
			switch {
			case nRes == 1 && factsAfter(info, p, ci, ri).Obj(resObj) == +1:
			case nRes == 0 && f.Obj(resObj) == -1:
			default:
				bad = fmt.Sprintf("an accounted AFTResult appends %d entries to the result queue (want one, known non-nil; none only when there is no result): %s", nRes, p.describe(c.P))
			}
		default:
			bad = "the path does not decide whether clearPendingOp failed: " + p.describe(c.P)
		}
	}
	c.check(bad == "", rule, fi.Name, "one dequeue decision and one result per AFTResult", c.P.pos(loop.Pos()), fmt.Sprintf("%d loop paths", len(lp)), bad)
	if accObj != nil {
		// results are staged in a local list: every path of the function that made a dequeue decision hands the
		// list over to the result queue after its last decision, whichever way it leaves
		badF := ""
		nDec := 0
		for _, p := range paths {
			last, flushed := -1, false
			for i, e := range p.Events {
				switch {
				case e.Kind == "clearPendingOp" || (e.Kind == "result" && e.Data == "staged"):
					last, flushed = i, false
				case e.Kind == "flush" && last >= 0:
					flushed = true
				}
			}
			if last < 0 {
				continue
			}
			nDec++
			if !flushed {
				badF = "results are staged in the local list " + accObj.Name() + " and this path leaves without handing the list to the result queue: operations dequeued earlier in the same response are neither pending nor resulted: " + p.describe(c.P)
			}
		}
		c.check(badF == "" && nDec > 0, rule, fi.Name, "staged results are handed to the result queue on every exit", c.P.pos(loop.Pos()), fmt.Sprintf("%d paths with a dequeue decision, accumulator %s", nDec, accObj.Name()), badF)
	}
	// no effect before the mutual-exclusion test: the first effect event is dominated by the pop>1 test
	bad2 := ""
	for _, p := range paths {
		if len(p.Events) == 0 {
			continue
		}
		first := p.Events[0]
		decided := false
		for _, cs := range p.Conds {
			if be, isBE := ast.Unparen(exprOrNil(cs.Expr)).(*ast.BinaryExpr); cs.At == 0 && isBE && isMoreThanOne(info, be) && !cs.Taken {
				decided = true
			}
		}
		if !decided {
			bad2 = "effect " + first.Kind + " can happen before the response was checked to carry a single kind of payload: " + p.describe(c.P)
		}
	}
	c.check(bad2 == "", rule, fi.Name, "multi-kind responses are rejected before any effect", c.P.pos(fi.Decl.Pos()), fmt.Sprintf("%d paths", len(paths)), bad2)
	// the counter counts exactly the three populated-tests: every increment of the counter compared with 1 is
	// guarded by the test that one payload kind is present (directly, through a boolean local, or as an element
	// of the list of such tests the counting loop ranges over)
	m0 := paramObjs(info, fi.Decl)[0]
	var popObj types.Object
	ast.Inspect(fi.Decl.Body, func(n ast.Node) bool {
		if be, ok := n.(*ast.BinaryExpr); ok && isMoreThanOne(info, be) {
			popObj = objOfIdent(info, be.X)
		}
		return true
	})
	kinds := map[string]bool{}
	var kindOf func(e ast.Expr, depth int)
	kindOf = func(e ast.Expr, depth int) {
		e = ast.Unparen(e)
		if depth > 3 {
			return
		}
		switch x := e.(type) {
		case *ast.BinaryExpr:
			if x.Op == token.NEQ && isNilIdent(info, x.Y) {
				if o, p := selectorPath(info, x.X); frameArgRoot(info, fi.Decl, o) == m0 && len(p) == 1 {
					kinds[p[0]] = true
				}
			}
			if x.Op == token.GTR {
				// len(m.Result) > 0 is not the same test (an empty list is populated); not accepted
			}
		case *ast.Ident:
			v, ok := info.ObjectOf(x).(*types.Var)
			if !ok {
				return
			}
			if def := soleDefinition(info, fi.Decl, v); def != nil {
				kindOf(def, depth+1)
				return
			}
			// the value variable of a range over a list of tests
			ast.Inspect(fi.Decl.Body, func(n ast.Node) bool {
				if rs, ok := n.(*ast.RangeStmt); ok && rs.Value != nil && objOfIdent(info, rs.Value) == v {
					if cl, ok := ast.Unparen(resolveLocal(info, fi.Decl, rs.X)).(*ast.CompositeLit); ok {
						for _, el := range cl.Elts {
							kindOf(el, depth+1)
						}
					}
				}
				return true
			})
		}
	}
	if popObj != nil {
		ast.Inspect(fi.Decl.Body, func(n ast.Node) bool {
			ifs, ok := n.(*ast.IfStmt)
			if !ok || ifs.Else != nil || len(ifs.Body.List) != 1 {
				return true
			}
			if inc, ok := ifs.Body.List[0].(*ast.IncDecStmt); ok && inc.Tok == token.INC && objOfIdent(info, inc.X) == popObj {
				kindOf(ifs.Cond, 0)
			}
			return true
		})
	}
	cnt := len(kinds)
	if !(kinds["Result"] && kinds["ElectionId"] && kinds["SessionParamsResult"]) {
		cnt = -cnt
	}
	c.check(cnt == 3, rule, fi.Name, "all three payload kinds take part in the exclusivity test", c.P.pos(fi.Decl.Pos()), "Result, ElectionId, SessionParamsResult", fmt.Sprintf("the exclusivity test counts %d payload kinds, want 3", cnt))
}

// R13.3
func ruleConvergence(c *Ctx) {
	const rule = "CONVERGENCE"
	ic := c.need("client", "Client", "isConverged")
	if ic != nil {
		info := ic.Pkg.TypesInfo
		// every path returns the conjunction, whatever helper it is computed in (terms are resolved through the
		// parameter bindings of spliced-in helpers)
		r := recvName(ic)
		good := true
		nret := 0
		paths, pe := enumPaths(info, ic.Decl.Body.List, func(ast.Node) []Event { return nil })
		if pe.overflow || len(pe.unsup) > 0 {
			good = false
		}
		wantS, _ := orderAtom("len("+r+".qs.sendq)", "const:0")
		// the pending queue's own Len() on c.qs.pendq (an impure call is named by its ordinal)
		wantP := ""
		for _, p := range paths {
			rs, ok := p.EndNode.(*ast.ReturnStmt)
			if !ok || p.End != "return" || len(rs.Results) != 1 {
				good = false
				continue
			}
			nret++
			f := pe.xlatP(&p).formula(rs.Results[0])
			for _, call := range callsIn(rs.Results[0]) {
				if se, ok := ast.Unparen(call.Fun).(*ast.SelectorExpr); ok && se.Sel.Name == "Len" && len(call.Args) == 0 {
					if t, _ := pe.xlatP(&p).term(se.X); t == r+".qs.pendq" {
						if fn, ok := calleeObj(info, call).(*types.Func); ok && recvTypeName(fn) == "pendingQueue" {
							wantP, _ = orderAtom(pe.callOrd[call], "const:0")
						}
					}
				}
			}
			if os.Getenv("GRIBILINT_DEBUG_CONV") != "" {
				println("isConverged returns", fstr(f), "want", wantS, wantP)
			}
			and, ok := f.(*FAnd)
			if !ok {
				good = false
				continue
			}
			l, ok1 := and.L.(*FLit)
			rr, ok2 := and.R.(*FLit)
			if !ok1 || !ok2 {
				good = false
				continue
			}
			if l.Atom > rr.Atom {
				l, rr = rr, l
			}
			a, b := wantS, wantP
			if a > b {
				a, b = b, a
			}
			if l.Atom != a || rr.Atom != b || l.Mask != 2 || rr.Mask != 2 {
				good = false
			}
		}
		good = good && nret > 0
		_ = info
		c.Sites++
		c.check(good, rule, ic.Name, "converged ⇔ send queue empty ∧ pending queue empty", c.P.pos(ic.Decl.Pos()), "len(sendq) == 0 && pendq.Len() == 0", "isConverged is not the conjunction (nothing queued ∧ nothing pending)")
	}
	ln := c.need("client", "pendingQueue", "Len")
	if ln != nil {
		// counts operations, the pending election and the pending session parameters
		src := map[string]bool{}
		ast.Inspect(ln.Decl.Body, func(n ast.Node) bool {
			switch x := n.(type) {
			case *ast.IfStmt:
				if be, ok := ast.Unparen(x.Cond).(*ast.BinaryExpr); ok && be.Op == token.NEQ {
					if se, ok := ast.Unparen(be.X).(*ast.SelectorExpr); ok && len(x.Body.List) == 1 {
						if _, isInc := x.Body.List[0].(*ast.IncDecStmt); isInc {
							src[se.Sel.Name] = true
						}
					}
				}
			case *ast.CallExpr:
				if id, ok := x.Fun.(*ast.Ident); ok && id.Name == "len" {
					if se, ok := ast.Unparen(x.Args[0]).(*ast.SelectorExpr); ok {
						src["len:"+se.Sel.Name] = true
					}
				}
			}
			return true
		})
		c.Sites++
		c.check(src["SessionParams"] && src["Election"] && src["len:Ops"], rule, ln.Name, "pending = operations + election + session parameters", c.P.pos(ln.Decl.Pos()), "all three kinds counted", fmt.Sprintf("pendingQueue.Len does not count all pending kinds: %v", src))
	}
	aw := c.need("client", "Client", "AwaitConverged")
	if aw == nil {
		return
	}
	info := aw.Pkg.TypesInfo
	// the decision evaluated under the awaiting lock: a closure of AwaitConverged, or a method it calls
	var fl *bodyRef
	isConv := func(body *ast.BlockStmt, inf *types.Info) bool {
		for _, call := range callsIn(body) {
			if isMethod(calleeObj(inf, call), modPath+"/client", "Client", "isConverged") {
				return true
			}
		}
		return false
	}
	ast.Inspect(aw.Decl.Body, func(n ast.Node) bool {
		if fl != nil {
			return false
		}
		switch x := n.(type) {
		case *ast.FuncLit:
			if isConv(x.Body, info) {
				fl = resolveFuncBody(aw, x)
			}
		case *ast.CallExpr:
			if _, isLit := ast.Unparen(x.Fun).(*ast.FuncLit); !isLit {
				if br := resolveFuncBody(aw, x.Fun); br != nil && br.Lit == nil && br.FI.Pkg == aw.Pkg && br.FI.Obj != aw.Obj && isConv(br.Body, br.FI.Pkg.TypesInfo) && br.FI.Obj.Name() != "isConverged" {
					fl = br
				}
			}
		}
		return true
	})
	if fl == nil {
		c.vanished(rule, aw.Name, "decision closure", "no closure or method calling isConverged")
		return
	}
	dfi := fl.FI // the declared function the decision is written in
	// lock section: Lock awaiting as first statement, deferred Unlock
	locked := false
	if len(fl.Body.List) >= 2 {
		if es, ok := fl.Body.List[0].(*ast.ExprStmt); ok {
			if call, ok := es.X.(*ast.CallExpr); ok {
				if se, ok := ast.Unparen(call.Fun).(*ast.SelectorExpr); ok && se.Sel.Name == "Lock" && strings.HasSuffix(types.ExprString(se.X), ".awaiting") {
					if ds, ok := fl.Body.List[1].(*ast.DeferStmt); ok && strings.HasSuffix(types.ExprString(ds.Call.Fun), ".awaiting.Unlock") {
						locked = true
					}
				}
			}
		}
	}
	c.Sites++
	c.check(locked, rule, aw.Name, "errors and convergence are judged in one exclusive awaiting section", c.P.pos(fl.Body.Pos()), "awaiting.Lock(); defer awaiting.Unlock()", "the convergence decision is not taken inside one exclusive section of the awaiting lock")
	aSend, _ := orderAtom("const:0", "len(call:hasErrors#1.0)")
	aRecv, _ := orderAtom("const:0", "len(call:hasErrors#1.1)")
	aConv := "b:call:isConverged#1"
	runTable(c, tableSpec{
		Rule: "TABLE-AWAIT", Fn: dfi, Body: fl.Body.List, Construct: "AwaitConverged decision",
		Atoms: map[string]int{aSend: 3, aRecv: 3, aConv: 2},
		Expected: func(v *Valuation) (string, bool) {
			if v.Ord(aSend) < 0 || v.Ord(aRecv) < 0 {
				return "", false // negative lengths do not exist
			}
			switch {
			case v.Ord(aSend) != 0 || v.Ord(aRecv) != 0:
				return "ret(true, lit:ClientErr{Recv,Send})", true
			case v.B(aConv):
				return "ret(true, nil)", true
			}
			return "ret(false, nil)", true
		},
	})
	// the ClientErr carries the two lists in the right slots
	good := false
	for _, cl := range litsOfType(info, fl.Body, modPath+"/client", "ClientErr") {
		f := compositeFields(cl)
		s, r := objOfIdent(info, f["Send"]), objOfIdent(info, f["Recv"])
		if sv, ok := s.(*types.Var); ok {
			if rv, ok := r.(*types.Var); ok {
				c1, i1 := soleTupleDef(info, dfi.Decl, sv)
				c2, i2 := soleTupleDef(info, dfi.Decl, rv)
				if c1 != nil && c1 == c2 && i1 == 0 && i2 == 1 {
					good = true
				}
			}
		}
	}
	c.check(good, rule, aw.Name, "returned error carries (send errors, receive errors) of hasErrors in that order", c.P.pos(fl.Body.Pos()), "ClientErr{Send: #0, Recv: #1}", "the ClientErr returned by AwaitConverged does not carry hasErrors' (send, recv) lists in their slots")
	// hasErrors returns (sendErr, readErr)
	he := c.need("client", "Client", "hasErrors")
	if he != nil {
		hinfo := he.Pkg.TypesInfo
		ok := false
		ast.Inspect(he.Decl.Body, func(n ast.Node) bool {
			if rs, isR := n.(*ast.ReturnStmt); isR && len(rs.Results) == 2 {
				_, p0 := selectorPath(hinfo, rs.Results[0])
				_, p1 := selectorPath(hinfo, rs.Results[1])
				if strings.Join(p0, ".") == "sendErr" && strings.Join(p1, ".") == "readErr" {
					ok = true
				}
			}
			return true
		})
		c.check(ok, rule, he.Name, "returns (send errors, receive errors)", c.P.pos(he.Decl.Pos()), "return c.sendErr, c.readErr", "hasErrors does not return (sendErr, readErr)")
	}
}

// ---- C14 -------------------------------------------------------------------------

// R14.2
func ruleConnectLifecycle(c *Ctx) {
	const rule = "LIFECYCLE"
	fi := c.need("client", "Client", "Connect")
	if fi == nil {
		return
	}
	info := fi.Pkg.TypesInfo
	isWG := func(call *ast.CallExpr, name string) bool {
		f, ok := calleeObj(info, call).(*types.Func)
		return ok && f.Pkg() != nil && f.Pkg().Path() == "sync" && recvTypeName(f) == "WaitGroup" && f.Name() == name
	}
	// sequence of wg.Add / go statements at the top level of Connect
	var seq []string
	var gos []*bodyRef
	for _, st := range fi.Decl.Body.List {
		switch x := st.(type) {
		case *ast.ExprStmt:
			if call, ok := x.X.(*ast.CallExpr); ok && isWG(call, "Add") {
				if v, isC := constInt(info, call.Args[0]); isC && v == 1 {
					seq = append(seq, "add")
				} else {
					seq = append(seq, "add?")
				}
			}
		case *ast.GoStmt:
			seq = append(seq, "go")
			if br := resolveCallBody(fi, x.Call); br != nil {
				gos = append(gos, br)
			}
		case *ast.IfStmt, *ast.ForStmt, *ast.SwitchStmt:
			// a go statement nested in control flow would escape this census
			ast.Inspect(x, func(n ast.Node) bool {
				if _, ok := n.(*ast.GoStmt); ok {
					seq = append(seq, "go-nested")
				}
				if _, ok := n.(*ast.FuncLit); ok {
					return false
				}
				return true
			})
		}
	}
	c.Sites += len(seq)
	// the sender's exit channel is how Q learns that nobody reads the request channel any more: on every
	// path of Connect that creates it, either the sender goroutine is started (it closes the channel on every
	// exit) or the channel is closed before Connect returns — a Connect that fails after creating it leaves a
	// channel nobody will ever close: queueing blocks once the request channel's buffer is full, and every
	// Close closes the request channel again
	evx := func(n ast.Node) []Event {
		var out []Event
		inspectNoFuncLit(n, func(m ast.Node) bool {
			switch x := m.(type) {
			case *ast.AssignStmt:
				if len(x.Lhs) == 1 && len(x.Rhs) == 1 {
					if se, ok := ast.Unparen(x.Lhs[0]).(*ast.SelectorExpr); ok && se.Sel.Name == "sendExitCh" {
						out = append(out, Event{Kind: "make-exit", Node: x})
					}
				}
			case *ast.GoStmt:
				out = append(out, Event{Kind: "go", Node: x})
			case *ast.CallExpr:
				if id, ok := ast.Unparen(x.Fun).(*ast.Ident); ok && id.Name == "close" && len(x.Args) == 1 {
					if se, ok := ast.Unparen(x.Args[0]).(*ast.SelectorExpr); ok && se.Sel.Name == "sendExitCh" {
						out = append(out, Event{Kind: "close-exit", Node: x})
					}
				}
			}
			return true
		})
		return out
	}
	xpaths, xpe := enumFunc(fi, evx, nil)
	c.Sites += len(xpaths)
	badx := ""
	if xpe.overflow || len(xpe.unsup) > 0 {
		badx = "path enumeration incomplete"
	}
	nMake := 0
	for _, p := range xpaths {
		if p.End == "panic" || !p.has("make-exit") {
			continue
		}
		nMake++
		if p.count("go") < 2 && !p.has("close-exit") {
			badx = "Connect can return having created the sender's exit channel without starting the sender or closing the channel: " + p.describe(c.P)
		}
	}
	if nMake == 0 {
		c.vanished(rule, fi.Name, "exit channel", "Connect never creates the sender's exit channel")
	} else {
		c.check(badx == "", rule, fi.Name, "the exit channel is closed, or its closer started, on every path that creates it", c.P.pos(fi.Decl.Pos()), fmt.Sprintf("%d paths create it", nMake), badx)
	}
	c.check(strings.Join(seq, ",") == "add,go,add,go", rule, fi.Name, "each goroutine is counted before it starts", c.P.pos(fi.Decl.Pos()), "wg.Add(1); go …; wg.Add(1); go …", "goroutine start / wait-group accounting sequence is ["+strings.Join(seq, ",")+"], want [add,go,add,go]")
	if len(gos) != 2 {
		c.vanished(rule, fi.Name, "goroutine bodies", fmt.Sprintf("found %d goroutine bodies, want 2", len(gos)))
		return
	}
	for i, gb := range gos {
		fl := gb.Body
		name := []string{"receiver", "sender"}[i]
		hasDone, hasInform, hasExit := false, false, false
		// the goroutine's deferred calls: at the top level of its body, and at the top level of a helper spliced in as
		// its last statement (the helper's defers run when the goroutine ends)
		var defers []*ast.DeferStmt
		for list := fl.List; len(list) > 0; {
			for _, st := range list {
				if ds, ok := st.(*ast.DeferStmt); ok {
					defers = append(defers, ds)
				}
			}
			tail, ok := list[len(list)-1].(*ast.BlockStmt)
			if !ok || inlineFrames[tail] == nil {
				break
			}
			list = tail.List
		}
		for _, ds := range defers {
			if isWG(ds.Call, "Done") {
				hasDone = true
			}
			dfl := resolveFuncBody(gb.FI, ds.Call.Fun)
			if dfl == nil {
				continue
			}
			// informDone: a select with default sending on doneCh, and no bare send on doneCh
			nonBlocking := false
			ast.Inspect(dfl.Body, func(n ast.Node) bool {
				if sel, ok := n.(*ast.SelectStmt); ok {
					hasDefault, sends := false, false
					for _, cc := range sel.Body.List {
						cl := cc.(*ast.CommClause)
						if cl.Comm == nil {
							hasDefault = true
						} else if ss, ok := cl.Comm.(*ast.SendStmt); ok && strings.HasSuffix(types.ExprString(ss.Chan), ".doneCh") {
							sends = true
						}
					}
					if hasDefault && sends {
						nonBlocking = true
					}
				}
				return true
			})
			ast.Inspect(dfl.Body, func(n ast.Node) bool {
				if _, ok := n.(*ast.SelectStmt); ok {
					return false
				}
				if ss, ok := n.(*ast.SendStmt); ok && strings.HasSuffix(types.ExprString(ss.Chan), ".doneCh") {
					nonBlocking = false
				}
				return true
			})
			if nonBlocking {
				hasInform = true
			}
			// exit announcement: send on and close of sendExitCh
			sends, closes := false, false
			for _, s2 := range dfl.Body.List {
				if ss, ok := s2.(*ast.SendStmt); ok && strings.HasSuffix(types.ExprString(ss.Chan), ".sendExitCh") {
					sends = true
				}
				if es, ok := s2.(*ast.ExprStmt); ok {
					if call, ok := es.X.(*ast.CallExpr); ok {
						if id, ok := call.Fun.(*ast.Ident); ok && id.Name == "close" && len(call.Args) == 1 && strings.HasSuffix(types.ExprString(call.Args[0]), ".sendExitCh") {
							closes = true
						}
					}
				}
			}
			if sends && closes {
				hasExit = true
			}
		}
		c.Sites++
		c.check(hasDone && hasInform, rule, fi.Name, name+" goroutine signals the wait group and Done on every exit", c.P.pos(fl.Pos()), "defer wg.Done(); defer informDone(…) (non-blocking)", fmt.Sprintf("%s goroutine: deferred wg.Done=%v, deferred non-blocking done notification=%v", name, hasDone, hasInform))
		if name == "sender" {
			c.check(hasExit, rule, fi.Name, "sender announces and closes its exit channel on every exit", c.P.pos(fl.Pos()), "defer { sendExitCh <- …; close(sendExitCh) }", "the sender goroutine does not announce its exit on sendExitCh in a deferred function: queueing cannot learn that nobody reads modifyCh any more")
		}
	}
	// the exit channel can take the announcement without a reader: buffered, allocated per Connect
	buffered := false
	ast.Inspect(fi.Decl.Body, func(n ast.Node) bool {
		if as, ok := n.(*ast.AssignStmt); ok && len(as.Lhs) == 1 && strings.HasSuffix(types.ExprString(as.Lhs[0]), ".sendExitCh") {
			if call, ok := ast.Unparen(as.Rhs[0]).(*ast.CallExpr); ok && len(call.Args) == 2 {
				if v, isC := constInt(info, call.Args[1]); isC && v >= 1 {
					buffered = true
				}
			}
		}
		return true
	})
	c.check(buffered, rule, fi.Name, "exit announcement cannot block the exiting sender", c.P.pos(fi.Decl.Pos()), "sendExitCh is a fresh buffered channel per Connect", "sendExitCh is not (re)created as a buffered channel in Connect: the deferred announcement could block the sender's exit")
	// disconnect waits for the goroutines on every path
	dc := c.need("client", "Client", "disconnect")
	if dc != nil {
		dinfo := dc.Pkg.TypesInfo
		ev := func(n ast.Node) []Event {
			var out []Event
			for _, call := range callsIn(n) {
				if f, ok := calleeObj(dinfo, call).(*types.Func); ok && f.Pkg() != nil && f.Pkg().Path() == "sync" && f.Name() == "Wait" {
					out = append(out, Event{Kind: "wait", Node: call})
				}
				if id, ok := call.Fun.(*ast.Ident); ok && id.Name == "close" && len(call.Args) == 1 && strings.HasSuffix(types.ExprString(call.Args[0]), ".modifyCh") {
					out = append(out, Event{Kind: "close-modifyCh", Node: call})
				}
			}
			return out
		}
		paths, _ := enumFunc(dc, ev, nil)
		bad := ""
		sawClose := false
		for _, p := range paths {
			if !p.has("wait") {
				bad = "disconnect can return without waiting for the goroutines: " + p.describe(c.P)
			}
			if p.has("close-modifyCh") {
				sawClose = true
				if idx(p, "close-modifyCh") > idx(p, "wait") {
					bad = "modifyCh is closed after waiting for the sender that reads it"
				}
			}
		}
		c.Sites += len(paths)
		c.check(bad == "" && sawClose, rule, dc.Name, "closes the request channel (unless the sender already exited) and waits for both goroutines", c.P.pos(dc.Decl.Pos()), fmt.Sprintf("%d paths, all wait", len(paths)), bad)
	}
	// Close and Reset call disconnect
	for _, n := range []string{"Close", "Reset"} {
		f := c.need("client", "Client", n)
		if f == nil {
			continue
		}
		has := false
		for _, call := range callsIn(f.Decl.Body) {
			if dc != nil && calleeObj(f.Pkg.TypesInfo, call) == dc.Obj {
				has = true
			}
		}
		// … on every path: a client that was handed a stub has no connection of its own, yet its Modify stream
		// and its goroutines must be shut down all the same (the server keeps the session, and its parameters
		// constrain every later session, until the stream ends)
		why := n + " does not call disconnect()"
		if has && dc != nil {
			finfo := f.Pkg.TypesInfo
			evd := func(nd ast.Node) []Event {
				var out []Event
				for _, call := range callsIn(nd) {
					if calleeObj(finfo, call) == dc.Obj {
						out = append(out, Event{Kind: "disconnect", Node: call})
					}
				}
				return out
			}
			dpaths, dpe := enumFunc(f, evd, nil)
			c.Sites += len(dpaths)
			if dpe.overflow || len(dpe.unsup) > 0 {
				has, why = false, "path enumeration incomplete"
			}
			for _, p := range dpaths {
				if p.End != "panic" && !p.has("disconnect") {
					has, why = false, n+" can return without shutting the stream and its goroutines down: "+p.describe(c.P)
				}
			}
		}
		c.check(has, rule, f.Name, "shuts the goroutines down first", c.P.pos(f.Decl.Pos()), "calls disconnect() on every path", why)
	}
}

// R14.3
func ruleErrorsRecorded(c *Ctx) {
	const rule = "ERROR-RECORDED"
	fi := c.need("client", "Client", "Connect")
	if fi == nil {
		return
	}
	n := 0
	// handler candidates: closures declared in Connect, and repo functions called from its goroutines
	var cands []*bodyRef
	seenBody := map[*ast.BlockStmt]bool{}
	addCand := func(br *bodyRef) {
		if br != nil && !seenBody[br.Body] {
			seenBody[br.Body] = true
			cands = append(cands, br)
		}
	}
	ast.Inspect(fi.Decl.Body, func(m ast.Node) bool {
		if as, ok := m.(*ast.AssignStmt); ok && len(as.Lhs) == 1 && len(as.Rhs) == 1 {
			if _, ok := ast.Unparen(as.Rhs[0]).(*ast.FuncLit); ok {
				addCand(resolveFuncBody(fi, as.Rhs[0]))
			}
		}
		return true
	})
	for _, gb := range goBodies(fi) {
		for _, call := range callsIn(gb.Body) {
			if _, isLit := ast.Unparen(call.Fun).(*ast.FuncLit); isLit {
				continue
			}
			if br := resolveFuncBody(gb.FI, call.Fun); br != nil && br.Lit == nil && br.FI.Pkg == fi.Pkg {
				addCand(br)
			}
		}
	}
	for _, br := range cands {
		fl := br
		info := br.FI.Pkg.TypesInfo
		var results *ast.FieldList
		if br.Lit != nil {
			results = br.Lit.Type.Results
		} else {
			results = br.FI.Decl.Type.Results
		}
		if results == nil || len(results.List) != 1 {
			continue
		}
		// handlers: functions returning bool that call Send or handleModifyResponse
		kind := ""
		for _, call := range callsIn(fl.Body) {
			if se, ok := ast.Unparen(call.Fun).(*ast.SelectorExpr); ok {
				switch se.Sel.Name {
				case "Send":
					kind = "send"
				case "handleModifyResponse":
					kind = "recv"
				}
			}
		}
		if kind == "" {
			continue
		}
		n++
		record := map[string]string{"send": "addSendErr", "recv": "addReadErr"}[kind]
		ev := func(nd ast.Node) []Event {
			var out []Event
			for _, call := range callsIn(nd) {
				if f, ok := calleeObj(info, call).(*types.Func); ok && f.Name() == record {
					out = append(out, Event{Kind: "record", Node: call})
				}
				if se, ok := ast.Unparen(call.Fun).(*ast.SelectorExpr); ok && (se.Sel.Name == "Send" || se.Sel.Name == "handleModifyResponse") {
					d := &addEvData{call: call}
					if as2 := assignedFromCall(info, nd, call); len(as2) == 1 {
						d.err = as2[0]
					}
					out = append(out, Event{Kind: "io", Node: call, Data: d})
				}
			}
			return out
		}
		pe := &pathEnum{info: info, ev: ev, cap: pathCap, fd: br.FI.Decl}
		paths, _ := pe.run(fl.Body.List)
		c.Sites += len(paths)
		bad := ""
		exits := 0
		params := br.Params
		for _, p := range paths {
			v, isB := firstResultBool(info, p)
			if !isB || !v {
				// continuing: no error may be pending
				for i, e := range p.Events {
					if e.Kind == "io" {
						d := e.Data.(*addEvData)
						if d.err != nil && factsAfter(info, p, i, len(p.Events)).Obj(d.err) != -1 {
							bad = "the loop continues although the error of " + types.ExprString(e.Node.(*ast.CallExpr).Fun) + " is not known to be nil: " + p.describe(c.P)
						}
					}
				}
				continue
			}
			exits++
			if p.has("record") {
				continue
			}
			// exits without recording: only the orderly ends (EOF on receive, channel closed on send)
			// (decided by entailment: the path must know err == io.EOF / the bool parameter to be false)
			orderly := false
			for _, prm := range params {
				if prm == nil {
					continue
				}
				if types.Identical(prm.Type(), types.Universe.Lookup("error").Type()) && p.Entails(&FLit{eqAtom(varKey(prm), "io.EOF"), 2, 2}) {
					orderly = true
				}
				if b, ok := prm.Type().Underlying().(*types.Basic); ok && b.Kind() == types.Bool && p.Entails(&FLit{"b:" + varKey(prm), 2, 1}) {
					orderly = true // !readOK: the request channel was closed by disconnect()
				}
			}
			if !orderly {
				bad = "the " + kind + " loop can exit on an error without recording it (" + record + "): AwaitConverged would report convergence or wait for ever: " + p.describe(c.P)
			}
		}
		c.check(bad == "" && exits >= 2, rule, fi.Name, kind+" handler records the error before ending its loop", c.P.pos(fl.Body.Pos()), fmt.Sprintf("%d exit paths: recorded, or an orderly end", exits), bad)
	}
	c.floor(rule, "stream handlers in Connect", n, 2)
}

// R14.4
func ruleResetForgets(c *Ctx) {
	const rule = "RESET-FORGETS"
	fi := c.need("client", "Client", "Reset")
	if fi == nil {
		return
	}
	info := fi.Pkg.TypesInfo
	// classification of every field of Client and clientQs (frozen; a new field must be classified)
	class := map[string]string{
		"Client.state": "configuration", "Client.c": "configuration", "Client.conn": "configuration", "Client.qs": "container",
		"Client.shut": "lifecycle (reset by Connect)", "Client.sendErrMu": "lock", "Client.sendErr": "transient", "Client.readErrMu": "lock", "Client.readErr": "transient",
		"Client.awaiting": "lock", "Client.wg": "lifecycle", "Client.doneCh": "transient-drain", "Client.sendExitCh": "lifecycle (reset by Connect)",
		"clientQs.sendMu": "lock", "clientQs.sendq": "transient", "clientQs.pendMu": "lock", "clientQs.pendq": "transient", "clientQs.modifyCh": "transient",
		"clientQs.resultMu": "lock", "clientQs.resultq": "transient", "clientQs.sending": "lifecycle (StopSending)",
	}
	assigned := map[string]bool{}
	drained := map[string]bool{}
	markAssigned := func(lhs []ast.Expr) {
		for _, l := range lhs {
			if se, ok := ast.Unparen(l).(*ast.SelectorExpr); ok {
				if fv, ok := info.ObjectOf(se.Sel).(*types.Var); ok && fv.IsField() {
					if tv, ok := info.Types[se.X]; ok {
						assigned[typeName(tv.Type)+"."+fv.Name()] = true
					}
				}
			}
		}
	}
	ast.Inspect(fi.Decl.Body, func(n ast.Node) bool {
		switch x := n.(type) {
		case *ast.AssignStmt:
			markAssigned(x.Lhs)
		case *ast.BlockStmt:
			// `c.f = helper()` spliced in line: the frame assigns its result to the statement's left-hand side
			if fr := inlineFrames[x]; fr != nil {
				markAssigned(fr.Lhs)
			}
		case *ast.UnaryExpr:
			if x.Op == token.ARROW {
				if se, ok := ast.Unparen(x.X).(*ast.SelectorExpr); ok {
					if tv, ok := info.Types[se.X]; ok {
						drained[typeName(tv.Type)+"."+se.Sel.Name] = true
					}
				}
			}
		}
		return true
	})
	pk := c.P.pkg("client")
	for _, tname := range []string{"Client", "clientQs"} {
		tn, _ := pk.Types.Scope().Lookup(tname).(*types.TypeName)
		if tn == nil {
			c.vanished(rule, "client."+tname, "type", "type not found")
			continue
		}
		st := tn.Type().Underlying().(*types.Struct)
		for i := 0; i < st.NumFields(); i++ {
			key := tname + "." + st.Field(i).Name()
			c.Sites++
			cl, ok := class[key]
			switch {
			case !ok:
				c.fail(rule, fi.Name, "field "+key, c.P.pos(st.Field(i).Pos()), "field "+key+" is not classified as configuration / lifecycle / transient: if it holds per-connection state Reset must clear it")
			case cl == "transient":
				c.check(assigned[key], rule, fi.Name, "field "+key, c.P.pos(fi.Decl.Pos()), "reassigned by Reset", "transient field "+key+" survives Reset: the reconnected client would see stale state")
			case cl == "transient-drain":
				c.check(drained[key] || assigned[key], rule, fi.Name, "field "+key, c.P.pos(fi.Decl.Pos()), "drained by Reset", "the pending done notification in "+key+" is not drained by Reset")
			}
		}
	}
	// StopSending + disconnect come first
	first := []string{}
	for _, st := range fi.Decl.Body.List {
		if es, ok := st.(*ast.ExprStmt); ok {
			if call, ok := es.X.(*ast.CallExpr); ok {
				if f, ok := calleeObj(info, call).(*types.Func); ok && recvTypeName(f) == "Client" {
					first = append(first, f.Name())
				}
			}
		}
	}
	c.check(len(first) >= 2 && first[0] == "StopSending" && first[1] == "disconnect", rule, fi.Name, "stops sending and shuts the goroutines down before clearing", c.P.pos(fi.Decl.Pos()), "StopSending(); disconnect(); …", fmt.Sprintf("Reset starts with %v, want StopSending, disconnect", first))
}

// q(): nothing is handed to a sender that has exited
func ruleQSkipsDeadSender(c *Ctx) {
	const rule = "QUEUE-AFTER-EXIT"
	fi := c.need("client", "Client", "q")
	if fi == nil {
		return
	}
	info := fi.Pkg.TypesInfo
	ev := func(n ast.Node) []Event {
		var out []Event
		inspectNoFuncLit(n, func(m ast.Node) bool {
			if ss, ok := m.(*ast.SendStmt); ok && strings.HasSuffix(types.ExprString(ss.Chan), ".modifyCh") {
				out = append(out, Event{Kind: "send", Node: ss})
			}
			return true
		})
		return out
	}
	paths, _ := enumFunc(fi, ev, nil)
	c.Sites += len(paths)
	bad := ""
	n := 0
	for _, p := range paths {
		if !p.has("send") {
			continue
		}
		n++
		running := p.Entails(&FLit{"b:call:chIsClosed#1", 2, 1})
		// the same probe written in place: the default arm of a select whose other arm receives from the sender's exit channel
		for _, cs := range p.Conds {
			sel, isSel := cs.Node.(*ast.SelectStmt)
			if !isSel || cs.Label != "select default" {
				continue
			}
			for _, cl := range sel.Body.List {
				cc := cl.(*ast.CommClause)
				if cc.Comm == nil {
					continue
				}
				ast.Inspect(cc.Comm, func(m ast.Node) bool {
					if u, ok := m.(*ast.UnaryExpr); ok && u.Op == token.ARROW && strings.HasSuffix(types.ExprString(u.X), ".sendExitCh") {
						// only a pure probe counts: the receiving arm leaves the function
						if len(cc.Body) == 1 {
							if _, isRet := cc.Body[0].(*ast.ReturnStmt); isRet {
								running = true
							}
						}
					}
					return true
				})
			}
		}
		if !running {
			bad = "a request can be handed to modifyCh on a path that has not established that the sender is still running: " + p.describe(c.P)
		}
		// the send must be a select alternative
		alt := false
		for _, cs := range p.Conds {
			if cs.Label == "select comm" {
				alt = true
			}
		}
		if !alt {
			bad = "the hand-over to the sender is a bare channel send: it blocks for ever once the sender has exited with a full channel"
		}
	}
	_ = info
	if n == 0 {
		c.vanished(rule, fi.Name, "hand-over", "q() never sends on modifyCh")
		return
	}
	c.check(bad == "", rule, fi.Name, "requests are only handed to a running sender, and the hand-over gives up when it exits", c.P.pos(fi.Decl.Pos()), fmt.Sprintf("%d sending paths", n), bad)
}

// ERROR-SINKS — addSendErr / addReadErr are where a stream fault becomes visible to AwaitConverged: each
// appends its argument to its own error list on every path (no class of error is filtered out — io.EOF on
// send is the only trace of a stream the server closed cleanly while requests were still queued).
func ruleErrorSinks(c *Ctx) {
	const rule = "ERROR-SINKS"
	for _, t := range [][2]string{{"addSendErr", "sendErr"}, {"addReadErr", "readErr"}} {
		fi := c.need("client", "Client", t[0])
		if fi == nil {
			continue
		}
		info := fi.Pkg.TypesInfo
		ps := paramObjs(info, fi.Decl)
		if len(ps) != 1 {
			c.undecided(rule, fi.Name, "signature", c.P.pos(fi.Decl.Pos()), "unexpected parameters")
			continue
		}
		errP := ps[0]
		ev := func(n ast.Node) []Event {
			var out []Event
			inspectNoFuncLit(n, func(m ast.Node) bool {
				as, ok := m.(*ast.AssignStmt)
				if !ok || len(as.Lhs) != 1 || len(as.Rhs) != 1 {
					return true
				}
				se, ok := ast.Unparen(as.Lhs[0]).(*ast.SelectorExpr)
				if !ok || se.Sel.Name != t[1] {
					return true
				}
				call, ok := ast.Unparen(as.Rhs[0]).(*ast.CallExpr)
				if !ok || len(call.Args) < 2 {
					return true
				}
				if id, ok := ast.Unparen(call.Fun).(*ast.Ident); !ok || id.Name != "append" || types.ExprString(call.Args[0]) != types.ExprString(as.Lhs[0]) {
					return true
				}
				for _, a := range call.Args[1:] {
					if aliasRootObj(info, fi.Decl, a) == errP {
						out = append(out, Event{Kind: "record", Node: as})
					}
				}
				return true
			})
			return out
		}
		paths, pe := enumFunc(fi, ev, nil)
		c.Sites += len(paths)
		bad := ""
		if pe.overflow || len(pe.unsup) > 0 || len(paths) == 0 {
			bad = "path enumeration incomplete"
		}
		for _, p := range paths {
			if p.End != "panic" && p.count("record") != 1 {
				bad = fmt.Sprintf("%s records its error %d times on the path %s: an error that is not recorded is invisible to AwaitConverged, which then waits for the caller's deadline (or reports convergence) instead of returning the fault", t[0], p.count("record"), p.describe(c.P))
			}
		}
		c.check(bad == "", rule, fi.Name, "appends its argument to "+t[1]+" on every path", c.P.pos(fi.Decl.Pos()), fmt.Sprintf("%d paths", len(paths)), bad)
	}
}

func exprOrNil(e ast.Expr) ast.Expr {
	if e == nil {
		return &ast.BadExpr{}
	}
	return e
}

// isMoreThanOne: be is `x > 1` or `x >= 2` for an integer variable x.
func isMoreThanOne(info *types.Info, be *ast.BinaryExpr) bool {
	if _, ok := objOfIdent(info, be.X).(*types.Var); !ok {
		return false
	}
	v, ok := constInt(info, be.Y)
	return ok && ((be.Op == token.GTR && v == 1) || (be.Op == token.GEQ && v == 2))
}

// DONE-SIGNAL — the one-slot Done channel belongs to the application: inside the client it is only written by the
// handlers' exit notification and drained by Reset. Any other receive in the library consumes the token the
// application is waiting for (Done is then never signalled although the stream failed).
func ruleDoneSignal(c *Ctx) {
	const rule = "DONE-SIGNAL"
	fv := c.P.Field("client", "Client", "doneCh")
	if fv == nil {
		c.vanished(rule, "client.Client", "doneCh", "field not found")
		return
	}
	var bad, recvs []string
	n := 0
	for _, g := range c.P.AllFuncs("client") {
		if g.Decl.Body == nil {
			continue
		}
		info := g.Pkg.TypesInfo
		ast.Inspect(g.Decl.Body, func(m ast.Node) bool {
			u, ok := m.(*ast.UnaryExpr)
			if !ok || u.Op != token.ARROW {
				return true
			}
			se, ok := ast.Unparen(u.X).(*ast.SelectorExpr)
			if !ok || info.ObjectOf(se.Sel) != types.Object(fv) {
				return true
			}
			n++
			recvs = append(recvs, g.Obj.Name())
			if !onBehalfOf(c.P.callGraph(), g.Obj, func(f *types.Func) bool { return f.Name() == "Reset" && recvTypeName(f) == "Client" }) {
				bad = append(bad, g.Name+" ("+c.P.pos(u.Pos())+")")
			}
			return true
		})
	}
	c.Sites += n
	c.check(len(bad) == 0, rule, "client.Client", "receivers of doneCh", "-", fmt.Sprintf("received from only in %v (the drain of Reset)", recvs),
		"the Done channel is received from inside the library in "+strings.Join(bad, ", ")+": the single token that tells the application the client disconnected is consumed, Done() is never signalled")
	c.floor(rule, "receives from doneCh (the drain in Reset)", n, 1)
	// exactly one token: both handlers announce their exit with a non-blocking send and Reset drains one token —
	// with a larger buffer a token survives Reset and a healthy new session looks disconnected
	capOK, capSeen := true, 0
	for _, g := range c.P.AllFuncs("client") {
		if g.Decl.Body == nil {
			continue
		}
		info := g.Pkg.TypesInfo
		ast.Inspect(g.Decl.Body, func(m ast.Node) bool {
			var val ast.Expr
			switch x := m.(type) {
			case *ast.KeyValueExpr:
				if id, ok := x.Key.(*ast.Ident); ok && info.ObjectOf(id) == types.Object(fv) {
					val = x.Value
				}
			case *ast.AssignStmt:
				for i, l := range x.Lhs {
					if se, ok := ast.Unparen(l).(*ast.SelectorExpr); ok && info.ObjectOf(se.Sel) == types.Object(fv) && len(x.Rhs) == len(x.Lhs) {
						val = x.Rhs[i]
					}
				}
			}
			if val == nil {
				return true
			}
			capSeen++
			call, ok := ast.Unparen(resolveLocal(info, g.Decl, val)).(*ast.CallExpr)
			if !ok || len(call.Args) != 2 {
				capOK = false
				return true
			}
			if v, isC := constInt(info, call.Args[1]); !isC || v != 1 {
				capOK = false
			}
			return true
		})
	}
	c.check(capOK && capSeen >= 1, rule, "client.Client", "the Done channel holds one token", "-", "made with capacity 1", "the Done channel is not made with capacity exactly 1 (two exit announcements, one drained by Reset): a stale token survives Reset, or an announcement blocks")
}

// STATUS-SNAPSHOT — Status() is a consistent account of the operations: an operation only ever moves from pending to
// resulted, so reading the pending queue before the result queue can show one twice but never lose it; the other
// order can show an operation in neither place (handled between the two reads).
func ruleStatusSnapshot(c *Ctx) {
	const rule = "STATUS-SNAPSHOT"
	fi := c.need("client", "Client", "Status")
	if fi == nil {
		return
	}
	info := fi.Pkg.TypesInfo
	ev := func(n ast.Node) []Event {
		var out []Event
		for _, call := range callsIn(n) {
			obj := calleeObj(info, call)
			switch {
			case isMethod(obj, modPath+"/client", "Client", "Pending"):
				out = append(out, Event{Kind: "pending", Node: call})
			case isMethod(obj, modPath+"/client", "Client", "Results"):
				out = append(out, Event{Kind: "results", Node: call})
			}
		}
		// the queues read in place
		inspectNoFuncLit(n, func(m ast.Node) bool {
			if se, ok := m.(*ast.SelectorExpr); ok {
				switch se.Sel.Name {
				case "pendq":
					out = append(out, Event{Kind: "pending", Node: se})
				case "resultq":
					out = append(out, Event{Kind: "results", Node: se})
				}
			}
			return true
		})
		return out
	}
	paths, pe := enumFunc(fi, ev, nil)
	bad := ""
	n := 0
	if pe.overflow || len(pe.unsup) > 0 {
		bad = "path enumeration incomplete"
	}
	for _, p := range paths {
		ri := idx(p, "results")
		if ri < 0 {
			continue
		}
		n++
		if pi := idx(p, "pending"); pi < 0 || pi > ri {
			bad = "Status reads the results before the pending operations: an operation answered between the two reads is in neither snapshot: " + p.describe(c.P)
		}
	}
	c.Sites += len(paths)
	c.check(bad == "" && n >= 1, rule, fi.Name, "pending is read before results", c.P.pos(fi.Decl.Pos()), fmt.Sprintf("%d paths read both, pending first", n), bad)
}
