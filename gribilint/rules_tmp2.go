package main

func init() {
	propRules["C11"] = func(c *Ctx) {
		ruleLockDiscipline(c, lockSel{pairing: true, blocking: true})
		ruleLockOrder(c, "")
	}
}
