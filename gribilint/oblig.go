package main

// Obligations, known findings, evidence.

import (
	"encoding/json"
	"fmt"
	"os"
	"path/filepath"
	"sort"
	"strings"
	"time"
)

const (
	stOK        = "discharged"
	stViolation = "violated"
	stUndecided = "undecided"
	stVanished  = "vanished"
)

// Obligation is one rule instance and its verdict.
type Obligation struct {
	Rule   string `json:"rule"`
	Key    string `json:"key"` // rule / function / construct ; never a line number
	Pos    string `json:"pos"`
	Status string `json:"status"`
	Detail string `json:"detail,omitempty"`
	Table  bool   `json:"-"` // obligation whose finite valuation space was enumerated completely
	Cases  int    `json:"cases,omitempty"`
}

// Ctx collects the obligations of one property run.
type Ctx struct {
	P        *Prog
	Prop     string
	Obs      []*Obligation
	Notes    []string
	Analysed map[string]bool // functions looked at
	Sites    int             // call sites / access sites / statements examined
	Suppress []string
	Assume   []string
	NotDec   []string // clauses explicitly not decided
	Decided  []string // clauses decided
	seen     map[string]bool
}

func newCtx(p *Prog, prop string) *Ctx {
	return &Ctx{P: p, Prop: prop, Analysed: map[string]bool{}, seen: map[string]bool{}}
}

func (c *Ctx) add(rule, fn, construct, status, pos, detail string) *Obligation {
	key := rule + " / " + fn + " / " + construct
	// keys must be unique; disambiguate repeated constructs by ordinal
	base := key
	for i := 2; c.seen[key]; i++ {
		key = fmt.Sprintf("%s #%d", base, i)
	}
	c.seen[key] = true
	o := &Obligation{Rule: rule, Key: key, Pos: pos, Status: status, Detail: detail}
	c.Obs = append(c.Obs, o)
	return o
}

func (c *Ctx) ok(rule, fn, construct, pos, detail string) *Obligation {
	return c.add(rule, fn, construct, stOK, pos, detail)
}
func (c *Ctx) fail(rule, fn, construct, pos, detail string) *Obligation {
	return c.add(rule, fn, construct, stViolation, pos, detail)
}
func (c *Ctx) undecided(rule, fn, construct, pos, detail string) *Obligation {
	return c.add(rule, fn, construct, stUndecided, pos, detail)
}
func (c *Ctx) vanished(rule, fn, construct, detail string) *Obligation {
	return c.add(rule, fn, construct, stVanished, "-", detail)
}

// check records ok or fail depending on cond.
func (c *Ctx) check(cond bool, rule, fn, construct, pos, okDetail, failDetail string) bool {
	if cond {
		c.ok(rule, fn, construct, pos, okDetail)
	} else {
		c.fail(rule, fn, construct, pos, failDetail)
	}
	return cond
}

// floor fails when fewer instances of a rule were found than confirmed by hand.
func (c *Ctx) floor(rule, what string, got, want int) {
	if got < want {
		c.vanished(rule, "floor", what, fmt.Sprintf("found %d instances of %s, confirmed floor is %d: a rule matching fewer sites than confirmed must not pass", got, what, want))
	} else {
		c.ok(rule, "floor", what, "-", fmt.Sprintf("%d instances (floor %d)", got, want))
	}
}

// need resolves a function anchor or records an unresolved-anchor violation.
func (c *Ctx) need(rel, recv, name string) *FuncInfo {
	fi := c.P.Func(rel, recv, name)
	if fi == nil || fi.Decl.Body == nil {
		n := rel + "." + name
		if recv != "" {
			n = rel + ".(" + recv + ")." + name
		}
		if !c.seen["ANCHOR / "+n+" / resolve"] {
			c.vanished("ANCHOR", n, "resolve", "anchor function cannot be resolved in the current tree")
		}
		return nil
	}
	c.Analysed[fi.Name] = true
	return fi
}

func (c *Ctx) note(format string, a ...any) {
	c.Notes = append(c.Notes, fmt.Sprintf(format, a...))
}

// ---- known findings --------------------------------------------------------

type knownFinding struct {
	Property string `json:"property"`
	Key      string `json:"key"`
	What     string `json:"what"`
}

type fixedFinding struct {
	Property string `json:"property"`
	Commit   string `json:"commit"`
	What     string `json:"what"`
}

type knownFile struct {
	Comment  string         `json:"comment"`
	Findings []knownFinding `json:"findings"`
	Fixed    []fixedFinding `json:"fixed"`
}

func verifDir() string {
	if d := os.Getenv("GRIBILINT_VERIF"); d != "" {
		return d
	}
	return "/verif"
}

func loadKnown() (*knownFile, error) {
	b, err := os.ReadFile(filepath.Join(verifDir(), "known_findings.json"))
	if err != nil {
		if os.IsNotExist(err) {
			return &knownFile{}, nil
		}
		return nil, err
	}
	var k knownFile
	if err := json.Unmarshal(b, &k); err != nil {
		return nil, fmt.Errorf("known_findings.json: %v", err)
	}
	return &k, nil
}

// ---- evidence --------------------------------------------------------------

type evidence struct {
	PropertyID  string         `json:"property_id"`
	Tier        string         `json:"tier"`
	Seed        int            `json:"seed"`
	Level       string         `json:"level"`
	Coverage    map[string]any `json:"coverage"`
	Assumptions []string       `json:"assumptions"`
	WallS       float64        `json:"wall_s"`
	Violations  int            `json:"violations"`
}

// finish prints the verdict, writes evidence and replay files and returns the exit code.
func (c *Ctx) finish(tier string, seed int, t0 time.Time, extra map[string]any) int {
	known, err := loadKnown()
	if err != nil {
		fmt.Fprintln(os.Stderr, "gribilint:", err)
		return 2
	}
	kn := map[string]knownFinding{}
	for _, k := range known.Findings {
		if k.Property == c.Prop {
			kn[k.Key] = k
		}
	}
	sort.SliceStable(c.Obs, func(i, j int) bool { return c.Obs[i].Key < c.Obs[j].Key })

	evDir := filepath.Join(verifDir(), "evidence")
	replayDir := filepath.Join(evDir, "replay")
	os.MkdirAll(replayDir, 0o755)
	// remove stale replay files of this property
	if old, _ := filepath.Glob(filepath.Join(replayDir, c.Prop+"-*.json")); old != nil {
		for _, f := range old {
			os.Remove(f)
		}
	}

	// two views of one tree (see orchestrate): an obligation is decided by the view that can decide it. The first
	// view hands its obligations over; here (second view) an obligation violated in one view and discharged under
	// the same key in the other is discharged, and a violated obligation of the first view whose key does not exist
	// in this view is carried over unchanged.
	if in := os.Getenv("GRIBILINT_OBL_IN"); in != "" {
		if b, err := os.ReadFile(in); err == nil {
			var first []*Obligation
			if json.Unmarshal(b, &first) == nil {
				here := map[string]*Obligation{}
				for _, o := range c.Obs {
					if prev, ok := here[o.Key]; !ok || (prev.Status == stOK && o.Status != stOK) {
						here[o.Key] = o
					}
				}
				firstByKey := map[string]*Obligation{}
				for _, o := range first {
					if prev, ok := firstByKey[o.Key]; !ok || (prev.Status == stOK && o.Status != stOK) {
						firstByKey[o.Key] = o
					}
				}
				// rule / function: when the other view has no obligation of exactly this key (a rule names its
				// obligations by what it found), it has still decided the rule for the function if it has
				// obligations of that rule for that function and none of them is violated
				group := func(key string) string {
					parts := strings.SplitN(key, " / ", 3)
					if len(parts) < 2 {
						return key
					}
					return parts[0] + " / " + parts[1]
				}
				type tally struct{ n, bad int }
				hereGroup, firstGroup := map[string]*tally{}, map[string]*tally{}
				count := func(m map[string]*tally, o *Obligation) {
					g := group(o.Key)
					if m[g] == nil {
						m[g] = &tally{}
					}
					m[g].n++
					if o.Status != stOK {
						m[g].bad++
					}
				}
				for _, o := range c.Obs {
					count(hereGroup, o)
				}
				for _, o := range first {
					count(firstGroup, o)
				}
				for _, o := range c.Obs {
					if o.Status != stOK {
						f, ok := firstByKey[o.Key]
						switch {
						case ok && f.Status == stOK:
							o.Detail = "discharged in the first view (helpers called several times kept as calls): " + f.Detail
							o.Status = stOK
						case !ok && firstGroup[group(o.Key)] != nil && firstGroup[group(o.Key)].bad == 0:
							o.Detail = "the first view (helpers called several times kept as calls) decides this rule for this function with all its obligations discharged; here: " + o.Detail
							o.Status = stOK
						}
					}
				}
				for _, f := range first {
					if f.Status != stOK {
						if _, ok := here[f.Key]; !ok {
							if t := hereGroup[group(f.Key)]; t != nil && t.bad == 0 {
								continue // decided, positively, by this view under other obligation names
							}
							cp := *f
							c.Obs = append(c.Obs, &cp)
						}
					}
				}
			}
		}
	}
	if out := os.Getenv("GRIBILINT_OBL_OUT"); out != "" {
		if b, err := json.Marshal(c.Obs); err == nil {
			os.WriteFile(out, b, 0o644)
		}
	}
	var viol, knownHit, discharged int
	var bad []*Obligation
	rules := map[string]int{}
	tables, tableCases := 0, 0
	for _, o := range c.Obs {
		rules[o.Rule]++
		if o.Table {
			tables++
			tableCases += o.Cases
		}
		if o.Status == stOK {
			discharged++
			continue
		}
		if k, ok := kn[o.Key]; ok {
			knownHit++
			fmt.Printf("KNOWN-FINDING: property=%s %s [%s] (%s)\n", c.Prop, k.What, o.Key, o.Pos)
			continue
		}
		bad = append(bad, o)
	}
	for i, o := range bad {
		viol++
		path := filepath.Join(replayDir, fmt.Sprintf("%s-%d.json", c.Prop, i+1))
		b, _ := json.MarshalIndent(map[string]any{
			"property": c.Prop, "obligation": o, "explain": "re-run: bin/run " + c.Prop + " " + tier + " ; the obligation key identifies rule / function / construct",
		}, "", "  ")
		os.WriteFile(path, b, 0o644)
		fmt.Printf("%s %s %s: %s (%s)\n", c.Prop, strings.ToUpper(o.Status), o.Key, o.Detail, o.Pos)
		fmt.Printf("VIOLATION property=%s replay=%s\n", c.Prop, path)
	}

	// samples: the first obligations of every rule, so that a reader sees what they look like
	var samples []any
	perRule := map[string]int{}
	for _, o := range c.Obs {
		if perRule[o.Rule] < 3 || o.Status != stOK {
			samples = append(samples, o)
			perRule[o.Rule]++
		}
		if len(samples) >= 80 {
			break
		}
	}
	var funcs []string
	for f := range c.Analysed {
		funcs = append(funcs, f)
	}
	sort.Strings(funcs)
	distinct := map[string]bool{}
	for _, o := range c.Obs {
		if o.Rule != "ANCHOR" && !strings.Contains(o.Key, "/ floor /") {
			distinct[o.Key] = true
		}
	}
	cov := map[string]any{
		"explanation": "Static analysis of /repo's current source (type-checked AST, go/cfg, go/ssa, call graph). Decided clauses: " +
			strings.Join(c.Decided, " | ") + " NOT decided (runtime-quantified, outside the reach of a sound static argument here): " + strings.Join(c.NotDec, " | "),
		"obligations":         len(c.Obs),
		"discharged":          discharged,
		"known_findings_hit":  knownHit,
		"evaluations":         len(c.Obs),
		"distinct_nontrivial": len(distinct),
		"rule":                "one obligation per rule instance (rule / function / construct); non-trivial = an obligation that examined a concrete construct of the current tree (anchor-resolution and floor bookkeeping entries are not counted)",
		"rules":               rules,
		"samples":             samples,
		"functions_analysed":  funcs,
		"sites_examined":      c.Sites,
		"packages_loaded":     len(c.P.All),
		"functions_loaded":    c.P.nFuncs,
		"table_obligations":   tables,
		"table_valuations":    tableCases,
		"exhaustive":          false,
		"suppressions":        c.Suppress,
		"notes":               c.Notes,
		"checker_cmd":         "bin/run " + c.Prop + " " + tier,
		"trusted_base":        []string{"go/types type checker", "golang.org/x/tools go/ssa, go/cfg, go/callgraph (v0.50.0)", "the frozen oracle tables inside gribilint (DESIGN.md appendix A)"},
	}
	for k, v := range extra {
		cov[k] = v
	}
	ev := evidence{
		PropertyID: c.Prop, Tier: tier, Seed: seed, Level: "other", Coverage: cov,
		Assumptions: c.Assume, WallS: time.Since(t0).Seconds(), Violations: viol,
	}
	if ev.Assumptions == nil {
		ev.Assumptions = []string{}
	}
	b, _ := json.MarshalIndent(ev, "", " ")
	if err := os.WriteFile(filepath.Join(evDir, c.Prop+".json"), b, 0o644); err != nil {
		fmt.Fprintln(os.Stderr, "gribilint: cannot write evidence:", err)
		return 2
	}
	fmt.Printf("%s %s: %d obligations, %d discharged, %d known findings, %d violations; %d functions analysed, %d sites; %.1fs\n",
		c.Prop, tier, len(c.Obs), discharged, knownHit, viol, len(funcs), c.Sites, time.Since(t0).Seconds())
	if viol > 0 {
		return 1
	}
	return 0
}
