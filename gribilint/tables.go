package main

// E4 TABLES: decision-table extraction and comparison over every valuation.
//
// The structural paths of a decision procedure are enumerated (PATHS); each
// feasible path is a conjunction of literals over atoms plus an abstract
// outcome (classified return values and the list of effect events). The
// checker's oracle is a Go function from a valuation of the atoms to the
// expected outcome. Every valuation of (atoms found in the code ∪ atoms the
// oracle names) is enumerated; the path selected by the valuation must yield
// the expected outcome. Inconsistent valuations (two different constants
// equal to the same term) are skipped.

import (
	"fmt"
	"go/ast"
	"go/token"
	"go/types"
	"sort"
	"strings"
)

type Valuation struct {
	val   map[string]int
	used  map[string]bool
	known map[string]int
}

// B reads a boolean atom (false if the code never mentions it: the oracle's
// atoms are always added to the space, so this only happens for typos).
func (v *Valuation) B(atom string) bool {
	v.used[atom] = true
	return v.val[atom] == 1
}

// Ord reads an order atom: -1, 0, +1.
func (v *Valuation) Ord(atom string) int {
	v.used[atom] = true
	return v.val[atom] - 1
}

type tableSpec struct {
	Rule      string
	Fn        *FuncInfo
	Body      []ast.Stmt // defaults to the function body
	Events    func(n ast.Node) []Event
	Atoms     map[string]int                                     // atoms the oracle reads: name → domain
	Expected  func(v *Valuation) (outcome string, asserted bool) // oracle
	Outcome   func(p Path) string                                // abstraction of a path's result; default: classified returns + effects
	OutcomeV  func(p Path, val map[string]int) string            // optional: the outcome of a path under one valuation (a value stored that is itself an atom)
	Construct string
	// Rename maps code atoms to oracle atoms (after canonical translation).
	Rename      func(atom string) string
	AtLeastOnce func(ast.Node) bool
	Pure        func(*ast.CallExpr) bool
	PE          **pathEnum // receives the enumerator (for late-bound terms in Outcome)
	LinkFields  bool       // see pathEnum.linkFieldStores
}

func orderAtom(a, b string) (string, bool) {
	if a > b {
		return "ord:" + b + "|" + a, true
	}
	return "ord:" + a + "|" + b, false
}

// eqAtom builds the canonical key of an equality atom.
func eqAtom(a, b string) string {
	if a > b {
		a, b = b, a
	}
	return "eq:" + a + "|" + b
}

func renameFormula(f Formula, ren func(string) string) Formula {
	if ren == nil {
		return f
	}
	switch x := f.(type) {
	case *FLit:
		return &FLit{ren(x.Atom), x.Dom, x.Mask}
	case *FAnd:
		return &FAnd{renameFormula(x.L, ren), renameFormula(x.R, ren)}
	case *FOr:
		return &FOr{renameFormula(x.L, ren), renameFormula(x.R, ren)}
	case *FNot:
		return &FNot{renameFormula(x.X, ren)}
	}
	return f
}

// consistent rejects valuations that make one term equal to two different constants,
// or a term both nil and equal to a non-nil constant.
func consistent(val map[string]int) bool {
	isType := map[string]string{}
	for a, v := range val {
		if v == 1 && strings.HasPrefix(a, "is:") {
			parts := strings.SplitN(strings.TrimPrefix(a, "is:"), "|", 2)
			if len(parts) == 2 {
				if prev, ok := isType[parts[1]]; ok && prev != parts[0] {
					return false
				}
				isType[parts[1]] = parts[0]
			}
		}
	}
	// ord:U128(x)|U128(y) is the lexicographic order of (High, Low) when the word atoms are in the space
	for a, u := range val {
		if !strings.HasPrefix(a, "ord:U128(") {
			continue
		}
		parts := strings.SplitN(strings.TrimPrefix(a, "ord:"), "|", 2)
		if len(parts) != 2 || !strings.HasPrefix(parts[1], "U128(") || !strings.HasSuffix(parts[0], ")") || !strings.HasSuffix(parts[1], ")") {
			continue
		}
		xa := strings.TrimSuffix(strings.TrimPrefix(parts[0], "U128("), ")")
		xb := strings.TrimSuffix(strings.TrimPrefix(parts[1], "U128("), ")")
		word := func(w string) (int, bool) {
			k, flipped := orderAtom(xa+w, xb+w)
			v, ok := val[k]
			if ok && flipped {
				v = 2 - v
			}
			return v, ok
		}
		hi, ok1 := word(".High")
		lo, ok2 := word(".Low")
		if ok1 && ok2 {
			lex := hi
			if hi == 1 {
				lex = lo
			}
			if u != lex {
				return false
			}
		}
	}
	eqConst := map[string]string{}
	for a, v := range val {
		if v != 1 || !strings.HasPrefix(a, "eq:") {
			continue
		}
		parts := strings.SplitN(strings.TrimPrefix(a, "eq:"), "|", 2)
		if len(parts) != 2 {
			continue
		}
		var c, t string
		switch {
		case strings.HasPrefix(parts[0], "const:") || parts[0] == "nil":
			c, t = parts[0], parts[1]
		case strings.HasPrefix(parts[1], "const:") || parts[1] == "nil":
			c, t = parts[1], parts[0]
		default:
			continue
		}
		if prev, ok := eqConst[t]; ok && prev != c {
			return false
		}
		eqConst[t] = c
	}
	return true
}

// runTable evaluates the spec and records one obligation.
func runTable(c *Ctx, ts tableSpec) {
	fi := ts.Fn
	body := ts.Body
	if body == nil {
		body = fi.Decl.Body.List
	}
	construct := ts.Construct
	if construct == "" {
		construct = "decision table"
	}
	pe := &pathEnum{info: fi.Pkg.TypesInfo, ev: ts.Events, cap: pathCap, fd: fi.Decl, atLeastOnce: ts.AtLeastOnce, pure: ts.Pure, linkFields: ts.LinkFields}
	if pe.ev == nil {
		pe.ev = func(ast.Node) []Event { return nil }
	}
	if ts.PE != nil {
		*ts.PE = pe
	}
	paths, _ := pe.run(body)
	c.Sites += len(paths)
	pos := c.P.pos(fi.Decl.Pos())
	if pe.overflow || len(pe.unsup) > 0 {
		c.undecided(ts.Rule, fi.Name, construct, pos, fmt.Sprintf("path enumeration incomplete (overflow=%v unsupported=%v)", pe.overflow, pe.unsup))
		return
	}
	outcome := ts.Outcome
	if outcome == nil {
		outcome = func(p Path) string { return defaultOutcome(fi.Pkg.TypesInfo, fi.Decl, p) }
	}
	// in a whole function without results, `return` and falling off the end are the same outcome
	if ts.Body == nil && (fi.Decl.Type.Results == nil || len(fi.Decl.Type.Results.List) == 0) {
		inner := outcome
		norm := func(s string) string {
			if s == "ret()" || strings.HasPrefix(s, "ret() ") {
				return "end:fall" + strings.TrimPrefix(s, "ret()")
			}
			return s
		}
		outcome = func(p Path) string { return norm(inner(p)) }
		exp := ts.Expected
		ts.Expected = func(v *Valuation) (string, bool) {
			s, ok := exp(v)
			return norm(s), ok
		}
	}
	type row struct {
		f   Formula
		out string
		p   Path
	}
	var rows []row
	atoms := map[string]int{}
	for a, d := range ts.Atoms {
		atoms[a] = d
	}
	for _, p := range paths {
		var f Formula = FConst(true)
		for _, pf := range p.Formulas() {
			f = fand(f, renameFormula(pf, ts.Rename))
		}
		atomsOf(f, atoms)
		rows = append(rows, row{f, outcome(p), p})
	}
	space := 1
	for _, d := range atoms {
		space *= d
		if space > 1<<20 {
			c.undecided(ts.Rule, fi.Name, construct, pos, fmt.Sprintf("valuation space too large (%d atoms)", len(atoms)))
			return
		}
	}
	var mismatches []string
	nVal, nAsserted := 0, 0
	unknownAtoms := map[string]int{}
	oracleAtoms := map[string]int{}
	for a, d := range atoms {
		if _, ok := ts.Atoms[a]; !ok {
			unknownAtoms[a] = d
		} else {
			oracleAtoms[a] = d
		}
	}
	// Atoms the oracle does not name (locals holding constants, results the
	// specification is indifferent to) are quantified existentially: every
	// extension of the oracle valuation that selects a path must yield the
	// expected outcome, and at least one extension must select a path.
	forEachValuation(oracleAtoms, func(oval map[string]int) {
		if !consistent(oval) {
			return
		}
		v := &Valuation{val: oval, used: map[string]bool{}}
		want, asserted := ts.Expected(v)
		nVal++
		if !asserted {
			return
		}
		nAsserted++
		gotSet := map[string]bool{}
		full := map[string]int{}
		for k, x := range oval {
			full[k] = x
		}
		forEachValuation(unknownAtoms, func(uval map[string]int) {
			for k, x := range uval {
				full[k] = x
			}
			if !consistent(full) {
				return
			}
			for _, r := range rows {
				if evalF(r.f, full) {
					if ts.OutcomeV != nil {
						gotSet[ts.OutcomeV(r.p, full)] = true
					} else {
						gotSet[r.out] = true
					}
				}
			}
		})
		var got []string
		for g := range gotSet {
			got = append(got, g)
		}
		sort.Strings(got)
		switch {
		case len(got) == 0:
			if len(mismatches) < 6 {
				mismatches = append(mismatches, fmt.Sprintf("valuation %s: no path of the function is selected (want %s)", showVal(oval), want))
			}
		case len(got) > 1:
			if len(mismatches) < 6 {
				mismatches = append(mismatches, fmt.Sprintf("valuation %s: outcome depends on something outside the specified atoms: %v (want %s)", showVal(oval), got, want))
			}
		case got[0] != want:
			if len(mismatches) < 6 {
				mismatches = append(mismatches, fmt.Sprintf("valuation %s: code yields %s, specification requires %s", showVal(oval), got[0], want))
			}
		}
	})
	var ua []string
	for a := range unknownAtoms {
		ua = append(ua, a)
	}
	sort.Strings(ua)
	detail := fmt.Sprintf("%d structural paths, %d specified atoms %v, %d consistent valuations enumerated exhaustively, %d asserted", len(paths), len(oracleAtoms), atomList(oracleAtoms), nVal, nAsserted)
	if len(ua) > 0 {
		detail += fmt.Sprintf("; atoms not named by the oracle (quantified over; the outcome must not depend on them): %v", ua)
	}
	var o *Obligation
	switch {
	case len(mismatches) > 0:
		o = c.fail(ts.Rule, fi.Name, construct, pos, strings.Join(mismatches, " ‖ ")+" ["+detail+"]")
	case nAsserted == 0:
		o = c.undecided(ts.Rule, fi.Name, construct, pos, "no valuation asserted: "+detail)
	default:
		o = c.ok(ts.Rule, fi.Name, construct, pos, detail)
	}
	o.Table = true
	o.Cases = nVal
}

func uniqStrings(s []string) []string {
	var out []string
	for i, x := range s {
		if i == 0 || x != s[i-1] {
			out = append(out, x)
		}
	}
	return out
}

func atomList(atoms map[string]int) []string {
	var out []string
	for a := range atoms {
		out = append(out, a)
	}
	sort.Strings(out)
	return out
}

func showVal(val map[string]int) string {
	var ks []string
	for k := range val {
		ks = append(ks, k)
	}
	sort.Strings(ks)
	var sb []string
	for _, k := range ks {
		v := val[k]
		if strings.HasPrefix(k, "ord:") {
			sb = append(sb, k+"="+[]string{"<", "=", ">"}[v])
		} else if v == 1 {
			sb = append(sb, k)
		} else {
			sb = append(sb, "¬"+k)
		}
	}
	return "{" + strings.Join(sb, ", ") + "}"
}

// ---- outcome abstraction -------------------------------------------------------

// defaultOutcome classifies the returned values and lists effect events.
func defaultOutcome(info *types.Info, fd *ast.FuncDecl, p Path) string {
	var evs []string
	for _, e := range p.Events {
		evs = append(evs, e.Kind)
	}
	ret := "end:" + p.End
	if rs, ok := p.EndNode.(*ast.ReturnStmt); ok && p.End == "return" {
		var rv []string
		for _, r := range rs.Results {
			// a local bound to a helper's returned expression by an inline frame is classified by that expression
			var through []types.Object
			for hops := 0; hops < 4; hops++ {
				id, ok := ast.Unparen(r).(*ast.Ident)
				if !ok {
					break
				}
				b, ok := p.bind[info.ObjectOf(id)]
				if !ok {
					break
				}
				through = append(through, info.ObjectOf(id))
				r = b
			}
			cv := classifyValue(info, fd, r, 0)
			for _, o := range through {
				cv = completeLit(info, fd, o, cv)
			}
			rv = append(rv, cv)
		}
		ret = "ret(" + strings.Join(rv, ", ") + ")"
	}
	if len(evs) > 0 {
		return ret + " effects[" + strings.Join(evs, ",") + "]"
	}
	return ret
}

// classifyValue abstracts a returned expression.
func classifyValue(info *types.Info, fd *ast.FuncDecl, e ast.Expr, depth int) string {
	e = ast.Unparen(e)
	if isNilIdent(info, e) {
		return "nil"
	}
	if b, ok := boolConst(info, e); ok {
		return fmt.Sprint(b)
	}
	if id, ok := e.(*ast.Ident); ok && depth < 4 {
		if v, ok := info.ObjectOf(id).(*types.Var); ok && !v.IsField() && fd != nil {
			if def := soleDefinition(info, fd, v); def != nil {
				r := classifyValue(info, fd, def, depth+1)
				r = completeLit(info, fd, v, r)
				return r
			}
		}
		return "var:" + id.Name
	}
	// a simple helper (`return <expr>`) is classified by what it returns; a status error it builds from its
	// parameters (`errWithReason(status.New(codes.X, …), Reason_Y)`) takes code and reason from the call's arguments
	if call, ok := e.(*ast.CallExpr); ok && depth < 4 {
		if hfi, ret := simpleHelper(info, call); hfi != nil {
			if code, reason := statusParts(info, call, 0); code != "" {
				if reason != "" {
					return "err(" + code + "/" + reason + ")"
				}
				return "err(" + code + ")"
			}
			return classifyValue(hfi.Pkg.TypesInfo, hfi.Decl, ret, depth+1)
		}
	}
	// gRPC status errors: find the codes.X constant and the details reason (through simple helpers and the
	// parameters of helpers spliced into fd)
	code, reason := statusPartsIn(info, fd, e)
	if code != "" {
		if reason != "" {
			return "err(" + code + "/" + reason + ")"
		}
		return "err(" + code + ")"
	}
	// responses
	if cl, ok := unAddr(e).(*ast.CompositeLit); ok {
		if tv, ok := info.Types[cl]; ok {
			switch {
			case isNamed(tv.Type, spbPath, "ModifyResponse"):
				f := compositeFields(cl)
				switch {
				case f["Result"] != nil:
					var sts []string
					for _, rl := range litsOfType(info, f["Result"], spbPath, "AFTResult") {
						sts = append(sts, constName(info, compositeFields(rl)["Status"]))
					}
					return "resp(results:" + strings.Join(sts, ",") + ")"
				case f["ElectionId"] != nil:
					return "resp(election:" + exprStr(f["ElectionId"]) + ")"
				case f["SessionParamsResult"] != nil:
					st := ""
					for _, sl := range litsOfType(info, f["SessionParamsResult"], spbPath, "SessionParametersResult") {
						st = constName(info, compositeFields(sl)["Status"])
					}
					return "resp(params:" + st + ")"
				}
				return "resp(empty)"
			case isNamed(tv.Type, spbPath, "FlushResponse"):
				return "resp(flush:" + constName(info, compositeFields(cl)["Result"]) + ")"
			}
		}
	}
	if cl, ok := unAddr(e).(*ast.CompositeLit); ok {
		if tv, ok := info.Types[cl]; ok {
			if n := namedOf(tv.Type); n != nil {
				if _, isStruct := n.Underlying().(*types.Struct); isStruct {
					var ks []string
					for k := range compositeFields(cl) {
						ks = append(ks, k)
					}
					sort.Strings(ks)
					return "lit:" + n.Obj().Name() + "{" + strings.Join(ks, ",") + "}"
				}
			}
		}
	}
	if call, ok := e.(*ast.CallExpr); ok {
		obj := calleeObj(info, call)
		if f, ok := obj.(*types.Func); ok {
			if f.Pkg() != nil && (f.Pkg().Path() == "errors" || f.Pkg().Path() == "fmt") {
				return "err(plain)"
			}
			return "call:" + f.Name()
		}
		if v, ok := obj.(*types.Var); ok {
			return "call:" + v.Name()
		}
	}
	if ue, ok := e.(*ast.UnaryExpr); ok {
		return ue.Op.String() + classifyValue(info, fd, ue.X, depth+1)
	}
	return "expr:" + types.ExprString(e)
}

// completeLit: a structure built by a literal and completed field by field (`v := &T{A: …}; v.B = …`) is classified
// with the fields assigned through v in fd added to those of the literal.
func completeLit(info *types.Info, fd *ast.FuncDecl, v types.Object, r string) string {
	if !strings.HasPrefix(r, "lit:") || !strings.HasSuffix(r, "}") || fd == nil || v == nil {
		return r
	}
	open := strings.Index(r, "{")
	set := map[string]bool{}
	for _, k := range strings.Split(r[open+1:len(r)-1], ",") {
		if k != "" {
			set[k] = true
		}
	}
	ast.Inspect(fd.Body, func(n ast.Node) bool {
		if as, ok := n.(*ast.AssignStmt); ok && as.Tok == token.ASSIGN {
			for _, l := range as.Lhs {
				if se, ok := ast.Unparen(l).(*ast.SelectorExpr); ok && objOfIdent(info, se.X) == v {
					set[se.Sel.Name] = true
				}
			}
		}
		return true
	})
	var ks []string
	for k := range set {
		ks = append(ks, k)
	}
	sort.Strings(ks)
	return r[:open+1] + strings.Join(ks, ",") + "}"
}

// statusParts finds the gRPC code constant and the details reason of a status error expression, following simple
// helpers: inside a helper, a parameter stands for the caller's argument.
func statusParts(info *types.Info, e ast.Expr, depth int) (code, reason string) {
	return statusPartsSub(info, e, depth, nil, nil)
}

// statusPartsIn: as statusParts, for an expression of (a helper spliced into) fd: a parameter of a spliced-in helper
// stands for the argument it is bound to.
func statusPartsIn(info *types.Info, fd *ast.FuncDecl, e ast.Expr) (code, reason string) {
	if fd == nil || fd.Body == nil {
		return statusParts(info, e, 0)
	}
	sub := map[types.Object]ast.Expr{}
	for _, fr := range framesIn(fd) {
		for o, a := range fr.Binds {
			if _, dup := sub[o]; dup {
				sub[o] = nil // the helper's body is shared by several call sites of fd: ambiguous
			} else {
				sub[o] = a
			}
		}
	}
	for o, a := range sub {
		if a == nil {
			delete(sub, o)
		}
	}
	if len(sub) == 0 {
		return statusParts(info, e, 0)
	}
	return statusPartsSub(info, e, 0, sub, info)
}

func statusPartsSub(info *types.Info, e ast.Expr, depth int, subst map[types.Object]ast.Expr, callerInfo *types.Info) (code, reason string) {
	if depth > 3 {
		return
	}
	resolve := func(v ast.Expr) (ast.Expr, *types.Info) {
		if id, ok := ast.Unparen(v).(*ast.Ident); ok && subst != nil {
			if a, ok := subst[info.ObjectOf(id)]; ok {
				return a, callerInfo
			}
		}
		return v, info
	}
	ast.Inspect(e, func(n ast.Node) bool {
		switch x := n.(type) {
		case *ast.Ident:
			// a parameter holding the status (or the code) built by the caller
			if subst != nil {
				if a, ok := subst[info.ObjectOf(x)]; ok {
					c2, r2 := statusPartsSub(callerInfo, a, depth+1, nil, nil)
					if code == "" {
						code = c2
					}
					if reason == "" {
						reason = r2
					}
				}
			}
		case *ast.SelectorExpr:
			if cst, ok := info.Uses[x.Sel].(*types.Const); ok && cst.Pkg() != nil && cst.Pkg().Path() == "google.golang.org/grpc/codes" {
				code = cst.Name()
			}
		case *ast.CompositeLit:
			if tv, ok := info.Types[x]; ok {
				if isNamed(tv.Type, spbPath, "ModifyRPCErrorDetails") || isNamed(tv.Type, spbPath, "FlushResponseError") {
					if reason == "" {
						reason = "-"
					}
					for k, v := range compositeFields(x) {
						if k == "Reason" || k == "Status" {
							rv, ri := resolve(v)
							if cn := constName(ri, rv); cn != "" {
								reason = cn
							}
						}
					}
				}
			}
		case *ast.CallExpr:
			if hfi, ret := simpleHelper(info, x); hfi != nil {
				hinfo := hfi.Pkg.TypesInfo
				sub := map[types.Object]ast.Expr{}
				for i, p := range paramObjs(hinfo, hfi.Decl) {
					if i < len(x.Args) && p != nil {
						a, _ := resolve(x.Args[i])
						sub[p] = a
					}
				}
				ci := info
				if callerInfo != nil && subst != nil {
					ci = info // arguments written in this function; parameters among them were resolved above
				}
				c2, r2 := statusPartsSub(hinfo, ret, depth+1, sub, ci)
				if code == "" {
					code = c2
				}
				if reason == "" || reason == "-" {
					if r2 != "" {
						reason = r2
					}
				}
			}
		}
		return true
	})
	return
}
