package main

// Deep copy of a function body with fresh objects for everything the function declares, so that a helper
// called several times from one function can be spliced in once per call site (inline.go): each copy has
// its own statement nodes and its own parameter/local objects, and carries the type information of the
// original.

import (
	"go/ast"
	"go/token"
	"go/types"
	"reflect"
)

var (
	nodeType   = reflect.TypeOf((*ast.Node)(nil)).Elem()
	objPtrType = reflect.TypeOf((*ast.Object)(nil))
	scopeType  = reflect.TypeOf((*ast.Scope)(nil))
)

func cloneValue(v reflect.Value, m map[ast.Node]ast.Node) reflect.Value {
	switch v.Kind() {
	case reflect.Ptr:
		if v.IsNil() {
			return v
		}
		if v.Type() == objPtrType || v.Type() == scopeType {
			return reflect.Zero(v.Type())
		}
		if v.Elem().Kind() != reflect.Struct {
			return v
		}
		nv := reflect.New(v.Elem().Type())
		if on, ok := v.Interface().(ast.Node); ok {
			m[on] = nv.Interface().(ast.Node)
		}
		for i := 0; i < v.Elem().NumField(); i++ {
			f := v.Elem().Field(i)
			if !nv.Elem().Field(i).CanSet() {
				continue
			}
			nv.Elem().Field(i).Set(cloneValue(f, m))
		}
		return nv
	case reflect.Interface:
		if v.IsNil() {
			return v
		}
		c := cloneValue(v.Elem(), m)
		nv := reflect.New(v.Type()).Elem()
		nv.Set(c)
		return nv
	case reflect.Slice:
		if v.IsNil() {
			return v
		}
		nv := reflect.MakeSlice(v.Type(), v.Len(), v.Len())
		for i := 0; i < v.Len(); i++ {
			nv.Index(i).Set(cloneValue(v.Index(i), m))
		}
		return nv
	default:
		return v
	}
}

// cloneFuncBody copies fd's body. The returned map sends every object declared by fd (receiver, parameters,
// results, locals, closure parameters) to its fresh counterpart.
func cloneFuncBody(info *types.Info, fd *ast.FuncDecl) ([]ast.Stmt, map[types.Object]types.Object) {
	remap := map[types.Object]types.Object{}
	fresh := func(id *ast.Ident) {
		if v, ok := info.Defs[id].(*types.Var); ok && v != nil && !v.IsField() {
			if _, done := remap[v]; !done {
				remap[v] = types.NewVar(v.Pos(), v.Pkg(), v.Name(), v.Type())
			}
		}
	}
	ast.Inspect(fd, func(n ast.Node) bool {
		if id, ok := n.(*ast.Ident); ok {
			fresh(id)
		}
		return true
	})
	nodes := map[ast.Node]ast.Node{}
	nb := cloneValue(reflect.ValueOf(fd.Body), nodes).Interface().(*ast.BlockStmt)
	sub := func(o types.Object) types.Object {
		if r, ok := remap[o]; ok {
			return r
		}
		return o
	}
	for old, nw := range nodes {
		switch o := old.(type) {
		case *ast.Ident:
			ni := nw.(*ast.Ident)
			if d, ok := info.Defs[o]; ok {
				if d != nil {
					info.Defs[ni] = sub(d)
				} else {
					info.Defs[ni] = nil
				}
			}
			if u, ok := info.Uses[o]; ok {
				info.Uses[ni] = sub(u)
			}
		case *ast.CaseClause:
			if im, ok := info.Implicits[o]; ok {
				ni := types.NewVar(im.Pos(), im.Pkg(), im.Name(), im.Type())
				remap[im] = ni
				info.Implicits[nw] = ni
			}
		}
		if oe, ok := old.(ast.Expr); ok {
			if tv, ok := info.Types[oe]; ok {
				info.Types[nw.(ast.Expr)] = tv
			}
		}
		if os, ok := old.(*ast.SelectorExpr); ok {
			if sel, ok := info.Selections[os]; ok {
				info.Selections[nw.(*ast.SelectorExpr)] = sel
			}
		}
	}
	// uses of type-switch implicits (created above) inside the clauses
	for old, nw := range nodes {
		if o, ok := old.(*ast.Ident); ok {
			if u, ok := info.Uses[o]; ok {
				if r, ok := remap[u]; ok {
					info.Uses[nw.(*ast.Ident)] = r
				}
			}
		}
	}
	// frames already spliced into the helper's body: register their copies
	for old, nw := range nodes {
		ob, ok := old.(*ast.BlockStmt)
		if !ok {
			continue
		}
		fr := inlineFrames[ob]
		if fr == nil {
			continue
		}
		nfr := *fr
		nfr.Block = nw.(*ast.BlockStmt)
		nfr.Lhs = nil
		for _, l := range fr.Lhs {
			if nl, ok := nodes[l]; ok {
				nfr.Lhs = append(nfr.Lhs, nl.(ast.Expr))
			} else {
				nfr.Lhs = append(nfr.Lhs, l)
			}
		}
		if nc, ok := nodes[fr.Call]; ok {
			nfr.Call = nc.(*ast.CallExpr)
		}
		nfr.Results = nil
		for _, r := range fr.Results {
			nfr.Results = append(nfr.Results, sub(r))
		}
		inlineFrames[nfr.Block] = &nfr
	}
	_ = token.NoPos
	return nb.List, remap
}
