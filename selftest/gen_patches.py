#!/usr/bin/env python3
"""Converts the agent-produced patches (seeded/*: property-breaking changes; neutral/*: behaviour-preserving refactorings)
into multi-hunk selftest variants (selftest/patches.json). Hunks become (old text, new text, occurrence) edits computed
against /repo's current files, so the thorough tier can replay them through the overlay loader without touching /repo."""
import json, glob, os, re, sys
REPO = os.environ.get("GRIBILINT_REPO", "/repo")
# which properties' checks must stay silent on a refactoring of a file
FILEPROPS = {
    "server/server.go": ["C04", "C05", "C06", "C07", "C08", "C09", "C10", "C11", "C12"],
    "rib/rib.go": ["C01", "C02", "C03", "C06", "C08", "C10", "C11", "C12", "C16"],
    "rib/helpers.go": ["C07"],
    "client/gribiclient.go": ["C13", "C14"],
    "fluent/fluent.go": ["C18"],
    "chk/chk.go": ["C17"],
    "rib/reconciler/reconcile.go": ["C15"],
    "compliance/compliance.go": ["C19"],
}
def parse(patch):
    files, cur, hunk = [], None, None
    for line in patch.splitlines():
        if line.startswith("diff --git"):
            cur = None
        elif line.startswith("+++ b/"):
            cur = {"file": line[6:], "hunks": []}; files.append(cur)
        elif line.startswith("@@") and cur is not None:
            m = re.match(r"@@ -(\d+)(?:,(\d+))? \+(\d+)", line)
            hunk = {"start": int(m.group(1)), "old": [], "new": []}; cur["hunks"].append(hunk)
        elif hunk is not None and cur is not None and (line[:1] in " +-" or line == ""):
            tag, txt = (line[:1] or " "), line[1:]
            if tag in " -": hunk["old"].append(txt)
            if tag in " +": hunk["new"].append(txt)
    return files
def edits_for(patch):
    out = []
    for f in parse(patch):
        path = os.path.join(REPO, f["file"])
        if not os.path.exists(path): return None
        content = open(path).read()
        shift = 0
        for h in f["hunks"]:
            old = "\n".join(h["old"]) + "\n"; new = "\n".join(h["new"]) + "\n"
            # occurrence whose position matches the hunk's line
            target_line = h["start"] + shift
            occ, pos, best = 0, -1, None
            i = 0
            while True:
                pos = content.find(old, pos + 1)
                if pos < 0: break
                line = content.count("\n", 0, pos) + 1
                if best is None or abs(line - target_line) < abs(best[1] - target_line): best = (i, line)
                i += 1
            if best is None: return None
            occ = best[0]
            parts = content.split(old)
            content = old.join(parts[:occ + 1]) + new + old.join(parts[occ + 1:])
            shift += len(h["new"]) - len(h["old"])
            out.append({"file": f["file"], "old": old, "new": new, "occ": occ})
    return out
V = []
for d in sorted(glob.glob("/verif/seeded/*/")):
    sid = os.path.basename(d.rstrip("/"))
    meta = json.load(open(d + "meta.json"))
    ed = edits_for(open(d + "patch.diff").read())
    if ed is None: print("skip (does not apply to current tree):", sid, file=sys.stderr); continue
    V.append({"id": "seed-" + sid, "property": meta["property"], "file": ed[0]["file"], "old": "", "new": "", "occ": 0, "expect": "",
              "neutral": False, "note": "seeded change by an independent agent: " + meta.get("summary", "")[:300], "edits": ed})
for d in sorted(glob.glob("/verif/neutral/*/")):
    nid = os.path.basename(d.rstrip("/"))
    meta = json.load(open(d + "meta.json"))
    ed = edits_for(open(d + "patch.diff").read())
    if ed is None: print("skip (does not apply to current tree):", nid, file=sys.stderr); continue
    props = sorted({p for e in ed for p in FILEPROPS.get(e["file"], [])})
    for p in props:
        V.append({"id": "refactor-" + nid + "-" + p, "property": p, "file": ed[0]["file"], "old": "", "new": "", "occ": 0, "expect": "",
                  "neutral": True, "note": "behaviour-preserving refactoring by an independent agent: " + meta.get("summary", "")[:300], "edits": ed})
json.dump(V, open("/verif/selftest/patches.json", "w"), indent=1)
print(len(V), "patch variants:", sum(1 for v in V if not v["neutral"]), "seeded,", sum(1 for v in V if v["neutral"]), "refactoring×property")
