package main

// Folding of inline option probes.
//
// The functional-option probes (`hasX(opts)`) are the switches the option rules
// reason about. A maintainer may inline one into its caller:
//
//	for _, o := range opts {
//		if _, ok := o.(*T); ok { BODY; break }
//	}
//
// which means exactly `if hasX(opts) { BODY }` (BODY runs once, iff an option of
// dynamic type *T is present). So that every rule sees the switch where it
// expects it, such a loop is replaced — in the loaded syntax only, after SSA was
// built — by
//
//	if hasX(opts) { BODY }                       (blank value)
//	if v := hasX(opts); v != nil { BODY }        (the matched option is used: first match)
//
// The callee object is the package's own probe for (option interface, *T) when it
// still exists, otherwise a synthetic function object named as the probe was
// named when the rules were written (frozen table below; "has·T" for an option
// type the table does not know). Loops not of exactly this shape are left alone:
// other statements in the loop, BODY mentioning the range variable or `ok`, a
// `continue`/`break` inside BODY, no trailing break unless BODY only stores
// constants (idempotent).

import (
	"go/ast"
	"go/token"
	"go/types"

	"golang.org/x/tools/go/ast/astutil"
)

// foldedProbes: synthetic or reused probe function → option type name.
var foldedProbes = map[*types.Func]string{}

// genericProbeFuncs: verified generic probes (see genericProbes) → index of the asserted type parameter.
var genericProbeFuncs map[*types.Func]int

// optionParserFuncs: verified option parsers (see optionParsers).
var optionParserFuncs map[*types.Func]*optParser

// foldedProbeSites counts folded loops per package path and probe name.
var foldedProbeSites = map[string]map[string]int{}

// frozenProbeNames: package (relative) / option interface / option type → probe name at the time the rules were written.
var frozenProbeNames = map[string]string{
	"rib/RIBOpt/disableCheckFn":              "hasDisableCheckFn",
	"rib/RIBOpt/disableForwardRef":           "hasDisableForwardRef",
	"rib/ribHolderOpt/disableForwardRef":     "hasRHDisableForwardRef",
	"rib/ribHolderOpt/ribHolderCheckFn":      "hasCheckFn",
	"server/ServerOpt/postChangeRibHook":     "hasPostChangeRIBHook",
	"server/ServerOpt/resolvedEntryHook":     "hasResolvedEntryHook",
	"server/ServerOpt/disableCheckFn":        "hasDisableCheckFn",
	"server/ServerOpt/withVRFs":              "hasWithVRFs",
	"server/ServerOpt/disableRIBForwardRefs": "hasWithNoRIBForwardReferences",
	"chk/resultOpt/ignoreOpID":               "hasIgnoreOperationID",
	"chk/resultOpt/includeServerError":       "hasIncludeServerError",
}

func foldProbeLoops(p *Prog) int {
	n := 0
	synth := map[string]*types.Func{}
	gens := genericProbes(p)
	genericProbeFuncs = gens
	parsers := optionParsers(p)
	optionParserFuncs = parsers
	for _, pk := range p.Pkgs {
		info := pk.TypesInfo
		if info == nil || isGeneratedPkg(pk.PkgPath) {
			continue
		}
		rel := relPkg(pk.PkgPath)
		for _, file := range pk.Syntax {
			for _, d := range file.Decls {
				fd, ok := d.(*ast.FuncDecl)
				if !ok || fd.Body == nil {
					continue
				}
				if len(gens) > 0 {
					n += foldGenericCalls(p, pk.Types, rel, info, fd, gens, synth)
				}
				if len(parsers) > 0 && parsers[info.Defs[fd.Name].(*types.Func)] == nil {
					n += foldParserUses(p, pk.Types, rel, info, fd, parsers, synth)
				}
				ast.Inspect(fd.Body, func(m ast.Node) bool {
					var list *[]ast.Stmt
					switch b := m.(type) {
					case *ast.BlockStmt:
						list = &b.List
					case *ast.CaseClause:
						list = &b.Body
					case *ast.CommClause:
						list = &b.Body
					}
					if list == nil {
						return true
					}
					for i, st := range *list {
						rs, ok := st.(*ast.RangeStmt)
						if !ok {
							continue
						}
						if repl := foldOne(p, pk.Types, rel, info, fd, rs, synth); repl != nil {
							(*list)[i] = repl
							n++
						}
					}
					return true
				})
			}
		}
	}
	return n
}

// probeObjFor: the probe function object for (option slice type, asserted option type *T): the package's own probe when
// one exists (other than fd itself), otherwise a synthetic one named by the frozen table.
func probeObjFor(p *Prog, tpkg *types.Package, rel string, info *types.Info, fd *ast.FuncDecl, sliceT, at types.Type, valueForm bool, pos token.Pos, synth map[string]*types.Func) *types.Func {
	nt := namedOf(at)
	in := namedOf(sliceT.Underlying().(*types.Slice).Elem())
	var resT types.Type = types.Typ[types.Bool]
	if valueForm {
		resT = at
	}
	var fn *types.Func
	for obj, decl := range p.declOf {
		if obj.Pkg() != tpkg || decl.Recv != nil || decl.Body == nil || decl == fd {
			continue
		}
		sig := obj.Type().(*types.Signature)
		if sig.Params().Len() != 1 || sig.Results().Len() != 1 || !types.Identical(sig.Params().At(0).Type(), sliceT) || !types.Identical(sig.Results().At(0).Type(), resT) {
			continue
		}
		cnt, match := 0, false
		ast.Inspect(decl.Body, func(m ast.Node) bool {
			if t2, ok := m.(*ast.TypeAssertExpr); ok && t2.Type != nil {
				cnt++
				if types.Identical(info.TypeOf(t2.Type), at) {
					match = true
				}
			}
			return true
		})
		if cnt == 1 && match {
			fn = obj
		}
	}
	key := rel + "/" + in.Obj().Name() + "/" + nt.Obj().Name()
	if fn == nil {
		skey := key
		if valueForm {
			skey += "/v"
		}
		fn = synth[skey]
		if fn == nil {
			name := frozenProbeNames[key]
			if name == "" {
				name = "has·" + nt.Obj().Name()
			}
			if fd != nil && fd.Recv == nil && fd.Name.Name == name {
				name += "·" // the wrapper that kept the probe's name delegates to this one
			}
			sig := types.NewSignatureType(nil, nil, nil,
				types.NewTuple(types.NewVar(token.NoPos, tpkg, "opt", sliceT)),
				types.NewTuple(types.NewVar(token.NoPos, tpkg, "", resT)), false)
			fn = types.NewFunc(pos, tpkg, name, sig)
			synth[skey] = fn
		}
	}
	foldedProbes[fn] = nt.Obj().Name()
	if foldedProbeSites[rel] == nil {
		foldedProbeSites[rel] = map[string]int{}
	}
	foldedProbeSites[rel][fn.Name()+"→*"+nt.Obj().Name()]++
	return fn
}

// mkProbeCall builds the call fn(arg) with its type information.
func mkProbeCall(info *types.Info, fn *types.Func, arg ast.Expr, pos token.Pos) *ast.CallExpr {
	funID := &ast.Ident{Name: fn.Name(), NamePos: pos}
	info.Uses[funID] = fn
	info.Types[funID] = types.TypeAndValue{Type: fn.Type()}
	call := &ast.CallExpr{Fun: funID, Lparen: pos, Args: []ast.Expr{arg}, Rparen: arg.End()}
	info.Types[call] = types.TypeAndValue{Type: fn.Type().(*types.Signature).Results().At(0).Type()}
	return call
}

func mkNotNil(info *types.Info, id *ast.Ident, obj types.Object, t types.Type, pos token.Pos) ast.Expr {
	use := &ast.Ident{Name: id.Name, NamePos: pos}
	info.Uses[use] = obj
	info.Types[use] = types.TypeAndValue{Type: t}
	nilID := &ast.Ident{Name: "nil", NamePos: pos}
	info.Uses[nilID] = types.Universe.Lookup("nil")
	info.Types[nilID] = types.TypeAndValue{Type: types.Typ[types.UntypedNil]}
	cond := &ast.BinaryExpr{X: use, Op: token.NEQ, OpPos: pos, Y: nilID}
	info.Types[cond] = types.TypeAndValue{Type: types.Typ[types.Bool]}
	return cond
}

func relPkg(path string) string {
	if len(path) > len(modPath)+1 && path[:len(modPath)] == modPath {
		return path[len(modPath)+1:]
	}
	return path
}

func foldOne(p *Prog, tpkg *types.Package, rel string, info *types.Info, fd *ast.FuncDecl, rs *ast.RangeStmt, synth map[string]*types.Func) ast.Stmt {
	if rs.Tok != token.DEFINE || rs.Value == nil || len(rs.Body.List) != 1 {
		return nil
	}
	if k, ok := rs.Key.(*ast.Ident); !ok || k.Name != "_" {
		return nil
	}
	elem := objOfIdent(info, rs.Value)
	if elem == nil {
		return nil
	}
	tv, ok := info.Types[rs.X]
	if !ok {
		return nil
	}
	sl, ok := tv.Type.Underlying().(*types.Slice)
	if !ok {
		return nil
	}
	in := namedOf(sl.Elem())
	if in == nil || in.Obj().Pkg() != tpkg {
		return nil
	}
	if _, isI := in.Underlying().(*types.Interface); !isI {
		return nil
	}
	ifs, ok := rs.Body.List[0].(*ast.IfStmt)
	if !ok || ifs.Else != nil || ifs.Init == nil {
		return nil
	}
	as, ok := ifs.Init.(*ast.AssignStmt)
	if !ok || as.Tok != token.DEFINE || len(as.Lhs) != 2 || len(as.Rhs) != 1 {
		return nil
	}
	ta, ok := ast.Unparen(as.Rhs[0]).(*ast.TypeAssertExpr)
	if !ok || ta.Type == nil || objOfIdent(info, ta.X) != elem {
		return nil
	}
	at := info.TypeOf(ta.Type)
	nt := namedOf(at)
	if nt == nil || nt.Obj().Pkg() != tpkg {
		return nil
	}
	if _, isPtr := at.(*types.Pointer); !isPtr {
		return nil
	}
	okObj := objOfIdent(info, as.Lhs[1])
	if okObj == nil || objOfIdent(info, ifs.Cond) != okObj {
		return nil
	}
	valID, _ := as.Lhs[0].(*ast.Ident)
	if valID == nil {
		return nil
	}
	var valObj types.Object
	if valID.Name != "_" {
		valObj = info.Defs[valID]
	}
	body := ifs.Body.List
	hasBreak := false
	if len(body) > 0 {
		if br, ok := body[len(body)-1].(*ast.BranchStmt); ok && br.Tok == token.BREAK && br.Label == nil {
			hasBreak = true
			body = body[:len(body)-1]
		}
	}
	// BODY: no mention of the element or ok, no branch statements
	bad := false
	idempotent := true
	for _, st := range body {
		ast.Inspect(st, func(m ast.Node) bool {
			switch x := m.(type) {
			case *ast.Ident:
				if o := info.ObjectOf(x); o != nil && (o == elem || o == okObj) {
					bad = true
				}
			case *ast.BranchStmt:
				bad = true
			}
			return true
		})
		a, isAs := st.(*ast.AssignStmt)
		if !isAs || a.Tok != token.ASSIGN {
			idempotent = false
			continue
		}
		for _, r := range a.Rhs {
			if tv, ok := info.Types[r]; !ok || tv.Value == nil {
				idempotent = false
			}
		}
	}
	if bad {
		return nil
	}
	if !hasBreak && (!idempotent || valObj != nil) {
		return nil
	}
	// the probe function
	valueForm := valObj != nil
	fn := probeObjFor(p, tpkg, rel, info, fd, tv.Type, at, valueForm, rs.For, synth)
	var resT types.Type = types.Typ[types.Bool]
	if valueForm {
		resT = at
	}
	call := mkProbeCall(info, fn, rs.X, rs.For)
	_ = resT
	out := &ast.IfStmt{If: rs.For, Body: &ast.BlockStmt{Lbrace: ifs.Body.Lbrace, List: body, Rbrace: ifs.Body.Rbrace}}
	if !valueForm {
		out.Cond = call
		return out
	}
	out.Init = &ast.AssignStmt{Lhs: []ast.Expr{valID}, Tok: token.DEFINE, TokPos: as.TokPos, Rhs: []ast.Expr{call}}
	out.Cond = mkNotNil(info, valID, valObj, at, as.TokPos)
	return out
}

// Generic probes. `func findOpt[T …](opts []O) (T, bool)` — a loop over the options asserting each element to the type
// parameter, answering (match, true) from inside the loop and (zero, false) after it — is the probe for whatever type
// it is instantiated with. A call
//
//	v, ok := findOpt[*X](opts)
//
// is rewritten (loaded syntax only) to the probe for *X:  `ok := hasX(opts)` when v is blank, `v := hasX(opts)` when
// ok is blank, and `v := hasX(opts)` with ok replaced by `v != nil` when both are used in an if-statement's header.
func genericProbes(p *Prog) map[*types.Func]int {
	out := map[*types.Func]int{}
	for obj, fd := range p.declOf {
		sig := obj.Type().(*types.Signature)
		if sig.TypeParams() == nil || fd.Recv != nil || fd.Body == nil || sig.Params().Len() != 1 || sig.Results().Len() != 2 {
			continue
		}
		tp, ok := sig.Results().At(0).Type().(*types.TypeParam)
		if !ok || !isBoolType(sig.Results().At(1).Type()) {
			continue
		}
		pk := p.Pkgs[obj.Pkg().Path()]
		if pk == nil {
			continue
		}
		info := pk.TypesInfo
		opts := paramObjs(info, fd)[0]
		body := fd.Body.List
		if len(body) < 2 {
			continue
		}
		rs, ok := body[0].(*ast.RangeStmt)
		if !ok || objOfIdent(info, rs.X) != opts || rs.Value == nil || len(rs.Body.List) != 1 {
			continue
		}
		elem := objOfIdent(info, rs.Value)
		ifs, ok := rs.Body.List[0].(*ast.IfStmt)
		if !ok || ifs.Else != nil || ifs.Init == nil || len(ifs.Body.List) != 1 {
			continue
		}
		as, ok := ifs.Init.(*ast.AssignStmt)
		if !ok || len(as.Lhs) != 2 || len(as.Rhs) != 1 {
			continue
		}
		ta, ok := ast.Unparen(as.Rhs[0]).(*ast.TypeAssertExpr)
		if !ok || ta.Type == nil || info.TypeOf(ta.Type) != types.Type(tp) {
			continue
		}
		// the asserted value is the element, possibly converted to an interface: o.(T) / any(o).(T)
		x := ast.Unparen(ta.X)
		if conv, ok := x.(*ast.CallExpr); ok && len(conv.Args) == 1 {
			if tv, ok := info.Types[conv.Fun]; ok && tv.IsType() {
				x = ast.Unparen(conv.Args[0])
			}
		}
		if objOfIdent(info, x) != elem || elem == nil || objOfIdent(info, ifs.Cond) != objOfIdent(info, as.Lhs[1]) {
			continue
		}
		ret, ok := ifs.Body.List[0].(*ast.ReturnStmt)
		if !ok || len(ret.Results) != 2 || objOfIdent(info, ret.Results[0]) != objOfIdent(info, as.Lhs[0]) {
			continue
		}
		if b, isB := boolConst(info, ret.Results[1]); !isB || !b {
			continue
		}
		// after the loop: (zero value, false)
		last, ok := body[len(body)-1].(*ast.ReturnStmt)
		if !ok || len(last.Results) != 2 {
			continue
		}
		if b, isB := boolConst(info, last.Results[1]); !isB || b {
			continue
		}
		zero := false
		switch z := ast.Unparen(last.Results[0]).(type) {
		case *ast.Ident:
			if v, ok := info.ObjectOf(z).(*types.Var); ok && len(body) == 3 {
				if ds, ok := body[1].(*ast.DeclStmt); ok {
					if gd, ok := ds.Decl.(*ast.GenDecl); ok && len(gd.Specs) == 1 {
						if vs, ok := gd.Specs[0].(*ast.ValueSpec); ok && len(vs.Values) == 0 && len(vs.Names) == 1 && info.Defs[vs.Names[0]] == v {
							zero = true
						}
					}
				}
			}
		case *ast.StarExpr:
			if call, ok := ast.Unparen(z.X).(*ast.CallExpr); ok && len(body) == 2 {
				if id, ok := call.Fun.(*ast.Ident); ok && id.Name == "new" {
					zero = true
				}
			}
		}
		if !zero {
			continue
		}
		out[obj] = tp.Index()
	}
	return out
}

// foldGenericCalls rewrites the calls of generic probes in fd; returns the number rewritten.
func foldGenericCalls(p *Prog, tpkg *types.Package, rel string, info *types.Info, fd *ast.FuncDecl, gens map[*types.Func]int, synth map[string]*types.Func) int {
	n := 0
	// the call and the asserted option type, when as is `…, … := genericProbe[*X](opts)`
	match := func(as *ast.AssignStmt) (*ast.CallExpr, types.Type) {
		if as == nil || len(as.Lhs) != 2 || len(as.Rhs) != 1 {
			return nil, nil
		}
		call, ok := ast.Unparen(as.Rhs[0]).(*ast.CallExpr)
		if !ok || len(call.Args) != 1 {
			return nil, nil
		}
		var id *ast.Ident
		switch f := ast.Unparen(call.Fun).(type) {
		case *ast.IndexExpr:
			id, _ = ast.Unparen(f.X).(*ast.Ident)
		case *ast.IndexListExpr:
			id, _ = ast.Unparen(f.X).(*ast.Ident)
		case *ast.Ident:
			id = f
		}
		if id == nil {
			return nil, nil
		}
		g, ok := info.Uses[id].(*types.Func)
		if !ok {
			return nil, nil
		}
		idx, isGen := gens[g]
		inst, hasInst := info.Instances[id]
		if !isGen || !hasInst || inst.TypeArgs == nil || idx >= inst.TypeArgs.Len() {
			return nil, nil
		}
		at := inst.TypeArgs.At(idx)
		nt := namedOf(at)
		if _, isPtr := at.(*types.Pointer); !isPtr || nt == nil || nt.Obj().Pkg() != tpkg {
			return nil, nil
		}
		st := info.TypeOf(call.Args[0])
		if st == nil {
			return nil, nil
		}
		sl, ok := st.Underlying().(*types.Slice)
		if !ok {
			return nil, nil
		}
		if in := namedOf(sl.Elem()); in == nil || in.Obj().Pkg() != tpkg {
			return nil, nil
		}
		return call, at
	}
	blank := func(e ast.Expr) bool {
		id, ok := e.(*ast.Ident)
		return ok && id.Name == "_"
	}
	rewrite := func(as *ast.AssignStmt, call *ast.CallExpr, at types.Type, valueForm bool) {
		fn := probeObjFor(p, tpkg, rel, info, fd, info.TypeOf(call.Args[0]), at, valueForm, call.Pos(), synth)
		nc := mkProbeCall(info, fn, call.Args[0], call.Pos())
		if valueForm {
			as.Lhs = as.Lhs[:1]
		} else {
			as.Lhs = as.Lhs[1:]
		}
		as.Rhs = []ast.Expr{nc}
		n++
	}
	ast.Inspect(fd.Body, func(m ast.Node) bool {
		switch x := m.(type) {
		case *ast.IfStmt:
			as, _ := x.Init.(*ast.AssignStmt)
			call, at := match(as)
			if call == nil {
				return true
			}
			switch {
			case blank(as.Lhs[0]):
				rewrite(as, call, at, false)
			case blank(as.Lhs[1]):
				rewrite(as, call, at, true)
			default:
				// both used: the condition must be exactly ok / !ok, and ok not used elsewhere
				vid, _ := as.Lhs[0].(*ast.Ident)
				okObj := objOfIdent(info, as.Lhs[1])
				vObj := objOfIdent(info, as.Lhs[0])
				if vid == nil || okObj == nil || vObj == nil {
					return true
				}
				uses := 0
				ast.Inspect(x, func(k ast.Node) bool {
					if id, ok := k.(*ast.Ident); ok && info.Uses[id] == okObj {
						uses++
					}
					return true
				})
				if uses != 1 {
					return true
				}
				switch c := ast.Unparen(x.Cond).(type) {
				case *ast.Ident:
					if info.Uses[c] != okObj {
						return true
					}
					rewrite(as, call, at, true)
					x.Cond = mkNotNil(info, vid, vObj, at, c.Pos())
				case *ast.UnaryExpr:
					if c.Op != token.NOT || objOfIdent(info, c.X) != okObj {
						return true
					}
					rewrite(as, call, at, true)
					c.X = mkNotNil(info, vid, vObj, at, c.Pos())
				}
			}
		case *ast.BlockStmt:
			for _, st := range x.List {
				as, _ := st.(*ast.AssignStmt)
				call, at := match(as)
				if call == nil {
					continue
				}
				switch {
				case blank(as.Lhs[0]):
					rewrite(as, call, at, false)
				case blank(as.Lhs[1]):
					rewrite(as, call, at, true)
				}
			}
		}
		return true
	})
	return n
}

// Option parsers. `func parse(opts []O) S` — one pass over the options setting a boolean field of the struct S for each
// option type seen (`case *T: s.f = true`), nothing else — answers several probes at once: `parse(opts).f`, or `s.f`
// for a local s defined once by `s := parse(opts)`, is the probe for *T. Such selector expressions are replaced by the
// probe call (loaded syntax only).
type optParser struct {
	fields map[*types.Var]types.Type // boolean field → option type asserted
}

func optionParsers(p *Prog) map[*types.Func]*optParser {
	out := map[*types.Func]*optParser{}
	for obj, fd := range p.declOf {
		sig := obj.Type().(*types.Signature)
		if sig.TypeParams() != nil || fd.Recv != nil || fd.Body == nil || sig.Params().Len() != 1 || sig.Results().Len() != 1 {
			continue
		}
		sl, ok := sig.Params().At(0).Type().Underlying().(*types.Slice)
		if !ok {
			continue
		}
		in := namedOf(sl.Elem())
		if in == nil || in.Obj().Pkg() != obj.Pkg() {
			continue
		}
		if _, isI := in.Underlying().(*types.Interface); !isI {
			continue
		}
		rt := namedOf(sig.Results().At(0).Type())
		if rt == nil || rt.Obj().Pkg() != obj.Pkg() {
			continue
		}
		if _, isS := rt.Underlying().(*types.Struct); !isS {
			continue
		}
		if _, isPtr := sig.Results().At(0).Type().(*types.Pointer); isPtr {
			continue
		}
		pk := p.Pkgs[obj.Pkg().Path()]
		if pk == nil {
			continue
		}
		info := pk.TypesInfo
		opts := paramObjs(info, fd)[0]
		body := fd.Body.List
		if len(body) != 3 {
			continue
		}
		// var s S   |   s := S{}
		var sObj types.Object
		switch d := body[0].(type) {
		case *ast.DeclStmt:
			if gd, ok := d.Decl.(*ast.GenDecl); ok && len(gd.Specs) == 1 {
				if vs, ok := gd.Specs[0].(*ast.ValueSpec); ok && len(vs.Names) == 1 && len(vs.Values) == 0 {
					sObj = info.Defs[vs.Names[0]]
				}
			}
		case *ast.AssignStmt:
			if d.Tok == token.DEFINE && len(d.Lhs) == 1 && len(d.Rhs) == 1 {
				if cl, ok := ast.Unparen(d.Rhs[0]).(*ast.CompositeLit); ok && len(cl.Elts) == 0 {
					sObj = objOfIdent(info, d.Lhs[0])
				}
			}
		}
		rs, ok := body[1].(*ast.RangeStmt)
		ret, ok2 := body[2].(*ast.ReturnStmt)
		if sObj == nil || !ok || !ok2 || objOfIdent(info, rs.X) != opts || rs.Value == nil || len(ret.Results) != 1 || objOfIdent(info, ret.Results[0]) != sObj {
			continue
		}
		elem := objOfIdent(info, rs.Value)
		op := &optParser{fields: map[*types.Var]types.Type{}}
		good := true
		// s.f = true
		setField := func(stmts []ast.Stmt) *types.Var {
			if len(stmts) != 1 {
				return nil
			}
			as, ok := stmts[0].(*ast.AssignStmt)
			if !ok || as.Tok != token.ASSIGN || len(as.Lhs) != 1 || len(as.Rhs) != 1 {
				return nil
			}
			if b, isB := boolConst(info, as.Rhs[0]); !isB || !b {
				return nil
			}
			se, ok := ast.Unparen(as.Lhs[0]).(*ast.SelectorExpr)
			if !ok || objOfIdent(info, se.X) != sObj {
				return nil
			}
			fv, _ := info.ObjectOf(se.Sel).(*types.Var)
			return fv
		}
		for _, st := range rs.Body.List {
			switch x := st.(type) {
			case *ast.TypeSwitchStmt:
				var subj ast.Expr
				switch a := x.Assign.(type) {
				case *ast.ExprStmt:
					subj = a.X
				case *ast.AssignStmt:
					if len(a.Rhs) == 1 {
						subj = a.Rhs[0]
					}
				}
				ta, ok := ast.Unparen(subj).(*ast.TypeAssertExpr)
				if !ok || objOfIdent(info, ta.X) != elem || x.Init != nil {
					good = false
					continue
				}
				for _, cc := range x.Body.List {
					cl := cc.(*ast.CaseClause)
					if cl.List == nil && len(cl.Body) == 0 {
						continue // empty default
					}
					fv := setField(cl.Body)
					if fv == nil || len(cl.List) != 1 {
						good = false
						continue
					}
					op.fields[fv] = info.TypeOf(cl.List[0])
				}
			case *ast.IfStmt:
				as, ok := x.Init.(*ast.AssignStmt)
				if !ok || x.Else != nil || len(as.Lhs) != 2 || len(as.Rhs) != 1 || objOfIdent(info, x.Cond) != objOfIdent(info, as.Lhs[1]) {
					good = false
					continue
				}
				ta, ok := ast.Unparen(as.Rhs[0]).(*ast.TypeAssertExpr)
				fv := setField(x.Body.List)
				if !ok || ta.Type == nil || objOfIdent(info, ta.X) != elem || fv == nil {
					good = false
					continue
				}
				op.fields[fv] = info.TypeOf(ta.Type)
			default:
				good = false
			}
		}
		for _, t := range op.fields {
			nt := namedOf(t)
			if _, isPtr := t.(*types.Pointer); !isPtr || nt == nil || nt.Obj().Pkg() != obj.Pkg() {
				good = false
			}
		}
		if good && len(op.fields) > 0 {
			out[obj] = op
		}
	}
	return out
}

// foldParserUses replaces the reads of option-parser results in fd by probe calls; returns the number replaced.
func foldParserUses(p *Prog, tpkg *types.Package, rel string, info *types.Info, fd *ast.FuncDecl, parsers map[*types.Func]*optParser, synth map[string]*types.Func) int {
	n := 0
	parserCall := func(e ast.Expr) (*optParser, *ast.CallExpr) {
		call, ok := ast.Unparen(e).(*ast.CallExpr)
		if !ok || len(call.Args) != 1 {
			return nil, nil
		}
		f, ok := calleeObj(info, call).(*types.Func)
		if !ok || parsers[f] == nil {
			return nil, nil
		}
		return parsers[f], call
	}
	// locals defined once by a parser call
	locals := map[types.Object]*ast.CallExpr{}
	defStmt := map[types.Object]*ast.AssignStmt{}
	ast.Inspect(fd.Body, func(m ast.Node) bool {
		if as, ok := m.(*ast.AssignStmt); ok && as.Tok == token.DEFINE && len(as.Lhs) == 1 && len(as.Rhs) == 1 {
			if op, call := parserCall(as.Rhs[0]); op != nil {
				if v, ok := objOfIdent(info, as.Lhs[0]).(*types.Var); ok && soleDefinition(info, fd, v) != nil {
					locals[v] = call
					defStmt[v] = as
				}
			}
		}
		return true
	})
	remaining := map[types.Object]int{}
	astutil.Apply(fd.Body, func(c *astutil.Cursor) bool {
		se, ok := c.Node().(*ast.SelectorExpr)
		if !ok {
			if id, ok := c.Node().(*ast.Ident); ok && info.Uses[id] != nil && locals[info.Uses[id]] != nil {
				remaining[info.Uses[id]]++
			}
			return true
		}
		fv, ok := info.ObjectOf(se.Sel).(*types.Var)
		if !ok || !fv.IsField() {
			return true
		}
		var op *optParser
		var call *ast.CallExpr
		if o := objOfIdent(info, se.X); o != nil && locals[o] != nil {
			call = locals[o]
			op, _ = parserCall(call)
		} else {
			op, call = parserCall(se.X)
		}
		if op == nil || op.fields[fv] == nil {
			return true
		}
		fn := probeObjFor(p, tpkg, rel, info, fd, info.TypeOf(call.Args[0]), op.fields[fv], false, se.Pos(), synth)
		c.Replace(mkProbeCall(info, fn, call.Args[0], se.Pos()))
		n++
		return false
	}, nil)
	// a local no longer read: its definition goes (the parser has no effects)
	for o, as := range defStmt {
		if remaining[o] == 0 {
			as.Lhs = []ast.Expr{&ast.Ident{Name: "_", NamePos: as.Pos()}}
			as.Tok = token.ASSIGN
			as.Rhs = []ast.Expr{&ast.Ident{Name: "nil", NamePos: as.Pos()}}
			info.Uses[as.Rhs[0].(*ast.Ident)] = types.Universe.Lookup("nil")
			info.Types[as.Rhs[0]] = types.TypeAndValue{Type: types.Typ[types.UntypedNil]}
		}
	}
	return n
}
