#!/usr/bin/env python3
"""Confirms a seeded change independently and records which checks catch it.
usage: seedcheck.py <agent-output-dir (contains patch.diff, meta.json, demo file)> <seed-id>
 1. scratch worktree of /repo: apply patch, go build, whole existing suite must pass, demo must FAIL
 2. revert patch: demo must PASS
 3. apply patch to /repo itself, run every property's quick check, undo
 4. store under /verif/seeded/<seed-id>/
"""
import json, os, shutil, subprocess, sys, glob, time
src, sid = sys.argv[1], sys.argv[2]
skip_suite = len(sys.argv) > 3 and sys.argv[3] == "--skip-suite"
meta = json.load(open(os.path.join(src, "meta.json")))
env = dict(os.environ, GOFLAGS="-mod=mod", GOPROXY="off")
wt = "/tmp/seedchk_" + sid
def sh(cmd, cwd, timeout=1500):
    r = subprocess.run(cmd, shell=True, cwd=cwd, env=env, capture_output=True, text=True, timeout=timeout)
    return r.returncode, (r.stdout + r.stderr)
subprocess.run(["git", "-C", "/repo", "worktree", "remove", "--force", wt], capture_output=True)
subprocess.check_call(["git", "-C", "/repo", "worktree", "add", "-q", "--detach", wt, "HEAD"])
ran = []
ok = True
try:
    rc, out = sh(f"git apply {os.path.abspath(src)}/patch.diff", wt); ran.append(f"git apply patch.diff -> rc={rc}")
    if rc != 0: print("PATCH DOES NOT APPLY", out[:500]); ok = False
    rc, out = sh("go build ./...", wt); ran.append(f"go build ./... (patched) -> rc={rc}")
    if rc != 0: print("DOES NOT BUILD", out[:500]); ok = False
    if ok and not skip_suite:
        rc, out = sh("go test -vet=off -count=1 ./... 2>&1 | grep -v '^ok\\|no test files' | head -20", wt)
        bad = [l for l in out.splitlines() if l.startswith("FAIL") or l.startswith("---")]
        ran.append(f"go test -vet=off -count=1 ./... (patched, existing suite) -> {'all ok' if not bad else 'FAILURES: ' + '; '.join(bad[:5])}")
        if bad: print("EXISTING SUITE FAILS WITH PATCH", bad[:5]); ok = False
    demo = [f for f in os.listdir(src) if f.endswith("_test.go") or f.endswith(".go")]
    dp = meta["demo_path"]
    demofile = os.path.join(src, os.path.basename(dp))
    if not os.path.exists(demofile) and demo: demofile = os.path.join(src, demo[0])
    os.makedirs(os.path.dirname(os.path.join(wt, dp)), exist_ok=True)
    shutil.copy(demofile, os.path.join(wt, dp))
    cmd = meta["demo_cmd"]
    if "cd " in cmd.split("&&")[0]: cmd = "&&".join(cmd.split("&&")[1:]).strip()
    rc1, out1 = sh(cmd, wt, 600); ran.append(f"{cmd} (patched) -> rc={rc1}")
    sh("git checkout -- .", wt)
    rc2, out2 = sh(cmd, wt, 600); ran.append(f"{cmd} (unpatched) -> rc={rc2}")
    if rc1 == 0: print("DEMO DOES NOT FAIL WITH PATCH"); ok = False
    if rc2 != 0: print("DEMO DOES NOT PASS WITHOUT PATCH", out2[-600:]); ok = False
finally:
    subprocess.run(["git", "-C", "/repo", "worktree", "remove", "--force", wt], capture_output=True)
    shutil.rmtree(wt, ignore_errors=True)
detected = {}
if ok:
    # the checks analyse a scratch worktree of /repo's HEAD with the patch applied (GRIBILINT_REPO); /repo itself is not touched
    awt = "/tmp/seedan_" + sid
    subprocess.run(["git", "-C", "/repo", "worktree", "remove", "--force", awt], capture_output=True)
    subprocess.check_call(["git", "-C", "/repo", "worktree", "add", "-q", "--detach", awt, "HEAD"])
    try:
        subprocess.check_call(["git", "-C", awt, "apply", os.path.abspath(src) + "/patch.diff"])
        tmpv = "/tmp/seedev_" + sid
        os.makedirs(tmpv, exist_ok=True)
        shutil.copy("/verif/known_findings.json", tmpv)
        e2 = dict(env, GRIBILINT_VERIF=tmpv, GRIBILINT_REPO=awt, PATH="/opt/veriftools/go1.26.8/bin:" + env["PATH"], GOTOOLCHAIN="local", GOSUMDB="off")
        for p in [f"C{i:02d}" for i in range(1, 20)]:
            r = subprocess.run([os.environ.get("GRIBILINT_BIN", "/verif/bin/gribilint"), p, "quick"], env=e2, capture_output=True, text=True)
            if r.returncode != 0:
                lines = [l for l in r.stdout.splitlines() if " VIOLATED " in l or " UNDECIDED " in l or " VANISHED " in l]
                detected[p] = [l[:300] for l in lines[:3]] or [r.stderr[:300]]
        shutil.rmtree(tmpv, ignore_errors=True)
    finally:
        subprocess.run(["git", "-C", "/repo", "worktree", "remove", "--force", awt], capture_output=True)
        shutil.rmtree(awt, ignore_errors=True)
    dst = f"/verif/seeded/{sid}"
    os.makedirs(dst, exist_ok=True)
    shutil.copy(os.path.join(src, "patch.diff"), dst)
    shutil.copy(demofile, dst)
    meta["confirmed_by_me"] = ran
    meta["detected_by"] = detected
    meta["caught_by_own_property"] = meta["property"] in detected
    prev = os.path.join(dst, "meta.json")
    if os.path.exists(prev) and "caught_at_first_try" in json.load(open(prev)):
        meta["caught_at_first_try"] = json.load(open(prev))["caught_at_first_try"]
    else:
        meta["caught_at_first_try"] = meta["caught_by_own_property"]
        meta["first_try_detected_by"] = sorted(detected)
    json.dump(meta, open(os.path.join(dst, "meta.json"), "w"), indent=1)
print("SEED", sid, "confirmed" if ok else "REJECTED", "| property", meta["property"], "| detected by:", {k: v[0][:160] for k, v in detected.items()})
