package main

// Fields of owned struct locals as variables.
//
// A function (or a helper spliced into it) may carry its intermediate results in a small struct it allocated itself:
//
//	d := &deletedEntry{}; d.removed, d.v4, d.err = niR.DeleteIPv4(…); …; if d.removed { … }
//
// For the path engine and the facts such a field is a local variable like any other. pseudoFieldObj gives `x.f` a
// variable object of its own when x stands for a struct the function built itself ("owned": its one definition is a
// composite literal, new(T) or a zero-value declaration), following the parameter bindings and results of spliced-in
// helpers to the allocation. Only direct fields of an identifier (one level), and only structs of the module.

import (
	"go/ast"
	"go/token"
	"go/types"
	"sort"
)

type pseudoKey struct {
	root  types.Object
	field *types.Var
}

var pseudoVars = map[pseudoKey]*types.Var{}

// allParamBinds: parameter / receiver object of a spliced-in helper → the argument it is bound to; nil when the
// helper's shared body is bound differently at several call sites.
var allParamBinds = map[types.Object]ast.Expr{}

// curEnumFd: the function whose paths were enumerated last (enumFunc); the rules look at one function at a time.
var curEnumFd *ast.FuncDecl

func pseudoFieldObj(info *types.Info, se *ast.SelectorExpr) types.Object {
	if gProg == nil || info == nil {
		return nil
	}
	id, ok := ast.Unparen(se.X).(*ast.Ident)
	if !ok {
		return nil
	}
	sel, ok := info.Selections[se]
	if !ok || sel.Kind() != types.FieldVal || len(sel.Index()) != 1 {
		return nil
	}
	field, ok := sel.Obj().(*types.Var)
	if !ok || field.Pkg() == nil || !isRepoPkg(field.Pkg()) || isGeneratedPkg(field.Pkg().Path()) {
		return nil
	}
	root := ownedStructRoot(info, info.ObjectOf(id))
	if root == nil {
		return nil
	}
	return pseudoFor(root, field)
}

func pseudoFor(root types.Object, field *types.Var) *types.Var {
	k := pseudoKey{root, field}
	if v := pseudoVars[k]; v != nil {
		return v
	}
	v := types.NewVar(root.Pos(), root.Pkg(), root.Name()+"."+field.Name(), field.Type())
	pseudoVars[k] = v
	pseudoOf[v] = k
	return v
}

var pseudoOf = map[*types.Var]pseudoKey{}

// pseudoFieldInit: the value a field variable was given by the one literal that built its struct, when no field of
// that struct type is ever assigned afterwards (fieldsNeverAssigned); nil otherwise.
func pseudoFieldInit(info *types.Info, v *types.Var) ast.Expr {
	k, ok := pseudoOf[v]
	if !ok || gProg == nil {
		return nil
	}
	root, ok := k.root.(*types.Var)
	if !ok {
		return nil
	}
	fd := gProg.enclosingFuncDecl(root.Pos())
	if fd == nil || fd.Body == nil {
		return nil
	}
	def := soleDefinition(info, fd, root)
	if def == nil {
		return nil
	}
	def = ast.Unparen(def)
	if u, ok := def.(*ast.UnaryExpr); ok && u.Op == token.AND {
		def = ast.Unparen(u.X)
	}
	cl, ok := def.(*ast.CompositeLit)
	if !ok || !fieldsNeverAssigned(namedStruct(info.TypeOf(cl))) {
		return nil
	}
	for _, el := range cl.Elts {
		if kv, ok := el.(*ast.KeyValueExpr); ok {
			if id, ok := kv.Key.(*ast.Ident); ok && info.ObjectOf(id) == types.Object(k.field) {
				return kv.Value
			}
		}
	}
	return nil
}

func namedStruct(t types.Type) types.Type {
	if t == nil {
		return nil
	}
	if p, ok := t.(*types.Pointer); ok {
		t = p.Elem()
	}
	return t
}

// ownedLiteral: `x := &T{…}` / `x := T{…}` / `x := new(T)` where x is the owned root itself: the struct type and the
// literal (nil for new(T)).
func ownedLiteral(info *types.Info, lhs, rhs ast.Expr) (types.Object, *types.Struct, *ast.CompositeLit) {
	id, ok := ast.Unparen(lhs).(*ast.Ident)
	if !ok {
		return nil, nil, nil
	}
	o := info.ObjectOf(id)
	if o == nil || !isModuleStruct(o.Type()) {
		return nil, nil, nil
	}
	var cl *ast.CompositeLit
	switch d := ast.Unparen(rhs).(type) {
	case *ast.UnaryExpr:
		cl, _ = ast.Unparen(d.X).(*ast.CompositeLit)
		if cl == nil {
			return nil, nil, nil
		}
	case *ast.CompositeLit:
		cl = d
	case *ast.CallExpr:
		if fn, ok := d.Fun.(*ast.Ident); !ok || fn.Name != "new" || len(d.Args) != 1 {
			return nil, nil, nil
		}
	default:
		return nil, nil, nil
	}
	if ownedStructRoot(info, o) != o {
		return nil, nil, nil
	}
	t := o.Type()
	if p, ok := t.(*types.Pointer); ok {
		t = p.Elem()
	}
	st, _ := t.Underlying().(*types.Struct)
	if st == nil {
		return nil, nil, nil
	}
	return o, st, cl
}

// ownedStructRoot follows o (a local, a parameter of a spliced-in helper, a local receiving a spliced-in helper's
// result) to the local that holds the struct the function allocated itself; nil when there is none.
func ownedStructRoot(info *types.Info, o types.Object) types.Object {
	for hops := 0; hops < 6 && o != nil; hops++ {
		v, ok := o.(*types.Var)
		if !ok || v.IsField() || v.Pkg() == nil || !isRepoPkg(v.Pkg()) {
			return nil
		}
		// a parameter of a spliced-in helper
		var arg ast.Expr
		for i := len(curFrames) - 1; i >= 0 && arg == nil; i-- {
			arg = curFrames[i].Binds[o]
		}
		if arg == nil {
			arg = allParamBinds[o]
		}
		if arg == nil && curEnumFd != nil {
			// a helper shared by several callers: the binding of the function whose paths are being looked at
			for _, fr := range framesIn(curEnumFd) {
				if a, ok := fr.Binds[o]; ok {
					arg = a
				}
			}
		}
		if arg != nil {
			if _, isPtr := v.Type().Underlying().(*types.Pointer); !isPtr && !fieldsNeverAssigned(v.Type()) {
				return nil // a struct handed over by value is a copy (the same as the original only while neither changes)
			}
			o = objOfIdentPlain(info, arg)
			continue
		}
		fd := gProg.enclosingFuncDecl(v.Pos())
		if fd == nil || fd.Body == nil {
			return nil
		}
		if isParamOf(info, fd, v) {
			return nil
		}
		def := soleDefinition(info, fd, v)
		if def == nil {
			// var v T (zero value of a struct type of the module)
			zero := false
			ast.Inspect(fd.Body, func(n ast.Node) bool {
				if vs, ok := n.(*ast.ValueSpec); ok && len(vs.Values) == 0 {
					for _, nm := range vs.Names {
						if info.Defs[nm] == types.Object(v) {
							zero = true
						}
					}
				}
				return true
			})
			if zero && isModuleStruct(v.Type()) && onlyFreshAssignments(info, fd, v) {
				return v
			}
			return nil
		}
		switch d := ast.Unparen(def).(type) {
		case *ast.Ident:
			if _, isPtr := v.Type().Underlying().(*types.Pointer); !isPtr && !fieldsNeverAssigned(v.Type()) {
				return nil // y := x of a struct value is a copy
			}
			o = info.ObjectOf(d)
			continue
		case *ast.UnaryExpr:
			if cl, ok := ast.Unparen(d.X).(*ast.CompositeLit); ok && isModuleStruct(info.TypeOf(cl)) {
				return v
			}
		case *ast.CompositeLit:
			if isModuleStruct(info.TypeOf(d)) {
				return v
			}
		case *ast.CallExpr:
			if fn, ok := d.Fun.(*ast.Ident); ok && fn.Name == "new" && len(d.Args) == 1 && isModuleStruct(info.TypeOf(d.Args[0])) {
				return v
			}
		}
		return nil
	}
	return nil
}

func objOfIdentPlain(info *types.Info, e ast.Expr) types.Object {
	if id, ok := ast.Unparen(e).(*ast.Ident); ok {
		return info.ObjectOf(id)
	}
	return nil
}

func isModuleStruct(t types.Type) bool {
	if t == nil {
		return false
	}
	if p, ok := t.(*types.Pointer); ok {
		t = p.Elem()
	}
	n, ok := t.(*types.Named)
	if !ok || n.Obj().Pkg() == nil || !isRepoPkg(n.Obj().Pkg()) || isGeneratedPkg(n.Obj().Pkg().Path()) {
		return false
	}
	_, isS := n.Underlying().(*types.Struct)
	return isS
}

// nAssignments counts the plain assignments `v = …` to v in fd.
func nAssignments(info *types.Info, fd *ast.FuncDecl, v *types.Var) int {
	n := 0
	ast.Inspect(fd.Body, func(m ast.Node) bool {
		if as, ok := m.(*ast.AssignStmt); ok {
			for _, l := range as.Lhs {
				if id, ok := ast.Unparen(l).(*ast.Ident); ok && info.ObjectOf(id) == types.Object(v) && info.Defs[id] == nil {
					n++
				}
			}
		}
		return true
	})
	return n
}

// lhsObject: the variable a left-hand side (or an operand) denotes: an identifier's object, or the variable standing
// for a field of an owned struct local.
func lhsObject(info *types.Info, e ast.Expr) types.Object {
	switch x := ast.Unparen(e).(type) {
	case *ast.Ident:
		return info.ObjectOf(x)
	case *ast.SelectorExpr:
		if os := pseudoFieldObj(info, x); os != nil {
			return os
		}
	}
	return nil
}

var fieldsReadCache = map[*ast.FuncDecl]map[*types.Var]bool{}

// fieldsRead: the struct fields of the module that fd (with what is spliced into it) reads somewhere, i.e. that occur
// in a selector which is not the target of an assignment. Only those get zero-value facts from an owned literal.
func fieldsRead(info *types.Info, fd *ast.FuncDecl) map[*types.Var]bool {
	if fd == nil {
		return nil
	}
	if m, ok := fieldsReadCache[fd]; ok {
		return m
	}
	m := map[*types.Var]bool{}
	lhs := map[ast.Expr]bool{}
	ast.Inspect(fd, func(n ast.Node) bool {
		switch x := n.(type) {
		case *ast.AssignStmt:
			for _, l := range x.Lhs {
				lhs[ast.Unparen(l)] = true
			}
		case *ast.SelectorExpr:
			if lhs[x] {
				return true
			}
			if sel, ok := info.Selections[x]; ok && sel.Kind() == types.FieldVal {
				if f, ok := sel.Obj().(*types.Var); ok {
					m[f] = true
				}
			}
		}
		return true
	})
	fieldsReadCache[fd] = m
	return m
}

// handedOver: the field variables of owned structs that statement s hands to code the path engine does not follow (an
// argument or the receiver of a call that was not spliced in, a send, a goroutine or a deferred call): what they
// hold afterwards is unknown, so they count as assigned.
func handedOver(info *types.Info, s ast.Stmt) []types.Object {
	var out []types.Object
	give := func(e ast.Expr) {
		e = ast.Unparen(e)
		if u, ok := e.(*ast.UnaryExpr); ok && u.Op == token.AND {
			e = ast.Unparen(u.X)
		}
		id, ok := e.(*ast.Ident)
		if !ok {
			return
		}
		o := info.ObjectOf(id)
		if o == nil || !isModuleStruct(o.Type()) {
			return
		}
		root := ownedStructRoot(info, o)
		if root == nil {
			return
		}
		t := root.Type()
		if p, ok := t.Underlying().(*types.Pointer); ok {
			t = p.Elem()
		}
		if st, ok := t.Underlying().(*types.Struct); ok {
			for j := 0; j < st.NumFields(); j++ {
				if f := st.Field(j); f.Pkg() != nil && isRepoPkg(f.Pkg()) {
					out = append(out, pseudoFor(root, f))
				}
			}
		}
	}
	inspectNoFuncLit(s, func(n ast.Node) bool {
		switch x := n.(type) {
		case *ast.CallExpr:
			if tv, ok := info.Types[x.Fun]; ok && tv.IsType() {
				return true
			}
			for _, a := range x.Args {
				give(a)
			}
			if se, ok := ast.Unparen(x.Fun).(*ast.SelectorExpr); ok {
				if sel, ok := info.Selections[se]; ok && sel.Kind() == types.MethodVal {
					give(se.X)
				}
			}
		case *ast.SendStmt:
			give(x.Value)
		}
		return true
	})
	sort.Slice(out, func(i, j int) bool { return out[i].Name() < out[j].Name() })
	return out
}

// onlyFreshAssignments: every plain assignment to v in fd stores a struct built on the spot (&T{…}, T{…}, new(T)) or
// nil, so v never shares its struct with another variable.
func onlyFreshAssignments(info *types.Info, fd *ast.FuncDecl, v *types.Var) bool {
	ok := true
	ast.Inspect(fd.Body, func(m ast.Node) bool {
		as, isAs := m.(*ast.AssignStmt)
		if !isAs {
			return true
		}
		for i, l := range as.Lhs {
			id, isId := ast.Unparen(l).(*ast.Ident)
			if !isId || info.ObjectOf(id) != types.Object(v) {
				continue
			}
			if len(as.Lhs) != len(as.Rhs) {
				ok = false
				continue
			}
			switch d := ast.Unparen(as.Rhs[i]).(type) {
			case *ast.UnaryExpr:
				if _, isLit := ast.Unparen(d.X).(*ast.CompositeLit); !isLit || d.Op != token.AND {
					ok = false
				}
			case *ast.CompositeLit:
			case *ast.CallExpr:
				if fn, isFn := d.Fun.(*ast.Ident); !isFn || fn.Name != "new" {
					ok = false
				}
			case *ast.Ident:
				if !isNilIdent(info, d) {
					ok = false
				}
			default:
				ok = false
			}
		}
		return true
	})
	return ok
}

var neverAssignedCache = map[*types.Named]bool{}

// fieldsNeverAssigned: t is a struct type of the module none of whose fields is ever the target of an assignment (or
// ++/--, or has its address taken) anywhere in its package: its values are built by literals only, so a copy and its
// original hold the same fields for ever.
func fieldsNeverAssigned(t types.Type) bool {
	if t == nil {
		return false
	}
	n, ok := t.(*types.Named)
	if !ok || gProg == nil || n.Obj().Pkg() == nil || !isModuleStruct(t) {
		return false
	}
	if r, ok := neverAssignedCache[n]; ok {
		return r
	}
	pk := gProg.Pkgs[n.Obj().Pkg().Path()]
	st, _ := n.Underlying().(*types.Struct)
	if pk == nil || st == nil {
		return false
	}
	fields := map[types.Object]bool{}
	for i := 0; i < st.NumFields(); i++ {
		fields[st.Field(i)] = true
	}
	res := true
	isField := func(e ast.Expr) bool {
		se, ok := ast.Unparen(e).(*ast.SelectorExpr)
		return ok && fields[pk.TypesInfo.ObjectOf(se.Sel)]
	}
	for _, f := range pk.Syntax {
		ast.Inspect(f, func(m ast.Node) bool {
			switch x := m.(type) {
			case *ast.AssignStmt:
				for _, l := range x.Lhs {
					if isField(l) {
						res = false
					}
				}
			case *ast.IncDecStmt:
				if isField(x.X) {
					res = false
				}
			case *ast.UnaryExpr:
				if x.Op == token.AND && isField(x.X) {
					res = false
				}
			}
			return res
		})
	}
	neverAssignedCache[n] = res
	return res
}
