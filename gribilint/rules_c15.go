package main

// C15 — reconciler output converges the target RIB to the intended RIB.

import (
	"fmt"
	"go/ast"
	"go/token"
	"go/types"
	"sort"
	"strings"
)

func init() { propRules["C15"] = rulesC15 }

func rulesC15(c *Ctx) {
	c.Decided = append(c.Decided,
		"R15.1 diff treats all five tables in both directions and files every operation in the right bucket (top-level kinds → TopLevel, groups → NHG, next-hops → NH; new → Add, existing-but-different → Replace, target-only → Delete), with the builder of the table's own kind",
		"R15.2 every network instance of the target is enumerated (what only the target has can only be deleted if its instances are walked)",
		"R15.3 ids: exactly one id.Add(1) before each builder call; each builder stamps Id: id.Load(), the given network instance, the given method and the payload of rib.Concrete<Kind>Proto of its entry",
		"R15.6 Reconcile compares (intended, target) in that order and merging operation sets keeps every bucket",
		"R15.5 (shared with C03) a replace leaves the target's reference counts equal to what is installed: handleReferences / handleNHGReferences release exactly the replaced references — otherwise the deletes of a later reconciliation are refused and the target never converges",
		"R15.7 (shared with C01) a replace is total: the install step deletes the old entry before merging the new payload, so leaves the new payload omits do not survive",
		"R15.4 equal ⇒ silent: every operation is emitted under a difference test (missing on the other side, or not DeepEqual)")
	c.NotDec = append(c.NotDec, "that applying the operations in the documented order succeeds and converges (an execution)", "DeepEqual semantics on ygot structs")
	ruleDiffLoops(c)
	ruleDiffInstances(c)
	ruleOpBuilders(c)
	// the emitted REPLACE / DELETE operations are accepted by the target only if its
	// deletion protection matches what is installed after a replace (shared with C03)
	ruleHandleReferencesTable(c)
	ruleNHGReferences(c)
	ruleDeleteRefs(c)
	ruleReconcileWiring(c)
	ruleStateWriters(c, writersReconciler)
	// a REPLACE emitted by the reconciler makes the target's entry equal to the intended one only if the install
	// replaces the old entry instead of overlaying it, and hands back the replaced entry (shared with C01/C03)
	ribFamily(c, famSel{mergeTotal: true, replacedOrig: true})
}

const recPkg = modPath + "/rib/reconciler"

// diffSide resolves which RIB (0 = first parameter "intended", 1 = second "target") an object derives from.
func diffSide(info *types.Info, fi *FuncInfo, o types.Object, depth int) int {
	if o == nil || depth > 6 {
		return -1
	}
	ps := paramObjs(info, fi.Decl)
	for i := 0; i < 2 && i < len(ps); i++ {
		if ps[i] == o {
			return i
		}
	}
	v, ok := o.(*types.Var)
	if !ok {
		return -1
	}
	// x, err := p.RIBContents()
	if call, i := soleTupleDef(info, fi.Decl, v); call != nil && i == 0 {
		if se, ok := ast.Unparen(call.Fun).(*ast.SelectorExpr); ok {
			return diffSide(info, fi, objOfIdent(info, se.X), depth+1)
		}
	}
	// any assignment x, ok := m[k] / x = m[k], or range value over m
	side := -1
	// x := helper(…) where the helper was spliced in: x is what the helper returns
	for _, a := range frameReturnAliases(info, o) {
		if a != o {
			if sd := diffSide(info, fi, a, depth+1); sd >= 0 {
				side = sd
			}
		}
	}
	ast.Inspect(fi.Decl.Body, func(n ast.Node) bool {
		switch s := n.(type) {
		case *ast.AssignStmt:
			for i, l := range s.Lhs {
				if objOfIdent(info, l) != o {
					continue
				}
				var rhs ast.Expr
				if len(s.Rhs) == len(s.Lhs) {
					rhs = s.Rhs[i]
				} else if len(s.Rhs) == 1 && i == 0 {
					rhs = s.Rhs[0]
				}
				if rhs == nil {
					continue
				}
				if ie, ok := ast.Unparen(rhs).(*ast.IndexExpr); ok {
					if r, _ := selectorPath(info, ie.X); r != nil && r != o {
						if sd := diffSide(info, fi, r, depth+1); sd >= 0 {
							side = sd
						}
					}
				} else if call, ok := ast.Unparen(rhs).(*ast.CallExpr); ok && isNewFuncCall(info, call) {
					// x := helper(side, …) for a helper new to the rules (kept as a call): a part of the one side its
					// arguments belong to
					one := -1
					for _, a := range call.Args {
						if r, _ := selectorPath(info, a); r != nil && r != o {
							if sd := diffSide(info, fi, r, depth+1); sd >= 0 {
								if one >= 0 && one != sd {
									one = -2
								} else if one != -2 {
									one = sd
								}
							}
						}
					}
					if one >= 0 {
						side = one
					}
				} else if r, _ := selectorPath(info, rhs); r != nil && r != o {
					// alias of a part of one side: x := y.GetAfts()
					if sd := diffSide(info, fi, r, depth+1); sd >= 0 {
						side = sd
					}
				}
			}
		case *ast.RangeStmt:
			if objOfIdent(info, s.Value) == o {
				if r, _ := selectorPath(info, s.X); r != nil && r != o {
					if sd := diffSide(info, fi, r, depth+1); sd >= 0 {
						side = sd
					}
				}
			}
		}
		return true
	})
	return side
}

func bucketOf(k *Kind) string {
	switch {
	case k.TopLevel:
		return "TopLevel"
	case k.Table == "NextHopGroup":
		return "NHG"
	}
	return "NH"
}

func ruleDiffLoops(c *Ctx) {
	const rule = "DIFF-TABLES"
	fi := c.need("rib/reconciler", "", "diff")
	ks := c.kindsOK()
	if fi == nil || ks == nil {
		return
	}
	info := fi.Pkg.TypesInfo
	idParam := paramObjs(info, fi.Decl)[3]
	erParam := paramObjs(info, fi.Decl)[2]
	seen := map[string]bool{}
	ast.Inspect(fi.Decl.Body, func(n ast.Node) bool {
		rs, ok := n.(*ast.RangeStmt)
		if !ok {
			return true
		}
		table := tableOfExpr(info, rs.X)
		if table == "" {
			return true
		}
		var k *Kind
		for _, kk := range ks {
			if kk.Table == table {
				k = kk
			}
		}
		root, _ := selectorPath(info, rs.X)
		side := diffSide(info, fi, root, 0)
		if k == nil || side < 0 {
			return true
		}
		dir := []string{"intended→target (add/replace)", "target→intended (delete)"}[side]
		construct := fmt.Sprintf("%s loop, %s", table, dir)
		seen[fmt.Sprintf("%s/%d", table, side)] = true
		c.Sites++
		keyO, valO := objOfIdent(info, rs.Key), objOfIdent(info, rs.Value)
		pos := c.P.pos(rs.Pos())
		ev := func(nd ast.Node) []Event {
			var out []Event
			inspectNoFuncLit(nd, func(m ast.Node) bool {
				switch x := m.(type) {
				case *ast.CallExpr:
					f, _ := calleeObj(info, x).(*types.Func)
					if f == nil {
						return true
					}
					if f.Name() == "Add" && len(x.Args) == 1 {
						if se, ok := ast.Unparen(x.Fun).(*ast.SelectorExpr); ok && objOfIdent(info, resolveLocal(info, fi.Decl, se.X)) == idParam {
							if v, isC := constInt(info, x.Args[0]); isC && v == 1 {
								out = append(out, Event{Kind: "id++", Node: x})
							} else {
								out = append(out, Event{Kind: "id+?", Node: x})
							}
						}
					}
					if f.Pkg() != nil && f.Pkg().Path() == recPkg && len(x.Args) == 4 {
						// builder: which kind does it build?
						sig := f.Type().(*types.Signature)
						bk := ""
						for _, kk := range ks {
							if isNamed(sig.Params().At(3).Type(), aftPath, "Afts_"+kk.Struct) {
								bk = kk.Table
							}
						}
						if bk != "" {
							out = append(out, Event{Kind: "build", Node: x, Data: bk})
						}
					}
				case *ast.AssignStmt:
					if len(x.Lhs) == 1 && len(x.Rhs) == 1 {
						if call, ok := ast.Unparen(x.Rhs[0]).(*ast.CallExpr); ok {
							if id, ok := call.Fun.(*ast.Ident); ok && id.Name == "append" {
								_, p := selectorPath(info, x.Lhs[0])
								if len(p) == 2 {
									out = append(out, Event{Kind: "file:" + p[0] + "." + p[1], Node: x})
								}
								if len(p) == 1 {
									// the operation set is held in a local (opSet := ops.Add / ops.Replace): resolved per path
									out = append(out, Event{Kind: "file-late", Node: x, Data: p[0]})
								}
							}
						}
					}
				}
				return true
			})
			return out
		}
		pe := &pathEnum{info: info, ev: ev, cap: pathCap, fd: fi.Decl}
		paths, _ := pe.run(rs.Body.List)
		c.Sites += len(paths)
		if pe.overflow || len(pe.unsup) > 0 {
			c.undecided(rule, fi.Name, construct, pos, "path enumeration incomplete")
			return true
		}
		// the lookup on the other side: `_, ok := other.…<Table>[key]`
		var okObj types.Object
		lookupOK := false
		ast.Inspect(rs.Body, func(m ast.Node) bool {
			as, isAs := m.(*ast.AssignStmt)
			if !isAs || len(as.Lhs) != 2 || len(as.Rhs) != 1 {
				return true
			}
			ie, isIe := ast.Unparen(as.Rhs[0]).(*ast.IndexExpr)
			if !isIe {
				return true
			}
			r2, _ := selectorPath(info, ie.X)
			if tableOfExpr(info, ie.X) == table && diffSide(info, fi, r2, 0) == 1-side && objOfIdent(info, ie.Index) == keyO && keyO != nil {
				lookupOK = true
				okObj = objOfIdent(info, as.Lhs[1])
			}
			return true
		})
		if !lookupOK || okObj == nil {
			c.fail(rule, fi.Name, construct, pos, "the loop does not look the ranged key up in the same table of the other RIB")
			return true
		}
		bad := ""
		for _, p := range paths {
			if p.End == "return" {
				continue // builder error: fatal
			}
			var evs []string
			for _, e := range p.Events {
				k2 := e.Kind
				if e.Kind == "build" {
					call := e.Node.(*ast.CallExpr)
					method := p.TermAtEnd(pe, call.Args[0])
					okArgs := objOfIdent(info, resolveLocal(info, fi.Decl, call.Args[2])) == idParam && objOfIdent(info, call.Args[3]) == valO
					niSide := diffSide(info, fi, objOfIdent(info, call.Args[1]), 0)
					_ = niSide
					k2 = fmt.Sprintf("build:%s(%s,argsOK=%v)", e.Data.(string), method, okArgs)
				}
				if e.Kind == "file-late" {
					as := e.Node.(*ast.AssignStmt)
					set := "?"
					if se, ok := ast.Unparen(as.Lhs[0]).(*ast.SelectorExpr); ok {
						t := p.TermAtEnd(pe, se.X)
						if i := strings.LastIndex(t, "."); i >= 0 {
							set = t[i+1:]
						}
					}
					k2 = "file:" + set + "." + e.Data.(string)
				}
				evs = append(evs, k2)
			}
			got := strings.Join(evs, ";")
			f := factsAfter(info, p, -1, len(p.Events))
			present := f.Obj(okObj)
			replFlag := "b:" + erParam.Name() + "[const:" + k.AFTType + "]"
			explicit := p.Entails(&FLit{replFlag, 2, 2})
			notExplicit := p.Entails(&FLit{replFlag, 2, 1}) || present != +1
			var want []string
			switch {
			case side == 1 && present == -1:
				want = []string{"id++;build:" + table + "(const:AFTOperation_DELETE,argsOK=true);file:Delete." + bucketOf(k)}
			case side == 1:
				want = []string{""}
			case present == -1:
				want = []string{"id++;build:" + table + "(const:AFTOperation_ADD,argsOK=true);file:Add." + bucketOf(k)}
			case present == +1:
				// equal entries: nothing; different: ADD (implicit) or REPLACE (explicit) into Replace
				if explicit {
					want = []string{"", "id++;build:" + table + "(const:AFTOperation_REPLACE,argsOK=true);file:Replace." + bucketOf(k)}
				} else if notExplicit {
					want = []string{"", "id++;build:" + table + "(const:AFTOperation_ADD,argsOK=true);file:Replace." + bucketOf(k)}
				} else {
					want = []string{"", "id++;build:" + table + "(const:AFTOperation_ADD,argsOK=true);file:Replace." + bucketOf(k), "id++;build:" + table + "(const:AFTOperation_REPLACE,argsOK=true);file:Replace." + bucketOf(k)}
				}
			default:
				bad = "a path does not decide whether the entry exists on the other side: " + p.describe(c.P)
				continue
			}
			okp := false
			for _, w := range want {
				if got == w {
					okp = true
				}
			}
			// when the key exists on both sides: silent ⇔ the entries compared equal
			if present == +1 && side == 0 {
				atoms := map[string]int{}
				for _, f := range p.Formulas() {
					atomsOf(f, atoms)
				}
				eqKnown, neqKnown := false, false
				for a := range atoms {
					if strings.HasPrefix(a, "b:call:DeepEqual#") {
						if p.Entails(&FLit{a, 2, 2}) {
							eqKnown = true
						}
						if p.Entails(&FLit{a, 2, 1}) {
							neqKnown = true
						}
					}
				}
				if got == "" && !eqKnown {
					okp = false
				}
				if got != "" && !neqKnown {
					okp = false
				}
			}
			if !okp {
				bad = fmt.Sprintf("path (other side has key: %d) produces [%s], expected one of %v: %s", present, got, want, p.describe(c.P))
			}
		}
		c.check(bad == "", rule, fi.Name, construct, pos, fmt.Sprintf("%d paths: one id increment, the %s builder, bucket %s", len(paths), table, bucketOf(k)), bad)
		return true
	})
	for _, k := range ks {
		for side := 0; side < 2; side++ {
			if !seen[fmt.Sprintf("%s/%d", k.Table, side)] {
				c.fail(rule, fi.Name, fmt.Sprintf("%s loop, direction %d", k.Table, side), c.P.pos(fi.Decl.Pos()), fmt.Sprintf("diff has no loop over the %s table of the %s RIB: such differences are never reconciled", k.Table, []string{"intended", "target"}[side]))
			}
		}
	}
}

// R15.2
func ruleDiffInstances(c *Ctx) {
	const rule = "DIFF-INSTANCES"
	fi := c.need("rib/reconciler", "", "diff")
	if fi == nil {
		return
	}
	info := fi.Pkg.TypesInfo
	// the outermost range loops that contain table loops
	var outers []*ast.RangeStmt
	for _, st := range fi.Decl.Body.List {
		if rs, ok := st.(*ast.RangeStmt); ok {
			has := false
			ast.Inspect(rs.Body, func(n ast.Node) bool {
				if r2, ok := n.(*ast.RangeStmt); ok && tableOfExpr(info, r2.X) != "" {
					has = true
				}
				return true
			})
			if has {
				outers = append(outers, rs)
			}
		}
	}
	if len(outers) == 0 {
		c.vanished(rule, fi.Name, "instance loop", "no loop over network instances containing the table loops")
		return
	}
	covers := map[int]bool{}
	var filtered []string
	for _, rs := range outers {
		root, _ := selectorPath(info, rs.X)
		if sd := diffSide(info, fi, root, 0); sd >= 0 {
			covers[sd] = true
			continue
		}
		// a local set of names filled from both sides (possibly built by a helper that was spliced in)
		roots := map[types.Object]bool{root: true}
		for _, a := range frameReturnAliases(info, root) {
			roots[a] = true
		}
		ast.Inspect(fi.Decl.Body, func(n ast.Node) bool {
			r2, ok := n.(*ast.RangeStmt)
			if !ok || r2 == rs {
				return true
			}
			r2root, _ := selectorPath(info, r2.X)
			sd := diffSide(info, fi, r2root, 0)
			if sd < 0 {
				return true
			}
			// the name is added on every path through the filling loop's body (no filter)
			ev := func(nd ast.Node) []Event {
				var out []Event
				inspectNoFuncLit(nd, func(m ast.Node) bool {
					if as, ok := m.(*ast.AssignStmt); ok && len(as.Lhs) == 1 {
						if ie, ok := ast.Unparen(as.Lhs[0]).(*ast.IndexExpr); ok && roots[objOfIdent(info, ie.X)] && objOfIdent(info, ie.Index) == objOfIdent(info, r2.Key) && r2.Key != nil {
							out = append(out, Event{Kind: "add", Node: as})
						}
					}
					return true
				})
				return out
			}
			if len(ev(r2.Body)) == 0 {
				return true // not a loop filling the set of names
			}
			paths, pe := enumPaths(info, r2.Body.List, ev)
			adds, all := 0, !pe.overflow && len(paths) > 0
			for _, p := range paths {
				if p.has("add") {
					adds++
				} else if p.End != "panic" {
					all = false
					filtered = append(filtered, fmt.Sprintf("an instance of the %s RIB can be left out of the walk: %s", []string{"intended", "target"}[sd], p.describe(c.P)))
				}
			}
			if adds > 0 && all {
				covers[sd] = true
			}
			return true
		})
	}
	// inside the instance loop nothing skips the table loops: no continue/break outside them, returns only with an error
	for _, rs := range outers {
		var walk func(n ast.Node)
		walk = func(n ast.Node) {
			ast.Inspect(n, func(m ast.Node) bool {
				switch x := m.(type) {
				case *ast.RangeStmt:
					if tableOfExpr(info, x.X) != "" {
						return false // the table loops have their own rule
					}
				case *ast.BlockStmt:
					if inlineFrames[x] != nil {
						return false // a helper's own returns end the helper, not the instance loop
					}
				case *ast.FuncLit:
					return false
				case *ast.BranchStmt:
					filtered = append(filtered, "the instance loop can skip table loops ("+x.Tok.String()+" at "+c.P.pos(x.Pos())+")")
				case *ast.ReturnStmt:
					if n := len(x.Results); n == 0 || isNilIdent(info, x.Results[n-1]) {
						filtered = append(filtered, "the instance loop can return without an error before all tables were compared ("+c.P.pos(x.Pos())+")")
					}
				}
				return true
			})
		}
		walk(rs.Body)
	}
	c.Sites += len(outers)
	c.check(covers[0], rule, fi.Name, "instances of the intended RIB are walked", c.P.pos(outers[0].Pos()), "instance loop covers the intended RIB's instances", "the network instances of the intended RIB are not enumerated")
	c.check(covers[1], rule, fi.Name, "instances of the target RIB are walked", c.P.pos(outers[0].Pos()), "instance loop covers the target RIB's instances", "diff only walks the network instances of the intended RIB: entries in an instance that only the target has are never deleted")
	c.check(len(filtered) == 0, rule, fi.Name, "no instance and no table is skipped", c.P.pos(outers[0].Pos()), "every instance of either side is walked, and within an instance no path bypasses the table loops", strings.Join(filtered, " ‖ "))
}

// R15.3
func ruleOpBuilders(c *Ctx) {
	const rule = "OP-BUILDERS"
	ks := c.kindsOK()
	if ks == nil {
		return
	}
	n := 0
	var fns []*FuncInfo
	for _, fi := range c.P.AllFuncs("rib/reconciler") {
		sig := fi.Obj.Type().(*types.Signature)
		if sig.Recv() != nil || sig.Params().Len() != 4 || sig.Results().Len() != 2 || !isNamed(sig.Results().At(0).Type(), spbPath, "AFTOperation") {
			continue
		}
		fns = append(fns, fi)
	}
	sort.Slice(fns, func(i, j int) bool { return fns[i].Name < fns[j].Name })
	for _, fi := range fns {
		info := fi.Pkg.TypesInfo
		sig := fi.Obj.Type().(*types.Signature)
		var k *Kind
		for _, kk := range ks {
			if isNamed(sig.Params().At(3).Type(), aftPath, "Afts_"+kk.Struct) {
				k = kk
			}
		}
		if k == nil {
			continue
		}
		n++
		c.Analysed[fi.Name] = true
		ps := paramObjs(info, fi.Decl)
		bad := ""
		lits := litsOfType(info, fi.Decl.Body, spbPath, "AFTOperation")
		if len(lits) != 1 {
			bad = fmt.Sprintf("%d AFTOperation literals", len(lits))
		} else {
			f := compositeFields(lits[0])
			// fields completed after the literal: op.Entry = …  (the common fields may come from a shared helper)
			ast.Inspect(fi.Decl.Body, func(n ast.Node) bool {
				if as, ok := n.(*ast.AssignStmt); ok && len(as.Lhs) == 1 && len(as.Rhs) == 1 && as.Tok == token.ASSIGN {
					if o, path := selectorPath(info, as.Lhs[0]); o != nil && len(path) == 1 && isNamed(o.Type(), spbPath, "AFTOperation") {
						if _, dup := f[path[0]]; dup {
							f[path[0]] = nil // set twice: not decided
						} else {
							f[path[0]] = as.Rhs[0]
						}
					}
				}
				return true
			})
			// Id: id.Load()
			idok := false
			if f["Id"] != nil {
				if call, ok := ast.Unparen(f["Id"]).(*ast.CallExpr); ok {
					if se, ok := ast.Unparen(call.Fun).(*ast.SelectorExpr); ok && se.Sel.Name == "Load" && aliasRootObj(info, fi.Decl, se.X) == ps[2] {
						idok = true
					}
				}
			}
			switch {
			case !idok:
				bad = "Id is not id.Load()"
			case f["NetworkInstance"] == nil || aliasRootObj(info, fi.Decl, f["NetworkInstance"]) != ps[1]:
				bad = "NetworkInstance is not the ni parameter"
			case f["Op"] == nil || aliasRootObj(info, fi.Decl, f["Op"]) != ps[0]:
				bad = "Op is not the method parameter"
			case f["Entry"] == nil:
				bad = "Entry is not set exactly once"
			default:
				el, ok := unAddr(f["Entry"]).(*ast.CompositeLit)
				if !ok {
					bad = "Entry is not a oneof wrapper literal"
					break
				}
				tv := info.Types[el]
				if !isNamed(tv.Type, spbPath, k.OpOneof) {
					bad = "Entry wrapper is " + typeName(tv.Type) + ", want " + k.OpOneof
					break
				}
				pv, _ := objOfIdent(info, compositeFields(el)[k.OneofField]).(*types.Var)
				if pv == nil {
					bad = "payload is not a local"
					break
				}
				call, i := soleTupleDef(info, fi.Decl, pv)
				if call == nil || i != 0 || len(call.Args) != 1 || objOfIdent(info, call.Args[0]) != ps[3] {
					bad = "payload is not the result of converting the entry parameter"
					break
				}
				cf, _ := calleeObj(info, call).(*types.Func)
				if cf == nil || cf.Pkg().Path() != ribPkg || !strings.HasPrefix(cf.Name(), "Concrete") {
					bad = "payload is not produced by rib.Concrete*Proto"
				}
			}
		}
		c.Sites++
		c.check(bad == "", rule, fi.Name, "stamps id, instance, method and the converted entry of its own kind", c.P.pos(fi.Decl.Pos()), k.OpOneof, "builder for "+k.Table+" deviates: "+bad)
	}
	c.floor(rule, "operation builders", n, 5)
}

// R15.6 Reconcile hands diff (intended, target) in that order, taken from its own
// two sides; merging operation sets keeps every bucket (a merged set that drops
// or re-files a bucket loses operations or breaks their dependency order).
func ruleReconcileWiring(c *Ctx) {
	const rule = "RECONCILE-WIRING"
	fi := c.need("rib/reconciler", "R", "Reconcile")
	df := c.need("rib/reconciler", "", "diff")
	if fi != nil && df != nil {
		info := fi.Pkg.TypesInfo
		good, why := false, "Reconcile does not call diff"
		for _, call := range callsIn(fi.Decl.Body) {
			if calleeObj(info, call) != df.Obj || len(call.Args) < 2 {
				continue
			}
			side := func(e ast.Expr) string {
				v, ok := objOfIdent(info, e).(*types.Var)
				if !ok {
					return "?"
				}
				if gc, i := soleTupleDef(info, fi.Decl, v); gc != nil && i == 0 {
					if se, ok := ast.Unparen(gc.Fun).(*ast.SelectorExpr); ok && se.Sel.Name == "Get" {
						_, p := selectorPath(info, se.X)
						return strings.Join(p, ".")
					}
				}
				// through a helper spliced in (`i, t, err := r.contents(ctx)`): the local the helper returns, and the
				// one assignment `x, err = <side>.Get(ctx)` that gives it its value
				cur := v
				for hops := 0; hops < 4; hops++ {
					found := ""
					nAssign := 0
					ast.Inspect(fi.Decl.Body, func(m ast.Node) bool {
						as, ok := m.(*ast.AssignStmt)
						if !ok || len(as.Rhs) != 1 || len(as.Lhs) < 1 || objOfIdent(info, as.Lhs[0]) != types.Object(cur) {
							return true
						}
						if gc, ok := ast.Unparen(as.Rhs[0]).(*ast.CallExpr); ok {
							nAssign++
							if se, ok := ast.Unparen(gc.Fun).(*ast.SelectorExpr); ok && se.Sel.Name == "Get" {
								if root, p := selectorPath(info, se.X); root != nil && frameArgRoot(info, fi.Decl, root) == recvObj(info, fi.Decl) {
									found = strings.Join(p, ".")
								}
							}
						}
						return true
					})
					if found != "" && nAssign == 1 {
						return found
					}
					def := soleDefinition(info, fi.Decl, cur)
					nv, ok := objOfIdent(info, exprOrBad(def)).(*types.Var)
					if !ok || nv == cur {
						break
					}
					cur = nv
				}
				return "?"
			}
			a, b := side(call.Args[0]), side(call.Args[1])
			good = a == "intended" && b == "target"
			why = fmt.Sprintf("diff is handed (%s, %s), want (contents of intended, contents of target): the operations would move the target away from the intended state", a, b)
		}
		c.Sites++
		c.check(good, rule, fi.Name, "diff(intended contents, target contents)", c.P.pos(fi.Decl.Pos()), "first argument from r.intended.Get, second from r.target.Get", why)
	}
	for _, t := range []struct {
		recv   string
		fields []string
	}{{"Ops", []string{"NH", "NHG", "TopLevel"}}, {"ReconcileOps", []string{"Add", "Replace", "Delete"}}} {
		mf := c.need("rib/reconciler", t.recv, "Merge")
		if mf == nil {
			continue
		}
		info := mf.Pkg.TypesInfo
		recv, in := recvObj(info, mf.Decl), paramObjs(info, mf.Decl)[0]
		merged := map[string]string{}
		ast.Inspect(mf.Decl.Body, func(n ast.Node) bool {
			switch x := n.(type) {
			case *ast.AssignStmt:
				// o.X = append(o.X, in.Y...)
				if len(x.Lhs) == 1 && len(x.Rhs) == 1 {
					if call, ok := ast.Unparen(x.Rhs[0]).(*ast.CallExpr); ok && len(call.Args) == 2 {
						if id, ok := call.Fun.(*ast.Ident); ok && id.Name == "append" {
							lo, lp := selectorPath(info, x.Lhs[0])
							ao, ap := selectorPath(info, call.Args[0])
							so, sp := selectorPath(info, call.Args[1])
							if lo == recv && ao == recv && so == in && len(lp) == 1 && len(ap) == 1 && len(sp) == 1 && lp[0] == ap[0] {
								merged[lp[0]] = sp[0]
							}
						}
					}
				}
			case *ast.CallExpr:
				// r.X.Merge(in.Y)
				if se, ok := ast.Unparen(x.Fun).(*ast.SelectorExpr); ok && se.Sel.Name == "Merge" && len(x.Args) == 1 {
					lo, lp := selectorPath(info, se.X)
					so, sp := selectorPath(info, x.Args[0])
					if lo == recv && so == in && len(lp) == 1 && len(sp) == 1 {
						merged[lp[0]] = sp[0]
					}
				}
			}
			return true
		})
		var bad []string
		for _, f := range t.fields {
			if merged[f] != f {
				bad = append(bad, fmt.Sprintf("%s←%q", f, merged[f]))
			}
		}
		c.Sites++
		c.check(len(bad) == 0, rule, mf.Name, "every bucket is merged from the same bucket", c.P.pos(mf.Decl.Pos()), strings.Join(t.fields, ", "), "merging operation sets drops or re-files a bucket: "+strings.Join(bad, ", "))
	}
}

func isNewFuncCall(info *types.Info, call *ast.CallExpr) bool {
	f, ok := calleeObj(info, call).(*types.Func)
	return ok && isNewFunc(f)
}

func exprOrBad(e ast.Expr) ast.Expr {
	if e == nil {
		return &ast.BadExpr{}
	}
	return e
}
