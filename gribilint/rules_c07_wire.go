package main

// C07 — WIRE-FIELD-ROUNDTRIP: the writer's and the reader's tables of the
// payload conversion agree.
//
// An entry travels proto → (protomap.PathsFromProto) → paths → ygot struct on
// Modify and ygot struct → gNMI paths → (protomap.ProtoFromPaths, extras
// ignored) → proto on Get / reconcile. Both directions are reflective, but the
// set of leaf encodings each direction understands is a type switch in the
// dependency's source: `parseField` (wire → RIB) and `makeWrapper` (RIB →
// wire). A leaf of the AFT payload messages whose wrapper type the first
// accepts and the second does not produce is installed and then silently
// missing from every Get (IgnoreExtraPaths turns the unmapped path into
// nothing). The rule extracts both case sets from the dependency source on
// every run, enumerates every singular wrapper leaf reachable from the five
// payload messages by type, and requires for each: accepted ⇒ produced, or
// compensated explicitly in the kind's Concrete*Proto (`if e.F != nil { m.F =
// &wpb.T{Value: *e.F} }`).
//
// Decides: the encoding-support part of payload fidelity for singular wrapper
// leaves. Does not decide: values, leaf-lists, unions, enums, keyed lists
// (census only), nor protomap's path matching.

import (
	"fmt"
	"go/ast"
	"go/token"
	"go/types"
	"sort"
	"strings"

	"golang.org/x/tools/go/packages"
)

const (
	protomapPath = "github.com/openconfig/ygot/protomap"
	ywrapperPath = "github.com/openconfig/ygot/proto/ywrapper"
)

// depSyntax returns a dependency package with syntax and type information.
// Thorough mode has it already (LoadAllSyntax); quick mode loads the one
// package (its own imports come from export data).
func (p *Prog) depSyntax(path string) (*packages.Package, error) {
	if p.Thorough {
		// only a NeedDeps load type-checks the bodies of dependencies
		for _, pk := range p.All {
			if imp := pk.Imports[path]; imp != nil && len(imp.Syntax) > 0 && imp.TypesInfo != nil {
				return imp, nil
			}
		}
	}
	if p.depSyn == nil {
		p.depSyn = map[string]*packages.Package{}
	}
	if pk := p.depSyn[path]; pk != nil {
		return pk, nil
	}
	cfg := &packages.Config{Mode: packages.LoadSyntax, Dir: p.RepoDir, Tests: false}
	pkgs, err := packages.Load(cfg, path)
	if err != nil {
		return nil, err
	}
	if len(pkgs) != 1 || len(pkgs[0].Errors) > 0 || len(pkgs[0].Syntax) == 0 {
		return nil, fmt.Errorf("cannot load %s with syntax (%d packages)", path, len(pkgs))
	}
	p.depSyn[path] = pkgs[0]
	return pkgs[0], nil
}

func declIn(pk *packages.Package, name string) *ast.FuncDecl {
	for _, f := range pk.Syntax {
		for _, d := range f.Decls {
			if fd, ok := d.(*ast.FuncDecl); ok && fd.Recv == nil && fd.Name.Name == name && fd.Body != nil {
				return fd
			}
		}
	}
	return nil
}

// reachesInPkg: does function `from` reach function `to` through static calls
// (closures included) inside one package?
func reachesInPkg(pk *packages.Package, from, to string) bool {
	seen := map[string]bool{}
	var walk func(n string) bool
	walk = func(n string) bool {
		if n == to {
			return true
		}
		if seen[n] {
			return false
		}
		seen[n] = true
		fd := declIn(pk, n)
		if fd == nil {
			return false
		}
		found := false
		ast.Inspect(fd.Body, func(m ast.Node) bool {
			if found {
				return false
			}
			if call, ok := m.(*ast.CallExpr); ok {
				if id, ok := ast.Unparen(call.Fun).(*ast.Ident); ok {
					if f, ok := pk.TypesInfo.Uses[id].(*types.Func); ok && f.Pkg() == pk.Types {
						if walk(f.Name()) {
							found = true
						}
					}
				}
			}
			return true
		})
		return found
	}
	return walk(from)
}

// wrapperCases: the ywrapper types named by the case clauses of the type
// switches in fd, with whether the clause is a supporting one.
func wrapperCases(pk *packages.Package, fd *ast.FuncDecl, supported func(cc *ast.CaseClause) bool) (map[string]bool, int) {
	out := map[string]bool{}
	n := 0
	ast.Inspect(fd.Body, func(m ast.Node) bool {
		ts, ok := m.(*ast.TypeSwitchStmt)
		if !ok {
			return true
		}
		for _, s := range ts.Body.List {
			cc := s.(*ast.CaseClause)
			for _, te := range cc.List {
				tv, ok := pk.TypesInfo.Types[te]
				if !ok {
					continue
				}
				nt := namedOf(tv.Type)
				if nt == nil || nt.Obj().Pkg() == nil || nt.Obj().Pkg().Path() != ywrapperPath {
					continue
				}
				n++
				if supported(cc) {
					out[nt.Obj().Name()] = true
				} else if _, dup := out[nt.Obj().Name()]; !dup {
					out[nt.Obj().Name()] = false
				}
			}
		}
		return true
	})
	return out, n
}

// returnsErrorDirectly: the clause is `return <call building an error>`.
func returnsErrorDirectly(pk *packages.Package, cc *ast.CaseClause) bool {
	for _, s := range cc.Body {
		if r, ok := s.(*ast.ReturnStmt); ok {
			for _, e := range r.Results {
				if tv, ok := pk.TypesInfo.Types[e]; ok && tv.Type != nil && tv.Type.String() == "error" {
					if _, isCall := ast.Unparen(e).(*ast.CallExpr); isCall {
						return true
					}
				}
			}
		}
	}
	return false
}

type wireLeaf struct {
	msg, field, wrapper string
	top                 *Kind // set when the field belongs to the payload message of a kind itself
}

func ruleWireFieldRoundTrip(c *Ctx) {
	const rule = "WIRE-FIELD-ROUNDTRIP"
	ks := c.kindsOK()
	if ks == nil {
		return
	}
	pm, err := c.P.depSyntax(protomapPath)
	if err != nil {
		c.undecided(rule, "protomap", "load", "-", "the conversion library cannot be loaded with syntax: "+err.Error())
		return
	}
	fwdFn, retFn := declIn(pm, "parseField"), declIn(pm, "makeWrapper")
	if fwdFn == nil || retFn == nil {
		c.undecided(rule, "protomap", "anchors", "-", "protomap.parseField / protomap.makeWrapper not found: the support tables of the conversion cannot be extracted")
		return
	}
	if !reachesInPkg(pm, "PathsFromProto", "parseField") || !reachesInPkg(pm, "ProtoFromPaths", "makeWrapper") {
		c.undecided(rule, "protomap", "anchors", "-", "parseField is not reached from PathsFromProto, or makeWrapper not from ProtoFromPaths: the extracted tables are not the ones the conversion uses")
		return
	}
	fwd, nf := wrapperCases(pm, fwdFn, func(cc *ast.CaseClause) bool { return !returnsErrorDirectly(pm, cc) })
	ret, nr := wrapperCases(pm, retFn, func(cc *ast.CaseClause) bool {
		// a supporting clause returns (<message>, true, nil)
		ok := false
		ast.Inspect(cc, func(m ast.Node) bool {
			if r, isR := m.(*ast.ReturnStmt); isR && len(r.Results) == 3 {
				if b, isB := boolConst(pm.TypesInfo, r.Results[1]); isB && b {
					ok = true
				}
			}
			return true
		})
		return ok
	})
	c.Sites += nf + nr
	if nf < 4 || nr < 2 {
		c.undecided(rule, "protomap", "support tables", "-", fmt.Sprintf("extracted %d wire→RIB and %d RIB→wire wrapper cases; too few to be the conversion's tables", nf, nr))
		return
	}
	c.note("WIRE-FIELD-ROUNDTRIP: wire→RIB accepts %s; RIB→wire produces %s (extracted from %s)", setStr(fwd), setStr(ret), pm.PkgPath)
	// gribigo's side: the two entry points are the ones used, and extras are ignored (which is what makes an unsupported leaf silent)
	cand := c.need("rib", "", "candidateRIB")
	back := c.need("rib", "", "protoFromGoStruct")
	if cand == nil || back == nil {
		return
	}
	usesFwd, usesRet := false, false
	for _, call := range callsIn(cand.Decl.Body) {
		if isFunc(calleeObj(cand.Pkg.TypesInfo, call), protomapPath, "PathsFromProto") {
			usesFwd = true
		}
	}
	for _, call := range callsIn(back.Decl.Body) {
		if isFunc(calleeObj(back.Pkg.TypesInfo, call), protomapPath, "ProtoFromPaths") {
			usesRet = true
		}
	}
	if !usesFwd || !usesRet {
		c.undecided(rule, "rib", "entry points", c.P.pos(cand.Decl.Pos()), "candidateRIB does not convert with protomap.PathsFromProto, or protoFromGoStruct not with protomap.ProtoFromPaths: the rule's tables do not describe the conversion in use")
		return
	}
	ap := c.P.depTypes(aftpbPath)
	if ap == nil {
		c.vanished(rule, "aftpb", "types", "the AFT protobuf package is not imported")
		return
	}
	// enumerate the leaves reachable from the five payload messages
	var leaves []wireLeaf
	census := map[string]int{}
	visited := map[string]bool{}
	var walk func(tn *types.TypeName, top *Kind)
	walk = func(tn *types.TypeName, top *Kind) {
		if visited[tn.Name()] {
			return
		}
		visited[tn.Name()] = true
		st, ok := tn.Type().Underlying().(*types.Struct)
		if !ok {
			return
		}
		for i := 0; i < st.NumFields(); i++ {
			f := st.Field(i)
			if !f.Exported() || tagValue(st.Tag(i), "protobuf") == "" && !strings.Contains(st.Tag(i), "protobuf_oneof") {
				continue
			}
			t := f.Type()
			rep := false
			if sl, ok := t.Underlying().(*types.Slice); ok {
				t, rep = sl.Elem(), true
			}
			nt := namedOf(t)
			switch {
			case nt != nil && nt.Obj().Pkg() != nil && nt.Obj().Pkg().Path() == ywrapperPath && !rep:
				leaves = append(leaves, wireLeaf{msg: tn.Name(), field: f.Name(), wrapper: nt.Obj().Name(), top: top})
			case nt != nil && nt.Obj().Pkg() != nil && nt.Obj().Pkg().Path() == ywrapperPath && rep:
				census["leaf-list of "+nt.Obj().Name()]++
			case nt != nil && nt.Obj().Pkg() != nil && nt.Obj().Pkg().Path() == aftpbPath:
				if _, isStruct := nt.Underlying().(*types.Struct); isStruct {
					if rep {
						census["repeated message"]++
					} else {
						census["nested message"]++
					}
					walk(nt.Obj(), nil)
				} else if _, isIface := nt.Underlying().(*types.Interface); isIface {
					census["oneof"]++
				} else {
					census["enum"]++
				}
			case nt != nil:
				if _, isIface := nt.Underlying().(*types.Interface); isIface {
					census["oneof"]++
				} else {
					census["enum"]++
				}
			default:
				if _, isIface := t.Underlying().(*types.Interface); isIface {
					census["oneof"]++
				} else {
					census["scalar key"]++
				}
			}
		}
	}
	for _, k := range ks {
		tn, _ := ap.Scope().Lookup("Afts_" + k.Struct).(*types.TypeName)
		if tn == nil {
			c.vanished(rule, "aftpb", "payload message of "+k.Table, "aftpb.Afts_"+k.Struct+" not found")
			continue
		}
		visited = map[string]bool{}
		walk(tn, k)
	}
	// the top flag is only right for fields of the payload message itself
	for i := range leaves {
		if leaves[i].top != nil && leaves[i].msg != "Afts_"+leaves[i].top.Struct {
			leaves[i].top = nil
		}
	}
	seenLeaf := map[string]bool{}
	n := 0
	for _, lf := range leaves {
		id := lf.msg + "." + lf.field
		if seenLeaf[id] {
			continue
		}
		seenLeaf[id] = true
		n++
		c.Sites++
		acc, known := fwd[lf.wrapper]
		switch {
		case !known || !acc:
			// the wire→RIB direction rejects the leaf: an ADD carrying it fails in-band, nothing is lost silently
			c.ok(rule, "aftpb."+lf.msg, "leaf "+lf.field, "-", lf.wrapper+": not accepted on the way in (rejected in-band), so nothing to reproduce")
		case ret[lf.wrapper]:
			c.ok(rule, "aftpb."+lf.msg, "leaf "+lf.field, "-", lf.wrapper+": accepted by parseField and produced by makeWrapper")
		default:
			pos, how := wireCompensated(c, lf)
			if how != "" {
				c.ok(rule, "aftpb."+lf.msg, "leaf "+lf.field, pos, lf.wrapper+": not produced by makeWrapper, "+how)
			} else {
				c.fail(rule, "aftpb."+lf.msg, "leaf "+lf.field, pos, fmt.Sprintf("%s is accepted on the way in (protomap.parseField has a case for *ywrapper.%s) but the way out has none (protomap.makeWrapper) and extras are ignored: an installed entry loses %s.%s in every Get response and reconciler operation, and the kind's Concrete*Proto does not copy it explicitly", lf.field, lf.wrapper, lf.msg, lf.field))
			}
		}
	}
	c.floor(rule, "singular wrapper leaves of the five payload messages", n, 20)
	var cs []string
	for k, v := range census {
		cs = append(cs, fmt.Sprintf("%s×%d", k, v))
	}
	sort.Strings(cs)
	c.note("WIRE-FIELD-ROUNDTRIP: %d singular wrapper leaves checked; not covered by the rule (census): %s", n, strings.Join(cs, ", "))
}

func setStr(m map[string]bool) string {
	var s []string
	for k, v := range m {
		if v {
			s = append(s, k)
		}
	}
	sort.Strings(s)
	return "{" + strings.Join(s, ",") + "}"
}

// wireCompensated recognises, at the top level of the kind's Concrete*Proto,
//
//	if e.F != nil { m.F = &wpb.T{Value: *e.F} }     (or e.GetF())
//
// where e is the entry parameter and m the message handed to protoFromGoStruct.
func wireCompensated(c *Ctx, lf wireLeaf) (string, string) {
	if lf.top == nil {
		return "-", ""
	}
	fi := concreteOf(c, lf.top)
	if fi == nil {
		return "-", ""
	}
	info := fi.Pkg.TypesInfo
	e := paramObjs(info, fi.Decl)[0]
	var msgVar types.Object
	for _, call := range callsIn(fi.Decl.Body) {
		if isFunc(calleeObj(info, call), ribPkg, "protoFromGoStruct") && len(call.Args) == 3 {
			msgVar = objOfIdent(info, call.Args[2])
		}
	}
	pos := c.P.pos(fi.Decl.Pos())
	if msgVar == nil {
		return pos, ""
	}
	for _, st := range fi.Decl.Body.List {
		ifs, ok := st.(*ast.IfStmt)
		if !ok || ifs.Init != nil || ifs.Else != nil {
			continue
		}
		be, ok := ast.Unparen(ifs.Cond).(*ast.BinaryExpr)
		if !ok || be.Op != token.NEQ {
			continue
		}
		x, y := be.X, be.Y
		if isNilIdent(info, x) {
			x, y = y, x
		}
		if !isNilIdent(info, y) {
			continue
		}
		se, ok := ast.Unparen(x).(*ast.SelectorExpr) // the field itself, not a getter (a getter hides presence)
		if !ok || objOfIdent(info, se.X) != e || se.Sel.Name != lf.field {
			continue
		}
		for _, bs := range ifs.Body.List {
			as, ok := bs.(*ast.AssignStmt)
			if !ok || as.Tok != token.ASSIGN || len(as.Lhs) != 1 || len(as.Rhs) != 1 {
				continue
			}
			if o, p := selectorPath(info, as.Lhs[0]); o != msgVar || len(p) != 1 || p[0] != lf.field {
				continue
			}
			cl, ok := unAddr(as.Rhs[0]).(*ast.CompositeLit)
			if !ok || !isNamed(info.Types[cl].Type, ywrapperPath, lf.wrapper) {
				continue
			}
			v := compositeFields(cl)["Value"]
			if v == nil {
				continue
			}
			if o, p := selectorPath(info, v); o == e && len(p) == 1 && p[0] == lf.field {
				return c.P.pos(ifs.Pos()), "copied explicitly by " + fi.Obj.Name() + " when set"
			}
		}
	}
	return pos, ""
}
