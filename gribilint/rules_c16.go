package main

// C16 — change-notification hooks mirror the RIB.

import (
	"fmt"
	"go/ast"
	"go/types"
	"sort"
	"strings"
)

func init() { propRules["C16"] = rulesC16 }

func rulesC16(c *Ctx) {
	c.Decided = append(c.Decided,
		"R16.1 every mutation notifies: each of the ten AddXXX/DeleteXXX and each flush-path removal helper calls postChangeHook(Add|Delete, ts, the holder's own name, the new | removed entry) after the mutation on its success path (guarded only by the hook being non-nil); with C03 R3.0 no table mutation reachable from the RPCs is silent",
		"R16.2 every network instance gets the hook regardless of when it is created: SetPostChangeHook stores the hook at RIB level and in every existing holder; every later insertion of a holder copies the RIB-level hook into it",
		"R16.3 resolved-entry notifications: sent for the three top-level kinds only, Add after an install and Delete after a removal, with the kind constant and key of the operation; the RIB map handed to the hook comes only from copyRIBs, which stores only ygot.DeepCopy results")
	c.NotDec = append(c.NotDec, "the fold of notifications over concrete histories", "what a consumer does with the notification")
	ribFamily(c, famSel{hookAdd: true, hookDel: true, hookFlush: true})
	ruleMutationSites(c)
	ruleHookForEveryInstance(c)
	ruleResolvedSnapshots(c)
	ruleResolvedCalls(c)
	ruleServerRegistersHooks(c)
	ruleHookWriters(c)
	ruleHookCallers(c)
	ruleOptionProbes(c, "server", 5) // the hook options are found by their own probes
	ruleServerWiring(c, []string{"WithPostChangeRIBHook", "WithRIBResolvedEntryHook", "WithVRFs"})
}

// R16.2
func ruleHookForEveryInstance(c *Ctx) {
	const rule = "HOOK-EVERY-INSTANCE"
	pk := c.P.pkg("rib")
	info := pk.TypesInfo
	niRIB := c.P.Field("rib", "RIB", "niRIB")
	if niRIB == nil {
		c.vanished(rule, "rib.RIB", "niRIB", "field not found")
		return
	}
	// the RIB-level hook field: the RIB field of type RIBHookFn stored by SetPostChangeHook
	sp := c.need("rib", "RIB", "SetPostChangeHook")
	if sp == nil {
		return
	}
	fnParam := paramObjs(info, sp.Decl)[0]
	recv := recvObj(info, sp.Decl)
	var ribHook *types.Var
	storesAll := false
	ast.Inspect(sp.Decl.Body, func(n ast.Node) bool {
		switch x := n.(type) {
		case *ast.AssignStmt:
			if len(x.Lhs) == 1 && len(x.Rhs) == 1 && objOfIdent(info, x.Rhs[0]) == fnParam {
				if se, ok := ast.Unparen(x.Lhs[0]).(*ast.SelectorExpr); ok && objOfIdent(info, se.X) == recv {
					ribHook, _ = info.ObjectOf(se.Sel).(*types.Var)
				}
			}
		case *ast.RangeStmt:
			// for _, nir := range r.niRIB { nir.postChangeHook = fn }
			if se, ok := ast.Unparen(x.X).(*ast.SelectorExpr); ok && info.ObjectOf(se.Sel) == niRIB {
				v := objOfIdent(info, x.Value)
				for _, st := range x.Body.List {
					if as, ok := st.(*ast.AssignStmt); ok && len(as.Lhs) == 1 && objOfIdent(info, as.Rhs[0]) == fnParam {
						if ls, ok := ast.Unparen(as.Lhs[0]).(*ast.SelectorExpr); ok && objOfIdent(info, ls.X) == v && ls.Sel.Name == "postChangeHook" {
							storesAll = true
						}
					}
				}
			}
		}
		return true
	})
	c.Sites++
	c.check(storesAll, rule, sp.Name, "existing instances get the hook", c.P.pos(sp.Decl.Pos()), "for every holder of niRIB: holder.postChangeHook = fn", "SetPostChangeHook does not assign the hook to every existing network instance")
	c.check(ribHook != nil, rule, sp.Name, "hook remembered at RIB level", c.P.pos(sp.Decl.Pos()), "stored in a RIB field for instances created later", "SetPostChangeHook does not remember the hook at RIB level: network instances created afterwards can never be given it")
	// every insertion into niRIB outside the constructor
	n := 0
	for _, fi := range c.P.AllFuncs("rib") {
		if fi.Decl.Body == nil {
			continue
		}
		r := recvObj(info, fi.Decl)
		ast.Inspect(fi.Decl.Body, func(m ast.Node) bool {
			as, ok := m.(*ast.AssignStmt)
			if !ok || len(as.Lhs) != 1 || len(as.Rhs) != 1 {
				return true
			}
			ie, ok := ast.Unparen(as.Lhs[0]).(*ast.IndexExpr)
			if !ok {
				return true
			}
			se, ok := ast.Unparen(ie.X).(*ast.SelectorExpr)
			if !ok || info.ObjectOf(se.Sel) != niRIB {
				return true
			}
			c.Sites++
			if freshRoot(info, fi.Decl, se.X) || r == nil || objOfIdent(info, se.X) != r {
				// the constructor (or a function filling a RIB it allocated itself): the hook is registered afterwards
				if fi.Obj.Name() == "New" || freshRoot(info, fi.Decl, se.X) {
					c.note("holder inserted by %s into a RIB under construction: covered by SetPostChangeHook's walk over existing instances", fi.Name)
					return true
				}
			}
			n++
			c.Analysed[fi.Name] = true
			// the inserted value must be a local that received the RIB-level hook
			v := objOfIdent(info, as.Rhs[0])
			ok2 := false
			if v != nil && ribHook != nil {
				ast.Inspect(fi.Decl.Body, func(k ast.Node) bool {
					a2, isAs := k.(*ast.AssignStmt)
					if !isAs || a2.Pos() >= as.Pos() || len(a2.Lhs) != 1 || len(a2.Rhs) != 1 {
						return true
					}
					ls, isSe := ast.Unparen(a2.Lhs[0]).(*ast.SelectorExpr)
					rs, isRs := ast.Unparen(a2.Rhs[0]).(*ast.SelectorExpr)
					if isSe && isRs && objOfIdent(info, ls.X) == v && ls.Sel.Name == "postChangeHook" && objOfIdent(info, rs.X) == r && info.ObjectOf(rs.Sel) == ribHook {
						ok2 = true
					}
					return true
				})
			}
			c.check(ok2, rule, fi.Name, "new instance inherits the hook", c.P.pos(as.Pos()), "holder.postChangeHook = <RIB-level hook> before the holder is inserted",
				"a network instance is inserted into the RIB without being given the registered post-change hook: its changes are never notified")
			return true
		})
	}
	c.floor(rule, "holder insertions after construction", n, 1)
}

// R16.3 (a): snapshots are private
func ruleResolvedSnapshots(c *Ctx) {
	const rule = "RESOLVED-SNAPSHOT"
	fi := c.need("rib", "RIB", "callResolvedEntryHook")
	cr := c.need("rib", "RIB", "copyRIBs")
	if fi == nil || cr == nil {
		return
	}
	info := fi.Pkg.TypesInfo
	// the hook call's first argument is the local assigned from r.copyRIBs()
	ok := false
	ast.Inspect(fi.Decl.Body, func(n ast.Node) bool {
		var call *ast.CallExpr
		switch x := n.(type) {
		case *ast.GoStmt:
			call = x.Call
		case *ast.ExprStmt:
			call, _ = x.X.(*ast.CallExpr)
		}
		if call == nil {
			return true
		}
		if fld, _ := fieldCall(info, call); fld == "resolvedEntryHook" && len(call.Args) >= 5 {
			v, _ := objOfIdent(info, call.Args[0]).(*types.Var)
			if v != nil {
				if dc, i := soleTupleDef(info, fi.Decl, v); dc != nil && i == 0 && calleeObj(info, dc) == cr.Obj {
					ps := paramObjs(info, fi.Decl)
					same := true
					for j := 0; j < 4; j++ {
						if objOfIdent(info, call.Args[j+1]) != ps[j] {
							same = false
						}
					}
					ok = same
				}
			}
		}
		return true
	})
	// the copy is taken synchronously, at the moment of the change: not inside the goroutine / a closure
	sync := false
	for _, st := range fi.Decl.Body.List {
		if as, isAs := st.(*ast.AssignStmt); isAs && len(as.Rhs) == 1 {
			if call, isCall := ast.Unparen(as.Rhs[0]).(*ast.CallExpr); isCall && calleeObj(info, call) == cr.Obj {
				sync = true
			}
		}
		if _, isGo := st.(*ast.GoStmt); isGo {
			break
		}
	}
	c.check(sync, rule, fi.Name, "snapshot is taken before the hook is dispatched", c.P.pos(fi.Decl.Pos()), "copyRIBs() at the top level, before the go statement", "the RIB copy is not taken synchronously before the hook goroutine starts: the snapshot would reflect later changes instead of the announced one")
	c.Sites++
	c.check(ok, rule, fi.Name, "hook receives a copy", c.P.pos(fi.Decl.Pos()), "resolvedEntryHook(copyRIBs(), optype, netinst, aft, key)", "the resolved-entry hook is not handed (the result of copyRIBs, the operation type, instance, table and key it was called with)")
	// copyRIBs: every value stored in the returned map is a DeepCopy result
	cinfo := cr.Pkg.TypesInfo
	stores, good := 0, true
	ast.Inspect(cr.Decl.Body, func(n ast.Node) bool {
		as, isAs := n.(*ast.AssignStmt)
		if !isAs || len(as.Lhs) != 1 {
			return true
		}
		if _, isIdx := ast.Unparen(as.Lhs[0]).(*ast.IndexExpr); !isIdx {
			return true
		}
		stores++
		// rhs: dup.(*aft.RIB) where dup, err := ygot.DeepCopy(niR.r)
		ta, isTA := ast.Unparen(as.Rhs[0]).(*ast.TypeAssertExpr)
		if !isTA {
			good = false
			return true
		}
		v, _ := objOfIdent(cinfo, ta.X).(*types.Var)
		if v == nil {
			good = false
			return true
		}
		dc, i := soleTupleDef(cinfo, cr.Decl, v)
		if dc == nil || i != 0 || !isFunc(calleeObj(cinfo, dc), ygotPath, "DeepCopy") || len(dc.Args) != 1 || !rootedAtHolderR(cinfo, dc.Args[0]) {
			good = false
		}
		return true
	})
	c.Sites += stores
	c.check(stores >= 1 && good, rule, cr.Name, "only deep copies are handed out", c.P.pos(cr.Decl.Pos()), fmt.Sprintf("%d stores into the result, all ygot.DeepCopy(holder.r)", stores), "copyRIBs stores something other than a ygot.DeepCopy of the holder's RIB into its result: consumers would share live state")
}

// R16.3 (b): who is told what
func ruleResolvedCalls(c *Ctx) {
	const rule = "RESOLVED-NOTIFY"
	ks := c.kindsOK()
	if ks == nil {
		return
	}
	for _, spec := range []struct {
		fn, op string
	}{{"addEntryInternal", "Add"}, {"DeleteEntry", "Delete"}} {
		fi := c.need("rib", "RIB", spec.fn)
		if fi == nil {
			continue
		}
		info := fi.Pkg.TypesInfo
		ev := func(n ast.Node) []Event {
			var out []Event
			for _, call := range callsIn(n) {
				obj := calleeObj(info, call)
				if isMethod(obj, ribPkg, "RIB", "callResolvedEntryHook") {
					// (the operation constant is read now: inside a helper shared by Add and Delete it is a parameter,
					// bound differently by each frame)
					d := &addEvData{call: call}
					if len(call.Args) > 0 {
						d.op = constName(info, call.Args[0])
					}
					out = append(out, Event{Kind: "resolved", Node: call, Data: d})
				}
				for _, k := range ks {
					if obj == k.Add.Obj || obj == k.Delete.Obj {
						d := &addEvData{call: call}
						if as := assignedFromCall(info, n, call); len(as) == 3 {
							d.ok, d.mid, d.err = as[0], as[1], as[2]
						}
						out = append(out, Event{Kind: "mutate:" + k.Table, Node: call, Data: d})
					}
				}
			}
			return out
		}
		pe := &pathEnum{info: info, ev: ev, cap: pathCap, fd: fi.Decl}
		paths, _ := pe.run(fi.Decl.Body.List)
		c.Sites += len(paths)
		if pe.overflow || len(pe.unsup) > 0 {
			c.undecided(rule, fi.Name, "body", c.P.pos(fi.Decl.Pos()), "path enumeration incomplete")
			continue
		}
		niParam := paramObjs(info, fi.Decl)[0]
		bad := map[string]string{}
		seen := map[string]int{}
		for _, p := range paths {
			var k *Kind
			var md *addEvData
			mi := -1
			for i, e := range p.Events {
				if strings.HasPrefix(e.Kind, "mutate:") && !e.InLoop && mi < 0 {
					for _, kk := range ks {
						if "mutate:"+kk.Table == e.Kind {
							k, md, mi = kk, e.Data.(*addEvData), i
						}
					}
				}
			}
			if k == nil || p.End == "panic" {
				continue
			}
			f := factsAfter(info, p, mi, len(p.Events))
			done := md.ok != nil && md.err != nil && f.Obj(md.ok) == +1 && f.Obj(md.err) == -1
			var res []*ast.CallExpr
			resOp := map[*ast.CallExpr]string{}
			for _, e := range p.Events[mi:] {
				if e.Kind == "resolved" && !e.InLoop {
					res = append(res, e.Node.(*ast.CallExpr))
					if d, ok := e.Data.(*addEvData); ok {
						resOp[e.Node.(*ast.CallExpr)] = d.op
					}
				}
			}
			seen[k.Table]++
			switch {
			case !done || !k.TopLevel:
				if len(res) != 0 {
					bad[k.Table] = fmt.Sprintf("a resolved-entry notification is sent although no %s was %s (done=%v)", k.Table, map[string]string{"Add": "installed", "Delete": "removed"}[spec.op], done)
				}
			default:
				// a fatal return (the RPC ends with an error) announces nothing
				// (an error built on the spot, or a local known to hold one — not the result of some call, which may
				// well be nil: `return helper(…)` is not a fatal return)
				if rs, ok := p.EndNode.(*ast.ReturnStmt); ok && len(rs.Results) > 0 && len(res) == 0 {
					last := rs.Results[len(rs.Results)-1]
					isErr := strings.HasPrefix(classifyValue(info, fi.Decl, last, 0), "err(")
					if o := objOfIdent(info, last); o != nil && factsAfter(info, p, -1, len(p.Events)).Obj(o) == +1 {
						isErr = true
					}
					if isErr {
						continue
					}
				}
				// deletes of a key that was not installed have nothing to announce
				if spec.op == "Delete" && len(res) == 0 && md.mid != nil && f.Obj(md.mid) == -1 {
					continue
				}
				if len(res) == 0 && pathKeyIsZero(p, typeSwitchVar(fi), k) {
					continue // the zero key ("" / label 0) cannot pass schema validation; nothing to announce
				}
				if len(res) != 1 {
					bad[k.Table] = fmt.Sprintf("%d resolved-entry notifications after a successful %s of a %s, want exactly 1 (%s)", len(res), spec.op, k.Table, p.describe(c.P))
					continue
				}
				call := res[0]
				if len(call.Args) != 4 {
					bad[k.Table] = "unexpected arguments of callResolvedEntryHook"
					continue
				}
				op := resOp[call]
				if op == "" {
					op = constName(info, call.Args[0])
				}
				aft := p.TermAtEnd(pe, call.Args[2])
				key := p.TermAtEnd(pe, call.Args[3])
				wantKeySuffix := map[string]string{"Ipv4Entry": ".Prefix", "Ipv6Entry": ".Prefix", "LabelEntry": ".Label"}[k.Table]
				altKeySuffix := map[string]string{"LabelEntry": ".LabelUint64"}[k.Table]
				switch {
				case op != spec.op:
					bad[k.Table] = "resolved-entry notification announces " + op + ", want constants." + spec.op
				case frameArgRoot(info, fi.Decl, objOfIdent(info, call.Args[1])) != niParam:
					bad[k.Table] = "resolved-entry notification is not tagged with the operation's network instance"
				case aft != "const:"+k.ConstAFT:
					bad[k.Table] = "resolved-entry notification for a " + k.Table + " names table " + aft + ", want constants." + k.ConstAFT
				case !(strings.HasSuffix(key, wantKeySuffix) || (altKeySuffix != "" && strings.HasSuffix(key, altKeySuffix))):
					bad[k.Table] = "resolved-entry notification for a " + k.Table + " carries key " + key
				}
			}
		}
		for _, k := range ks {
			if seen[k.Table] == 0 {
				c.vanished(rule, fi.Name, "arm "+k.Table, "no path mutating "+k.Table)
				continue
			}
			okd := "no notification (not a top-level kind)"
			if k.TopLevel {
				okd = "exactly one " + spec.op + " notification with table constants." + k.ConstAFT + " and the entry's key, only after success"
			}
			c.check(bad[k.Table] == "", rule, fi.Name, "arm "+k.Table, c.P.pos(fi.Decl.Pos()), fmt.Sprintf("%d paths; %s", seen[k.Table], okd), bad[k.Table])
		}
	}
}

// server.New registers the hooks it was given
func ruleServerRegistersHooks(c *Ctx) {
	const rule = "SERVER-REGISTERS-HOOKS"
	fi := c.need("server", "", "New")
	if fi == nil {
		return
	}
	info := fi.Pkg.TypesInfo
	got := map[string]bool{}
	for _, call := range callsIn(fi.Decl.Body) {
		if f, ok := calleeObj(info, call).(*types.Func); ok && recvTypeName(f) == "RIB" && (f.Name() == "SetPostChangeHook" || f.Name() == "SetResolvedEntryHook") && len(call.Args) == 1 {
			// argument: v.fn where v := hasXxxHook(opt)
			if se, ok := ast.Unparen(call.Args[0]).(*ast.SelectorExpr); ok && se.Sel.Name == "fn" {
				got[f.Name()] = true
			}
		}
	}
	c.Sites += 2
	c.check(got["SetPostChangeHook"] && got["SetResolvedEntryHook"], rule, fi.Name, "both hook options are registered on the master RIB", c.P.pos(fi.Decl.Pos()), "SetPostChangeHook(v.fn), SetResolvedEntryHook(v.fn)", fmt.Sprintf("server.New does not register the supplied hooks on its RIB (%v)", got))
}

// pathKeyIsZero: the path decided that the key of the installed entry holds
// its zero value (an empty prefix or label 0), which schema validation never
// lets through.
func pathKeyIsZero(p Path, tvar string, k *Kind) bool {
	if tvar == "" {
		return false
	}
	switch k.Table {
	case "Ipv4Entry", "Ipv6Entry":
		return p.Entails(eqF(`const:""`, tvar+"."+k.OneofField+".Prefix"))
	case "LabelEntry":
		return p.Entails(numEqF("const:0", tvar+"."+k.OneofField+".LabelUint64"))
	}
	return false
}

// typeSwitchVar returns the name bound by the function's first type switch (switch t := x.(type)).
func typeSwitchVar(fi *FuncInfo) string {
	name := ""
	inspectNoFuncLit(fi.Decl.Body, func(n ast.Node) bool {
		if ts, ok := n.(*ast.TypeSwitchStmt); ok && name == "" {
			if as, ok := ts.Assign.(*ast.AssignStmt); ok && len(as.Lhs) == 1 {
				if id, ok := as.Lhs[0].(*ast.Ident); ok {
					name = id.Name
				}
			}
		}
		return true
	})
	return name
}

// HOOK-WRITERS — the hook a holder notifies is the one the consumer registered, from registration on: the
// hook fields are stored only by the registration functions (SetPostChangeHook for the RIB and its existing
// holders, AddNetworkInstance for a later holder, SetResolvedEntryHook). Code that swaps a hook temporarily
// — to queue, batch or silence notifications — changes when (or whether) the consumer hears of a change
// relative to the change itself; a notification delivered after the lock that ordered the change has been
// released can be overtaken by the notification of a later change to the same key.
func ruleHookWriters(c *Ctx) {
	const rule = "HOOK-WRITERS"
	allowed := map[string][]string{
		"RIBHolder.postChangeHook": {"SetPostChangeHook", "AddNetworkInstance"},
		"RIB.postChangeHook":       {"SetPostChangeHook"},
		"RIB.resolvedEntryHook":    {"SetResolvedEntryHook"},
	}
	for _, t := range [][2]string{{"RIBHolder", "postChangeHook"}, {"RIB", "postChangeHook"}, {"RIB", "resolvedEntryHook"}} {
		fv := c.P.Field("rib", t[0], t[1])
		if fv == nil {
			c.vanished(rule, "rib."+t[0], t[1], "hook field not found")
			continue
		}
		c.P.fieldWriteOnce(fv) // fills the store index
		var bad, writers []string
		for _, st := range c.P.fieldStores[fv] {
			c.Sites++
			d := declaredOf(st.Parent())
			nm := "?"
			if d != nil {
				nm = d.Name()
			}
			ok := false
			for _, a := range allowed[t[0]+"."+t[1]] {
				if a == nm {
					ok = true
				}
			}
			writers = append(writers, nm)
			if !ok {
				bad = append(bad, fmt.Sprintf("%s (%s)", nm, c.P.pos(st.Pos())))
			}
		}
		sort.Strings(writers)
		if len(writers) == 0 {
			c.vanished(rule, "rib."+t[0], t[1], "the hook field is never stored")
			continue
		}
		c.check(len(bad) == 0, rule, "rib."+t[0], "writers of "+t[1], "-", "stored only by "+strings.Join(writers, ", "),
			"the hook field "+t[0]+"."+t[1]+" is also stored by "+strings.Join(bad, ", ")+": a hook swapped outside registration changes when or whether the consumer is told of a change (a notification deferred past the lock that ordered the change can be overtaken by a later one for the same key)")
	}
}

// HOOK-CALLERS — one notification per change, issued where the change is made: the post-change hook is invoked only
// by the audited install / remove / flush-remove functions (whose notification is decided per path by the family
// rules), or by a helper new to the rules that only they call. A further caller elsewhere — e.g. the reference
// bookkeeping "reporting" a replaced entry after the install already announced the new one — makes a consumer that
// folds the notifications drop or resurrect an entry.
func ruleHookCallers(c *Ctx) {
	const rule = "HOOK-CALLERS"
	audited := map[string]bool{}
	for _, n := range []string{"AddIPv4", "AddIPv6", "AddMPLS", "AddNextHop", "AddNextHopGroup", "DeleteIPv4", "DeleteIPv6", "DeleteMPLS", "DeleteNextHop", "DeleteNextHopGroup",
		"locklessDeleteIPv4", "locklessDeleteIPv6", "locklessDeleteMPLS", "locklessDeleteNH", "locklessDeleteNHG"} {
		audited["RIBHolder."+n] = true
	}
	cg := c.P.callGraph()
	var via func(f *types.Func, depth int) bool
	via = func(f *types.Func, depth int) bool {
		if audited[recvTypeName(f)+"."+f.Name()] && !isNewFunc(f) {
			return true
		}
		if !isNewFunc(f) || depth >= 3 {
			return false
		}
		cs := cg.callersOf(f)
		if len(cs) == 0 {
			return false
		}
		for _, c2 := range cs {
			if !via(c2, depth+1) {
				return false
			}
		}
		return true
	}
	n := 0
	var bad []string
	for _, g := range c.P.AllFuncs("rib") {
		if g.Decl.Body == nil {
			continue
		}
		info := g.Pkg.TypesInfo
		for _, call := range callsIn(g.Decl.Body) {
			if fld, _ := fieldCall(info, call); fld == "postChangeHook" {
				n++
				if !via(g.Obj, 0) {
					bad = append(bad, g.Name+" ("+c.P.pos(call.Pos())+")")
				}
			}
		}
	}
	c.Sites += n
	c.check(len(bad) == 0, rule, "rib", "callers of the post-change hook", "-", fmt.Sprintf("%d invocations, all in the audited install / remove / flush-remove functions", n),
		"the post-change hook is invoked from "+strings.Join(bad, ", ")+", which is not one of the functions that make the change they announce: the consumer hears of one change twice, or in an order that does not match the RIB")
	c.floor(rule, "invocations of the post-change hook", n, 15)
}
