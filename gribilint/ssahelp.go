package main

// SSA helpers shared by the engines.

import (
	"go/token"
	"go/types"
	"sort"
	"strings"

	"golang.org/x/tools/go/callgraph"
	"golang.org/x/tools/go/callgraph/cha"
	"golang.org/x/tools/go/callgraph/vta"
	"golang.org/x/tools/go/ssa"
	"golang.org/x/tools/go/ssa/ssautil"
)

// calleeFunc returns the types.Func statically called by the instruction
// (static call, or the interface method for invoke-mode calls), folding
// generic instantiations onto their origin.
func calleeFunc(ci ssa.CallInstruction) *types.Func {
	cc := ci.Common()
	if cc.IsInvoke() {
		return cc.Method
	}
	if sc := cc.StaticCallee(); sc != nil {
		if o := sc.Origin(); o != nil {
			sc = o
		}
		if f, ok := sc.Object().(*types.Func); ok {
			return f
		}
	}
	return nil
}

// allInstrs visits the instructions of fn and, if deep, of the anonymous
// functions nested in it.
func allInstrs(fn *ssa.Function, deep bool, f func(fn *ssa.Function, b *ssa.BasicBlock, i ssa.Instruction)) {
	if fn == nil {
		return
	}
	for _, b := range fn.Blocks {
		for _, in := range b.Instrs {
			f(fn, b, in)
		}
	}
	if deep {
		for _, a := range fn.AnonFuncs {
			allInstrs(a, true, f)
		}
	}
}

// topFunc returns the declared function an SSA function (possibly a closure,
// bound-method wrapper or generic instance) belongs to.
func topFunc(fn *ssa.Function) *ssa.Function {
	for fn != nil && fn.Parent() != nil {
		fn = fn.Parent()
	}
	if fn != nil && fn.Origin() != nil {
		fn = fn.Origin()
	}
	return fn
}

type edgeFact struct {
	Cond  ssa.Value
	Taken bool
}

// edgeFacts returns the branch outcomes that hold whenever control reaches b:
// for every If whose one successor edge dominates b.
func edgeFacts(b *ssa.BasicBlock) []edgeFact {
	var out []edgeFact
	fn := b.Parent()
	for _, blk := range fn.Blocks {
		if len(blk.Instrs) == 0 {
			continue
		}
		ifi, ok := blk.Instrs[len(blk.Instrs)-1].(*ssa.If)
		if !ok {
			continue
		}
		t, f := blk.Succs[0], blk.Succs[1]
		if t == f {
			continue
		}
		if edgeDominates(blk, t, b) {
			out = append(out, edgeFact{ifi.Cond, true})
		}
		if edgeDominates(blk, f, b) {
			out = append(out, edgeFact{ifi.Cond, false})
		}
	}
	return out
}

// edgeDominates: every path from entry to target uses edge from→to.
func edgeDominates(from, to, target *ssa.BasicBlock) bool {
	if !to.Dominates(target) {
		return false
	}
	// every predecessor of `to` other than `from` must itself be dominated by `to` (loop back edges)
	for _, p := range to.Preds {
		if p == from {
			continue
		}
		if !to.Dominates(p) {
			return false
		}
	}
	return true
}

// condImplies classifies what an edge fact says about value v:
// +1: v is true / non-nil ; -1: v is false / nil ; 0: nothing.
// It understands v itself, !v, v != nil, v == nil and, through &&-/||-shaped
// control flow, nothing more (those are separate If instructions in SSA).
func factAbout(ef edgeFact, v ssa.Value) int {
	sign := 1
	if !ef.Taken {
		sign = -1
	}
	c := ef.Cond
	for {
		if c == v {
			return sign
		}
		switch x := c.(type) {
		case *ssa.UnOp:
			if x.Op == token.NOT {
				sign = -sign
				c = x.X
				continue
			}
			return 0
		case *ssa.BinOp:
			if x.Op != token.EQL && x.Op != token.NEQ {
				return 0
			}
			var other ssa.Value
			if sameValue(x.X, v) {
				other = x.Y
			} else if sameValue(x.Y, v) {
				other = x.X
			} else {
				return 0
			}
			k, ok := other.(*ssa.Const)
			if !ok {
				return 0
			}
			if k.IsNil() {
				// v != nil taken → non-nil(+1)
				if x.Op == token.NEQ {
					return sign
				}
				return -sign
			}
			if bk, ok := constBool(k); ok {
				s := sign
				if x.Op == token.NEQ {
					s = -s
				}
				if !bk {
					s = -s
				}
				return s
			}
			return 0
		default:
			return 0
		}
	}
}

func constBool(k *ssa.Const) (bool, bool) {
	if k.Value == nil {
		return false, false
	}
	if b, ok := k.Type().Underlying().(*types.Basic); ok && b.Info()&types.IsBoolean != 0 {
		return k.Value.String() == "true", true
	}
	return false, false
}

// sameValue compares SSA values modulo trivial wrappers (ChangeType, MakeInterface of same).
func sameValue(a, b ssa.Value) bool {
	return stripConv(a) == stripConv(b)
}

func stripConv(v ssa.Value) ssa.Value {
	for {
		switch x := v.(type) {
		case *ssa.ChangeType:
			v = x.X
		case *ssa.ChangeInterface:
			v = x.X
		default:
			return v
		}
	}
}

// knownAt computes, from the edge facts at block b, what is known about v.
func knownAt(b *ssa.BasicBlock, v ssa.Value) int {
	for _, ef := range edgeFacts(b) {
		if k := factAbout(ef, v); k != 0 {
			return k
		}
	}
	return 0
}

// extractOf returns the i-th result value of a multi-result call (the Extract instruction), or nil.
func extractOf(call ssa.Value, idx int) ssa.Value {
	refs := call.Referrers()
	if refs == nil {
		return nil
	}
	for _, r := range *refs {
		if e, ok := r.(*ssa.Extract); ok && e.Index == idx {
			return e
		}
	}
	return nil
}

// instrBefore reports whether a executes before b on every path reaching b (a dominates b).
func instrDominates(a, b ssa.Instruction) bool {
	ba, bb := a.Block(), b.Block()
	if ba == nil || bb == nil || ba.Parent() != bb.Parent() {
		return false
	}
	if ba == bb {
		for _, in := range ba.Instrs {
			if in == a {
				return true
			}
			if in == b {
				return false
			}
		}
		return false
	}
	return ba.Dominates(bb)
}

// reachableAvoiding reports whether block `to` can be reached from the function
// entry without passing through a block in `avoid`.
func reachableAvoiding(fn *ssa.Function, to *ssa.BasicBlock, avoid map[*ssa.BasicBlock]bool) bool {
	if len(fn.Blocks) == 0 {
		return false
	}
	seen := map[*ssa.BasicBlock]bool{}
	var st []*ssa.BasicBlock
	if !avoid[fn.Blocks[0]] {
		st = append(st, fn.Blocks[0])
	}
	for len(st) > 0 {
		b := st[len(st)-1]
		st = st[:len(st)-1]
		if seen[b] {
			continue
		}
		seen[b] = true
		if b == to {
			return true
		}
		for _, s := range b.Succs {
			if !avoid[s] {
				st = append(st, s)
			}
		}
	}
	return false
}

// ---- call graph -----------------------------------------------------------

type CG struct {
	g       *callgraph.Graph
	callers map[*types.Func]map[*types.Func]bool // callee → declared callers (closures folded)
	nFuncs  int
	nEdges  int
	fwd     map[*types.Func]map[*types.Func]bool
}

func (p *Prog) callGraph() *CG {
	if p.cg != nil {
		return p.cg
	}
	all := ssautil.AllFunctions(p.SSA)
	g := vta.CallGraph(all, cha.CallGraph(p.SSA))
	cg := &CG{g: g, callers: map[*types.Func]map[*types.Func]bool{}, nFuncs: len(all)}
	for _, n := range g.Nodes {
		if n.Func == nil {
			continue
		}
		for _, e := range n.Out {
			cg.nEdges++
			callee := declaredOf(e.Callee.Func)
			caller := declaredOf(e.Caller.Func)
			if callee == nil || caller == nil {
				continue
			}
			m := cg.callers[callee]
			if m == nil {
				m = map[*types.Func]bool{}
				cg.callers[callee] = m
			}
			m[caller] = true
		}
	}
	p.cg = cg
	return cg
}

// declaredOf folds an SSA function onto the declared *types.Func it belongs to
// (closures → enclosing function; bound/thunk wrappers → the method; generic
// instances → origin). Returns nil for synthetic package initialisers.
func declaredOf(fn *ssa.Function) *types.Func {
	if fn == nil {
		return nil
	}
	for fn.Parent() != nil {
		fn = fn.Parent()
	}
	if o := fn.Origin(); o != nil {
		fn = o
	}
	if f, ok := fn.Object().(*types.Func); ok {
		return f
	}
	return nil
}

// callersOf returns the declared functions that may call f, ignoring wrapper
// self-edges. Edges from bound-method closures ($bound) are attributed to the
// function that created the bound value only through the call edges VTA found.
func (cg *CG) callersOf(f *types.Func) []*types.Func {
	var out []*types.Func
	for c := range cg.callers[f] {
		if c != f {
			out = append(out, c)
		}
	}
	sort.Slice(out, func(i, j int) bool { return out[i].FullName() < out[j].FullName() })
	return out
}

// reaches reports whether `to` is reachable from `from` in the call graph
// (over declared functions), returning one witness path.
func (cg *CG) reaches(from *types.Func, to map[*types.Func]bool, skip map[*types.Func]bool) []*types.Func {
	// build forward adjacency lazily
	if cg.fwd == nil {
		cg.fwd = map[*types.Func]map[*types.Func]bool{}
		for callee, cs := range cg.callers {
			for c := range cs {
				m := cg.fwd[c]
				if m == nil {
					m = map[*types.Func]bool{}
					cg.fwd[c] = m
				}
				m[callee] = true
			}
		}
	}
	prev := map[*types.Func]*types.Func{from: nil}
	q := []*types.Func{from}
	for len(q) > 0 {
		f := q[0]
		q = q[1:]
		if to[f] && f != from {
			var path []*types.Func
			for x := f; x != nil; x = prev[x] {
				path = append([]*types.Func{x}, path...)
			}
			return path
		}
		var nx []*types.Func
		for n := range cg.fwd[f] {
			nx = append(nx, n)
		}
		sort.Slice(nx, func(i, j int) bool { return nx[i].FullName() < nx[j].FullName() })
		for _, n := range nx {
			if _, ok := prev[n]; ok || skip[n] {
				continue
			}
			// the question is what this repository's code can reach; a walk that enters a dependency
			// (gRPC's server machinery, say) comes back out at every handler the server registers, which
			// says nothing about the function asked about. Dependencies are leaves, as in the quick tier.
			if !to[n] && (n.Pkg() == nil || !strings.HasPrefix(n.Pkg().Path(), modPath)) {
				continue
			}
			prev[n] = f
			q = append(q, n)
		}
	}
	return nil
}

// fieldWriteOnce reports whether struct field fv is stored only inside
// functions that allocate the struct themselves (constructors): every
// FieldAddr store's base is an Alloc/composite of the same function.
func (p *Prog) fieldWriteOnce(fv *types.Var) bool {
	if p.fieldStores == nil {
		p.fieldStores = map[*types.Var][]ssa.Instruction{}
		for _, pk := range p.SSAPkgs {
			if isGeneratedPkg(pk.Pkg.Path()) {
				continue
			}
			for _, m := range pk.Members {
				if fn, ok := m.(*ssa.Function); ok {
					p.collectStores(fn)
				}
				if t, ok := m.(*ssa.Type); ok {
					for _, T := range []types.Type{t.Type(), types.NewPointer(t.Type())} {
						ms := p.SSA.MethodSets.MethodSet(T)
						for i := 0; i < ms.Len(); i++ {
							if fn := p.SSA.MethodValue(ms.At(i)); fn != nil && fn.Pkg == pk {
								p.collectStores(fn)
							}
						}
					}
				}
			}
		}
	}
	for _, st := range p.fieldStores[fv] {
		s := st.(*ssa.Store)
		fa := s.Addr.(*ssa.FieldAddr)
		if _, ok := fa.X.(*ssa.Alloc); !ok {
			return false
		}
	}
	return true
}

func (p *Prog) collectStores(fn *ssa.Function) {
	if p.storesSeen == nil {
		p.storesSeen = map[*ssa.Function]bool{}
	}
	if p.storesSeen[fn] {
		return
	}
	p.storesSeen[fn] = true
	allInstrs(fn, true, func(_ *ssa.Function, _ *ssa.BasicBlock, in ssa.Instruction) {
		if s, ok := in.(*ssa.Store); ok {
			if fa, ok := s.Addr.(*ssa.FieldAddr); ok {
				if st, ok := fa.X.Type().Underlying().(*types.Pointer).Elem().Underlying().(*types.Struct); ok {
					fv := st.Field(fa.Field)
					p.fieldStores[fv] = append(p.fieldStores[fv], s)
				}
			}
		}
	})
}

// short aliases used by rule files that do not import go/ssa directly
type (
	ssaFn        = ssa.Function
	ssaBlock     = ssa.BasicBlock
	ssaInstr     = ssa.Instruction
	ssaMapUpdate = ssa.MapUpdate
	ssaCall      = ssa.Call
	ssaBuiltin   = ssa.Builtin
)

// ssaFuncsOf returns the declared functions and methods of an SSA package.
func ssaFuncsOf(p *Prog, sp *ssa.Package) map[*ssa.Function]bool {
	out := map[*ssa.Function]bool{}
	for _, m := range sp.Members {
		switch x := m.(type) {
		case *ssa.Function:
			if x.Blocks != nil {
				out[x] = true
			}
		case *ssa.Type:
			for _, T := range []types.Type{x.Type(), types.NewPointer(x.Type())} {
				ms := p.SSA.MethodSets.MethodSet(T)
				for i := 0; i < ms.Len(); i++ {
					if fn := p.SSA.MethodValue(ms.At(i)); fn != nil && fn.Pkg == sp && fn.Synthetic == "" && fn.Blocks != nil {
						out[fn] = true
					}
				}
			}
		}
	}
	return out
}

// isLoadOfField: v is a load of struct field fv (any base).
func isLoadOfField(v ssa.Value, fv *types.Var) bool {
	u, ok := v.(*ssa.UnOp)
	if !ok || u.Op != token.MUL {
		return false
	}
	fa, ok := u.X.(*ssa.FieldAddr)
	if !ok {
		return false
	}
	st := fa.X.Type().Underlying().(*types.Pointer).Elem().Underlying().(*types.Struct)
	return st.Field(fa.Field) == fv
}
