package main

// C06 — every operation answered exactly once, to its sender only, RIB before FIB.

import (
	"fmt"
	"go/ast"
	"go/token"
	"go/types"
	"sort"
	"strings"
)

func init() { propRules["C06"] = rulesC06 }

func rulesC06(c *Ctx) {
	c.Decided = append(c.Decided,
		"R6.1 every path through one iteration of doModify's loop over the request's operations emits exactly one message (result or error)",
		"R6.2 modifyEntry maps each ok to RIB_PROGRAMMED then (only under fibACK) FIB_PROGRAMMED with the same id, each fail to FAILED; every other AFTResult literal of package server is FAILED with the operation's own id",
		"R6.3 addEntryInternal: every attempt ends in exactly one of {append fails, append oks, addPending}, and a terminal verdict is accompanied by rmPending",
		"R6.4 results of held operations of any session are accumulated into the resolving caller's result lists (owner-less pendingEntry)",
		"R6.8 the pending set is written only by addPending/rmPending, and rmPending is called only where addEntryInternal records the operation's verdict (nothing else drops a held operation)",
		"R6.7 every OpResult the RIB builds carries the id of the operation being processed and that operation",
		"R6.6 every response the handlers put on the session's result channel is sent on the stream exactly once (the forwarding goroutine neither filters nor duplicates)",
		"R6.5 a held operation is answered as soon as it is resolvable: after every install every held operation is re-submitted with its own instance and operation (shared with C02 R2.4)")
	c.NotDec = append(c.NotDec, "eventual delivery", "hand-over timing between sessions", "gRPC stream ordering")
	ruleExactlyOneReply(c)
	ruleResultMapping(c)
	ruleOneVerdict(c)
	ruleHeldOwner(c)
	ruleRetryAfterInstall(c)
	ruleStreamForwards(c, "MODIFY-FORWARDS", "Modify", "ModifyResponse")
	ruleForwarderJoined(c) // a result handed to the stream writer is written before the RPC returns (shared with C11)
	ruleOpResultID(c)
	rulePendingWriters(c)
	rulePendingPrimitives(c)
	ruleStateWriters(c, writersRIB[:1])  // the pending set
	ribFamily(c, famSel{heldOnly: true}) // an AddXXX says "not done, no error" (= hold the operation) only where the gate said not yet
}

// R6.1
func ruleExactlyOneReply(c *Ctx) {
	const rule = "EXACTLY-ONE-REPLY"
	fi := c.need("server", "Server", "doModify")
	if fi == nil {
		return
	}
	info := fi.Pkg.TypesInfo
	// channel-typed parameters
	chans := map[types.Object]bool{}
	for _, o := range paramObjs(info, fi.Decl) {
		if o == nil {
			continue
		}
		if _, ok := o.Type().Underlying().(*types.Chan); ok {
			chans[o] = true
		}
	}
	// the loop over a []*spb.AFTOperation
	var loops []*ast.RangeStmt
	inspectNoFuncLit(fi.Decl.Body, func(n ast.Node) bool {
		if rs, ok := n.(*ast.RangeStmt); ok {
			if tv, ok := info.Types[rs.X]; ok {
				if sl, ok := tv.Type.Underlying().(*types.Slice); ok && isNamed(sl.Elem(), spbPath, "AFTOperation") {
					loops = append(loops, rs)
				}
			}
		}
		return true
	})
	if len(loops) == 0 {
		c.vanished(rule, fi.Name, "loop@ops", "no loop over the request's AFTOperation slice found")
		return
	}
	for _, rs := range loops {
		ord := map[ast.Node]int{}
		inspectNoFuncLit(rs.Body, func(m ast.Node) bool {
			if s, ok := m.(*ast.SendStmt); ok {
				if id, ok := ast.Unparen(s.Chan).(*ast.Ident); ok && chans[info.ObjectOf(id)] {
					ord[s] = len(ord) + 1
				}
			}
			return true
		})
		ev := func(n ast.Node) []Event {
			var out []Event
			inspectNoFuncLit(n, func(m ast.Node) bool {
				if s, ok := m.(*ast.SendStmt); ok && ord[s] > 0 {
					out = append(out, Event{Kind: "send", Node: s, Data: ord[s]})
				}
				return true
			})
			return out
		}
		paths, pe := enumPaths(info, rs.Body.List, ev)
		c.Sites += len(paths)
		if pe.overflow || len(pe.unsup) > 0 {
			c.undecided(rule, fi.Name, "loop@ops", c.P.pos(rs.Pos()), fmt.Sprintf("path enumeration incomplete (overflow=%v unsupported=%v)", pe.overflow, pe.unsup))
			continue
		}
		bad := 0
		seenSig := map[string]bool{}
		for _, p := range paths {
			if p.End == "panic" {
				continue
			}
			n := p.count("send")
			if n != 1 {
				var sig []string
				for _, e := range p.Events {
					if e.Kind == "send" {
						sig = append(sig, fmt.Sprintf("#%d", e.Data.(int)))
					}
				}
				k := "loop@ops sends[" + strings.Join(sig, ",") + "]"
				if seenSig[k] {
					continue
				}
				seenSig[k] = true
				bad++
				c.fail(rule, fi.Name, k, c.P.pos(rs.Pos()),
					fmt.Sprintf("path emits %d replies for one operation (send statements numbered in source order within the loop): %s", n, p.describe(c.P)))
			}
		}
		if bad == 0 {
			c.ok(rule, fi.Name, "loop@ops", c.P.pos(rs.Pos()), fmt.Sprintf("%d structural paths through the loop body, each sends exactly one message on %d reply channels", len(paths), len(chans)))
		}
	}
}

// condSig is a position-free signature of a path's branch decisions.
func condSig(p Path) string {
	var parts []string
	for _, cs := range p.Conds {
		s := cs.Label
		if cs.Expr != nil {
			s = types.ExprString(cs.Expr)
			if !cs.Taken {
				s = "!(" + s + ")"
			}
		}
		parts = append(parts, s)
	}
	return strings.Join(parts, ";")
}

// R6.2
func ruleResultMapping(c *Ctx) {
	const rule = "RESULT-MAPPING"
	me := c.need("server", "", "modifyEntry")
	if me == nil {
		return
	}
	info := me.Pkg.TypesInfo

	// which variables hold the oks / fails results of the RIB calls
	var okVars, failVars = map[types.Object]bool{}, map[types.Object]bool{}
	ribCalls := 0
	inspectNoFuncLit(me.Decl.Body, func(n ast.Node) bool {
		as, ok := n.(*ast.AssignStmt)
		if !ok || len(as.Rhs) != 1 || len(as.Lhs) != 3 {
			return true
		}
		call, ok := ast.Unparen(as.Rhs[0]).(*ast.CallExpr)
		if !ok {
			return true
		}
		obj := calleeObj(info, call)
		if isMethod(obj, modPath+"/rib", "RIB", "AddEntry") || isMethod(obj, modPath+"/rib", "RIB", "DeleteEntry") {
			ribCalls++
			if id, ok := as.Lhs[0].(*ast.Ident); ok {
				okVars[info.ObjectOf(id)] = true
			}
			if id, ok := as.Lhs[1].(*ast.Ident); ok {
				failVars[info.ObjectOf(id)] = true
			}
		}
		return true
	})
	c.floor(rule, "RIB AddEntry/DeleteEntry result assignments in modifyEntry", ribCalls, 2)
	for o := range okVars {
		if failVars[o] {
			c.fail(rule, me.Name, "oks/fails variables", c.P.pos(me.Decl.Pos()), "the same variable receives both the oks and the fails result")
		}
	}

	// the loops over those variables
	okLoops, failLoops := 0, 0
	inspectNoFuncLit(me.Decl.Body, func(n ast.Node) bool {
		rs, ok := n.(*ast.RangeStmt)
		if !ok {
			return true
		}
		id, ok := ast.Unparen(resolveLocal(info, me.Decl, rs.X)).(*ast.Ident)
		if !ok {
			return true
		}
		ro := info.ObjectOf(id)
		var elem types.Object
		if v, ok := rs.Value.(*ast.Ident); ok {
			elem = info.ObjectOf(v)
		}
		switch {
		case okVars[ro]:
			okLoops++
			checkResultLoop(c, rule, me, rs, elem, true)
		case failVars[ro]:
			failLoops++
			checkResultLoop(c, rule, me, rs, elem, false)
		}
		return true
	})
	c.floor(rule, "loop over oks", okLoops, 1)
	c.floor(rule, "loop over fails", failLoops, 1)
	ruleResultsUntouched(c, rule, me, okVars, failVars)

	// every other AFTResult literal of package server: FAILED with the operation's id
	pk := c.P.pkg("server")
	n := 0
	for _, f := range pk.Syntax {
		for _, d := range f.Decls {
			fd, ok := d.(*ast.FuncDecl)
			if !ok || fd.Body == nil {
				continue
			}
			if isSimpleHelperDecl(fd) {
				continue // attributed to its call sites
			}
			if fo, ok := pk.TypesInfo.Defs[fd.Name].(*types.Func); ok && isNewFunc(fo) {
				continue // a helper new to the rules: seen through its inline frames in the callers
			}
			for _, lr := range litsThroughHelpers(pk.TypesInfo, fd.Body, spbPath, "AFTResult") {
				cl := lr.Lit
				if lr.Arg == nil && insideResultLoop(pk.TypesInfo, fd, cl, okVars, failVars) {
					continue
				}
				n++
				c.Sites++
				fields := compositeFields(cl)
				st := constName(lr.Info, fields["Status"])
				fn := displayName(pk.TypesInfo.Defs[fd.Name].(*types.Func))
				idOK := false
				if idE, mapped := lr.callerExpr(fields["Id"]); idE != nil && mapped {
					obj, path := selectorPath(pk.TypesInfo, idE)
					if obj != nil {
						if _, isParam := obj.(*types.Var); isParam {
							if len(path) == 0 && isUint64(obj.Type()) {
								idOK = true // e.g. opID parameter
							}
							if len(path) == 1 && path[0] == "Id" && isNamed(obj.Type(), spbPath, "AFTOperation") {
								idOK = true
							}
						}
					}
				}
				c.check(st == "AFTResult_FAILED" && idOK, rule, fn, "AFTResult literal (non-RIB verdict)", c.P.pos(lr.Site.Pos()),
					"in-band rejection: FAILED with the operation's own id",
					fmt.Sprintf("an AFTResult built outside the oks/fails loops must be FAILED with the id of the operation being answered; got Status=%s Id=%s", st, exprStr(fields["Id"])))
			}
		}
	}
	c.floor(rule, "in-band rejection literals in package server", n, 5)
}

func isUint64(t types.Type) bool {
	b, ok := t.Underlying().(*types.Basic)
	return ok && b.Kind() == types.Uint64
}

func exprStr(e ast.Expr) string {
	if e == nil {
		return "<absent>"
	}
	return types.ExprString(e)
}

func insideResultLoop(info *types.Info, fd *ast.FuncDecl, cl *ast.CompositeLit, okVars, failVars map[types.Object]bool) bool {
	inside := false
	ast.Inspect(fd.Body, func(n ast.Node) bool {
		rs, ok := n.(*ast.RangeStmt)
		if !ok {
			return true
		}
		if id, ok := ast.Unparen(resolveLocal(info, fd, rs.X)).(*ast.Ident); ok {
			o := info.ObjectOf(id)
			if (okVars[o] || failVars[o]) && containsNode(rs.Body, cl) {
				inside = true
			}
		}
		return true
	})
	return inside
}

// checkResultLoop checks the shape of the loop translating RIB results into AFTResults.
func checkResultLoop(c *Ctx, rule string, me *FuncInfo, rs *ast.RangeStmt, elem types.Object, okLoop bool) {
	info := me.Pkg.TypesInfo
	fibParam := types.Object(nil)
	for _, o := range paramObjs(info, me.Decl) {
		if o != nil {
			if b, ok := o.Type().Underlying().(*types.Basic); ok && b.Kind() == types.Bool {
				fibParam = o
			}
		}
	}
	ev := func(n ast.Node) []Event {
		var out []Event
		for _, cl := range litsOfType(info, n, spbPath, "AFTResult") {
			fields := compositeFields(cl)
			st := constName(info, fields["Status"])
			idOK := false
			if obj, path := selectorPath(info, fields["Id"]); obj != nil && obj == elem && len(path) == 1 && path[0] == "ID" {
				idOK = true
			}
			k := st
			if !idOK {
				k = st + "(id≠result.ID)"
			}
			out = append(out, Event{Kind: k, Node: cl})
		}
		return out
	}
	paths, pe := enumPaths(info, rs.Body.List, ev)
	c.Sites += len(paths)
	name := "loop@fails"
	if okLoop {
		name = "loop@oks"
	}
	if pe.overflow || len(pe.unsup) > 0 {
		c.undecided(rule, me.Name, name, c.P.pos(rs.Pos()), "path enumeration incomplete")
		return
	}
	good := true
	var seenFIB, seenNoFIB bool
	for _, p := range paths {
		if p.End == "panic" {
			continue
		}
		var seq []string
		for _, e := range p.Events {
			seq = append(seq, e.Kind)
		}
		s := strings.Join(seq, ",")
		if !okLoop {
			if s != "AFTResult_FAILED" {
				good = false
				c.fail(rule, me.Name, name+" path["+condSig(p)+"]", c.P.pos(rs.Pos()), "a failed RIB result must produce exactly one FAILED AFTResult with the result's id; path produces ["+s+"]")
			}
			continue
		}
		// which way did the path decide the fibACK parameter?
		fib := 0
		for _, cs := range p.Conds {
			if cs.Expr == nil {
				continue
			}
			if id, ok := ast.Unparen(resolveLocal(info, me.Decl, cs.Expr)).(*ast.Ident); ok && fibParam != nil && info.ObjectOf(id) == fibParam {
				if cs.Taken {
					fib = 1
				} else {
					fib = -1
				}
			}
		}
		switch {
		case s == "AFTResult_RIB_PROGRAMMED" && fib <= 0:
			seenNoFIB = true
		case s == "AFTResult_RIB_PROGRAMMED,AFTResult_FIB_PROGRAMMED" && fib == 1:
			seenFIB = true
		default:
			good = false
			c.fail(rule, me.Name, name+" path["+condSig(p)+"]", c.P.pos(rs.Pos()),
				fmt.Sprintf("an ok RIB result must produce RIB_PROGRAMMED, followed by FIB_PROGRAMMED exactly when FIB acknowledgement was negotiated; path (fibACK=%d) produces [%s]", fib, s))
		}
	}
	if okLoop && good && !(seenFIB && seenNoFIB) {
		good = false
		c.fail(rule, me.Name, name, c.P.pos(rs.Pos()), fmt.Sprintf("expected one path with and one without FIB_PROGRAMMED selected by the fibACK parameter (with=%v without=%v)", seenFIB, seenNoFIB))
	}
	if good {
		c.ok(rule, me.Name, name, c.P.pos(rs.Pos()), fmt.Sprintf("%d paths; ids taken from the ranged result", len(paths)))
	}
}

// R6.3
func ruleOneVerdict(c *Ctx) {
	const rule = "ONE-VERDICT"
	fi := c.need("rib", "RIB", "addEntryInternal")
	if fi == nil {
		return
	}
	info := fi.Pkg.TypesInfo
	params := paramObjs(info, fi.Decl)
	// accumulators: parameters of type *[]*OpResult
	accs := map[types.Object]int{}
	k := 0
	for _, o := range params {
		if o == nil {
			continue
		}
		if pt, ok := o.Type().(*types.Pointer); ok {
			if sl, ok := pt.Elem().Underlying().(*types.Slice); ok && isNamed(sl.Elem(), modPath+"/rib", "OpResult") {
				accs[o] = k
				k++
			}
		}
	}
	// … or the two []*OpResult fields of a parameter that points to a struct of the module (a run object)
	var accRoot types.Object
	accFields := map[string]bool{}
	if len(accs) == 0 {
		for _, o := range params {
			if o == nil || !isModuleStruct(o.Type()) {
				continue
			}
			pt, ok := o.Type().Underlying().(*types.Pointer)
			if !ok {
				continue
			}
			st, _ := pt.Elem().Underlying().(*types.Struct)
			fs := map[string]bool{}
			for i := 0; st != nil && i < st.NumFields(); i++ {
				if sl, ok := st.Field(i).Type().Underlying().(*types.Slice); ok && isNamed(sl.Elem(), modPath+"/rib", "OpResult") {
					fs[st.Field(i).Name()] = true
				}
			}
			if len(fs) == 2 {
				accRoot, accFields = o, fs
			}
		}
	}
	if len(accs) != 2 && accRoot == nil {
		c.undecided(rule, fi.Name, "accumulators", c.P.pos(fi.Decl.Pos()), fmt.Sprintf("expected two *[]*OpResult parameters (or one parameter object with two []*OpResult fields), found %d", len(accs)))
		return
	}
	ev := func(n ast.Node) []Event {
		var out []Event
		inspectNoFuncLit(n, func(m ast.Node) bool {
			switch x := m.(type) {
			case *ast.AssignStmt:
				// run.f = append(run.f, …)
				if accRoot != nil && len(x.Lhs) == 1 && len(x.Rhs) == 1 {
					if se, ok := ast.Unparen(x.Lhs[0]).(*ast.SelectorExpr); ok && accFields[se.Sel.Name] {
						if o := objOfIdentPlain(info, se.X); o != nil && frameArgRoot(info, fi.Decl, o) == accRoot {
							if call, ok := ast.Unparen(x.Rhs[0]).(*ast.CallExpr); ok {
								if fid, ok := call.Fun.(*ast.Ident); ok && fid.Name == "append" {
									out = append(out, Event{Kind: "verdict", Node: x, Data: "append " + se.Sel.Name})
								}
							}
						}
					}
				}
				// *acc = append(*acc, ...)
				if len(x.Lhs) == 1 && len(x.Rhs) == 1 {
					if st, ok := ast.Unparen(x.Lhs[0]).(*ast.StarExpr); ok {
						if id, ok := ast.Unparen(st.X).(*ast.Ident); ok {
							if _, isAcc := accs[info.ObjectOf(id)]; isAcc {
								if call, ok := ast.Unparen(x.Rhs[0]).(*ast.CallExpr); ok {
									if fid, ok := call.Fun.(*ast.Ident); ok && fid.Name == "append" {
										out = append(out, Event{Kind: "verdict", Node: x, Data: "append " + id.Name})
									}
								}
							}
						}
					}
				}
			case *ast.CallExpr:
				obj := calleeObj(info, x)
				switch {
				case isMethod(obj, modPath+"/rib", "RIB", "addPending"):
					out = append(out, Event{Kind: "hold", Node: x})
				case isMethod(obj, modPath+"/rib", "RIB", "rmPending"):
					out = append(out, Event{Kind: "rmPending", Node: x})
				case obj != nil && recvTypeNameOf(obj) == "RIBHolder" && strings.HasPrefix(obj.Name(), "Add") && obj.Pkg() != nil && obj.Pkg().Path() == modPath+"/rib":
					out = append(out, Event{Kind: "attempt", Node: x, Data: obj.Name()})
				}
			}
			return true
		})
		return out
	}
	paths, pe := enumPaths(info, fi.Decl.Body.List, ev)
	c.Sites += len(paths)
	if pe.overflow || len(pe.unsup) > 0 {
		c.undecided(rule, fi.Name, "body", c.P.pos(fi.Decl.Pos()), fmt.Sprintf("path enumeration incomplete (overflow=%v unsupported=%v)", pe.overflow, pe.unsup))
		return
	}
	// ordinals of verdict statements in source order (position-free keys)
	vord := map[ast.Node]int{}
	inspectNoFuncLit(fi.Decl.Body, func(m ast.Node) bool {
		if as, ok := m.(*ast.AssignStmt); ok {
			for _, e := range ev(as) {
				if e.Kind == "verdict" && e.Node == as {
					vord[as] = len(vord) + 1
				}
			}
		}
		return true
	})
	// the guard under which an operation is held: conditions common to all hold paths
	// that only read immutable configuration of the receiver.
	holdGuards := map[string]bool{} // "expr|taken"
	first := true
	for _, p := range paths {
		if !p.has("hold") {
			continue
		}
		cur := map[string]bool{}
		for _, cs := range p.Conds {
			if cs.Expr != nil && readsOnlyImmutableConfig(c, fi, cs.Expr) {
				cur[fmt.Sprintf("%s|%v", types.ExprString(cs.Expr), cs.Taken)] = true
			}
		}
		if first {
			holdGuards, first = cur, false
		} else {
			for k := range holdGuards {
				if !cur[k] {
					delete(holdGuards, k)
				}
			}
		}
	}
	attempts, bad := 0, 0
	badKeys := map[string]bool{}
	for _, p := range paths {
		if p.End == "panic" || !p.has("attempt") {
			continue
		}
		attempts++
		// events inside the retry loop belong to the recursive attempts, not to this one
		nv, nh, nrm := 0, 0, 0
		var vsite []string
		for _, e := range p.Events {
			if e.InLoop {
				continue
			}
			switch e.Kind {
			case "verdict":
				nv++
				vsite = append(vsite, fmt.Sprintf("verdict#%d(%v)", vord[e.Node], e.Data))
			case "hold":
				nh++
				vsite = append(vsite, "hold")
			case "rmPending":
				nrm++
			}
		}
		fatal := false
		if rs, ok := p.EndNode.(*ast.ReturnStmt); ok && len(rs.Results) == 1 && !isNilIdent(info, rs.Results[0]) {
			fatal = true
		}
		site := strings.Join(vsite, "+")
		if site == "" {
			site = "none[" + verdictArm(p) + "]"
		}
		if nv+nh != 1 && !(fatal && nv+nh == 0) {
			key := "attempt verdicts " + site
			if !badKeys[key] {
				badKeys[key] = true
				bad++
				c.fail(rule, fi.Name, key, c.P.pos(fi.Decl.Pos()), fmt.Sprintf("an attempt must end in exactly one of {FAILED verdict, OK verdict, hold}; path has %d verdicts and %d holds: %s", nv, nh, p.describe(c.P)))
			}
		}
		if nv == 1 && nrm == 0 {
			// exempt when the path decided the hold guard the other way: nothing is ever held in that configuration
			exempt := false
			for _, cs := range p.Conds {
				if cs.Expr != nil && holdGuards[fmt.Sprintf("%s|%v", types.ExprString(cs.Expr), !cs.Taken)] {
					exempt = true
				}
			}
			key := "verdict ends hold " + site
			if !exempt && !badKeys[key] {
				badKeys[key] = true
				bad++
				c.fail(rule, fi.Name, key, c.P.pos(fi.Decl.Pos()), "a terminal verdict for an operation is not accompanied by rmPending: if the operation was held it stays in the pending set and is answered again by every later install ("+p.describe(c.P)+")")
			}
		}
		if nh == 1 && nrm > 0 {
			key := "hold and rmPending " + site
			if !badKeys[key] {
				badKeys[key] = true
				bad++
				c.fail(rule, fi.Name, key, c.P.pos(fi.Decl.Pos()), "path both holds the operation and removes it from the pending set")
			}
		}
	}
	if attempts == 0 {
		c.vanished(rule, fi.Name, "attempt paths", "no path containing an AddXXX attempt found")
		return
	}
	if len(vord) < 3 {
		c.vanished(rule, fi.Name, "verdict sites", fmt.Sprintf("found %d verdict statements, confirmed floor is 3 (fatal, ok, unresolved-with-forward-references-disabled)", len(vord)))
	}
	if bad == 0 {
		c.ok(rule, fi.Name, "body", c.P.pos(fi.Decl.Pos()), fmt.Sprintf("%d attempt paths over %d verdict sites, each with exactly one verdict/hold and rmPending with every verdict that can concern a held operation", attempts, len(vord)))
	}
}

// readsOnlyImmutableConfig: e mentions only fields of the receiver that are
// never stored to outside constructors (composite literals / the function
// that allocates the struct), constants and literals.
func readsOnlyImmutableConfig(c *Ctx, fi *FuncInfo, e ast.Expr) bool {
	info := fi.Pkg.TypesInfo
	recv := recvObj(info, fi.Decl)
	okAll, any := true, false
	ast.Inspect(e, func(n ast.Node) bool {
		switch x := n.(type) {
		case *ast.CallExpr:
			okAll = false
		case *ast.SelectorExpr:
			id, ok := ast.Unparen(x.X).(*ast.Ident)
			var root types.Object
			if ok {
				root = info.ObjectOf(id)
				// the receiver of a spliced-in helper is bound to the caller's receiver
				for hops := 0; hops < 3 && root != nil && root != recv; hops++ {
					v, isVar := root.(*types.Var)
					if !isVar || v.IsField() {
						break
					}
					def := soleDefinition(info, fi.Decl, v)
					if def == nil {
						break
					}
					root = objOfIdent(info, def)
				}
			}
			if ok && recv != nil && root == recv {
				if fv, ok := info.ObjectOf(x.Sel).(*types.Var); ok && fv.IsField() && c.P.fieldWriteOnce(fv) {
					any = true
					return false
				}
			}
			if _, isConst := info.ObjectOf(x.Sel).(*types.Const); isConst {
				return false
			}
			okAll = false
		case *ast.Ident:
			switch info.ObjectOf(x).(type) {
			case *types.Const, *types.Nil, nil:
			default:
				okAll = false
			}
		}
		return okAll
	})
	return okAll && any
}

// verdictArm names the arm of the verdict switch a path took, position-free.
func verdictArm(p Path) string {
	var last []string
	for _, cs := range p.Conds {
		if cs.Expr != nil && cs.Taken {
			last = append(last, types.ExprString(cs.Expr))
		} else if cs.Label == "default" {
			last = append(last, "default")
		}
	}
	if len(last) > 2 {
		last = last[len(last)-2:]
	}
	return strings.Join(last, ";")
}

func recvTypeNameOf(obj types.Object) string {
	if f, ok := obj.(*types.Func); ok {
		return recvTypeName(f)
	}
	return ""
}

// R6.4
func ruleHeldOwner(c *Ctx) {
	const rule = "HELD-OP-OWNER"
	fi := c.need("rib", "RIB", "addEntryInternal")
	if fi == nil {
		return
	}
	info := fi.Pkg.TypesInfo
	// does pendingEntry carry anything identifying the submitting session?
	pk := c.P.pkg("rib")
	tn, _ := pk.Types.Scope().Lookup("pendingEntry").(*types.TypeName)
	ownerField := false
	if tn != nil {
		if st, ok := tn.Type().Underlying().(*types.Struct); ok {
			for i := 0; i < st.NumFields(); i++ {
				f := st.Field(i)
				// anything other than the network instance name and the operation itself
				if f.Name() != "ni" && f.Name() != "op" {
					ownerField = true
				}
			}
		}
	}
	// the retry loop: a range over r.getPending() whose body re-enters addEntryInternal with the caller's accumulators
	params := paramObjs(info, fi.Decl)
	found := false
	inspectNoFuncLit(fi.Decl.Body, func(n ast.Node) bool {
		rs, ok := n.(*ast.RangeStmt)
		if !ok {
			return true
		}
		call, ok := ast.Unparen(rs.X).(*ast.CallExpr)
		if !ok || !isMethod(calleeObj(info, call), modPath+"/rib", "RIB", "getPending") {
			return true
		}
		for _, inner := range callsIn(rs.Body) {
			if calleeObj(info, inner) == fi.Obj {
				found = true
				passesOwn := 0
				for _, a := range inner.Args {
					if id, ok := ast.Unparen(a).(*ast.Ident); ok {
						for _, po := range params {
							if po != nil && info.ObjectOf(id) == po {
								if _, isPtr := po.Type().(*types.Pointer); isPtr {
									passesOwn++
								}
							}
						}
					}
				}
				if passesOwn >= 2 && !ownerField {
					c.fail(rule, fi.Name, "retry-loop", c.P.pos(inner.Pos()),
						"held operations are taken from the RIB-global pending set and their verdicts appended to the current caller's oks/fails; pendingEntry records no owner, so a held operation of a superseded session is answered on the resolving session's stream")
				} else {
					c.ok(rule, fi.Name, "retry-loop", c.P.pos(inner.Pos()), "retried operations carry an owner or separate accumulators")
				}
			}
		}
		return true
	})
	if !found {
		c.vanished(rule, fi.Name, "retry-loop", "no retry of held operations (range over getPending re-entering addEntryInternal) found")
	}
}

// R6.7 the RIB's verdict names the operation it is about: every OpResult the
// RIB builds carries the id of the operation being processed and that
// operation itself (the server copies this id into the AFTResult).
func ruleOpResultID(c *Ctx) {
	const rule = "OP-RESULT-ID"
	n := 0
	for _, fi := range c.P.AllFuncs("rib") {
		if fi.Decl.Body == nil {
			continue
		}
		info := fi.Pkg.TypesInfo
		lits := litsOfType(info, fi.Decl.Body, ribPkg, "OpResult")
		if len(lits) == 0 {
			continue
		}
		// the operation parameter
		opName := ""
		for _, p := range paramObjs(info, fi.Decl) {
			if p != nil && isNamed(p.Type(), spbPath, "AFTOperation") {
				opName = p.Name()
			}
		}
		for _, cl := range lits {
			n++
			c.Sites++
			f := compositeFields(cl)
			idT, opT := "", ""
			if f["ID"] != nil {
				idT = canonTerm(fi, f["ID"])
			}
			if f["Op"] != nil {
				opT = canonTerm(fi, f["Op"])
			}
			ok := opName != "" && idT == opName+".Id" && opT == opName
			c.check(ok, rule, fi.Name, "OpResult literal", c.P.pos(cl.Pos()), "ID = op.Id, Op = op",
				fmt.Sprintf("the RIB's verdict is built with ID=%s Op=%s, want the id of the operation being processed (%s.Id) and the operation itself: the acknowledgement would name another operation", idT, opT, opName))
		}
	}
	c.floor(rule, "OpResult literals in package rib", n, 4)
}

// R6.8 an accepted operation leaves the pending set only together with a
// verdict: the set is written by addPending (insert) and rmPending (remove)
// alone, and rmPending is called only where addEntryInternal records the
// operation's verdict. Anything else that empties the set (a flush, a clean-up)
// drops held operations without ever answering them.
func rulePendingWriters(c *Ctx) {
	const rule = "PENDING-WRITERS"
	pk := c.P.pkg("rib")
	if pk == nil {
		return
	}
	info := pk.TypesInfo
	fv := c.P.Field("rib", "RIB", "pendingEntries")
	if fv == nil {
		c.vanished(rule, "rib.RIB", "pendingEntries", "field not found")
		return
	}
	isPend := func(e ast.Expr) bool {
		se, ok := ast.Unparen(e).(*ast.SelectorExpr)
		return ok && info.ObjectOf(se.Sel) == fv
	}
	writers := map[string][]string{}
	for _, f := range pk.Syntax {
		for _, d := range f.Decls {
			fd, ok := d.(*ast.FuncDecl)
			if !ok || fd.Body == nil {
				continue
			}
			fn := displayName(info.Defs[fd.Name].(*types.Func))
			ast.Inspect(fd.Body, func(n ast.Node) bool {
				switch x := n.(type) {
				case *ast.AssignStmt:
					for _, l := range x.Lhs {
						if ie, ok := ast.Unparen(l).(*ast.IndexExpr); ok && isPend(resolveLocal(info, fd, ie.X)) {
							writers[fn] = append(writers[fn], "insert")
						}
						if isPend(l) {
							writers[fn] = append(writers[fn], "replace-map")
						}
					}
				case *ast.CallExpr:
					if id, ok := ast.Unparen(x.Fun).(*ast.Ident); ok && (id.Name == "delete" || id.Name == "clear") && len(x.Args) >= 1 && isPend(resolveLocal(info, fd, x.Args[0])) {
						writers[fn] = append(writers[fn], "remove")
					}
				}
				return true
			})
		}
	}
	want := map[string]string{"rib.(*RIB).addPending": "insert", "rib.(*RIB).rmPending": "remove"}
	var bad []string
	for fn, ops := range writers {
		for _, op := range ops {
			if want[fn] != op {
				bad = append(bad, fn+" ("+op+")")
			}
		}
	}
	sort.Strings(bad)
	c.Sites += len(writers)
	c.check(len(bad) == 0 && len(writers) >= 2, rule, "rib.RIB", "writers of the pending set", "-", "written only by addPending (insert) and rmPending (remove)",
		"the set of held operations is modified outside addPending/rmPending: "+strings.Join(bad, ", ")+" — a held operation removed there is never answered")
	// rmPending is called only from the verdict paths of addEntryInternal
	if rm := c.need("rib", "RIB", "rmPending"); rm != nil {
		cg := c.P.callGraph()
		var others []string
		n := 0
		for _, cl := range cg.callersOf(rm.Obj) {
			n++
			if dn := displayName(cl); dn != "rib.(*RIB).addEntryInternal" {
				others = append(others, dn)
			}
		}
		c.check(len(others) == 0 && n >= 1, rule, rm.Name, "callers", c.P.pos(rm.Decl.Pos()), "called only where addEntryInternal records a verdict",
			"held operations are removed from the pending set by "+strings.Join(others, ", ")+", which records no verdict for them")
	}
}

// ruleResultsUntouched: what the RIB reported is what the client is told. The
// variables holding the RIB's oks / fails are written by the RIB call only (a
// filter or replacement between the call and the mapping loops leaves an
// installed or failed operation unanswered), and the slice of AFTResults the
// loops build reaches the response as built: appended to in the loops, never
// re-ordered, truncated, indexed into or handed to a function that could do so
// (RIB_PROGRAMMED precedes FIB_PROGRAMMED for an id only by the order of the
// appends).
func ruleResultsUntouched(c *Ctx, rule string, me *FuncInfo, okVars, failVars map[types.Object]bool) {
	info := me.Pkg.TypesInfo
	isRIBCall := func(e ast.Expr) bool {
		call, ok := ast.Unparen(e).(*ast.CallExpr)
		if !ok {
			return false
		}
		obj := calleeObj(info, call)
		return isMethod(obj, modPath+"/rib", "RIB", "AddEntry") || isMethod(obj, modPath+"/rib", "RIB", "DeleteEntry")
	}
	bad := ""
	// the accumulator: the slice of *spb.AFTResult appended to inside the loops over oks / fails
	acc := map[types.Object]bool{}
	inspectNoFuncLit(me.Decl.Body, func(n ast.Node) bool {
		rs, ok := n.(*ast.RangeStmt)
		if !ok {
			return true
		}
		id, ok := ast.Unparen(resolveLocal(info, me.Decl, rs.X)).(*ast.Ident)
		if !ok || !(okVars[info.ObjectOf(id)] || failVars[info.ObjectOf(id)]) {
			return true
		}
		inspectNoFuncLit(rs.Body, func(m ast.Node) bool {
			if st, ok := m.(ast.Stmt); ok {
				if o, _ := appendTarget(info, st); o != nil {
					if sl, ok := o.Type().Underlying().(*types.Slice); ok && isNamed(sl.Elem(), spbPath, "AFTResult") {
						acc[o] = true
					}
				}
			}
			return true
		})
		return true
	})
	harmless := func(f types.Object) bool {
		if f == nil {
			return false
		}
		if b, ok := f.(*types.Builtin); ok {
			return b.Name() == "len" || b.Name() == "cap" || b.Name() == "append"
		}
		if f.Pkg() == nil {
			return false
		}
		switch f.Pkg().Path() {
		case "github.com/golang/glog", "log", "fmt", "google.golang.org/protobuf/encoding/prototext":
			return true
		}
		return false
	}
	inspectNoFuncLit(me.Decl.Body, func(n ast.Node) bool {
		switch x := n.(type) {
		case *ast.AssignStmt:
			for i, l := range x.Lhs {
				lo := objOfIdent(info, l)
				if lo != nil && (okVars[lo] || failVars[lo]) {
					rhs := x.Rhs[0]
					if len(x.Rhs) == len(x.Lhs) {
						rhs = x.Rhs[i]
					}
					if !isRIBCall(rhs) {
						bad = "the RIB's result list " + lo.Name() + " is replaced by " + types.ExprString(rhs) + " between the RIB call and the mapping loops: an operation the RIB installed (or failed) is never answered (" + c.P.pos(x.Pos()) + ")"
					}
				}
				if lo != nil && acc[lo] && x.Tok != token.DEFINE {
					if o, _ := appendTarget(info, x); o != lo {
						bad = "the built result list " + lo.Name() + " is overwritten (" + c.P.pos(x.Pos()) + ")"
					}
				}
				if ie, ok := ast.Unparen(l).(*ast.IndexExpr); ok {
					if o := objOfIdent(info, ie.X); o != nil && (acc[o] || okVars[o] || failVars[o]) {
						bad = "an element of " + o.Name() + " is overwritten in place (" + c.P.pos(x.Pos()) + ")"
					}
				}
			}
		case *ast.CallExpr:
			f := calleeObj(info, x)
			if harmless(f) {
				return true
			}
			for _, a := range x.Args {
				e := ast.Unparen(a)
				if se, ok := e.(*ast.SliceExpr); ok {
					e = ast.Unparen(se.X)
				}
				if u, ok := e.(*ast.UnaryExpr); ok && u.Op == token.AND {
					e = ast.Unparen(u.X)
				}
				if o := objOfIdent(info, e); o != nil && (acc[o] || okVars[o] || failVars[o]) && !isRIBCall(x) {
					name := types.ExprString(x.Fun)
					bad = "the result list " + o.Name() + " is handed to " + name + ", which can re-order or change it, before it reaches the response: the per-id order RIB_PROGRAMMED → FIB_PROGRAMMED and the one-result-per-verdict count exist only by the order of the appends (" + c.P.pos(x.Pos()) + ")"
				}
			}
		}
		return true
	})
	c.Sites++
	if len(acc) == 0 {
		c.vanished(rule, me.Name, "result accumulator", "no slice of AFTResult is appended to inside the loops over the RIB's results")
		return
	}
	c.check(bad == "", rule, me.Name, "the RIB's results reach the response unfiltered and in the order built", c.P.pos(me.Decl.Pos()),
		"oks/fails are written by the RIB call only; the AFTResult list is only appended to", bad)
}

// FORWARDER-JOINED — the goroutine that writes results to the Modify stream is joined before the handler returns:
// when the handler returns gRPC ends the stream, so a result that was handed to the writer but is still inside
// ms.Send is lost — the operation is installed and never answered. The handler must wait (a bare receive from a
// channel the writer closes by a deferred close, or WaitGroup.Wait against a deferred Done) on its way to every
// return; and so that this wait cannot hang, every channel send of the writer sits in a select that also listens
// for the handler's stop signal.
func ruleForwarderJoined(c *Ctx) {
	const rule = "FORWARDER-JOINED"
	fi := c.need("server", "Server", "Modify")
	if fi == nil {
		return
	}
	info := fi.Pkg.TypesInfo
	ps := paramObjs(info, fi.Decl)
	if len(ps) == 0 {
		c.undecided(rule, fi.Name, "stream parameter", c.P.pos(fi.Decl.Pos()), "Modify has no stream parameter")
		return
	}
	stream := ps[0]
	n := 0
	for idx, st := range fi.Decl.Body.List {
		gs, ok := st.(*ast.GoStmt)
		if !ok {
			continue
		}
		// the goroutine's body: a closure, or a named function of the package (its parameters stand for the
		// handler's arguments)
		var body *ast.BlockStmt
		toHandler := func(o types.Object) types.Object { return o }
		if fl, ok := ast.Unparen(gs.Call.Fun).(*ast.FuncLit); ok {
			body = fl.Body
		} else if f, ok := calleeObj(info, gs.Call).(*types.Func); ok && f.Pkg() == fi.Obj.Pkg() {
			if cfi := c.P.infoFor(f); cfi != nil && cfi.Decl.Body != nil {
				body = cfi.Decl.Body
				bind := map[types.Object]types.Object{}
				cps := paramObjs(info, cfi.Decl)
				for i, a := range gs.Call.Args {
					if i < len(cps) && cps[i] != nil {
						if o := objOfIdent(info, a); o != nil {
							bind[cps[i]] = o
						}
					}
				}
				toHandler = func(o types.Object) types.Object {
					if h, ok := bind[o]; ok {
						return h
					}
					return o
				}
			}
		}
		if body == nil {
			continue
		}
		fl := &ast.FuncLit{Body: body}
		writes := false
		for _, call := range callsIn(fl.Body) {
			if se, ok := ast.Unparen(call.Fun).(*ast.SelectorExpr); ok && se.Sel.Name == "Send" && toHandler(objOfIdent(info, se.X)) == stream {
				writes = true
			}
		}
		if !writes {
			continue
		}
		n++
		c.Sites++
		// what the writer signals at exit
		joinCh := map[types.Object]bool{}
		joinWG := map[types.Object]bool{}
		for _, s2 := range fl.Body.List {
			ds, ok := s2.(*ast.DeferStmt)
			if !ok {
				continue
			}
			if id, ok := ast.Unparen(ds.Call.Fun).(*ast.Ident); ok && id.Name == "close" && len(ds.Call.Args) == 1 {
				if o := toHandler(objOfIdent(info, ds.Call.Args[0])); o != nil {
					joinCh[o] = true
				}
			}
			if se, ok := ast.Unparen(ds.Call.Fun).(*ast.SelectorExpr); ok && se.Sel.Name == "Done" {
				if o := toHandler(objOfIdent(info, se.X)); o != nil {
					joinWG[o] = true
				}
			}
		}
		// the handler waits for it: a top-level statement after the go statement, before the final return
		joined := false
		for _, s2 := range fi.Decl.Body.List[idx+1:] {
			es, ok := s2.(*ast.ExprStmt)
			if !ok {
				continue
			}
			switch x := ast.Unparen(es.X).(type) {
			case *ast.UnaryExpr:
				if x.Op == token.ARROW && joinCh[objOfIdent(info, x.X)] {
					joined = true
				}
			case *ast.CallExpr:
				if se, ok := ast.Unparen(x.Fun).(*ast.SelectorExpr); ok && se.Sel.Name == "Wait" && joinWG[objOfIdent(info, se.X)] {
					joined = true
				}
			}
		}
		// returns before the join (nested returns after the go statement) defeat it
		early := false
		for _, s2 := range fi.Decl.Body.List[idx+1:] {
			if _, isRet := s2.(*ast.ReturnStmt); isRet {
				continue
			}
			inspectNoFuncLit(s2, func(m ast.Node) bool {
				if _, ok := m.(*ast.ReturnStmt); ok {
					early = true
				}
				return true
			})
		}
		c.check(joined && !early, rule, fi.Name, "the stream writer is joined before the handler returns", c.P.pos(gs.Pos()), "the handler waits for the writer's exit signal on the way to its return",
			"the handler returns without waiting for the goroutine that calls "+stream.Name()+".Send: a result handed to it just before the stream's end (client half-close, or a fatal error on a later message) is still being written when gRPC ends the stream — the operation is installed and its acknowledgement is lost")
		// the writer never blocks on a channel the handler has stopped reading
		bad := ""
		var walk func(n ast.Node, sel *ast.SelectStmt)
		walk = func(n ast.Node, sel *ast.SelectStmt) {
			ast.Inspect(n, func(m ast.Node) bool {
				switch x := m.(type) {
				case *ast.FuncLit:
					return m == n
				case *ast.SelectStmt:
					if m == n {
						return true
					}
					for _, cc := range x.Body.List {
						cl := cc.(*ast.CommClause)
						if cl.Comm != nil {
							walk(cl.Comm, x)
						}
						for _, b := range cl.Body {
							walk(b, nil)
						}
					}
					return false
				case *ast.SendStmt:
					stopCase := false
					if sel != nil {
						for _, cc := range sel.Body.List {
							cl := cc.(*ast.CommClause)
							if es, ok := cl.Comm.(*ast.ExprStmt); ok {
								if u, ok := ast.Unparen(es.X).(*ast.UnaryExpr); ok && u.Op == token.ARROW {
									if o := objOfIdent(info, u.X); o != nil {
										if ct, ok := o.Type().Underlying().(*types.Chan); ok {
											if stt, ok := ct.Elem().Underlying().(*types.Struct); ok && stt.NumFields() == 0 {
												stopCase = true
											}
										}
									}
								}
							}
						}
					}
					if !stopCase && joined {
						bad = "the stream writer sends on " + types.ExprString(x.Chan) + " (" + c.P.pos(x.Pos()) + ") outside a select that also listens for the handler's stop signal: once the handler has taken its one error it reads that channel no more, the writer blocks for ever and the handler's wait for it never ends"
					}
				}
				return true
			})
		}
		walk(fl.Body, nil)
		c.check(bad == "", rule, fi.Name, "the joined writer cannot block on the handler", c.P.pos(gs.Pos()), "every channel send of the writer has a stop alternative", bad)
		// results are handed over synchronously: the channel the writer takes results from is unbuffered, so a
		// result that left the producer is in the writer's hands (and is written before the join ends). With a
		// buffer, results still queued when the handler stops the writer are dropped — installed, never answered.
		badBuf, nRes := "", 0
		inspectNoFuncLit(fl.Body, func(m ast.Node) bool {
			u, ok := m.(*ast.UnaryExpr)
			if !ok || u.Op != token.ARROW {
				return true
			}
			ch := toHandler(objOfIdent(info, u.X))
			if ch == nil {
				return true
			}
			ct, ok := ch.Type().Underlying().(*types.Chan)
			if !ok {
				return true
			}
			if pt, ok := ct.Elem().(*types.Pointer); !ok || !isNamed(pt.Elem(), spbPath, "ModifyResponse") {
				return true
			}
			nRes++
			// its make() in the handler
			made := false
			ast.Inspect(fi.Decl.Body, func(k ast.Node) bool {
				as, ok := k.(*ast.AssignStmt)
				if !ok || len(as.Lhs) != 1 || len(as.Rhs) != 1 || objOfIdent(info, as.Lhs[0]) != ch {
					return true
				}
				if call, ok := ast.Unparen(as.Rhs[0]).(*ast.CallExpr); ok {
					if id, ok := call.Fun.(*ast.Ident); ok && id.Name == "make" {
						made = true
						if len(call.Args) > 1 {
							if v, isC := constInt(info, call.Args[1]); !isC || v != 0 {
								badBuf = "the channel " + ch.Name() + " on which results reach the stream writer is buffered (" + types.ExprString(call.Args[1]) + "): results still queued when the RPC ends are dropped by the writer's stop — operations installed and never answered"
							}
						}
					}
				}
				return true
			})
			if !made {
				badBuf = "cannot find where the result channel " + ch.Name() + " is made"
			}
			return true
		})
		c.check(badBuf == "" && nRes >= 1, rule, fi.Name, "results are handed to the writer synchronously", c.P.pos(gs.Pos()), "the result channel is unbuffered", badBuf)
	}
	c.floor(rule, "goroutines of Modify that write to the stream", n, 1)
}

// PENDING-PRIMITIVES — the held set's two writers do exactly what their callers rely on: rmPending removes the entry
// held under the id it is given on every path (a terminal verdict must end the hold — an entry that survives is
// retried and answered again, or answered on another session's stream under an id that session has been answered for),
// and addPending stores the entry it is given under the id it is given on every path.
func rulePendingPrimitives(c *Ctx) {
	const rule = "PENDING-PRIMITIVES"
	for _, t := range []struct{ name, kind string }{{"rmPending", "delete"}, {"addPending", "store"}} {
		fi := c.need("rib", "RIB", t.name)
		if fi == nil {
			continue
		}
		info := fi.Pkg.TypesInfo
		ps := paramObjs(info, fi.Decl)
		if len(ps) == 0 {
			c.undecided(rule, fi.Name, "parameters", c.P.pos(fi.Decl.Pos()), "no parameters")
			continue
		}
		// the key: the id parameter itself, or the id getter / field of an operation parameter
		isKey := func(e ast.Expr) bool {
			e = ast.Unparen(e)
			if o := objOfIdent(info, e); o != nil && o == ps[0] {
				return true
			}
			if call, ok := e.(*ast.CallExpr); ok && len(call.Args) == 0 {
				if se, ok := ast.Unparen(call.Fun).(*ast.SelectorExpr); ok && se.Sel.Name == "GetId" && objOfIdent(info, se.X) == ps[0] {
					return true
				}
			}
			if se, ok := e.(*ast.SelectorExpr); ok && se.Sel.Name == "Id" && objOfIdent(info, se.X) == ps[0] {
				return true
			}
			return false
		}
		onSet := func(e ast.Expr) bool {
			_, p := selectorPath(info, e)
			return len(p) > 0 && p[len(p)-1] == "pendingEntries"
		}
		ev := func(n ast.Node) []Event {
			var out []Event
			inspectNoFuncLit(n, func(m ast.Node) bool {
				switch x := m.(type) {
				case *ast.CallExpr:
					if id, ok := x.Fun.(*ast.Ident); ok && id.Name == "delete" && len(x.Args) == 2 && onSet(x.Args[0]) {
						k := "delete-other"
						if isKey(x.Args[1]) {
							k = "delete"
						}
						out = append(out, Event{Kind: k, Node: x})
					}
				case *ast.AssignStmt:
					for i, l := range x.Lhs {
						if ie, ok := ast.Unparen(l).(*ast.IndexExpr); ok && onSet(ie.X) {
							k := "store-other"
							if isKey(ie.Index) && len(x.Rhs) == len(x.Lhs) && len(ps) > 1 && objOfIdent(info, x.Rhs[i]) == ps[1] {
								k = "store"
							}
							out = append(out, Event{Kind: k, Node: x})
						}
					}
				}
				return true
			})
			return out
		}
		paths, pe := enumFunc(fi, ev, nil)
		bad := ""
		if pe.overflow || len(pe.unsup) > 0 || len(paths) == 0 {
			bad = "path enumeration incomplete"
		}
		for _, p := range paths {
			if p.End == "panic" || bad != "" {
				continue
			}
			if p.count(t.kind) != 1 || len(p.Events) != 1 {
				var ks []string
				for _, e := range p.Events {
					ks = append(ks, e.Kind)
				}
				bad = fmt.Sprintf("a path of %s does not end with exactly the %s of its own id (%v): %s", t.name, t.kind, ks, p.describe(c.P))
			}
		}
		c.Sites += len(paths)
		want := "delete(pendingEntries, id) on every path"
		if t.kind == "store" {
			want = "pendingEntries[id] = entry on every path"
		}
		c.check(bad == "", rule, fi.Name, "unconditional "+t.kind+" under the given id", c.P.pos(fi.Decl.Pos()), want, bad)
	}
}
