package main

import (
	"fmt"
	"go/ast"
	"os"
	"sort"
	"strconv"
	"time"
)

// propRules maps a property id to the function arming its rules.
var propRules = map[string]func(*Ctx){}

func usage() {
	fmt.Fprintln(os.Stderr, "usage: gribilint <property|all> <quick|thorough>")
	os.Exit(2)
}

func main() {
	if len(os.Args) < 3 {
		usage()
	}
	if os.Args[1] == "dump" && len(os.Args) >= 5 {
		p, err := Load(false)
		if err != nil {
			fmt.Fprintln(os.Stderr, err)
			os.Exit(2)
		}
		dumpFunc(p, os.Args[2], os.Args[3], os.Args[4])
		return
	}
	prop, tier := os.Args[1], os.Args[2]
	if tier != "quick" && tier != "thorough" {
		usage()
	}
	seed := 0
	if s := os.Getenv("VERIF_SEED"); s != "" {
		if n, err := strconv.Atoi(s); err == nil {
			seed = n
		}
	}
	t0 := time.Now()
	defer func() {
		if r := recover(); r != nil {
			// an analysis panic is an infrastructure failure, never a pass
			fmt.Fprintf(os.Stderr, "gribilint: analysis panic: %v\n", r)
			panic(r)
		}
	}()
	p, err := Load(tier == "thorough" && os.Getenv("GRIBILINT_NO_DEPS") == "")
	if err != nil {
		fmt.Fprintln(os.Stderr, "gribilint: cannot load /repo:", err)
		os.Exit(2)
	}
	var ids []string
	if prop == "all" {
		for id := range propRules {
			ids = append(ids, id)
		}
		sort.Strings(ids)
	} else {
		if propRules[prop] == nil {
			fmt.Fprintln(os.Stderr, "gribilint: unknown property", prop)
			os.Exit(2)
		}
		ids = []string{prop}
	}
	exit := 0
	for _, id := range ids {
		c := newCtx(p, id)
		propRules[id](c)
		extra := map[string]any{}
		if tier == "thorough" {
			thoroughExtras(c, extra)
		}
		if rc := c.finish(tier, seed, t0, extra); rc > exit {
			exit = rc
		}
	}
	os.Exit(exit)
}

// thoroughExtras is extended by selftest.go.
var thoroughExtras = func(c *Ctx, extra map[string]any) {}

// dumpFunc prints the structural paths of a function (developer aid).
func dumpFunc(p *Prog, rel, recv, name string) {
	fi := p.Func(rel, recv, name)
	if fi == nil {
		fmt.Println("not found")
		return
	}
	paths, pe := enumFunc(fi, func(n ast.Node) []Event {
		var out []Event
		for _, c := range callsIn(n) {
			if o := calleeObj(fi.Pkg.TypesInfo, c); o != nil {
				out = append(out, Event{Kind: o.Name(), Node: c})
			}
		}
		return out
	}, nil)
	fmt.Println(len(paths), "paths; overflow", pe.overflow, "unsupported", pe.unsup)
	for i, pt := range paths {
		var fs []string
		for _, f := range pt.Formulas() {
			fs = append(fs, f.fstr())
		}
		fmt.Printf("#%d %s\n    F: %v\n    OUT: %s\n", i, pt.describe(p), fs, defaultOutcome(fi.Pkg.TypesInfo, fi.Decl, pt))
	}
}
