package main

// E1 LOCKS: lockset / guarded-by / pairing / blocking-under-lock / lock order (SSA).

import (
	"fmt"
	"go/token"
	"go/types"
	"os"
	"sort"
	"strings"

	"golang.org/x/tools/go/ssa"
)

type lockMode int

const (
	modeR lockMode = 1
	modeW lockMode = 2
)

func (m lockMode) String() string {
	if m == modeW {
		return "W"
	}
	return "R"
}

// guardEntry: field Field of struct Struct (package rel) is protected by lock
// field Lock of the same struct. Deep: everything reachable through the field.
type guardEntry struct {
	Rel, Struct, Field, Lock string
	Deep                     bool // everything reachable through the field is guarded
	ElemWrites               bool // stores into elements reached through the field need the lock exclusively (other goroutines read them under R)
	fv                       *types.Var
}

// The frozen guard table (DESIGN.md §2 E1), confirmed by reading every access
// site and the "protects" comments of the struct declarations.
var guardTable = []guardEntry{
	{Rel: "server", Struct: "Server", Field: "cs", Lock: "csMu", Deep: false, ElemWrites: true},
	{Rel: "server", Struct: "Server", Field: "curElecID", Lock: "elecMu", Deep: false, ElemWrites: false},
	{Rel: "server", Struct: "Server", Field: "curMaster", Lock: "elecMu", Deep: false, ElemWrites: false},
	{Rel: "rib", Struct: "RIB", Field: "niRIB", Lock: "nrMu", Deep: false, ElemWrites: false},
	{Rel: "rib", Struct: "RIB", Field: "pendingEntries", Lock: "pendMu", Deep: false, ElemWrites: false},
	{Rel: "rib", Struct: "RIBHolder", Field: "r", Lock: "mu", Deep: true, ElemWrites: false},
	{Rel: "rib", Struct: "niRefCounter", Field: "NextHop", Lock: "mu", Deep: false, ElemWrites: false},
	{Rel: "rib", Struct: "niRefCounter", Field: "NextHopGroup", Lock: "mu", Deep: false, ElemWrites: false},
	{Rel: "client", Struct: "Client", Field: "sendErr", Lock: "sendErrMu", Deep: false, ElemWrites: false},
	{Rel: "client", Struct: "Client", Field: "readErr", Lock: "readErrMu", Deep: false, ElemWrites: false},
	{Rel: "client", Struct: "clientQs", Field: "sendq", Lock: "sendMu", Deep: false, ElemWrites: false},
	{Rel: "client", Struct: "clientQs", Field: "pendq", Lock: "pendMu", Deep: true, ElemWrites: false},
	{Rel: "client", Struct: "clientQs", Field: "resultq", Lock: "resultMu", Deep: false, ElemWrites: false},
}

// thread roots: the entry points that may run concurrently (DESIGN.md §2 E1.3).
var threadRoots = []struct{ Rel, Recv, Name string }{
	{"server", "Server", "Modify"}, {"server", "Server", "Get"}, {"server", "Server", "Flush"},
	{"client", "Client", "Q"}, {"client", "Client", "AwaitConverged"}, {"client", "Client", "Pending"},
	{"client", "Client", "Results"}, {"client", "Client", "Status"}, {"client", "Client", "AckResult"},
	{"client", "Client", "StartSending"}, {"client", "Client", "StopSending"}, {"client", "Client", "Connect"},
	{"client", "Client", "Reset"}, {"client", "Client", "Close"}, {"client", "Client", "ReplaceStub"},
	{"client", "Client", "Get"}, {"client", "Client", "Flush"},
}

type lockSel struct {
	classes   []string // lock classes (Struct.lock) whose guarded-by / pairing obligations are claimed; nil = all
	blocking  bool     // blocking-under-lock obligations
	order     bool     // lock-order obligations
	pairing   bool
	pkgs      []string // restrict findings to functions of these packages (rel)
	noGuarded bool
}

type lockAccess struct {
	fn     *ssa.Function
	pos    token.Pos
	guard  *guardEntry
	lock   string // required lock instance path
	write  bool
	what   string
	held   map[string]lockMode // must-held at the access
	rooted string              // parameter / free-variable root name the base derives from ("" if local)
}

type lockReq struct {
	lock  string // instance path relative to the function's parameters
	mode  lockMode
	root  string
	guard *guardEntry
	via   string // provenance chain for diagnostics
	pos   token.Pos
	what  string
}

type callSite struct {
	fn     *ssa.Function
	instr  ssa.CallInstruction
	callee *ssa.Function
	held   map[string]lockMode
	may    map[string]lockMode
	isGo   bool
}

type lockAcq struct {
	fn    *ssa.Function
	pos   token.Pos
	lock  string
	class string
	mode  lockMode
	held  map[string]lockMode // may-held when acquiring
}

type blockSite struct {
	fn   *ssa.Function
	pos  token.Pos
	what string
	may  map[string]lockMode
}

type fnLocks struct {
	fn       *ssa.Function
	accesses []lockAccess
	calls    []callSite
	acqs     []lockAcq
	blocks   []blockSite
	pairing  []string // "lock|pos" may be held at a return without deferred release
	pairPos  []token.Pos
}

type lockAnalysis struct {
	p           *Prog
	guards      map[*types.Var]*guardEntry
	lockFld     map[*types.Var]string // mutex field → class name "Struct.field"
	fns         map[*ssa.Function]*fnLocks
	order       []*ssa.Function
	req         map[*ssa.Function][]lockReq
	mayBlock    map[*ssa.Function]string // function → description of a blocking op reachable inside (no lock needed)
	reach       map[*ssa.Function]bool
	roots       []*ssa.Function
	nLockFields int
	acqStar     map[*ssa.Function]map[classMode]string
	localFails  []localFail
	localSeen   map[string]bool
}

type localFail struct {
	fn     *ssa.Function
	pos    token.Pos
	req    lockReq
	lock   string
	callee *ssa.Function
}

func (p *Prog) locks() *lockAnalysis {
	if p.lockAn != nil {
		return p.lockAn
	}
	la := &lockAnalysis{localSeen: map[string]bool{}, p: p, guards: map[*types.Var]*guardEntry{}, lockFld: map[*types.Var]string{}, fns: map[*ssa.Function]*fnLocks{}, req: map[*ssa.Function][]lockReq{}, mayBlock: map[*ssa.Function]string{}, reach: map[*ssa.Function]bool{}}
	for i := range guardTable {
		g := &guardTable[i]
		if fv := p.Field(g.Rel, g.Struct, g.Field); fv != nil {
			la.guards[fv] = g
			g.fv = fv
		}
	}
	// lock classes: every sync.Mutex / sync.RWMutex field of repo structs
	for _, pk := range p.All {
		if isGeneratedPkg(pk.PkgPath) {
			continue
		}
		sc := pk.Types.Scope()
		for _, n := range sc.Names() {
			tn, ok := sc.Lookup(n).(*types.TypeName)
			if !ok {
				continue
			}
			st, ok := tn.Type().Underlying().(*types.Struct)
			if !ok {
				continue
			}
			for i := 0; i < st.NumFields(); i++ {
				f := st.Field(i)
				if isNamed(f.Type(), "sync", "Mutex") || isNamed(f.Type(), "sync", "RWMutex") {
					la.lockFld[f] = tn.Name() + "." + f.Name()
					la.nLockFields++
				}
			}
		}
	}
	// analyse every function of the lock-bearing packages
	for _, rel := range []string{"server", "rib", "client", "rib/reconciler", "fluent", "chk", "compliance", "device"} {
		sp := p.SSAPkgs[modPath+"/"+rel]
		if sp == nil {
			continue
		}
		var fns []*ssa.Function
		seen := map[*ssa.Function]bool{}
		var add func(f *ssa.Function)
		add = func(f *ssa.Function) {
			if f == nil || seen[f] || f.Blocks == nil {
				return
			}
			seen[f] = true
			fns = append(fns, f)
			for _, a := range f.AnonFuncs {
				add(a)
			}
		}
		for _, m := range sp.Members {
			switch x := m.(type) {
			case *ssa.Function:
				add(x)
			case *ssa.Type:
				for _, T := range []types.Type{x.Type(), types.NewPointer(x.Type())} {
					ms := p.SSA.MethodSets.MethodSet(T)
					for i := 0; i < ms.Len(); i++ {
						if fn := p.SSA.MethodValue(ms.At(i)); fn != nil && fn.Pkg == sp && fn.Synthetic == "" {
							add(fn)
						}
					}
				}
			}
		}
		sort.Slice(fns, func(i, j int) bool { return fns[i].String() < fns[j].String() })
		for _, f := range fns {
			la.fns[f] = la.analyseFn(f)
			la.order = append(la.order, f)
		}
	}
	la.computeReach()
	la.fixpoint()
	p.lockAn = la
	return la
}

// path renders the access path of an address/value.
func (la *lockAnalysis) path(v ssa.Value, depth int) string {
	if depth > 12 {
		return "…"
	}
	switch x := v.(type) {
	case *ssa.Parameter:
		return x.Name()
	case *ssa.FreeVar:
		return x.Name()
	case *ssa.Alloc:
		if x.Comment != "" {
			return x.Comment
		}
		return x.Name()
	case *ssa.FieldAddr:
		st := x.X.Type().Underlying().(*types.Pointer).Elem().Underlying().(*types.Struct)
		return la.path(x.X, depth+1) + "." + st.Field(x.Field).Name()
	case *ssa.Field:
		st := x.X.Type().Underlying().(*types.Struct)
		return la.path(x.X, depth+1) + "." + st.Field(x.Field).Name()
	case *ssa.UnOp:
		if x.Op == token.MUL {
			return la.path(x.X, depth+1)
		}
	case *ssa.IndexAddr:
		return la.path(x.X, depth+1) + "[]"
	case *ssa.Lookup:
		return la.path(x.X, depth+1) + "[]"
	case *ssa.Extract:
		return fmt.Sprintf("%s#%d", x.Tuple.Name(), x.Index)
	case *ssa.ChangeType:
		return la.path(x.X, depth+1)
	case *ssa.MakeInterface:
		return la.path(x.X, depth+1)
	case *ssa.Phi:
		// a phi of identical paths keeps the path
		var s string
		for i, e := range x.Edges {
			ps := la.path(e, depth+1)
			if i == 0 {
				s = ps
			} else if ps != s {
				return x.Name()
			}
		}
		return s
	}
	return v.Name()
}

func rootOf(path string) string {
	for i, r := range path {
		if r == '.' || r == '[' || r == '#' {
			return path[:i]
		}
	}
	return path
}

// guardFor walks the address chain of v looking for a guarded field; returns
// the guard, the required lock path and whether v is the field itself (not
// something reached through it).
func (la *lockAnalysis) guardFor(v ssa.Value) (*guardEntry, string, bool) {
	direct := true
	for depth := 0; depth < 16; depth++ {
		switch x := v.(type) {
		case *ssa.FieldAddr:
			st := x.X.Type().Underlying().(*types.Pointer).Elem().Underlying().(*types.Struct)
			fv := st.Field(x.Field)
			if g := la.guards[fv]; g != nil {
				if direct || g.Deep || g.ElemWrites {
					return g, la.path(x.X, 0) + "." + g.Lock, direct
				}
				return nil, "", false
			}
			direct = false
			v = x.X
		case *ssa.UnOp:
			if x.Op != token.MUL {
				return nil, "", false
			}
			// loading a pointer stored in a field: what lies behind it is "through" the field
			v = x.X
			if _, isFA := v.(*ssa.FieldAddr); isFA {
				// keep direct: Load(FieldAddr(guarded)) is a direct read of the field; callers decide
			}
		case *ssa.IndexAddr:
			direct = false
			v = x.X
		case *ssa.Lookup:
			direct = false
			v = x.X
		case *ssa.Field:
			direct = false
			v = x.X
		case *ssa.Extract:
			direct = false
			v = x.Tuple
		case *ssa.Call:
			// getters of generated structs: x.GetAfts() reaches into x
			if cf := calleeFunc(x); cf != nil && strings.HasPrefix(cf.Name(), "Get") && len(x.Call.Args) >= 1 && !x.Call.IsInvoke() {
				direct = false
				v = x.Call.Args[0]
			} else {
				return nil, "", false
			}
		case *ssa.ChangeType:
			v = x.X
		case *ssa.Phi:
			if len(x.Edges) == 0 {
				return nil, "", false
			}
			v = x.Edges[0]
		default:
			return nil, "", false
		}
	}
	return nil, "", false
}

// derivedThroughGuard: is value v (a pointer/map) obtained by loading a guarded field (or deeper)?
func (la *lockAnalysis) derivedFrom(v ssa.Value) (*guardEntry, string, bool) {
	return la.derivedFromV(v, map[ssa.Value]bool{})
}

func (la *lockAnalysis) derivedFromV(v ssa.Value, seen map[ssa.Value]bool) (*guardEntry, string, bool) {
	if seen[v] || len(seen) > 64 {
		return nil, "", false
	}
	seen[v] = true
	// v = Load(addr) where addr is/under a guarded field
	switch x := v.(type) {
	case *ssa.UnOp:
		if x.Op == token.MUL {
			g, l, direct := la.guardFor(x.X)
			return g, l, direct
		}
	case *ssa.FieldAddr, *ssa.IndexAddr, *ssa.Lookup, *ssa.Field:
		g, l, _ := la.guardFor(v)
		return g, l, false
	case *ssa.Phi:
		for _, e := range x.Edges {
			if g, l, d := la.derivedFromV(e, seen); g != nil {
				return g, l, d
			}
		}
	case *ssa.ChangeType:
		return la.derivedFromV(x.X, seen)
	case *ssa.Call:
		// getters of generated structs on a guarded structure: x.GetAfts() etc.
		if cf := calleeFunc(x); cf != nil && strings.HasPrefix(cf.Name(), "Get") && len(x.Call.Args) >= 1 {
			if g, l, _ := la.derivedFromV(x.Call.Args[0], seen); g != nil && g.Deep {
				return g, l, false
			}
		}
	}
	return nil, "", false
}

func copyHeld(m map[string]lockMode) map[string]lockMode {
	n := make(map[string]lockMode, len(m))
	for k, v := range m {
		n[k] = v
	}
	return n
}

func mutexOp(ci ssa.CallInstruction) (op string, addr ssa.Value) {
	cc := ci.Common()
	sc := cc.StaticCallee()
	if sc == nil || len(cc.Args) == 0 {
		return "", nil
	}
	f, ok := sc.Object().(*types.Func)
	if !ok || f.Pkg() == nil || f.Pkg().Path() != "sync" {
		return "", nil
	}
	rt := recvTypeName(f)
	if rt != "Mutex" && rt != "RWMutex" {
		return "", nil
	}
	switch f.Name() {
	case "Lock", "Unlock", "RLock", "RUnlock":
		return f.Name(), cc.Args[0]
	}
	return "", nil
}

func (la *lockAnalysis) lockClass(addr ssa.Value) string {
	if fa, ok := addr.(*ssa.FieldAddr); ok {
		st := fa.X.Type().Underlying().(*types.Pointer).Elem().Underlying().(*types.Struct)
		if n, ok := la.lockFld[st.Field(fa.Field)]; ok {
			return n
		}
	}
	return "?"
}

func (la *lockAnalysis) analyseFn(fn *ssa.Function) *fnLocks {
	fl := &fnLocks{fn: fn}
	type state struct {
		must, may map[string]lockMode
	}
	in := map[*ssa.BasicBlock]*state{}
	deferred := map[string]bool{}
	classOf := map[string]string{}
	// pre-pass: deferred unlocks
	for _, b := range fn.Blocks {
		for _, ins := range b.Instrs {
			if d, ok := ins.(*ssa.Defer); ok {
				if op, addr := mutexOp(d); op == "Unlock" || op == "RUnlock" {
					deferred[la.path(addr, 0)] = true
				}
			}
		}
	}
	if len(fn.Blocks) == 0 {
		return fl
	}
	in[fn.Blocks[0]] = &state{map[string]lockMode{}, map[string]lockMode{}}
	work := []*ssa.BasicBlock{fn.Blocks[0]}
	outMust := map[*ssa.BasicBlock]map[string]lockMode{}
	outMay := map[*ssa.BasicBlock]map[string]lockMode{}
	transfer := func(b *ssa.BasicBlock, st *state, record bool) (map[string]lockMode, map[string]lockMode) {
		must, may := copyHeld(st.must), copyHeld(st.may)
		for _, ins := range b.Instrs {
			switch x := ins.(type) {
			case *ssa.Defer:
				// handled in pre-pass; a deferred closure call is a call site executed at return
				if record {
					if sc := x.Call.StaticCallee(); sc != nil && sc.Blocks != nil {
						fl.calls = append(fl.calls, callSite{fn: fn, instr: x, callee: sc, held: copyHeld(must), may: copyHeld(may)})
					}
				}
				continue
			case *ssa.Go:
				if record {
					if sc := x.Call.StaticCallee(); sc != nil {
						fl.calls = append(fl.calls, callSite{fn: fn, instr: x, callee: sc, held: map[string]lockMode{}, may: map[string]lockMode{}, isGo: true})
					}
				}
				continue
			case *ssa.Call:
				if op, addr := mutexOp(x); op != "" {
					p := la.path(addr, 0)
					classOf[p] = la.lockClass(addr)
					switch op {
					case "Lock", "RLock":
						m := modeW
						if op == "RLock" {
							m = modeR
						}
						if record {
							fl.acqs = append(fl.acqs, lockAcq{fn: fn, pos: x.Pos(), lock: p, class: classOf[p], mode: m, held: copyHeld(may)})
						}
						must[p], may[p] = m, m
					default:
						delete(must, p)
						delete(may, p)
					}
					continue
				}
				if record {
					la.recordCall(fl, fn, x, must, may)
				}
			case *ssa.Send:
				if record {
					fl.blocks = append(fl.blocks, blockSite{fn: fn, pos: x.Pos(), what: "channel send on " + la.path(x.Chan, 0), may: copyHeld(may)})
				}
			case *ssa.UnOp:
				if x.Op == token.ARROW && record {
					fl.blocks = append(fl.blocks, blockSite{fn: fn, pos: x.Pos(), what: "channel receive from " + la.path(x.X, 0), may: copyHeld(may)})
				}
			case *ssa.Select:
				if record && x.Blocking {
					if len(x.States) == 1 {
						fl.blocks = append(fl.blocks, blockSite{fn: fn, pos: x.Pos(), what: "single-case select", may: copyHeld(may)})
					}
					// a blocking select with several cases is accepted when one case receives from a
					// stop/exit/done channel (chan struct{} or ctx.Done()): see E2 for deliverability
					if len(x.States) > 1 && !selectHasEscape(x) {
						fl.blocks = append(fl.blocks, blockSite{fn: fn, pos: x.Pos(), what: "select without a stop/exit case", may: copyHeld(may)})
					}
				}
			case *ssa.Return:
				if record {
					for p := range may {
						if !deferred[p] {
							fl.pairing = append(fl.pairing, p)
							fl.pairPos = append(fl.pairPos, x.Pos())
						}
					}
				}
			}
			if record {
				la.recordAccess(fl, fn, ins, must)
			}
		}
		return must, may
	}
	for len(work) > 0 {
		b := work[0]
		work = work[1:]
		m, y := transfer(b, in[b], false)
		outMust[b], outMay[b] = m, y
		for _, s := range b.Succs {
			ns := in[s]
			changed := false
			if ns == nil {
				ns = &state{copyHeld(m), copyHeld(y)}
				in[s] = ns
				changed = true
			} else {
				for k, v := range ns.must {
					if mv, ok := m[k]; !ok {
						delete(ns.must, k)
						changed = true
					} else if mv < v {
						ns.must[k] = mv
						changed = true
					}
				}
				for k, v := range y {
					if ov, ok := ns.may[k]; !ok || ov < v {
						ns.may[k] = v
						changed = true
					}
				}
			}
			if changed {
				work = append(work, s)
			}
		}
	}
	for _, b := range fn.Blocks {
		if st := in[b]; st != nil {
			transfer(b, st, true)
		}
	}
	return fl
}

func selectHasEscape(s *ssa.Select) bool {
	for _, st := range s.States {
		if st.Dir != types.RecvOnly {
			continue
		}
		ch, ok := st.Chan.Type().Underlying().(*types.Chan)
		if !ok {
			continue
		}
		if s, ok := ch.Elem().Underlying().(*types.Struct); ok && s.NumFields() == 0 {
			return true
		}
	}
	return false
}

func (la *lockAnalysis) recordCall(fl *fnLocks, fn *ssa.Function, x *ssa.Call, must, may map[string]lockMode) {
	cc := x.Common()
	if sc := cc.StaticCallee(); sc != nil {
		if o := sc.Origin(); o != nil && sc.Blocks == nil {
			sc = o
		}
		fl.calls = append(fl.calls, callSite{fn: fn, instr: x, callee: sc, held: copyHeld(must), may: copyHeld(may)})
		// blocking library calls
		if f, ok := sc.Object().(*types.Func); ok && f.Pkg() != nil && f.Pkg().Path() == "sync" {
			if (recvTypeName(f) == "WaitGroup" || recvTypeName(f) == "Cond") && f.Name() == "Wait" {
				fl.blocks = append(fl.blocks, blockSite{fn: fn, pos: x.Pos(), what: "sync." + recvTypeName(f) + ".Wait", may: copyHeld(may)})
			}
		}
		// passing a guarded structure to a function outside the repo's lock-aware code
		if sc.Blocks == nil || !isRepoPkg(pkgOf(sc)) || isGeneratedPkg(pkgOf(sc).Path()) {
			for _, a := range cc.Args {
				if g, l, _ := la.derivedFrom(a); g != nil && g.Deep {
					write := false
					if f, ok := sc.Object().(*types.Func); ok {
						if f.Name() == "MergeStructInto" || strings.HasPrefix(f.Name(), "GetOrCreate") || strings.HasPrefix(f.Name(), "Delete") || strings.HasPrefix(f.Name(), "Append") || strings.HasPrefix(f.Name(), "New") {
							write = true
						}
					}
					fl.accesses = append(fl.accesses, lockAccess{fn: fn, pos: x.Pos(), guard: g, lock: l, write: write, what: "call " + sc.Name() + " on the guarded structure", held: copyHeld(must), rooted: rootIfParam(fn, l)})
					break
				}
			}
		}
		return
	}
	// dynamic call (function value / interface): resolved later through the call graph when needed
	fl.calls = append(fl.calls, callSite{fn: fn, instr: x, callee: nil, held: copyHeld(must), may: copyHeld(may)})
}

func pkgOf(f *ssa.Function) *types.Package {
	if f.Pkg != nil {
		return f.Pkg.Pkg
	}
	if o := f.Object(); o != nil {
		return o.Pkg()
	}
	return nil
}

func rootIfParam(fn *ssa.Function, lockPath string) string {
	r := rootOf(lockPath)
	for _, p := range fn.Params {
		if p.Name() == r {
			return r
		}
	}
	for _, fv := range fn.FreeVars {
		if fv.Name() == r {
			return r
		}
	}
	return ""
}

func (la *lockAnalysis) recordAccess(fl *fnLocks, fn *ssa.Function, ins ssa.Instruction, must map[string]lockMode) {
	add := func(g *guardEntry, lock string, write bool, what string) {
		fl.accesses = append(fl.accesses, lockAccess{fn: fn, pos: ins.Pos(), guard: g, lock: lock, write: write, what: what, held: copyHeld(must), rooted: rootIfParam(fn, lock)})
	}
	switch x := ins.(type) {
	case *ssa.Store:
		if g, l, direct := la.guardFor(x.Addr); g != nil && (direct || g.Deep || g.ElemWrites) {
			add(g, l, true, "store to "+la.path(x.Addr, 0))
		}
	case *ssa.UnOp:
		if x.Op == token.MUL {
			if g, l, direct := la.guardFor(x.X); g != nil && (direct || g.Deep) {
				if direct && g.Deep && la.p.fieldWriteOnce(g.fv) {
					// the pointer itself is set once by the constructor; only what lies behind it is guarded
					break
				}
				add(g, l, false, "load of "+la.path(x.X, 0))
			}
		}
	case *ssa.MapUpdate:
		if g, l, _ := la.derivedFrom(x.Map); g != nil {
			add(g, l, true, "map update of "+la.path(x.Map, 0))
		}
	case *ssa.Lookup:
		if g, l, _ := la.derivedFrom(x.X); g != nil {
			add(g, l, false, "map/index lookup in "+la.path(x.X, 0))
		}
	case *ssa.Range:
		if g, l, _ := la.derivedFrom(x.X); g != nil {
			add(g, l, false, "range over "+la.path(x.X, 0))
		}
	case *ssa.Call:
		if b, ok := x.Call.Value.(*ssa.Builtin); ok {
			switch b.Name() {
			case "delete":
				if g, l, _ := la.derivedFrom(x.Call.Args[0]); g != nil {
					add(g, l, true, "delete from "+la.path(x.Call.Args[0], 0))
				}
			case "len", "cap":
				if g, l, _ := la.derivedFrom(x.Call.Args[0]); g != nil {
					add(g, l, false, "len of "+la.path(x.Call.Args[0], 0))
				}
			case "append":
				// reading the slice being appended to
				if g, l, _ := la.derivedFrom(x.Call.Args[0]); g != nil {
					add(g, l, false, "append to "+la.path(x.Call.Args[0], 0))
				}
			}
		}
	}
}

// fresh reports whether the lock path's root is an object allocated in fn itself (constructor).
func freshIn(fn *ssa.Function, lockPath string) bool {
	r := rootOf(lockPath)
	for _, b := range fn.Blocks {
		for _, ins := range b.Instrs {
			if a, ok := ins.(*ssa.Alloc); ok && a.Heap {
				if a.Name() == r || a.Comment == r {
					return true
				}
			}
		}
	}
	return false
}

func (la *lockAnalysis) computeReach() {
	var roots []*ssa.Function
	for _, r := range threadRoots {
		if fi := la.p.Func(r.Rel, r.Recv, r.Name); fi != nil && fi.SSA != nil {
			roots = append(roots, fi.SSA)
		}
	}
	la.roots = roots
	cg := la.p.callGraph()
	var visit func(f *ssa.Function)
	visit = func(f *ssa.Function) {
		if f == nil || la.reach[f] {
			return
		}
		la.reach[f] = true
		for _, a := range f.AnonFuncs {
			visit(a)
		}
		if n := cg.g.Nodes[f]; n != nil {
			for _, e := range n.Out {
				if isRepoPkg(pkgOf(e.Callee.Func)) {
					visit(e.Callee.Func)
				}
			}
		}
	}
	for _, r := range roots {
		visit(r)
	}
}

// substitute maps a callee-relative lock path into the caller's frame.
func (la *lockAnalysis) substitute(cs callSite, lockPath string) (string, bool) {
	root := rootOf(lockPath)
	rest := strings.TrimPrefix(lockPath, root)
	callee := cs.callee
	args := cs.instr.Common().Args
	for i, p := range callee.Params {
		if p.Name() == root && i < len(args) {
			return la.path(args[i], 0) + rest, true
		}
	}
	for _, fv := range callee.FreeVars {
		if fv.Name() == root {
			return lockPath, true // free variables are matched by name
		}
	}
	return lockPath, false
}

func (la *lockAnalysis) fixpoint() {
	// local requirements
	for _, f := range la.order {
		fl := la.fns[f]
		for _, a := range fl.accesses {
			need := modeR
			if a.write {
				need = modeW
			}
			if m, ok := a.held[a.lock]; ok && m >= need {
				continue
			}
			if _, ok := a.held[a.lock]; ok {
				continue // held in the wrong mode: reported locally, not a requirement
			}
			if a.rooted != "" {
				la.req[f] = append(la.req[f], lockReq{lock: a.lock, mode: need, root: a.rooted, guard: a.guard, via: f.String(), pos: a.pos, what: a.what})
			}
		}
	}
	// propagate through call sites until stable
	for iter := 0; iter < 12; iter++ {
		changed := false
		for _, f := range la.order {
			fl := la.fns[f]
			for _, cs := range fl.calls {
				if cs.callee == nil || cs.isGo {
					continue
				}
				for _, r := range la.req[cs.callee] {
					lp, ok := la.substitute(cs, r.lock)
					if !ok {
						continue
					}
					if m, held := cs.held[lp]; held && m >= r.mode {
						continue
					}
					if _, held := cs.held[lp]; held {
						continue // wrong mode at the call site: reported there
					}
					root := rootIfParam(f, lp)
					if root == "" {
						// the callee's requirement lands on an object that is local to f: nobody further up can hold it
						if !freshIn(f, lp) {
							key := fmt.Sprintf("%p|%s|%d", f, lp, r.pos)
							if !la.localSeen[key] {
								la.localSeen[key] = true
								la.localFails = append(la.localFails, localFail{fn: f, pos: cs.instr.Pos(), req: r, lock: lp, callee: cs.callee})
							}
						}
						continue
					}
					nr := lockReq{lock: lp, mode: r.mode, root: root, guard: r.guard, via: f.String() + " → " + r.via, pos: r.pos, what: r.what}
					dup := false
					for _, e := range la.req[f] {
						if e.lock == nr.lock && e.mode == nr.mode && e.pos == nr.pos {
							dup = true
						}
					}
					if !dup {
						la.req[f] = append(la.req[f], nr)
						changed = true
					}
				}
			}
		}
		if !changed {
			break
		}
	}
	// may-block summaries (a bare channel op or Wait reachable without crossing a `go`)
	for iter := 0; iter < 12; iter++ {
		changed := false
		for _, f := range la.order {
			if _, ok := la.mayBlock[f]; ok {
				continue
			}
			fl := la.fns[f]
			if len(fl.blocks) > 0 {
				la.mayBlock[f] = fl.blocks[0].what + " in " + f.String()
				changed = true
				continue
			}
			for _, cs := range fl.calls {
				if cs.callee == nil || cs.isGo {
					continue
				}
				if _, isDefer := cs.instr.(*ssa.Defer); isDefer {
					continue
				}
				if w, ok := la.mayBlock[cs.callee]; ok {
					la.mayBlock[f] = w
					changed = true
					break
				}
			}
		}
		if !changed {
			break
		}
	}
}

func relOfFn(f *ssa.Function) string {
	if pk := pkgOf(f); pk != nil {
		return strings.TrimPrefix(pk.Path(), modPath+"/")
	}
	return ""
}

func fnDisplay(f *ssa.Function) string {
	if d := declaredOf(f); d != nil {
		n := displayName(d)
		if f.Parent() != nil {
			return n + "$closure"
		}
		return n
	}
	return f.String()
}

func classOfGuard(g *guardEntry) string { return g.Struct + "." + g.Lock }

func wantClass(sel lockSel, class string) bool {
	if len(sel.classes) == 0 {
		return true
	}
	for _, c := range sel.classes {
		if c == class {
			return true
		}
	}
	return false
}

func wantPkg(sel lockSel, f *ssa.Function) bool {
	if len(sel.pkgs) == 0 {
		return true
	}
	r := relOfFn(f)
	for _, p := range sel.pkgs {
		if p == r {
			return true
		}
	}
	return false
}

// pairingSuppress: named suppressions (DESIGN.md §3 C11 R11.3).
var pairingSuppress = map[string]string{
	"LOCK-PAIRING / rib.(*RIB).copyRIBs / return holding RIBHolder.mu": "returns with niR.mu read-held only if ygot.DeepCopy of an installed, schema-valid RIB errors; no input that makes DeepCopy fail can be exhibited, so this is neither a finding nor a fix",
}

// ruleLockDiscipline emits the E1 obligations selected by sel.
func ruleLockDiscipline(c *Ctx, sel lockSel) {
	la := c.P.locks()
	c.Assume = append(c.Assume,
		"mutexes are the only synchronisation considered for the guarded fields (Go memory model)",
		"lock instances are identified by access path (receiver/parameter/local + field chain); fields holding lock-bearing structs are not reassigned while in use",
		"the call graph (static calls + VTA for dynamic ones) over-approximates the calls reachable from the thread roots",
		"reflection-based dependencies (ygot, protomap) do not touch Server/RIB/Client fields")
	if la.nLockFields < 12 {
		c.vanished("LOCK-CLASSES", "repo", "mutex fields", fmt.Sprintf("found %d mutex fields in repo structs, confirmed floor is 12", la.nLockFields))
	}
	counts := map[string]int{}
	under := map[string]int{}
	for _, f := range la.order {
		if !la.reach[f] {
			continue
		}
		fl := la.fns[f]
		c.Analysed[fnDisplay(f)] = true
		// guarded-by: local violations
		if !sel.noGuarded {
			for _, a := range fl.accesses {
				class := classOfGuard(a.guard)
				if !wantClass(sel, class) || !wantPkg(sel, f) {
					continue
				}
				c.Sites++
				key := a.guard.Struct + "." + a.guard.Field
				counts[key]++
				need := modeR
				if a.write {
					need = modeW
				}
				m, held := a.held[a.lock]
				switch {
				case held && m >= need:
					under[key]++
				case held:
					c.fail("GUARDED-BY", fnDisplay(f), fmt.Sprintf("write of %s under read lock", key), c.P.pos(a.pos),
						fmt.Sprintf("%s needs %s held exclusively, but it is only read-locked here (%s): concurrent sections can interleave their read-compare-write", a.what, class, a.lock))
				case a.rooted != "":
					// requirement on callers: judged at the roots below
				case freshIn(f, a.lock):
					under[key]++ // constructor: object not shared yet
				default:
					c.fail("GUARDED-BY", fnDisplay(f), fmt.Sprintf("unlocked access to %s", key), c.P.pos(a.pos),
						fmt.Sprintf("%s without holding %s (%s)", a.what, class, a.lock))
				}
			}
		}
		// pairing
		if sel.pairing {
			seen := map[string]bool{}
			for i, lp := range fl.pairing {
				cls := "?"
				for _, a := range fl.acqs {
					if a.lock == lp {
						cls = a.class
					}
				}
				if !wantClass(sel, cls) || !wantPkg(sel, f) || seen[cls] {
					continue
				}
				seen[cls] = true
				key := "LOCK-PAIRING / " + fnDisplay(f) + " / return holding " + cls
				if why, ok := pairingSuppress[key]; ok {
					c.Suppress = append(c.Suppress, key+": "+why)
					continue
				}
				c.fail("LOCK-PAIRING", fnDisplay(f), "return holding "+cls, c.P.pos(fl.pairPos[i]), "a return is reachable with "+lp+" still held and no deferred release: every later acquirer blocks forever")
			}
		}
		// blocking under lock
		if sel.blocking && wantPkg(sel, f) {
			for _, b := range fl.blocks {
				for lp, m := range b.may {
					cls := "?"
					for _, a := range fl.acqs {
						if a.lock == lp {
							cls = a.class
						}
					}
					if !wantClass(sel, cls) {
						continue
					}
					c.Sites++
					c.fail("BLOCK-UNDER-LOCK", fnDisplay(f), fmt.Sprintf("%s while holding %s(%s)", stripPath(b.what), cls, m), c.P.pos(b.pos),
						fmt.Sprintf("%s with %s held (%s): if the counterpart never arrives the lock is never released", b.what, lp, m))
				}
			}
			for _, cs := range fl.calls {
				if cs.callee == nil || cs.isGo || len(cs.may) == 0 {
					continue
				}
				if _, isDefer := cs.instr.(*ssa.Defer); isDefer {
					continue
				}
				if w, ok := la.mayBlock[cs.callee]; ok {
					for lp, m := range cs.may {
						cls := "?"
						for _, a := range fl.acqs {
							if a.lock == lp {
								cls = a.class
							}
						}
						if !wantClass(sel, cls) {
							continue
						}
						c.Sites++
						c.fail("BLOCK-UNDER-LOCK", fnDisplay(f), fmt.Sprintf("call %s while holding %s(%s)", cs.callee.Name(), cls, m), c.P.pos(cs.instr.Pos()),
							fmt.Sprintf("calls %s, which may block (%s), with %s held", cs.callee.Name(), w, lp))
					}
				}
			}
		}
	}
	if !sel.noGuarded {
		for _, lf := range la.localFails {
			class := classOfGuard(lf.req.guard)
			if !la.reach[lf.fn] || !wantClass(sel, class) || !wantPkg(sel, lf.fn) {
				continue
			}
			c.fail("GUARDED-BY", fnDisplay(lf.fn), fmt.Sprintf("call %s without %s", lf.callee.Name(), class), c.P.pos(lf.pos),
				fmt.Sprintf("%s (in %s) needs %s (%s) in mode %s, which is not held at this call and cannot be held by callers", lf.req.what, shortVia(lf.req.via), class, lf.lock, lf.req.mode))
		}
	}
	// censuses of what was examined (a rule that examined nothing must not pass silently)
	if sel.blocking {
		nOps, nCalls, nFns := 0, 0, 0
		for _, f := range la.order {
			if !la.reach[f] || !wantPkg(sel, f) {
				continue
			}
			nFns++
			nOps += len(la.fns[f].blocks)
			for _, cs := range la.fns[f].calls {
				if len(cs.may) > 0 && !cs.isGo {
					nCalls++
				}
			}
		}
		if nOps == 0 {
			c.vanished("BLOCK-UNDER-LOCK", "census", "channel operations", "no potentially blocking channel operation found in the analysed packages")
		} else {
			c.ok("BLOCK-UNDER-LOCK", "census", "channel operations", "-", fmt.Sprintf("%d potentially blocking operations (bare sends/receives, selects without a stop case, Wait) in %d functions reachable from the thread roots and %d call sites made with a lock held were examined; none blocks under a lock of the selected classes", nOps, nFns, nCalls))
		}
	}
	if sel.pairing {
		nAcq := 0
		for _, f := range la.order {
			if la.reach[f] && wantPkg(sel, f) {
				for _, a := range la.fns[f].acqs {
					if wantClass(sel, a.class) {
						nAcq++
					}
				}
			}
		}
		if nAcq == 0 {
			c.vanished("LOCK-PAIRING", "census", "acquisitions", "no lock acquisition of the selected classes found")
		} else {
			c.ok("LOCK-PAIRING", "census", "acquisitions", "-", fmt.Sprintf("%d acquisitions examined: every return is reached with the lock released or a deferred release pending (suppressions: %d)", nAcq, len(c.Suppress)))
		}
	}
	// requirements surviving at the thread roots and at goroutine bodies
	if !sel.noGuarded {
		for _, f := range la.order {
			if !la.reach[f] {
				continue
			}
			isEntry := false
			for _, r := range la.roots {
				if r == f {
					isEntry = true
				}
			}
			if f.Parent() != nil && la.isGoBody(f) {
				isEntry = true
			}
			if !isEntry {
				continue
			}
			for _, r := range la.req[f] {
				class := classOfGuard(r.guard)
				if !wantClass(sel, class) {
					continue
				}
				c.fail("GUARDED-BY", fnDisplay(f), fmt.Sprintf("unlocked access to %s.%s via %s", r.guard.Struct, r.guard.Field, shortVia(r.via)), c.P.pos(r.pos),
					fmt.Sprintf("%s is reached from thread entry %s without %s (%s) held in mode %s: call chain %s", r.what, fnDisplay(f), class, r.lock, r.mode, r.via))
			}
		}
		var keys []string
		for k := range counts {
			keys = append(keys, k)
		}
		sort.Strings(keys)
		tot := 0
		for _, k := range keys {
			tot += counts[k]
			c.ok("GUARDED-BY", "census", k, "-", fmt.Sprintf("%d access sites reachable from the thread roots, %d under the guard at the site (the rest are discharged by callers' locksets or reported)", counts[k], under[k]))
		}
		if len(sel.classes) == 0 && tot < 40 {
			c.vanished("GUARDED-BY", "census", "access sites", fmt.Sprintf("only %d guarded access sites found, floor 40", tot))
		}
	}
}

func stripPath(s string) string {
	// drop the concrete channel path for a position-free key
	if i := strings.Index(s, " on "); i >= 0 {
		return s[:i] + " on " + lastSeg(s[i+4:])
	}
	if i := strings.Index(s, " from "); i >= 0 {
		return s[:i] + " from " + lastSeg(s[i+6:])
	}
	return s
}

func lastSeg(p string) string {
	if i := strings.LastIndex(p, "."); i >= 0 {
		return p[i+1:]
	}
	return p
}

func shortVia(v string) string {
	parts := strings.Split(v, " → ")
	return parts[len(parts)-1]
}

func (la *lockAnalysis) isGoBody(f *ssa.Function) bool {
	for _, g := range la.order {
		for _, cs := range la.fns[g].calls {
			if cs.isGo && cs.callee == f {
				return true
			}
		}
	}
	return false
}

// ---- lock order ------------------------------------------------------------------

type orderEdge struct {
	from, to         string // lock classes
	fromMode, toMode lockMode
	fn               *ssa.Function
	pos              token.Pos
	via              string
}

type classMode struct {
	class string
	mode  lockMode
}

// acqClosure computes, per function, the lock classes it may acquire itself or
// in callees (not crossing `go`).
func (la *lockAnalysis) acqClosure() map[*ssa.Function]map[classMode]string {
	if la.acqStar != nil {
		return la.acqStar
	}
	res := map[*ssa.Function]map[classMode]string{}
	for _, f := range la.order {
		m := map[classMode]string{}
		for _, a := range la.fns[f].acqs {
			m[classMode{a.class, a.mode}] = fnDisplay(f)
		}
		res[f] = m
	}
	for iter := 0; iter < 16; iter++ {
		changed := false
		for _, f := range la.order {
			for _, cs := range la.fns[f].calls {
				if cs.isGo {
					continue
				}
				for _, callee := range la.calleesOf(cs) {
					for cm, via := range res[callee] {
						if _, ok := res[f][cm]; !ok {
							res[f][cm] = fnDisplay(f) + " → " + via
							changed = true
						}
					}
				}
			}
		}
		if !changed {
			break
		}
	}
	la.acqStar = res
	return res
}

// calleesOf resolves a call site to analysed functions (static callee, or VTA for dynamic calls).
func (la *lockAnalysis) calleesOf(cs callSite) []*ssa.Function {
	if cs.callee != nil {
		if la.fns[cs.callee] != nil {
			return []*ssa.Function{cs.callee}
		}
		return nil
	}
	var out []*ssa.Function
	if n := la.p.callGraph().g.Nodes[cs.fn]; n != nil {
		for _, e := range n.Out {
			if e.Site != cs.instr {
				continue
			}
			if la.fns[e.Callee.Func] != nil {
				out = append(out, e.Callee.Func)
				continue
			}
			// a synthetic wrapper (bound method value, thunk) is not analysed itself: what it calls is
			out = append(out, la.throughWrapper(e.Callee.Func, 0)...)
		}
	}
	return out
}

// throughWrapper: the analysed functions a synthetic wrapper forwards to (r.checkFn stored as a method
// value is called through rib.(*RIB).checkFn$bound).
func (la *lockAnalysis) throughWrapper(f *ssa.Function, depth int) []*ssa.Function {
	if f == nil || f.Synthetic == "" || depth > 2 {
		return nil
	}
	var out []*ssa.Function
	for _, b := range f.Blocks {
		for _, in := range b.Instrs {
			call, ok := in.(ssa.CallInstruction)
			if !ok {
				continue
			}
			if sc := call.Common().StaticCallee(); sc != nil {
				if la.fns[sc] != nil {
					out = append(out, sc)
				} else {
					out = append(out, la.throughWrapper(sc, depth+1)...)
				}
			}
		}
	}
	return out
}

// reachFrom computes the analysed functions reachable from the given roots
// (following calls and `go` statements and nested closures).
func (la *lockAnalysis) reachFrom(roots []*ssa.Function) map[*ssa.Function]bool {
	seen := map[*ssa.Function]bool{}
	var visit func(f *ssa.Function)
	visit = func(f *ssa.Function) {
		if f == nil || seen[f] || la.fns[f] == nil {
			return
		}
		seen[f] = true
		for _, cs := range la.fns[f].calls {
			for _, callee := range la.calleesOf(cs) {
				visit(callee)
			}
			if cs.isGo && cs.callee != nil {
				visit(cs.callee)
			}
		}
	}
	for _, r := range roots {
		visit(r)
	}
	return seen
}

func (la *lockAnalysis) edgesIn(reach map[*ssa.Function]bool) []orderEdge {
	acq := la.acqClosure()
	var out []orderEdge
	classOfPath := func(fl *fnLocks, lp string) string {
		for _, a := range fl.acqs {
			if a.lock == lp {
				return a.class
			}
		}
		return "?"
	}
	for _, f := range la.order {
		if !reach[f] {
			continue
		}
		fl := la.fns[f]
		for _, a := range fl.acqs {
			for hp, hm := range a.held {
				// (the lock's own path in the may-held set at its acquisition: held from an earlier iteration of a
				// loop — another instance of the class, or the same one again — both are nested same-class locking)
				out = append(out, orderEdge{classOfPath(fl, hp), a.class, hm, a.mode, f, a.pos, fnDisplay(f)})
			}
		}
		for _, cs := range fl.calls {
			if cs.isGo || len(cs.may) == 0 {
				continue
			}
			for _, callee := range la.calleesOf(cs) {
				for cm, via := range acq[callee] {
					for hp, hm := range cs.may {
						out = append(out, orderEdge{classOfPath(fl, hp), cm.class, hm, cm.mode, f, cs.instr.Pos(), fnDisplay(f) + " → " + via})
					}
				}
			}
		}
	}
	return out
}

type mhpGroup struct {
	name  string
	roots [][3]string
}

// The frozen MHP table (DESIGN.md §2 E1.3).
var mhpGroups = []mhpGroup{
	{"server RPCs (any number of Modify, Get, Flush concurrently)", [][3]string{{"server", "Server", "Modify"}, {"server", "Server", "Get"}, {"server", "Server", "Flush"}}},
	{"client data plane (Q, AwaitConverged, Pending, Results, Status, AckResult and the sender/receiver goroutines)", [][3]string{{"client", "Client", "Q"}, {"client", "Client", "AwaitConverged"}, {"client", "Client", "Pending"}, {"client", "Client", "Results"}, {"client", "Client", "Status"}, {"client", "Client", "AckResult"}, {"client", "Client", "Connect"}}},
	{"client Reset while the application keeps queueing", [][3]string{{"client", "Client", "Reset"}, {"client", "Client", "Q"}}},
	{"client Close while the application keeps queueing", [][3]string{{"client", "Client", "Close"}, {"client", "Client", "Q"}}},
	{"client StartSending while the application keeps queueing", [][3]string{{"client", "Client", "StartSending"}, {"client", "Client", "Q"}}},
}

// ruleLockOrder reports lock-order cycles inside each MHP group.
func ruleLockOrder(c *Ctx, groupPrefix string) {
	const rule = "LOCK-ORDER"
	la := c.P.locks()
	for _, g := range mhpGroups {
		if !strings.HasPrefix(g.name, groupPrefix) {
			continue
		}
		var roots []*ssa.Function
		for _, r := range g.roots {
			if fi := c.P.Func(r[0], r[1], r[2]); fi != nil && fi.SSA != nil {
				roots = append(roots, fi.SSA)
				if r[2] == "Connect" {
					// only its goroutines run concurrently with the data plane
					roots = roots[:len(roots)-1]
					for _, cs := range la.fns[fi.SSA].calls {
						if cs.isGo && cs.callee != nil {
							roots = append(roots, cs.callee)
						}
					}
				}
			}
		}
		reach := la.reachFrom(roots)
		edges := la.edgesIn(reach)
		// W acquirers per class inside the group
		hasW := map[string]bool{}
		for f := range reach {
			for _, a := range la.fns[f].acqs {
				if a.mode == modeW {
					hasW[a.class] = true
				}
			}
		}
		adj := map[string][]orderEdge{}
		nEdges := 0
		var dropped []string
		for _, e := range edges {
			if e.toMode == modeR && !hasW[e.to] {
				dropped = append(dropped, fmt.Sprintf("%s(%s)→%s(R) at %s: no exclusive acquirer of %s is reachable in this group, a read acquisition cannot block", e.from, e.fromMode, e.to, e.via, e.to))
				continue
			}
			adj[e.from] = append(adj[e.from], e)
			nEdges++
		}
		c.Sites += len(edges)
		if os.Getenv("GRIBILINT_DEBUG_EDGES") != "" {
			for f := range la.fns {
				if strings.Contains(f.Name(), "Removable") || f.Name() == "canDelete" || f.Name() == "DeleteNextHopGroup" {
					fmt.Fprintf(os.Stderr, "FN %s reach=%v acqs=%d calls=%d\n", f.String(), reach[f], len(la.fns[f].acqs), len(la.fns[f].calls))
				}
			}
			for _, e := range edges {
				fmt.Fprintf(os.Stderr, "EDGE [%s] %s(%s)→%s(%s) via %s\n", g.name, e.from, e.fromMode, e.to, e.toMode, e.via)
			}
		}
		// self loops
		bad := 0
		for cls, es := range adj {
			for _, e := range es {
				if e.to == cls {
					if ok, why := sameClassNestingOK(c, e); ok {
						c.note("lock order: nested acquisition of %s at %s accepted: %s", cls, e.via, why)
					} else {
						bad++
						c.fail(rule, fnDisplay(e.fn), "nested "+cls, c.P.pos(e.pos), "acquires "+cls+" while already holding a lock of that class (the same instance again — a recursive read lock deadlocks behind a pending writer — or a second instance without a fixed instance order): "+why)
					}
				}
			}
		}
		// simple cycles over distinct classes (DFS)
		var classes []string
		for cls := range adj {
			classes = append(classes, cls)
		}
		sort.Strings(classes)
		reported := map[string]bool{}
		var dfs func(start, cur string, path []orderEdge, seen map[string]bool)
		dfs = func(start, cur string, path []orderEdge, seen map[string]bool) {
			for _, e := range adj[cur] {
				if e.to == cur {
					continue
				}
				if e.to == start && len(path) >= 1 {
					cyc := append(append([]orderEdge(nil), path...), e)
					var names []string
					allR := true
					for _, ce := range cyc {
						names = append(names, ce.from)
						if ce.fromMode == modeW || ce.toMode == modeW {
							allR = false
						}
					}
					sort.Strings(names)
					key := strings.Join(names, "↔")
					if reported[key] {
						continue
					}
					reported[key] = true
					var desc []string
					for _, ce := range cyc {
						desc = append(desc, fmt.Sprintf("%s(%s)→%s(%s) in %s", ce.from, ce.fromMode, ce.to, ce.toMode, ce.via))
					}
					if allR {
						c.note("lock order [%s]: read-only cycle %s — can deadlock only with a writer pending on every lock of the cycle at once; recorded, not reported: %s", g.name, key, strings.Join(desc, "; "))
					} else {
						bad++
						c.fail(rule, "group: "+g.name, "cycle "+key, c.P.pos(e.pos), "lock-order cycle among code that may run concurrently: "+strings.Join(desc, "; "))
					}
					continue
				}
				if seen[e.to] {
					continue
				}
				seen[e.to] = true
				dfs(start, e.to, append(path, e), seen)
				delete(seen, e.to)
			}
		}
		for _, s := range classes {
			dfs(s, s, nil, map[string]bool{s: true})
		}
		for _, d := range dropped {
			c.note("lock order [%s]: edge dropped: %s", g.name, d)
		}
		if bad == 0 {
			c.ok(rule, "group: "+g.name, "acyclic", "-", fmt.Sprintf("%d functions reachable, %d blocking order edges over %d lock classes, no cycle with an exclusive acquisition", len(reach), nEdges, len(classes)))
		}
	}
}

// sameClassNestingOK: nested RIBHolder.mu acquisition is accepted only in
// RIB.Flush and only if every caller passes a single name or the sorted list
// from KnownNetworkInstances().
func sameClassNestingOK(c *Ctx, e orderEdge) (bool, string) {
	d := declaredOf(e.fn)
	if d == nil || d.Name() != "Flush" || recvTypeName(d) != "RIB" {
		return false, "only RIB.Flush is audited for nested same-class locking"
	}
	cg := c.P.callGraph()
	for _, caller := range cg.callersOf(d) {
		fi := c.P.infoFor(caller)
		if fi == nil {
			return false, "caller " + caller.FullName() + " not analysable"
		}
		info := fi.Pkg.TypesInfo
		ok := true
		why := ""
		for _, call := range callsIn(fi.Decl.Body) {
			if calleeObj(info, call) != d || len(call.Args) != 1 {
				continue
			}
			v, isVar := objOfIdent(info, call.Args[0]).(*types.Var)
			if !isVar {
				ok, why = false, "argument is not a local variable"
				continue
			}
			// every assignment to v
			ast_inspectAssign(info, fi, v, func(rhs string, good bool) {
				if !good {
					ok, why = false, "instance list assigned from "+rhs
				}
			})
		}
		if !ok {
			return false, "caller " + displayName(caller) + ": " + why
		}
	}
	return true, "every caller passes a single instance name or the sorted KnownNetworkInstances() list, so all flushes lock instances in one global order"
}
