package main

// C05 — primary = highest 128-bit election id; reported id is the running maximum.

import (
	"fmt"
	"go/ast"
	"go/token"
	"go/types"
	"strings"
)

func init() { propRules["C05"] = rulesC05 }

func rulesC05(c *Ctx) {
	c.Decided = append(c.Decided,
		"R5.1 isNewMaster's decision table equals lexicographic (high word first) comparison on all 18 order-type classes of id pairs; every uint128.New in the repository takes (x.Low, x.High) of one x; no stray word comparisons of election ids elsewhere",
		"R5.2 the election compare-and-set (read of the current id, both writes, read for the reply) lies in one exclusive section of the election lock; every write of the election state holds it exclusively",
		"R5.3/R5.5 runElection's decision table: the reply carries the stored id read after the update; the stores happen only on the new-master branch and store the announced id and the announcing session; rejected announcements have no effect",
		"R5.4 the election state is written only by runElection (test injector exempt by name)")
	c.NotDec = append(c.NotDec, "the running-maximum property over concrete histories follows by induction from R5.1+R5.2+R5.5 (argument in DESIGN.md); the induction itself is not mechanised")
	ruleIsNewMaster(c, "C05")
	ruleUint128Sites(c)
	ruleRunElectionTable(c)
	ruleStoreClientElectionID(c)
	ruleDispatchTable(c) // every announcement on the stream reaches runElection (none is answered from a cache)
	ruleElectionWriters(c)
	ruleStateWriters(c, append(append([]writerRow{}, writersServerElection...), writersServerSession...))
	ruleLockDiscipline(c, lockSel{classes: []string{"Server.elecMu"}})
	ruleElectionAtomic(c)
}

// ordOf reads the order of term a relative to term b from a valuation.
func ordOf(v *Valuation, a, b string) int {
	key, flipped := orderAtom(a, b)
	o := v.Ord(key)
	if flipped {
		return -o
	}
	return o
}

func paramName(fi *FuncInfo, i int) string {
	ps := paramObjs(fi.Pkg.TypesInfo, fi.Decl)
	if i < len(ps) && ps[i] != nil {
		return ps[i].Name()
	}
	return fmt.Sprintf("?param%d", i)
}

func recvName(fi *FuncInfo) string {
	if o := recvObj(fi.Pkg.TypesInfo, fi.Decl); o != nil {
		return o.Name()
	}
	return "?recv"
}

func ruleIsNewMaster(c *Ctx, prop string) {
	fi := c.need("server", "", "isNewMaster")
	if fi == nil {
		return
	}
	cand, exist := paramName(fi, 0), paramName(fi, 1)
	aNil := eqAtom(exist, "nil")
	aHi, _ := orderAtom(cand+".High", exist+".High")
	aLo, _ := orderAtom(cand+".Low", exist+".Low")
	runTable(c, tableSpec{
		Rule: "TABLE-128BIT-ORDER", Fn: fi, Construct: "isNewMaster decision table",
		Atoms: map[string]int{aNil: 2, aHi: 3, aLo: 3},
		Expected: func(v *Valuation) (string, bool) {
			if v.B(aNil) {
				return "ret(true, false, nil)", true
			}
			hi := ordOf(v, cand+".High", exist+".High")
			lo := ordOf(v, cand+".Low", exist+".Low")
			switch {
			case hi > 0:
				return "ret(true, false, nil)", true
			case hi == 0 && lo > 0:
				return "ret(true, false, nil)", true
			case hi == 0 && lo == 0:
				return "ret(true, true, nil)", true
			}
			return "ret(false, false, nil)", true
		},
	})
}

// ruleUint128Sites: every uint128.New call in non-generated repo code builds
// the value from (x.Low, x.High) of one x, or is the zero constant.
func ruleUint128Sites(c *Ctx) {
	const rule = "UINT128-ARG-ORDER"
	n := 0
	stray := 0
	strayIn := 0
	for _, pk := range c.P.All {
		if isGeneratedPkg(pk.PkgPath) {
			continue
		}
		info := pk.TypesInfo
		for _, f := range pk.Syntax {
			for _, d := range f.Decls {
				fd, ok := d.(*ast.FuncDecl)
				if !ok || fd.Body == nil {
					continue
				}
				fn := displayName(info.Defs[fd.Name].(*types.Func))
				uq := 0
				x := &condXlat{info: info, fd: fd, uniq: &uq}
				ast.Inspect(fd.Body, func(m ast.Node) bool {
					switch e := m.(type) {
					case *ast.CallExpr:
						if f, ok := calleeObj(info, e).(*types.Func); ok && f.Name() == "New" && f.Pkg() != nil && strings.HasSuffix(f.Pkg().Path(), "lukechampine.com/uint128") {
							n++
							c.Sites++
							t, _ := x.term(e)
							c.check(!strings.HasPrefix(t, "U128!"), rule, fn, "uint128.New("+argSig(info, e)+")", c.P.pos(e.Pos()),
								"low word first, both words of the same id", "uint128.New takes (lo, hi): got "+t+" — 128-bit comparison would not be high-word-first")
						}
					case *ast.BinaryExpr:
						switch e.Op {
						case token.LSS, token.LEQ, token.GTR, token.GEQ:
							if isUint128Word(info, e.X) || isUint128Word(info, e.Y) {
								if fd.Name.Name == "isNewMaster" && pk.PkgPath == modPath+"/server" {
									strayIn++
								} else {
									stray++
									c.fail(rule, fn, "word comparison "+types.ExprString(e), c.P.pos(e.Pos()), "ordering test on a single 64-bit word of an election id outside the audited comparison function: ids must be compared as 128-bit integers")
								}
							}
						}
					}
					return true
				})
			}
		}
	}
	c.floor(rule, "uint128.New call sites", n, 7)
	if stray == 0 {
		c.ok(rule, "repo", "no stray word comparisons", "-", fmt.Sprintf("0 word-order comparisons outside isNewMaster (positive control: %d inside it)", strayIn))
	}
}

func argSig(info *types.Info, call *ast.CallExpr) string {
	var s []string
	for _, a := range call.Args {
		s = append(s, types.ExprString(a))
	}
	return strings.Join(s, ", ")
}

func isUint128Word(info *types.Info, e ast.Expr) bool {
	se, ok := ast.Unparen(e).(*ast.SelectorExpr)
	if !ok || (se.Sel.Name != "High" && se.Sel.Name != "Low") {
		return false
	}
	tv, ok := info.Types[se.X]
	return ok && isNamed(tv.Type, spbPath, "Uint128")
}

// electionEvents extracts the effect events relevant to election state.
func electionEvents(fi *FuncInfo) func(n ast.Node) []Event {
	info := fi.Pkg.TypesInfo
	return func(n ast.Node) []Event {
		var out []Event
		inspectNoFuncLit(n, func(m ast.Node) bool {
			switch x := m.(type) {
			case *ast.AssignStmt:
				for i, l := range x.Lhs {
					if se, ok := ast.Unparen(l).(*ast.SelectorExpr); ok {
						if fv, ok := info.ObjectOf(se.Sel).(*types.Var); ok && fv.IsField() {
							if tv, ok := info.Types[se.X]; ok && isNamed(tv.Type, modPath+"/server", "Server") {
								rhs := "?"
								if len(x.Rhs) == len(x.Lhs) {
									if o := objOfIdent(info, x.Rhs[i]); o != nil {
										rhs = paramRole(info, fi.Decl, o)
									} else {
										rhs = types.ExprString(x.Rhs[i])
									}
								}
								out = append(out, Event{Kind: "store " + fv.Name() + "←" + rhs, Node: x})
							}
						}
					}
				}
			case *ast.CallExpr:
				obj := calleeObj(info, x)
				if f, ok := obj.(*types.Func); ok && f.Pkg() != nil && f.Pkg().Path() == modPath+"/server" {
					switch f.Name() {
					case "storeClientElectionID", "isNewMaster", "setClientParams", "updateParams", "deleteClient", "newClient":
						var as []string
						for _, a := range x.Args {
							if o := objOfIdent(info, a); o != nil {
								as = append(as, paramRole(info, fi.Decl, o))
							} else if obj, path := selectorPath(info, a); obj != nil {
								as = append(as, paramRole(info, fi.Decl, obj)+"."+strings.Join(path, "."))
							} else {
								as = append(as, "?")
							}
						}
						out = append(out, Event{Kind: f.Name() + "(" + strings.Join(as, ",") + ")", Node: x})
					}
				}
			}
			return true
		})
		return out
	}
}

// paramRole names an object position-independently: p0, p1 … for parameters, recv for the receiver, else its name.
func paramRole(info *types.Info, fd *ast.FuncDecl, o types.Object) string {
	// a parameter of a helper spliced into fd stands for the argument it is bound to
	o = frameArgRoot(info, fd, o)
	if o == nil {
		return "?"
	}
	for i, p := range paramObjs(info, fd) {
		if p == o {
			return fmt.Sprintf("p%d", i)
		}
	}
	if recvObj(info, fd) == o {
		return "recv"
	}
	return o.Name()
}

func ruleRunElectionTable(c *Ctx) {
	fi := c.need("server", "Server", "runElection")
	if fi == nil {
		return
	}
	info := fi.Pkg.TypesInfo
	id, elec := paramName(fi, 0), paramName(fi, 1)
	_ = id
	recv := recvName(fi)
	// atoms: results of calls are named call:<callee>#<ordinal>.<result index>
	aZero, _ := orderAtom("U128(0)", "U128("+elec+")")
	aStateErr := eqAtom("call:getClientStateCopy#1.1", "nil")
	aExpect := "b:call:getClientStateCopy#1.0.params.ExpectElecID"
	aStored := "b:call:storeClientElectionID#1"
	aElecErr := eqAtom("call:isNewMaster#1.2", "nil")
	aNM := "b:call:isNewMaster#1.0"
	runTable(c, tableSpec{
		Rule: "TABLE-ELECTION", Fn: fi, Construct: "runElection decision table (preconditions, effects, reply)",
		Events: electionEvents(fi),
		Atoms:  map[string]int{aStateErr: 2, aExpect: 2, aZero: 3, aStored: 2, aElecErr: 2, aNM: 2},
		Expected: func(v *Valuation) (string, bool) {
			store := "storeClientElectionID(p0,p1)"
			switch {
			case !v.B(aStateErr):
				return "ret(nil, var:err)", true
			case !v.B(aExpect):
				return "ret(nil, err(FailedPrecondition/ModifyRPCErrorDetails_ELECTION_ID_IN_ALL_PRIMARY))", true
			case v.Ord(aZero) == 0:
				return "ret(nil, err(InvalidArgument))", true
			case !v.B(aStored):
				return "ret(nil, err(Internal)) effects[" + store + "]", true
			case !v.B(aElecErr):
				return "ret(nil, var:err) effects[" + store + ",isNewMaster(p1,recv.curElecID)]", true
			case v.B(aNM):
				return "ret(resp(election:" + recv + ".curElecID), nil) effects[" + store + ",isNewMaster(p1,recv.curElecID),store curElecID←p1,store curMaster←p0]", true
			}
			return "ret(resp(election:" + recv + ".curElecID), nil) effects[" + store + ",isNewMaster(p1,recv.curElecID)]", true
		},
	})
	_ = info
}

// ruleElectionWriters: stores to Server.curElecID / curMaster only in runElection.
func ruleElectionWriters(c *Ctx) {
	const rule = "ELECTION-WRITERS"
	n := 0
	for _, fld := range []string{"curElecID", "curMaster"} {
		fv := c.P.Field("server", "Server", fld)
		if fv == nil {
			c.vanished(rule, "server.Server", fld, "field not found")
			continue
		}
		c.P.fieldWriteOnce(fv) // populate store index
		for _, st := range c.P.fieldStores[fv] {
			n++
			c.Sites++
			fn := declaredOf(st.Parent())
			name := "?"
			if fn != nil {
				name = displayName(fn)
			}
			switch {
			case fn != nil && onBehalfOf(c.P.callGraph(), fn, func(g *types.Func) bool { return g.Name() == "runElection" && !isNewFunc(g) }):
				c.ok(rule, name, "store "+fld, c.P.pos(st.Pos()), "the election procedure (or a helper new to the rules that only it calls)")
			case fn != nil && fn.Name() == "InjectElectionID" && recvTypeName(fn) == "FakeServer":
				c.ok(rule, name, "store "+fld, c.P.pos(st.Pos()), "test injector (exempt by name: FakeServer.InjectElectionID is outside the RPC surface)")
			default:
				c.fail(rule, name, "store "+fld, c.P.pos(st.Pos()), "election state written outside runElection: the running-maximum argument only covers the audited compare-and-set")
			}
		}
	}
	c.floor(rule, "stores to election state", n, 2)
}
