#!/usr/bin/env python3
"""neutralcheck.py <dir-with-patch.diff> [...]: applies a behaviour-preserving refactoring to a scratch worktree of /repo
and runs all 19 quick checks against it (GRIBILINT_REPO); prints every alarm. Nothing is stored in /repo."""
import json, os, shutil, subprocess, sys
env = dict(os.environ, PATH="/opt/veriftools/go1.26.8/bin:" + os.environ["PATH"], GOTOOLCHAIN="local", GOFLAGS="-mod=mod", GOPROXY="off", GOSUMDB="off")
wt = "/tmp/ncheck_wt"
subprocess.run(["git", "-C", "/repo", "worktree", "remove", "--force", wt], capture_output=True)
subprocess.check_call(["git", "-C", "/repo", "worktree", "add", "--detach", "-q", wt, "HEAD"])
tmpv = "/tmp/ncheck_verif"
try:
    for src in sys.argv[1:]:
        subprocess.check_call(["git", "-C", wt, "checkout", "-q", "--", "."])
        r = subprocess.run(["git", "-C", wt, "apply", os.path.join(src, "patch.diff")], capture_output=True, text=True)
        if r.returncode != 0:
            print("NEUTRAL", src, "patch does not apply:", r.stderr[:200]); continue
        shutil.rmtree(tmpv, ignore_errors=True); os.makedirs(tmpv)
        shutil.copy("/verif/known_findings.json", tmpv)
        e2 = dict(env, GRIBILINT_VERIF=tmpv, GRIBILINT_REPO=wt)
        alarms = {}
        for p in [f"C{i:02d}" for i in range(1, 20)]:
            r = subprocess.run([os.environ.get("GRIBILINT_BIN", "/verif/bin/gribilint"), p, "quick"], env=e2, capture_output=True, text=True)
            if r.returncode != 0:
                lines = [l for l in r.stdout.splitlines() if " VIOLATED " in l or " UNDECIDED " in l or " VANISHED " in l]
                alarms[p] = [l[:400] for l in lines[:4]] or [(r.stderr or r.stdout)[-400:]]
        print("NEUTRAL", src, "silent" if not alarms else "ALARMS " + " ".join(sorted(alarms)))
        for p, ls in alarms.items():
            for l in ls: print("    ", l)
finally:
    shutil.rmtree(tmpv, ignore_errors=True)
    subprocess.run(["git", "-C", "/repo", "worktree", "remove", "--force", wt], capture_output=True)
