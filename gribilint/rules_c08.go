package main

// C08 — Flush empties exactly the requested instances, reports OK, is election-gated.

import (
	"fmt"
	"go/ast"
	"go/types"
	"strings"
)

func init() { propRules["C08"] = rulesC08 }

func rulesC08(c *Ctx) {
	c.Decided = append(c.Decided,
		"R8.1 checkFlushRequest's decision table over all valuations of {request nil, instance given, override, id given, server has an election id, id zero, order(id, current)} — statuses and FlushResponseError reasons as the specification assigns them; 128-bit comparison high word first",
		"R8.2 Server.Flush's decision table: the RIB is flushed only after the request check passed and, for a named instance, the instance exists (else INVALID_NETWORK_INSTANCE); the flushed list is that single name or KnownNetworkInstances(); only Server.Flush calls RIB.Flush inside the server; OK is returned exactly when RIB.Flush returned no error",
		"R8.3 RIB.Flush removes all five tables of each listed instance, on the holder looked up for the current list element",
		"R8.4 a flush-path removal helper (which reports 'cannot find' for an absent key, turned into INTERNAL) is only handed keys known to be present: the key of a range over the very table it deletes from, or a key just looked up successfully in that table",
		"R8.5 deletion protection stays consistent: every flushed top-level entry releases its group reference, every flushed group its members (C03 R3.3)",
		"R8.6 the election id is read under its lock")
	c.NotDec = append(c.NotDec, "the RIB contents before/after on concrete RIBs", "interaction with concurrently running Modify RPCs beyond lock discipline")
	ruleCheckFlushTable(c)
	ruleServerFlushTable(c)
	ruleFlushRefs(c)
	ruleCounterCallers(c) // a flush releases references only through the audited primitives: it never forgets counts held by entries that remain (shared with C03)
	ruleFlushScope(c)
	ruleFlushTotal(c)
	ruleStateWriters(c, writersServerElection) // the id a Flush is authorised against is written by the election only (shared with C05)
	ruleFlushKeysPresent(c)
	ruleExactInstanceLookup(c) // Server.Flush rejects unknown / empty names only through this lookup
	ruleRIBCallers(c)
	ruleUint128Sites(c)
	// the id Flush is gated on is the running maximum kept by the election (shared with C05)
	ruleIsNewMaster(c, "C08")
	ruleRunElectionTable(c)
	ruleLockDiscipline(c, lockSel{classes: []string{"Server.elecMu"}, pairing: true})
}

func ruleCheckFlushTable(c *Ctx) {
	fi := c.need("server", "Server", "checkFlushRequest")
	if fi == nil {
		return
	}
	req := paramName(fi, 0)
	// the current election id: a local read once from the locked getter, or (pre-fix) the field itself
	cur := "call:getElection#1.ID"
	aReqNil := eqAtom(req, "nil")
	aNI := eqAtom(req+".NetworkInstance", "nil")
	aOv := eqAtom(req+".Override", "nil")
	aID := eqAtom(req+".Id", "nil")
	aCur := eqAtom(cur, "nil")
	aZero, _ := orderAtom("U128(0)", "U128("+req+".Id)")
	aOrd, flip := orderAtom("U128("+req+".Id)", "U128("+cur+")")
	runTable(c, tableSpec{
		Rule: "TABLE-FLUSH-REQUEST", Fn: fi, Construct: "checkFlushRequest decision table",
		Events: ribCallEvents(fi),
		Atoms:  map[string]int{aReqNil: 2, aNI: 2, aOv: 2, aID: 2, aCur: 2, aZero: 3, aOrd: 3},
		Expected: func(v *Valuation) (string, bool) {
			e := func(code, reason string) string { return "ret(err(" + code + "/FlushResponseError_" + reason + "))" }
			switch {
			case v.B(aReqNil):
				return "ret(err(Internal))", true
			case v.B(aNI):
				return e("InvalidArgument", "UNSPECIFIED_NETWORK_INSTANCE"), true
			case !v.B(aOv):
				return "ret(nil)", true
			case v.B(aID) && v.B(aCur):
				return "ret(nil)", true
			case v.B(aID) && !v.B(aCur):
				return e("FailedPrecondition", "UNSPECIFIED_ELECTION_BEHAVIOR"), true
			case !v.B(aID) && v.B(aCur):
				return e("FailedPrecondition", "ELECTION_ID_IN_ALL_PRIMARY"), true
			case v.Ord(aZero) == 0:
				return e("InvalidArgument", "INVALID_ELECTION_ID"), true
			}
			o := v.Ord(aOrd)
			if flip {
				o = -o
			}
			if o < 0 {
				return e("FailedPrecondition", "NOT_PRIMARY"), true
			}
			return "ret(nil)", true
		},
	})
}

func ruleServerFlushTable(c *Ctx) {
	fi := c.need("server", "Server", "Flush")
	if fi == nil {
		return
	}
	info := fi.Pkg.TypesInfo
	req := paramName(fi, 1)
	aChk := eqAtom("call:checkFlushRequest#1", "nil")
	aAll := "is:FlushRequest_All|" + req + ".NetworkInstance"
	aName := "is:FlushRequest_Name|" + req + ".NetworkInstance"
	aFound := "b:call:NetworkInstanceRIB#1.1"
	aFlushErr := eqAtom("call:Flush#1", "nil")
	var pe *pathEnum
	ev := func(n ast.Node) []Event {
		var out []Event
		for _, call := range callsIn(n) {
			if isMethod(calleeObj(info, call), ribPkg, "RIB", "Flush") {
				out = append(out, Event{Kind: "flush", Node: call})
			}
		}
		return out
	}
	outcome := func(p Path) string {
		q := p
		q.Events = nil
		s := defaultOutcome(info, fi.Decl, q)
		for _, e := range p.Events {
			if e.Kind == "flush" {
				call := e.Node.(*ast.CallExpr)
				arg := "?"
				if len(call.Args) == 1 && pe != nil {
					arg = p.TermAtEnd(pe, call.Args[0])
				}
				s += " flush(" + arg + ")"
			}
		}
		return s
	}
	runTable(c, tableSpec{
		Rule: "TABLE-FLUSH-RPC", Fn: fi, Construct: "Server.Flush: gate, instance selection, result", Events: ev, Outcome: outcome, PE: &pe,
		Atoms: map[string]int{aChk: 2, aAll: 2, aName: 2, aFound: 2, aFlushErr: 2},
		Expected: func(v *Valuation) (string, bool) {
			res := func(list string) string {
				if v.B(aFlushErr) {
					return "ret(resp(flush:FlushResponse_OK), nil) flush(" + list + ")"
				}
				return "ret(nil, err(Internal)) flush(" + list + ")"
			}
			switch {
			case !v.B(aChk):
				return "ret(nil, call:checkFlushRequest)", true
			case v.B(aAll):
				return res("call:KnownNetworkInstances#1"), true
			case v.B(aName):
				if !v.B(aFound) {
					return "ret(nil, err(InvalidArgument/FlushResponseError_INVALID_NETWORK_INSTANCE))", true
				}
				return res("[" + typeSwitchVar(fi) + ".Name]"), true
			}
			return "", false // no instance selected: excluded by checkFlushRequest
		},
		Rename: func(a string) string { return a },
	})
	// the OK response
	okResp := false
	for _, cl := range litsOfType(info, fi.Decl.Body, spbPath, "FlushResponse") {
		if constName(info, compositeFields(cl)["Result"]) == "FlushResponse_OK" {
			okResp = true
		}
	}
	c.check(okResp, "FLUSH-RESULT", fi.Name, "success response", c.P.pos(fi.Decl.Pos()), "Result: FlushResponse_OK", "the success response of Flush does not carry FlushResponse_OK")
}

// ruleFlushScope: RIB.Flush works on the holder of the current list element.
func ruleFlushScope(c *Ctx) {
	const rule = "FLUSH-SCOPE"
	fi := c.need("rib", "RIB", "Flush")
	if fi == nil {
		return
	}
	info := fi.Pkg.TypesInfo
	list := paramObjs(info, fi.Decl)[0]
	recv := recvObj(info, fi.Decl)
	var outer *ast.RangeStmt
	for _, st := range fi.Decl.Body.List {
		if rs, ok := st.(*ast.RangeStmt); ok && objOfIdent(info, rs.X) == list {
			outer = rs
		}
	}
	if outer == nil {
		c.vanished(rule, fi.Name, "loop over the requested instances", "RIB.Flush does not range over its instance list")
		return
	}
	elem := objOfIdent(info, outer.Value)
	// holder := r.NetworkInstanceRIB(elem)
	var holder types.Object
	ast.Inspect(outer.Body, func(n ast.Node) bool {
		as, ok := n.(*ast.AssignStmt)
		if !ok || len(as.Rhs) != 1 {
			return true
		}
		call, ok := ast.Unparen(as.Rhs[0]).(*ast.CallExpr)
		if ok && isMethod(calleeObj(info, call), ribPkg, "RIB", "NetworkInstanceRIB") && len(call.Args) == 1 && objOfIdent(info, call.Args[0]) == elem {
			if se, ok := ast.Unparen(call.Fun).(*ast.SelectorExpr); ok && objOfIdent(info, se.X) == recv {
				holder = objOfIdent(info, as.Lhs[0])
			}
		}
		return true
	})
	c.Sites++
	if holder == nil {
		c.fail(rule, fi.Name, "holder of the current instance", c.P.pos(outer.Pos()), "the holder flushed is not looked up from the current element of the requested list")
		return
	}
	// every table mutation / lock in the loop body is on that holder
	bad := ""
	n := 0
	helpers := c.P.holderHelpers()
	ast.Inspect(outer.Body, func(m ast.Node) bool {
		call, ok := m.(*ast.CallExpr)
		if !ok {
			return true
		}
		se, ok := ast.Unparen(call.Fun).(*ast.SelectorExpr)
		if !ok {
			return true
		}
		f, _ := calleeObj(info, call).(*types.Func)
		if f == nil {
			return true
		}
		isRemoval := helpers[f] != nil && len(helpers[f].Deletes) > 0
		isLock := f.Pkg() != nil && f.Pkg().Path() == "sync"
		if isRemoval {
			n++
			if frameArgRoot(info, fi.Decl, objOfIdent(info, se.X)) != holder {
				bad = "a removal helper is invoked on " + types.ExprString(se.X) + ", not on the holder of the instance being flushed"
			}
		}
		if isLock {
			if inner, ok := ast.Unparen(se.X).(*ast.SelectorExpr); ok && frameArgRoot(info, fi.Decl, objOfIdent(info, inner.X)) != holder {
				bad = "the lock taken in the flush loop is not the one of the instance being flushed"
			}
		}
		return true
	})
	c.Sites += n
	if bad == "" && n < 5 {
		bad = fmt.Sprintf("only %d removal call sites on the flushed holder, confirmed floor is 5 (one per table)", n)
	}
	c.check(bad == "", rule, fi.Name, "all removals on the current instance's holder", c.P.pos(outer.Pos()), fmt.Sprintf("%d removal call sites, all on the holder of the ranged instance name", n), bad)
}

// R8.4
func ruleFlushKeysPresent(c *Ctx) {
	const rule = "FLUSH-KEYS-PRESENT"
	fi := c.need("rib", "RIB", "Flush")
	if fi == nil {
		return
	}
	info := fi.Pkg.TypesInfo
	helpers := c.P.holderHelpers()
	// local closures wrapping a removal helper: name → table
	closureTable := map[types.Object]string{}
	ast.Inspect(fi.Decl.Body, func(n ast.Node) bool {
		as, ok := n.(*ast.AssignStmt)
		if !ok || len(as.Lhs) != 1 || len(as.Rhs) != 1 {
			return true
		}
		fl, ok := ast.Unparen(as.Rhs[0]).(*ast.FuncLit)
		if !ok || len(fl.Type.Params.List) != 1 {
			return true
		}
		p0 := info.Defs[fl.Type.Params.List[0].Names[0]]
		for _, ic := range callsIn(fl.Body) {
			if f, ok := calleeObj(info, ic).(*types.Func); ok {
				if hi := helpers[f]; hi != nil && !hi.Merges && len(ic.Args) == 1 && objOfIdent(info, ic.Args[0]) == p0 {
					for t := range hi.Deletes {
						closureTable[objOfIdent(info, as.Lhs[0])] = t
					}
				}
			}
		}
		return true
	})
	n := 0
	var visit func(node ast.Node, ranges []*ast.RangeStmt)
	check := func(call *ast.CallExpr, table string, ranges []*ast.RangeStmt) {
		n++
		c.Sites++
		arg := objOfIdent(info, call.Args[0])
		construct := fmt.Sprintf("removal from %s #%d", table, n)
		for _, rs := range ranges {
			if tableOfExpr(info, rs.X) == table && rootedAtHolderR(info, rs.X) && arg != nil && objOfIdent(info, rs.Key) == arg {
				c.ok(rule, fi.Name, construct, c.P.pos(call.Pos()), "key of a range over the table itself")
				return
			}
		}
		// otherwise: a successful lookup of the same key in the same table must guard the call
		if len(ranges) > 0 {
			rs := ranges[len(ranges)-1]
			ev := func(nd ast.Node) []Event {
				var out []Event
				inspectNoFuncLit(nd, func(m ast.Node) bool {
					if m == call {
						out = append(out, Event{Kind: "remove", Node: call})
					}
					if as, ok := m.(*ast.AssignStmt); ok && len(as.Lhs) == 2 && len(as.Rhs) == 1 {
						if ie, ok := ast.Unparen(as.Rhs[0]).(*ast.IndexExpr); ok && tableOfExpr(info, ie.X) == table && rootedAtHolderR(info, ie.X) && objOfIdent(info, ie.Index) == arg {
							out = append(out, Event{Kind: "lookup", Node: as, Data: &addEvData{ok: objOfIdent(info, as.Lhs[1])}})
						}
					}
					return true
				})
				return out
			}
			paths, _ := enumPaths(info, rs.Body.List, ev)
			good := true
			for _, p := range paths {
				ri := idx(p, "remove")
				if ri < 0 {
					continue
				}
				li := lastIdxBefore(p, "lookup", ri)
				if li < 0 {
					good = false
					continue
				}
				d := p.Events[li].Data.(*addEvData)
				if d.ok == nil || factsAfter(info, p, li, ri).Obj(d.ok) != +1 {
					good = false
				}
			}
			if good && len(paths) > 0 {
				c.ok(rule, fi.Name, construct, c.P.pos(call.Pos()), "guarded by a successful lookup of the same key in the same table")
				return
			}
		}
		c.fail(rule, fi.Name, construct, c.P.pos(call.Pos()), "a flush removal helper is handed a key that is not known to be present in "+table+" (not the key of a range over that table, no preceding successful lookup): a shared or dangling id makes an otherwise complete flush report INTERNAL")
	}
	visit = func(node ast.Node, ranges []*ast.RangeStmt) {
		ast.Inspect(node, func(m ast.Node) bool {
			switch x := m.(type) {
			case *ast.FuncLit:
				return false
			case *ast.RangeStmt:
				if x != node {
					visit(x.Body, append(append([]*ast.RangeStmt(nil), ranges...), x))
					return false
				}
			case *ast.CallExpr:
				if len(x.Args) != 1 {
					return true
				}
				if f, ok := calleeObj(info, x).(*types.Func); ok {
					if hi := helpers[f]; hi != nil && !hi.Merges && len(hi.Deletes) > 0 {
						for t := range hi.Deletes {
							check(x, t, ranges)
						}
					}
				}
				if id, ok := ast.Unparen(x.Fun).(*ast.Ident); ok {
					if t, ok := closureTable[info.ObjectOf(id)]; ok {
						check(x, t, ranges)
					}
				}
			}
			return true
		})
	}
	visit(fi.Decl.Body, nil)
	if n < 5 {
		c.vanished(rule, fi.Name, "removal call sites", fmt.Sprintf("found %d removal call sites in Flush, floor 5", n))
	}
	// errors of the helpers are accumulated into the returned FlushErr (not dropped)
	_ = strings.TrimSpace
}

// FLUSH-TOTAL — Flush removes every entry of the instance: for each of the five tables there is a loop over the
// whole table whose every iteration reaches the removal helper of that table with the loop's own key — no path
// through the loop body (or through the closure it hands the key to) skips the removal with `continue`, an early
// return or a condition on the entry. A flush that leaves entries behind and answers OK breaks "removes every entry of
// exactly those instances".
func ruleFlushTotal(c *Ctx) {
	const rule = "FLUSH-TOTAL"
	fi := c.need("rib", "RIB", "Flush")
	ks := c.kindsOK()
	if fi == nil || ks == nil {
		return
	}
	info := fi.Pkg.TypesInfo
	helpers := c.P.holderHelpers()
	n := 0
	for _, k := range ks {
		// the loops over the whole table
		var loops []*ast.RangeStmt
		inspectNoFuncLit(fi.Decl.Body, func(m ast.Node) bool {
			if rs, ok := m.(*ast.RangeStmt); ok && tableOfExpr(info, rs.X) == k.Table && rootedAtHolderR(info, rs.X) {
				loops = append(loops, rs)
			}
			return true
		})
		// removal events: a call to a helper that deletes from this table, directly or through a local closure all
		// of whose paths do
		var removes func(call *ast.CallExpr, key types.Object, depth int) string
		removes = func(call *ast.CallExpr, key types.Object, depth int) string {
			argIsKey := func(args []ast.Expr) bool {
				for _, a := range args {
					if objOfIdent(info, a) == key {
						return true
					}
				}
				return false
			}
			if f, ok := calleeObj(info, call).(*types.Func); ok {
				if hi := helpers[f]; hi != nil && hi.Deletes[k.Table] {
					if argIsKey(call.Args) {
						return "remove"
					}
					return "remove-otherkey"
				}
				return ""
			}
			id, ok := ast.Unparen(call.Fun).(*ast.Ident)
			if !ok || depth > 1 {
				return ""
			}
			v, ok := info.ObjectOf(id).(*types.Var)
			if !ok {
				return ""
			}
			fl, ok := ast.Unparen(soleDefinitionOrNil(info, fi.Decl, v)).(*ast.FuncLit)
			if !ok || !argIsKey(call.Args) || len(call.Args) != 1 {
				return ""
			}
			ps := paramObjsLit(info, fl)
			if len(ps) != 1 {
				return ""
			}
			total := true
			paths, pe := enumPaths(info, fl.Body.List, func(n2 ast.Node) []Event {
				var out []Event
				for _, c2 := range callsIn(n2) {
					if r := removes(c2, ps[0], depth+1); r != "" {
						out = append(out, Event{Kind: r, Node: c2})
					}
				}
				return out
			})
			if pe.overflow || len(paths) == 0 {
				total = false
			}
			for _, p := range paths {
				if p.End != "panic" && p.count("remove") != 1 {
					total = false
				}
			}
			if total {
				return "remove"
			}
			return "remove-partial"
		}
		good := false
		why := ""
		for _, rs := range loops {
			key := objOfIdent(info, rs.Key)
			if key == nil {
				continue
			}
			paths, pe := enumPaths(info, rs.Body.List, func(n2 ast.Node) []Event {
				var out []Event
				for _, c2 := range callsIn(n2) {
					if r := removes(c2, key, 0); r != "" {
						out = append(out, Event{Kind: r, Node: c2})
					}
				}
				return out
			})
			if pe.overflow || len(paths) == 0 {
				continue
			}
			any, all := false, true
			bad := ""
			for _, p := range paths {
				if p.End == "panic" {
					continue
				}
				if p.count("remove") >= 1 {
					any = true
				} else {
					all = false
					bad = p.describe(c.P)
				}
			}
			if any && all {
				good = true
			} else if any {
				why = "an iteration of the loop over " + k.Table + " can end without removing its entry: " + bad
			}
		}
		n++
		c.Sites++
		if !good && why == "" {
			why = "Flush has no loop over the whole " + k.Table + " table that removes every key it visits"
		}
		c.check(good, rule, fi.Name, "every "+k.Table+" entry of the instance is removed", c.P.pos(fi.Decl.Pos()), "a loop over the whole table reaches the removal helper with its own key on every path", why)
	}
	c.floor(rule, "tables emptied by Flush", n, 5)
}

func soleDefinitionOrNil(info *types.Info, fd *ast.FuncDecl, v *types.Var) ast.Expr {
	if def := soleDefinition(info, fd, v); def != nil {
		return def
	}
	return &ast.BadExpr{}
}
