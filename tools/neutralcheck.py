#!/usr/bin/env python3
"""neutralcheck.py <dir-with-patch.diff> [...]: applies each behaviour-preserving refactoring to a scratch worktree of
/repo's HEAD and runs all 19 quick checks against it (GRIBILINT_REPO); prints every alarm. Eight workers, each with its
own worktree; nothing is stored in /repo. Use absolute paths."""
import os, shutil, subprocess, sys
from concurrent.futures import ThreadPoolExecutor
env = dict(os.environ, PATH="/opt/veriftools/go1.26.8/bin:" + os.environ["PATH"], GOTOOLCHAIN="local", GOFLAGS="-mod=mod", GOPROXY="off", GOSUMDB="off")
BIN = os.environ.get("GRIBILINT_BIN", "/verif/bin/gribilint")
srcs = [os.path.abspath(a) for a in sys.argv[1:]]
NW = min(8, max(1, len(srcs)))
def worker(k):
    wt, tmpv = f"/tmp/ncheck_wt_{k}", f"/tmp/ncheck_verif_{k}"
    subprocess.run(["git", "-C", "/repo", "worktree", "remove", "--force", wt], capture_output=True)
    shutil.rmtree(wt, ignore_errors=True)
    subprocess.check_call(["git", "-C", "/repo", "worktree", "add", "--detach", "-q", wt, "HEAD"])
    out = []
    try:
        for src in srcs[k::NW]:
            subprocess.check_call(["git", "-C", wt, "checkout", "-q", "--", "."])
            subprocess.check_call(["git", "-C", wt, "clean", "-fdq"])
            r = subprocess.run(["git", "-C", wt, "apply", os.path.join(src, "patch.diff")], capture_output=True, text=True)
            if r.returncode != 0:
                out.append((src, "NEUTRAL %s patch does not apply: %s" % (src, r.stderr[:200]))); continue
            shutil.rmtree(tmpv, ignore_errors=True); os.makedirs(tmpv)
            shutil.copy("/verif/known_findings.json", tmpv)
            e2 = dict(env, GRIBILINT_VERIF=tmpv, GRIBILINT_REPO=wt)
            alarms = {}
            for p in [f"C{i:02d}" for i in range(1, 20)]:
                r = subprocess.run([BIN, p, "quick"], env=e2, capture_output=True, text=True)
                if r.returncode != 0:
                    lines = [l for l in r.stdout.splitlines() if " VIOLATED " in l or " UNDECIDED " in l or " VANISHED " in l]
                    alarms[p] = [l[:400] for l in lines[:4]] or [(r.stderr or r.stdout)[-400:]]
            txt = "NEUTRAL %s %s" % (src, "silent" if not alarms else "ALARMS " + " ".join(sorted(alarms)))
            for p, ls in alarms.items():
                for l in ls: txt += "\n     " + l
            out.append((src, txt))
    finally:
        shutil.rmtree(tmpv, ignore_errors=True)
        subprocess.run(["git", "-C", "/repo", "worktree", "remove", "--force", wt], capture_output=True)
        shutil.rmtree(wt, ignore_errors=True)
    return out
res = []
with ThreadPoolExecutor(NW) as ex:
    for rr in ex.map(worker, range(NW)):
        res += rr
for _, t in sorted(res): print(t)
