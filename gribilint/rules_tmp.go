package main

func init() {
	propRules["C16"] = func(c *Ctx) { ribFamily(c, famSel{hookAdd: true, hookDel: true, hookFlush: true}) }
}
