package main

import (
	"go/ast"
	"go/constant"
	"go/token"
	"go/types"
	"os"
	"strings"
)

const (
	spbPath   = "github.com/openconfig/gribi/v1/proto/service"
	aftpbPath = "github.com/openconfig/gribi/v1/proto/gribi_aft"
	aftPath   = modPath + "/aft"
	constPath = modPath + "/constants"
	ygotPath  = "github.com/openconfig/ygot/ygot"
)

// namedOf strips pointers and returns the named type, or nil.
func namedOf(t types.Type) *types.Named {
	for {
		switch x := t.(type) {
		case *types.Pointer:
			t = x.Elem()
		case *types.Alias:
			t = types.Unalias(x)
		case *types.Named:
			return x
		default:
			return nil
		}
	}
}

// isNamed reports whether t (modulo pointers) is pkg.name.
func isNamed(t types.Type, pkg, name string) bool {
	n := namedOf(t)
	if n == nil || n.Obj().Pkg() == nil {
		return false
	}
	return n.Obj().Pkg().Path() == pkg && n.Obj().Name() == name
}

func typeName(t types.Type) string {
	n := namedOf(t)
	if n == nil {
		return t.String()
	}
	return n.Obj().Name()
}

// isFunc reports whether obj is the function/method pkg.name (recv "" = any).
func isFunc(obj types.Object, pkg, name string) bool {
	f, ok := obj.(*types.Func)
	if !ok || f.Pkg() == nil {
		return false
	}
	return f.Pkg().Path() == pkg && f.Name() == name
}

// recvTypeName returns the receiver's bare type name of a method object, or "".
func recvTypeName(f *types.Func) string {
	sig, ok := f.Type().(*types.Signature)
	if !ok || sig.Recv() == nil {
		return ""
	}
	if n := namedOf(sig.Recv().Type()); n != nil {
		return n.Obj().Name()
	}
	return ""
}

// isMethod reports whether obj is method recv.name declared in pkg.
func isMethod(obj types.Object, pkg, recv, name string) bool {
	f, ok := obj.(*types.Func)
	if !ok || f.Pkg() == nil || f.Pkg().Path() != pkg || f.Name() != name {
		return false
	}
	return recvTypeName(f) == recv
}

// constName returns the name of the constant object an expression denotes (e.g. spb.AFTResult_FAILED → "AFTResult_FAILED").
func constName(info *types.Info, e ast.Expr) string {
	e = ast.Unparen(e)
	switch x := e.(type) {
	case *ast.Ident:
		if c, ok := info.Uses[x].(*types.Const); ok {
			return c.Name()
		}
	case *ast.SelectorExpr:
		if c, ok := info.Uses[x.Sel].(*types.Const); ok {
			return c.Name()
		}
	}
	return ""
}

// constInt returns the constant integer value of e, if any.
func constInt(info *types.Info, e ast.Expr) (int64, bool) {
	tv, ok := info.Types[e]
	if !ok || tv.Value == nil {
		return 0, false
	}
	if tv.Value.Kind() != constant.Int {
		return 0, false
	}
	v, ok := constant.Int64Val(tv.Value)
	return v, ok
}

// compositeFields returns the key→value map of a struct composite literal.
func compositeFields(cl *ast.CompositeLit) map[string]ast.Expr {
	m := map[string]ast.Expr{}
	for _, el := range cl.Elts {
		if kv, ok := el.(*ast.KeyValueExpr); ok {
			if id, ok := kv.Key.(*ast.Ident); ok {
				m[id.Name] = kv.Value
			}
		}
	}
	return m
}

// unAddr strips a leading & from a composite literal expression.
func unAddr(e ast.Expr) ast.Expr {
	e = ast.Unparen(e)
	if u, ok := e.(*ast.UnaryExpr); ok && u.Op == token.AND {
		return ast.Unparen(u.X)
	}
	return e
}

// litsOfType finds composite literals of named type pkg.name inside n (FuncLits included).
func litsOfType(info *types.Info, n ast.Node, pkg, name string) []*ast.CompositeLit {
	var out []*ast.CompositeLit
	ast.Inspect(n, func(m ast.Node) bool {
		if cl, ok := m.(*ast.CompositeLit); ok {
			if tv, ok := info.Types[cl]; ok && isNamed(tv.Type, pkg, name) {
				// exclude slice-of literals: the type of the literal itself must be the struct
				t := tv.Type
				if pt, ok := t.Underlying().(*types.Pointer); ok {
					t = pt.Elem()
				}
				if _, isStruct := t.Underlying().(*types.Struct); isStruct {
					out = append(out, cl)
				}
			}
		}
		return true
	})
	return out
}

// selectorPath renders x.a.b as ["x","a","b"] with the root object, for
// selector chains and getter-call chains (x.GetA().GetB() → x, A, B).
func selectorPath(info *types.Info, e ast.Expr) (types.Object, []string) {
	var rev []string
	for {
		e = ast.Unparen(e)
		switch x := e.(type) {
		case *ast.Ident:
			obj := info.ObjectOf(x)
			for i, j := 0, len(rev)-1; i < j; i, j = i+1, j-1 {
				rev[i], rev[j] = rev[j], rev[i]
			}
			return obj, rev
		case *ast.SelectorExpr:
			rev = append(rev, x.Sel.Name)
			e = x.X
		case *ast.CallExpr:
			se, ok := ast.Unparen(x.Fun).(*ast.SelectorExpr)
			if !ok || len(x.Args) != 0 || !strings.HasPrefix(se.Sel.Name, "Get") {
				return nil, nil
			}
			rev = append(rev, strings.TrimPrefix(se.Sel.Name, "Get"))
			e = se.X
		case *ast.StarExpr:
			e = x.X
		default:
			return nil, nil
		}
	}
}

// isNilIdent reports whether e is the predeclared nil.
func isNilIdent(info *types.Info, e ast.Expr) bool {
	id, ok := ast.Unparen(e).(*ast.Ident)
	if !ok {
		return false
	}
	_, isNil := info.Uses[id].(*types.Nil)
	return isNil
}

// enclosingFuncDecl finds the FuncDecl containing pos in the package.
func (p *Prog) enclosingFuncDecl(pos token.Pos) *ast.FuncDecl {
	for _, pk := range p.All {
		for _, f := range pk.Syntax {
			if f.Pos() <= pos && pos < f.End() {
				for _, d := range f.Decls {
					if fd, ok := d.(*ast.FuncDecl); ok && fd.Pos() <= pos && pos < fd.End() {
						return fd
					}
				}
			}
		}
	}
	return nil
}

// paramObj returns the parameter object with the given index (flattened).
func paramObjs(info *types.Info, fd *ast.FuncDecl) []types.Object {
	var out []types.Object
	if fd.Type.Params == nil {
		return nil
	}
	for _, f := range fd.Type.Params.List {
		for _, n := range f.Names {
			out = append(out, info.Defs[n])
		}
	}
	return out
}

func recvObj(info *types.Info, fd *ast.FuncDecl) types.Object {
	if fd.Recv == nil || len(fd.Recv.List) == 0 || len(fd.Recv.List[0].Names) == 0 {
		return nil
	}
	return info.Defs[fd.Recv.List[0].Names[0]]
}

// appendTarget recognises `x = append(x, ...)` / `*x = append(*x, ...)` and returns the object x and the appended args.
func appendTarget(info *types.Info, s ast.Stmt) (types.Object, []ast.Expr) {
	as, ok := s.(*ast.AssignStmt)
	if !ok || len(as.Lhs) != 1 || len(as.Rhs) != 1 {
		return nil, nil
	}
	call, ok := ast.Unparen(as.Rhs[0]).(*ast.CallExpr)
	if !ok {
		return nil, nil
	}
	id, ok := call.Fun.(*ast.Ident)
	if !ok || id.Name != "append" {
		return nil, nil
	}
	if _, ok := info.Uses[id].(*types.Builtin); !ok {
		return nil, nil
	}
	lobj, lp := selectorPath(info, as.Lhs[0])
	if lobj == nil || len(call.Args) == 0 {
		return nil, nil
	}
	aobj, ap := selectorPath(info, call.Args[0])
	if aobj != lobj || strings.Join(lp, ".") != strings.Join(ap, ".") {
		return nil, nil
	}
	if len(lp) > 0 {
		return nil, nil // field append handled by callers through selectorPath
	}
	return lobj, call.Args[1:]
}

// ast_inspectAssign classifies every assignment to local v in fi: good when the
// right-hand side is a call to KnownNetworkInstances or a composite literal
// with at most one element.
func ast_inspectAssign(info *types.Info, fi *FuncInfo, v *types.Var, report func(rhs string, good bool)) {
	ast.Inspect(fi.Decl.Body, func(n ast.Node) bool {
		as, ok := n.(*ast.AssignStmt)
		if !ok || len(as.Lhs) != len(as.Rhs) {
			return true
		}
		for i, l := range as.Lhs {
			if objOfIdent(info, l) != v {
				continue
			}
			r := ast.Unparen(as.Rhs[i])
			good := false
			switch x := r.(type) {
			case *ast.CallExpr:
				if f, ok := calleeObj(info, x).(*types.Func); ok && f.Name() == "KnownNetworkInstances" {
					good = true
				}
			case *ast.CompositeLit:
				good = len(x.Elts) <= 1
			}
			report(types.ExprString(r), good)
		}
		return true
	})
}

func osArgs() []string { return os.Args }
