package main

// E5 KINDS: the registry of the five AFT entry kinds, derived from types on
// every run (never from names alone).

import (
	"go/ast"
	"go/types"
	"sort"
	"strconv"
	"strings"
)

type Kind struct {
	Name       string // short display name: Ipv4Entry, Ipv6Entry, LabelEntry, NextHopGroup, NextHop
	Table      string // field of aft.Afts holding the entries
	Struct     string // aft.Afts_<Struct>
	KeyMsg     string // aftpb.Afts_<X>Key
	PayloadFld string // field of the key message holding the payload message
	OpOneof    string // spb.AFTOperation_<X>
	EntryOneof string // spb.AFTEntry_<X>
	OneofField string // field name inside the oneof wrappers (Ipv4, Ipv6, Mpls, NextHopGroup, NextHop)
	AFTType    string // spb.AFTType_<X>
	ConstAFT   string // constants.AFT name (IPv4...)
	TopLevel   bool   // references a next-hop-group
	Add        *FuncInfo
	Delete     *FuncInfo
	SchemaPath string // path tag of the Afts table field
}

var aftTypeOf = map[string]string{
	"Ipv4Entry": "AFTType_IPV4", "Ipv6Entry": "AFTType_IPV6", "LabelEntry": "AFTType_MPLS",
	"NextHopGroup": "AFTType_NEXTHOP_GROUP", "NextHop": "AFTType_NEXTHOP",
}

// kinds derives the registry. The anchor is the set of RIBHolder methods with
// signature (e *aftpb.Afts_XKey, explicitReplace bool) (bool, *aft.Afts_Y, error).
func (p *Prog) kinds() []*Kind {
	if p.kindsCache != nil {
		return p.kindsCache
	}
	pk := p.pkg("rib")
	if pk == nil {
		return nil
	}
	tn, _ := pk.Types.Scope().Lookup("RIBHolder").(*types.TypeName)
	if tn == nil {
		return nil
	}
	named := tn.Type().(*types.Named)
	var out []*Kind
	for i := 0; i < named.NumMethods(); i++ {
		m := named.Method(i)
		sig := m.Type().(*types.Signature)
		if sig.Params().Len() != 2 || sig.Results().Len() != 3 {
			continue
		}
		keyT := namedOf(sig.Params().At(0).Type())
		if keyT == nil || keyT.Obj().Pkg() == nil || keyT.Obj().Pkg().Path() != aftpbPath || !strings.HasSuffix(keyT.Obj().Name(), "Key") {
			continue
		}
		if b, ok := sig.Params().At(1).Type().Underlying().(*types.Basic); !ok || b.Kind() != types.Bool {
			continue
		}
		st := namedOf(sig.Results().At(1).Type())
		if st == nil || st.Obj().Pkg() == nil || st.Obj().Pkg().Path() != aftPath {
			continue
		}
		k := &Kind{KeyMsg: keyT.Obj().Name(), Struct: strings.TrimPrefix(st.Obj().Name(), "Afts_")}
		k.Name = k.Struct
		k.Add = p.infoFor(m)
		out = append(out, k)
	}
	// Delete siblings: (e *KeyMsg) (bool, *aft.Afts_Y, error)
	for i := 0; i < named.NumMethods(); i++ {
		m := named.Method(i)
		sig := m.Type().(*types.Signature)
		if sig.Params().Len() != 1 || sig.Results().Len() != 3 {
			continue
		}
		keyT := namedOf(sig.Params().At(0).Type())
		st := namedOf(sig.Results().At(1).Type())
		if keyT == nil || st == nil {
			continue
		}
		for _, k := range out {
			if keyT.Obj().Name() == k.KeyMsg && keyT.Obj().Pkg().Path() == aftpbPath && strings.TrimPrefix(st.Obj().Name(), "Afts_") == k.Struct {
				k.Delete = p.infoFor(m)
			}
		}
	}
	// Afts table fields
	if aftPk := p.Pkgs[aftPath]; aftPk != nil {
		if atn, _ := aftPk.Types.Scope().Lookup("Afts").(*types.TypeName); atn != nil {
			if s, ok := atn.Type().Underlying().(*types.Struct); ok {
				for i := 0; i < s.NumFields(); i++ {
					f := s.Field(i)
					mt, ok := f.Type().Underlying().(*types.Map)
					if !ok {
						continue
					}
					en := namedOf(mt.Elem())
					if en == nil {
						continue
					}
					for _, k := range out {
						if en.Obj().Name() == "Afts_"+k.Struct {
							k.Table = f.Name()
							k.SchemaPath = tagValue(s.Tag(i), "path")
						}
					}
				}
			}
		}
	}
	// oneof wrappers and payload field
	if sp := p.depTypes(spbPath); sp != nil {
		for _, name := range sp.Scope().Names() {
			tn, ok := sp.Scope().Lookup(name).(*types.TypeName)
			if !ok {
				continue
			}
			s, ok := tn.Type().Underlying().(*types.Struct)
			if !ok || s.NumFields() != 1 {
				continue
			}
			ft := namedOf(s.Field(0).Type())
			if ft == nil {
				continue
			}
			for _, k := range out {
				if ft.Obj().Name() == k.KeyMsg && ft.Obj().Pkg().Path() == aftpbPath {
					if strings.HasPrefix(name, "AFTOperation_") {
						k.OpOneof = name
						k.OneofField = s.Field(0).Name()
					}
					if strings.HasPrefix(name, "AFTEntry_") {
						k.EntryOneof = name
					}
				}
			}
		}
	}
	if ap := p.depTypes(aftpbPath); ap != nil {
		for _, k := range out {
			if tn, ok := ap.Scope().Lookup(k.KeyMsg).(*types.TypeName); ok {
				if s, ok := tn.Type().Underlying().(*types.Struct); ok {
					for i := 0; i < s.NumFields(); i++ {
						if ft := namedOf(s.Field(i).Type()); ft != nil && ft.Obj().Name() == "Afts_"+k.Struct {
							k.PayloadFld = s.Field(i).Name()
						}
					}
				}
			}
		}
	}
	for _, k := range out {
		k.AFTType = aftTypeOf[k.Table]
		// top-level kinds: the ygot struct has a NextHopGroup leaf (reference to a group)
		if aftPk := p.Pkgs[aftPath]; aftPk != nil {
			if tn, ok := aftPk.Types.Scope().Lookup("Afts_" + k.Struct).(*types.TypeName); ok {
				if s, ok := tn.Type().Underlying().(*types.Struct); ok {
					for i := 0; i < s.NumFields(); i++ {
						if s.Field(i).Name() == "NextHopGroup" && k.Struct != "NextHopGroup" {
							k.TopLevel = true
						}
					}
				}
			}
		}
		switch k.Table {
		case "Ipv4Entry":
			k.ConstAFT = "IPv4"
		case "Ipv6Entry":
			k.ConstAFT = "IPv6"
		case "LabelEntry":
			k.ConstAFT = "MPLS"
		case "NextHopGroup":
			k.ConstAFT = "NextHopGroup"
		case "NextHop":
			k.ConstAFT = "NextHop"
		}
	}
	sort.Slice(out, func(i, j int) bool { return out[i].Table < out[j].Table })
	p.kindsCache = out
	return out
}

func tagValue(tag, key string) string {
	// struct tag lookup without reflect: `path:"ipv4-entry" module:"..."`
	for tag != "" {
		i := strings.Index(tag, ":\"")
		if i < 0 {
			break
		}
		name := strings.TrimSpace(tag[:i])
		rest := tag[i+2:]
		j := strings.Index(rest, "\"")
		if j < 0 {
			break
		}
		if name == key {
			return rest[:j]
		}
		tag = strings.TrimSpace(rest[j+1:])
	}
	return ""
}

// depTypes returns the types.Package of a dependency (imported by some repo package).
func (p *Prog) depTypes(path string) *types.Package {
	if pk := p.Pkgs[path]; pk != nil {
		return pk.Types
	}
	for _, pk := range p.All {
		if imp := pk.Imports[path]; imp != nil && imp.Types != nil {
			return imp.Types
		}
	}
	return nil
}

// kindsOK records the kind registry obligations (floor 5, every column filled).
func (c *Ctx) kindsOK() []*Kind {
	ks := c.P.kinds()
	if len(ks) != 5 {
		c.vanished("KINDS", "registry", "five entry kinds", "derived kind registry has "+itoa(len(ks))+" kinds, want 5 (RIBHolder.AddXXX signature family)")
		return nil
	}
	for _, k := range ks {
		if k.Add == nil || k.Delete == nil || k.Table == "" || k.OpOneof == "" || k.EntryOneof == "" || k.PayloadFld == "" || k.AFTType == "" {
			c.vanished("KINDS", "registry", k.Name, "incomplete kind row: "+k.row())
			return nil
		}
	}
	return ks
}

func (k *Kind) row() string {
	add, del := "-", "-"
	if k.Add != nil {
		add = k.Add.Obj.Name()
	}
	if k.Delete != nil {
		del = k.Delete.Obj.Name()
	}
	return strings.Join([]string{k.Table, k.Struct, k.KeyMsg, k.PayloadFld, k.OpOneof, k.EntryOneof, k.AFTType, add, del, k.SchemaPath}, "|")
}

func itoa(n int) string { return strconv.Itoa(n) }

// tableOfExpr: if e denotes <something>.<Table> where Table is a field of
// aft.Afts, return the table name.
func tableOfExpr(info *types.Info, e ast.Expr) string {
	se, ok := ast.Unparen(e).(*ast.SelectorExpr)
	if !ok {
		return ""
	}
	if fv, ok := info.ObjectOf(se.Sel).(*types.Var); ok && fv.IsField() {
		if tv, ok := info.Types[se.X]; ok && isNamed(tv.Type, aftPath, "Afts") {
			return fv.Name()
		}
	}
	return ""
}
