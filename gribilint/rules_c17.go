package main

// C17 — chk assertion helpers pass exactly when the expected item is present.

import (
	"fmt"
	"go/ast"
	"go/token"
	"go/types"
	"os"
	"regexp"
	"sort"
	"strings"
)

func init() { propRules["C17"] = rulesC17 }

const chkPkg = modPath + "/chk"

func rulesC17(c *Ctx) {
	c.Decided = append(c.Decided,
		"R17.1 no entry kind is accepted without being looked up: every type switch over the AFT entry oneof and every switch over the key fields of OpDetailsResults in package chk covers all five kinds or fails by default; every indexed lookup is followed by a fatal on 'absent'",
		"R17.2 failing means Fatal: in the found-flag helpers the flag is set only by the comparison and a clear flag always ends in t.Fatal*; the count helpers compare the right list and accept a nil error only for count 0",
		"R17.3 the ignore options: the strings handed to cmpopts.IgnoreFields are fields of client.OpResult, and which ones are added is exactly {Timestamp, Latency} ∪ {Details if want.Details is nil} ∪ {OperationID iff IgnoreOperationID} ∪ {ServerError iff not IncludeServerError}",
		"R17.5 the cached checker delegates every verdict to HasResult on a candidate taken from the results, or fails")
	c.NotDec = append(c.NotDec, "cmp.Equal / protocmp / proto.Equal semantics", "payload comparison of Get entries (presence means kind+key+instance by the property's own definition)")
	ruleOneofSwitches(c, []string{"chk"})
	ruleDetailKeySwitches(c)
	ruleFoundFlag(c)
	ruleIgnoreFields(c)
	ruleCountHelpers(c)
	ruleClientErrorConversion(c)
	ruleCachedDelegates(c)
	ruleGetEntriesLookups(c)
	ruleStatusCompare(c)
	ruleStatusOptions(c)
	ruleOptionProbes(c, "chk", 2)
	ruleCompareStructural(c)
}

// detailKeyFields: the key fields of client.OpDetailsResults (everything except Type).
func detailKeyFields(c *Ctx) []string {
	pk := c.P.pkg("client")
	tn, _ := pk.Types.Scope().Lookup("OpDetailsResults").(*types.TypeName)
	if tn == nil {
		return nil
	}
	st := tn.Type().Underlying().(*types.Struct)
	var out []string
	for i := 0; i < st.NumFields(); i++ {
		if st.Field(i).Name() != "Type" {
			out = append(out, st.Field(i).Name())
		}
	}
	sort.Strings(out)
	return out
}

func ruleDetailKeySwitches(c *Ctx) {
	const rule = "KIND-EXHAUSTIVE"
	keys := detailKeyFields(c)
	if len(keys) != 5 {
		c.vanished(rule, "client.OpDetailsResults", "key fields", fmt.Sprintf("found %d key fields, want 5", len(keys)))
		return
	}
	n := 0
	for _, fi := range c.P.AllFuncs("chk") {
		if fi.Decl.Body == nil {
			continue
		}
		info := fi.Pkg.TypesInfo
		ord := 0
		elseIfs := map[*ast.IfStmt]bool{}
		ast.Inspect(fi.Decl.Body, func(m ast.Node) bool {
			sw, ok := m.(*ast.SwitchStmt)
			if ifs, isIf := m.(*ast.IfStmt); isIf && !elseIfs[ifs] {
				// an if / else-if chain is a tagless switch
				if chain := ifChainAsSwitch(ifs, elseIfs); chain != nil {
					sw, ok = chain, true
				}
			}
			if !ok || sw.Tag != nil {
				return true
			}
			covered := map[string]bool{}
			var def *ast.CaseClause
			for _, cc := range sw.Body.List {
				cl := cc.(*ast.CaseClause)
				if cl.List == nil {
					def = cl
				}
				for _, e := range cl.List {
					be, ok := ast.Unparen(e).(*ast.BinaryExpr)
					if !ok || be.Op != token.NEQ {
						continue
					}
					se, ok := ast.Unparen(be.X).(*ast.SelectorExpr)
					if !ok {
						continue
					}
					if tv, ok := info.Types[se.X]; ok && isNamed(tv.Type, modPath+"/client", "OpDetailsResults") {
						covered[se.Sel.Name] = true
					}
				}
			}
			if len(covered) == 0 {
				return true
			}
			n++
			ord++
			c.Sites++
			c.Analysed[fi.Name] = true
			var missing []string
			for _, k := range keys {
				if !covered[k] {
					missing = append(missing, k)
				}
			}
			rejecting := def != nil && clauseRejects(info, def)
			c.check(len(missing) == 0 || rejecting, rule, fi.Name, fmt.Sprintf("switch over result key fields #%d", ord), c.P.pos(sw.Pos()),
				fmt.Sprintf("covers %d key fields, failing default: %v", len(covered), rejecting),
				fmt.Sprintf("results/wants keyed by %v are neither indexed/looked up nor rejected: such a want passes without being checked", missing))
			return true
		})
	}
	c.floor(rule, "switches over OpDetailsResults key fields in chk", n, 2)
}

// found-flag helpers: HasResult, HasRecvClientErrorWithStatus
func ruleFoundFlag(c *Ctx) {
	const rule = "FATAL-IFF-ABSENT"
	for _, spec := range []struct{ fn, cmp string }{{"HasResult", "Equal"}, {"HasRecvClientErrorWithStatus", "Equal"}} {
		fi := c.need("chk", "", spec.fn)
		if fi == nil {
			continue
		}
		info := fi.Pkg.TypesInfo
		// the flag: a bool local assigned the constant true somewhere
		var flag types.Object
		ast.Inspect(fi.Decl.Body, func(n ast.Node) bool {
			if as, ok := n.(*ast.AssignStmt); ok && len(as.Lhs) == 1 && len(as.Rhs) == 1 && as.Tok == token.ASSIGN {
				if b, isB := boolConst(info, as.Rhs[0]); isB && b {
					if o := objOfIdent(info, as.Lhs[0]); o != nil {
						flag = o
					}
				}
			}
			return true
		})
		// (no flag: the search returns as soon as the comparison succeeds — judged by the same path conditions)
		ev := func(n ast.Node) []Event {
			var out []Event
			inspectNoFuncLit(n, func(m ast.Node) bool {
				switch x := m.(type) {
				case *ast.AssignStmt:
					if flag != nil && len(x.Lhs) == 1 && objOfIdent(info, x.Lhs[0]) == flag && x.Tok == token.ASSIGN {
						out = append(out, Event{Kind: "set-found", Node: x})
					}
				}
				return true
			})
			return out
		}
		pe := &pathEnum{info: info, ev: ev, cap: pathCap, fd: fi.Decl}
		paths, _ := pe.run(fi.Decl.Body.List)
		c.Sites += len(paths)
		if pe.overflow || len(pe.unsup) > 0 {
			c.undecided(rule, fi.Name, "body", c.P.pos(fi.Decl.Pos()), fmt.Sprintf("path enumeration incomplete (%v)", pe.unsup))
			continue
		}
		bad := ""
		nFatal, nPass := 0, 0
		// a taken condition that is the comparison itself, or a local that holds its result on this path (the
		// comparison made by a helper spliced in before the branch)
		isCmp := func(cs CondStep) bool {
			if cs.Expr == nil || !cs.Taken {
				return false
			}
			if call, ok := ast.Unparen(cs.Expr).(*ast.CallExpr); ok {
				if f, ok := calleeObj(info, call).(*types.Func); ok && f.Name() == spec.cmp {
					return true
				}
			}
			if _, isId := ast.Unparen(cs.Expr).(*ast.Ident); isId {
				if l, ok := cs.F.(*FLit); ok && l.Dom == 2 && l.Mask == 2 && strings.HasPrefix(l.Atom, "b:call:"+spec.cmp+"#") {
					return true
				}
			}
			return false
		}
		cmpTaken := func(p Path, upto int) bool {
			for _, cs := range p.Conds {
				if cs.At <= upto && isCmp(cs) {
					return true
				}
			}
			return false
		}
		for _, p := range paths {
			// found: the comparison succeeded for some candidate on this path
			found := cmpTaken(p, len(p.Events))
			for i, e := range p.Events {
				if e.Kind != "set-found" {
					continue
				}
				// the assignment must be guarded by the comparison being true
				okGuard := false
				for _, cs := range p.Conds {
					if cs.At <= i && isCmp(cs) {
						okGuard = true
					}
				}
				if !okGuard {
					bad = "the found flag is set on a path where the comparison did not succeed: " + p.describe(c.P)
				}
			}
			endsFatal := p.End == "panic"
			if endsFatal {
				if term, ok := p.EndNode.(*ast.ExprStmt); ok {
					if call, ok := term.X.(*ast.CallExpr); ok {
						if se, ok := ast.Unparen(call.Fun).(*ast.SelectorExpr); ok && !strings.HasPrefix(se.Sel.Name, "Fatal") {
							endsFatal = false
						}
					}
				}
			}
			switch {
			case found && endsFatal:
				// only acceptable if the fatal is a type error before the search (clientError helper): it precedes the set
				bad = "the helper fails although the wanted item was found: " + p.describe(c.P)
			case !found && !endsFatal:
				bad = "the helper returns normally although the wanted item was never found (flag clear): " + p.describe(c.P)
			case found:
				nPass++
			default:
				nFatal++
			}
		}
		c.check(bad == "" && nFatal > 0 && nPass > 0, rule, fi.Name, "passes ⇔ the comparison succeeded for some candidate", c.P.pos(fi.Decl.Pos()), fmt.Sprintf("%d passing paths (flag set under the comparison), %d fatal paths", nPass, nFatal), bad)
	}
}

// R17.3
func ruleIgnoreFields(c *Ctx) {
	const rule = "IGNORE-OPTIONS"
	fi := c.need("chk", "", "HasResult")
	if fi == nil {
		return
	}
	info := fi.Pkg.TypesInfo
	// the slice handed to cmpopts.IgnoreFields
	var listVar types.Object
	for _, call := range callsIn(fi.Decl.Body) {
		if f, ok := calleeObj(info, call).(*types.Func); ok && f.Name() == "IgnoreFields" && len(call.Args) >= 2 {
			listVar = objOfIdent(info, call.Args[1])
			if tv, ok := info.Types[call.Args[0]]; !ok || !isNamed(tv.Type, modPath+"/client", "OpResult") {
				c.fail(rule, fi.Name, "IgnoreFields type", c.P.pos(call.Pos()), "IgnoreFields is not applied to client.OpResult")
			}
		}
	}
	if listVar == nil {
		c.vanished(rule, fi.Name, "IgnoreFields", "no cmpopts.IgnoreFields(client.OpResult{}, list...) call")
		return
	}
	pk := c.P.pkg("client")
	tn, _ := pk.Types.Scope().Lookup("OpResult").(*types.TypeName)
	fields := map[string]bool{}
	if tn != nil {
		st := tn.Type().Underlying().(*types.Struct)
		for i := 0; i < st.NumFields(); i++ {
			fields[st.Field(i).Name()] = true
		}
	}
	strLit := func(e ast.Expr) string {
		if tv, ok := info.Types[e]; ok && tv.Value != nil {
			return strings.Trim(tv.Value.ExactString(), `"`)
		}
		return "?"
	}
	ev := func(n ast.Node) []Event {
		var out []Event
		inspectNoFuncLit(n, func(m ast.Node) bool {
			as, ok := m.(*ast.AssignStmt)
			if !ok || len(as.Lhs) != 1 || objOfIdent(info, as.Lhs[0]) != listVar {
				return true
			}
			switch r := ast.Unparen(as.Rhs[0]).(type) {
			case *ast.CompositeLit:
				for _, el := range r.Elts {
					out = append(out, Event{Kind: "ignore:" + strLit(el), Node: as})
				}
			case *ast.CallExpr:
				if id, ok := r.Fun.(*ast.Ident); ok && id.Name == "append" {
					for _, a := range r.Args[1:] {
						out = append(out, Event{Kind: "ignore:" + strLit(a), Node: as})
					}
				}
			}
			return true
		})
		return out
	}
	// the statements up to the IgnoreFields call decide the list
	var pre []ast.Stmt
	for _, st := range fi.Decl.Body.List {
		stop := false
		ast.Inspect(st, func(n ast.Node) bool {
			if call, ok := n.(*ast.CallExpr); ok {
				if f, ok := calleeObj(info, call).(*types.Func); ok && f.Name() == "IgnoreFields" {
					stop = true
				}
			}
			return true
		})
		if stop {
			break
		}
		pre = append(pre, st)
	}
	want := paramName(fi, 2)
	aDet := eqAtom(want+".Details", "nil")
	aIgn := "b:call:hasIgnoreOperationID#1"
	aInc := "b:call:hasIncludeServerError#1"
	runTable(c, tableSpec{
		Rule: rule, Fn: fi, Body: pre, Construct: "which fields are ignored", Events: ev,
		Atoms: map[string]int{aDet: 2, aIgn: 2, aInc: 2},
		Expected: func(v *Valuation) (string, bool) {
			l := []string{"ignore:Timestamp", "ignore:Latency"}
			if v.B(aDet) {
				l = append(l, "ignore:Details")
			}
			if v.B(aIgn) {
				l = append(l, "ignore:OperationID")
			}
			if !v.B(aInc) {
				l = append(l, "ignore:ServerError")
			}
			return "end:fall effects[" + strings.Join(l, ",") + "]", true
		},
	})
	// every literal is a field of OpResult
	bad := []string{}
	ast.Inspect(fi.Decl.Body, func(n ast.Node) bool {
		as, ok := n.(*ast.AssignStmt)
		if !ok || len(as.Lhs) != 1 || objOfIdent(info, as.Lhs[0]) != listVar {
			return true
		}
		for _, e := range ev(as) {
			name := strings.TrimPrefix(e.Kind, "ignore:")
			c.Sites++
			if !fields[name] {
				bad = append(bad, name)
			}
		}
		return false
	})
	c.check(len(bad) == 0, rule, fi.Name, "ignored names are fields of client.OpResult", c.P.pos(fi.Decl.Pos()), "all literals resolve to fields", fmt.Sprintf("%v are not fields of client.OpResult: IgnoreFields would panic or ignore nothing", bad))
	// the option predicates test for their own option type
	for _, t := range []struct{ fn, typ string }{{"hasIgnoreOperationID", "ignoreOpID"}, {"hasIncludeServerError", "includeServerError"}} {
		if c.P.Func("chk", "", t.fn) == nil {
			// written in line in its caller and folded (foldprobes.go): it tests for its own option by construction
			inl := false
			for f, typ := range foldedProbes {
				if f.Name() == t.fn && typ == t.typ {
					inl = true
				}
			}
			if inl {
				c.check(true, rule, "chk."+t.fn, "recognises its own option", "-", "in-line loop asserting *"+t.typ, "")
				continue
			}
		}
		pf := c.need("chk", "", t.fn)
		if pf == nil {
			continue
		}
		pinfo := pf.Pkg.TypesInfo
		ok := false
		ast.Inspect(pf.Decl.Body, func(n ast.Node) bool {
			if ta, isTA := n.(*ast.TypeAssertExpr); isTA && ta.Type != nil {
				if tv, ok2 := pinfo.Types[ta.Type]; ok2 && isNamed(tv.Type, chkPkg, t.typ) {
					ok = true
				}
			}
			return true
		})
		c.check(ok, rule, pf.Name, "recognises its own option", c.P.pos(pf.Decl.Pos()), "type-asserts *"+t.typ, t.fn+" does not test for *"+t.typ)
	}
}

// R17.4
func ruleCountHelpers(c *Ctx) {
	const rule = "COUNT-HELPERS"
	for _, t := range []struct{ fn, fld string }{{"HasNSendErrors", "Send"}, {"HasNRecvErrors", "Recv"}} {
		fi := c.need("chk", "", t.fn)
		if fi == nil {
			continue
		}
		info := fi.Pkg.TypesInfo
		errP, cnt := paramName(fi, 1), paramName(fi, 2)
		aNil := eqAtom(errP, "nil")
		aZero, _ := orderAtom("const:0", cnt)
		// which list is measured
		var lens []string
		ast.Inspect(fi.Decl.Body, func(n ast.Node) bool {
			if call, ok := n.(*ast.CallExpr); ok {
				if id, ok := call.Fun.(*ast.Ident); ok && id.Name == "len" && len(call.Args) == 1 {
					if f := measuredField(info, fi.Decl, call.Args[0], 0); f != "" {
						lens = append(lens, f)
					}
				}
			}
			return true
		})
		c.Sites++
		c.check(len(lens) == 1 && lens[0] == t.fld, rule, fi.Name, "counts the "+t.fld+" errors", c.P.pos(fi.Decl.Pos()), "len(ce."+t.fld+")", fmt.Sprintf("%s measures %v, want the %s list", t.fn, lens, t.fld))
		// decision: nil ∧ count==0 → pass; otherwise the length is compared with count and a mismatch is fatal
		ev := func(n ast.Node) []Event { return nil }
		pe := &pathEnum{info: info, ev: ev, cap: pathCap, fd: fi.Decl}
		paths, _ := pe.run(fi.Decl.Body.List)
		bad := ""
		sawEarly, sawCmp := false, false
		for _, p := range paths {
			nilErr := p.Entails(&FLit{aNil, 2, 2})
			zero := p.Entails(&FLit{aZero, 3, 2})
			compared := false
			for _, cs := range p.Conds {
				if cs.Expr != nil && comparesWithParam(info, fi.Decl, cs.Expr, paramObjs(info, fi.Decl)[2]) {
					compared = true
					if cs.Taken && p.End != "panic" {
						bad = "a length mismatch does not end in Fatal: " + p.describe(c.P)
					}
					if !cs.Taken && p.End == "panic" {
						bad = "the helper fails although the count matches"
					}
				}
			}
			if os.Getenv("GRIBILINT_DEBUG_COUNT") != "" {
				var fs []string
				for _, f := range p.Formulas() {
					fs = append(fs, fstr(f))
				}
				fmt.Fprintf(os.Stderr, "COUNT %s end=%s nil=%v zero=%v aNil=%s aZero=%s :: %s\n", fi.Name, p.End, nilErr, zero, aNil, aZero, strings.Join(fs, " ; "))
			}
			if (p.End == "return" || p.End == "fall") && !compared {
				if nilErr && zero {
					sawEarly = true
				} else {
					bad = "the helper passes without comparing the count on a path other than (nil error, count 0): " + p.describe(c.P)
				}
			}
			if compared {
				sawCmp = true
			}
		}
		c.Sites += len(paths)
		c.check(bad == "" && sawEarly && sawCmp, rule, fi.Name, "nil is accepted only for count 0; otherwise length == count or Fatal", c.P.pos(fi.Decl.Pos()), fmt.Sprintf("%d paths", len(paths)), bad)
	}
	// clientError: wrong error type is fatal
	ce := c.need("chk", "", "clientError")
	if ce != nil {
		info := ce.Pkg.TypesInfo
		paths, _ := enumFunc(ce, func(ast.Node) []Event { return nil }, nil)
		bad := ""
		for _, p := range paths {
			for _, cs := range p.Conds {
				if cs.Expr != nil && types.ExprString(cs.Expr) == "!ok" && cs.Taken && p.End != "panic" {
					bad = "a non-ClientErr error is not fatal"
				}
			}
		}
		_ = info
		c.check(bad == "" && len(paths) >= 2, rule, ce.Name, "wrong error type is fatal", c.P.pos(ce.Decl.Pos()), "type assertion failure → Fatalf", bad)
	}
}

// R17.5
func ruleCachedDelegates(c *Ctx) {
	const rule = "CACHED-DELEGATES"
	fi := c.need("chk", "", "HasResultsCache")
	hr := c.need("chk", "", "HasResult")
	if fi == nil || hr == nil {
		return
	}
	info := fi.Pkg.TypesInfo
	res, wants := paramObjs(info, fi.Decl)[1], paramObjs(info, fi.Decl)[2]
	// index maps: locals (or fields of a struct the function built itself) of map type filled only inside `range res`
	idx := map[types.Object]bool{}
	fillKey := map[types.Object]string{} // index map → key field it is filled by
	ast.Inspect(fi.Decl.Body, func(n ast.Node) bool {
		rs, ok := n.(*ast.RangeStmt)
		if !ok || frameArgRoot(info, fi.Decl, objOfIdent(info, rs.X)) != res {
			return true
		}
		rv := objOfIdent(info, rs.Value)
		ast.Inspect(rs.Body, func(m ast.Node) bool {
			if as, ok := m.(*ast.AssignStmt); ok && len(as.Lhs) == 1 {
				if ie, ok := ast.Unparen(as.Lhs[0]).(*ast.IndexExpr); ok && rv != nil && frameArgRoot(info, fi.Decl, objOfIdent(info, as.Rhs[0])) == rv {
					if o := objOfIdent(info, ie.X); o != nil {
						idx[o] = true
						if ko, kp := aliasedSelectorPath(info, fi.Decl, ie.Index); ko != nil && len(kp) > 0 && frameArgRoot(info, fi.Decl, ko) == rv {
							fillKey[o] = strings.Join(kp, ".")
						}
					}
				}
			}
			return true
		})
		return true
	})
	// every range over wants: each path calls HasResult(t, [index[key]], want, opt...) or Fatal; the candidate is
	// judged by what it denotes where the path ends (it may have been picked by a helper spliced into the loop)
	n := 0
	bad := ""
	candRe := regexp.MustCompile(`^(.+?)(@\d+)?\[(.+)\]$`)
	ast.Inspect(fi.Decl.Body, func(n2 ast.Node) bool {
		rs, ok := n2.(*ast.RangeStmt)
		if !ok || frameArgRoot(info, fi.Decl, objOfIdent(info, rs.X)) != wants {
			return true
		}
		wv := objOfIdent(info, rs.Value)
		ev := func(nd ast.Node) []Event {
			var out []Event
			for _, call := range callsIn(nd) {
				if calleeObj(info, call) != hr.Obj || len(call.Args) < 3 {
					continue
				}
				out = append(out, Event{Kind: "delegate", Node: call})
			}
			return out
		}
		pe := &pathEnum{info: info, ev: ev, cap: pathCap, fd: fi.Decl}
		paths, _ := pe.run(rs.Body.List)
		for _, p := range paths {
			n++
			okDelegate := true
			for _, e := range p.Events {
				if e.Kind != "delegate" {
					continue
				}
				call := e.Node.(*ast.CallExpr)
				good := wv != nil && objOfIdent(info, call.Args[2]) == wv
				// candidate list: []*client.OpResult{index[key]}: the key is derived from the want and is the field the
				// index was filled by
				if cl, ok := ast.Unparen(call.Args[1]).(*ast.CompositeLit); good && ok && len(cl.Elts) == 1 {
					m := candRe.FindStringSubmatch(p.TermAtEnd(pe, cl.Elts[0]))
					good = false
					if m != nil {
						for o := range idx {
							if varKey(o) == m[1] && fillKey[o] != "" && m[3] == varKey(wv)+"."+fillKey[o] {
								good = true
							}
						}
					}
				} else {
					good = false
				}
				if !good {
					okDelegate = false
				}
			}
			switch {
			case !okDelegate:
				bad = "HasResult is not called with (the indexed candidate for the want's own key, the want): " + p.describe(c.P)
			case p.End == "panic" || p.count("delegate") == 1:
			default:
				bad = "a wanted result is accepted without being delegated to HasResult or failing: " + p.describe(c.P)
			}
		}
		return true
	})
	c.Sites += n
	c.check(bad == "" && n >= 4 && len(idx) >= 4, rule, fi.Name, "every want is delegated to HasResult on its indexed candidate, or fails", c.P.pos(fi.Decl.Pos()), fmt.Sprintf("%d paths over %d indexes built from the results", n, len(idx)), bad)
}

// GetResponseHasEntries: every kind's lookup is followed by Fatal on absent; the index is filled per network instance
func ruleGetEntriesLookups(c *Ctx) {
	const rule = "GET-ENTRIES-LOOKUP"
	fi := c.need("chk", "", "GetResponseHasEntries")
	ks := c.kindsOK()
	if fi == nil || ks == nil {
		return
	}
	info := fi.Pkg.TypesInfo
	var switches []*ast.TypeSwitchStmt
	inspectNoFuncLit(fi.Decl.Body, func(n ast.Node) bool {
		if ts, ok := n.(*ast.TypeSwitchStmt); ok {
			switches = append(switches, ts)
		}
		return true
	})
	if len(switches) != 2 {
		c.vanished(rule, fi.Name, "index / lookup switches", fmt.Sprintf("found %d type switches, want 2 (index, lookup)", len(switches)))
		return
	}
	keyBad := ""
	// which cache field does each kind use in each switch
	fieldOf := func(ts *ast.TypeSwitchStmt) map[string]string {
		out := map[string]string{}
		for _, cc := range ts.Body.List {
			cl := cc.(*ast.CaseClause)
			if len(cl.List) != 1 {
				continue
			}
			tv := info.Types[cl.List[0]]
			for _, k := range ks {
				if isNamed(tv.Type, spbPath, k.EntryOneof) {
					ast.Inspect(cl, func(n ast.Node) bool {
						if ie, ok := n.(*ast.IndexExpr); ok {
							if se, ok := ast.Unparen(ie.X).(*ast.SelectorExpr); ok {
								out[k.Table] = se.Sel.Name
								if why := keyTransformed(info, ie.Index); why != "" && keyBad == "" {
									keyBad = fmt.Sprintf("the %s cache %q is accessed under %s, %s: two different keys can meet in one slot, so an entry that was not returned is found", k.Table, se.Sel.Name, types.ExprString(ie.Index), why)
								}
							}
						}
						return true
					})
				}
			}
		}
		return out
	}
	a, b := fieldOf(switches[0]), fieldOf(switches[1])
	c.check(keyBad == "", rule, fi.Name, "caches are accessed under the entry's key as returned", c.P.pos(fi.Decl.Pos()), "no narrowing conversion or transforming call in an index expression", keyBad)
	bad := ""
	seenFld := map[string]string{}
	for _, k := range ks {
		c.Sites++
		if a[k.Table] == "" || b[k.Table] == "" {
			bad = k.Table + " entries are not both indexed and looked up"
			continue
		}
		if a[k.Table] != b[k.Table] {
			bad = fmt.Sprintf("%s entries are indexed in cache %q but looked up in %q", k.Table, a[k.Table], b[k.Table])
		}
		if prev, ok := seenFld[a[k.Table]]; ok {
			bad = fmt.Sprintf("%s and %s share one cache (%s): their keys collide", prev, k.Table, a[k.Table])
		}
		seenFld[a[k.Table]] = k.Table
	}
	// index fill: a key read through the value getter of one arm of a oneof (GetLabelUint64 returns 0 for the
	// enum arm) files every entry of the other arm under the zero key — the fill must be inside a test that the
	// key is of that arm
	fills := oneofArmFills(info, switches[0])
	c.floor(rule, "index fills keyed by the value getter of a oneof arm", len(fills), 1)
	for _, msg := range fills {
		c.Sites++
		c.check(msg.guarded, rule, fi.Name, "index fill keyed by "+msg.getter+" is guarded by the arm test", c.P.pos(msg.pos), "the fill is inside `_, ok := ….(*"+msg.arm+"); ok` (or the matching type-switch clause)",
			"the cache is filled under the key "+msg.getter+"(), the value getter of oneof arm "+msg.arm+", without testing that the key is of that arm: an entry keyed by another arm (a reserved-label enum) is filed under key 0, and a wanted label 0 is then found although no such entry was returned")
	}
	// lookup: on every path through one iteration of the wants loop, an absent key ends in Fatal and a present one does not
	// (decided from what the path knows about the lookup's own comma-ok result: a flag that outlives the iteration does not count)
	{
		var wloop *ast.RangeStmt
		ast.Inspect(fi.Decl.Body, func(n ast.Node) bool {
			if rs, ok := n.(*ast.RangeStmt); ok && containsNode(rs.Body, switches[1]) {
				wloop = rs
			}
			return true
		})
		if wloop == nil {
			bad = "the lookup switch is not inside a loop over the wanted entries"
		} else {
			ev := func(n ast.Node) []Event {
				var out []Event
				inspectNoFuncLit(n, func(m ast.Node) bool {
					as, ok := m.(*ast.AssignStmt)
					if !ok || len(as.Lhs) != 2 || len(as.Rhs) != 1 || !containsNode(switches[1], as) {
						return true
					}
					if ie, ok := ast.Unparen(as.Rhs[0]).(*ast.IndexExpr); ok {
						if _, isSel := ast.Unparen(ie.X).(*ast.SelectorExpr); isSel {
							out = append(out, Event{Kind: "lookup", Node: as, Data: objOfIdent(info, as.Lhs[1])})
						}
					}
					return true
				})
				return out
			}
			lpaths, lpe := enumPaths(info, wloop.Body.List, ev)
			c.Sites += len(lpaths)
			nAbsent, nPresent := 0, 0
			if lpe.overflow {
				bad = "cannot enumerate the lookup loop"
			}
			for _, p := range lpaths {
				li := idx(p, "lookup")
				if li < 0 {
					continue
				}
				okObj, _ := p.Events[li].Data.(types.Object)
				if okObj == nil {
					bad = "a lookup does not keep its found result"
					continue
				}
				if os.Getenv("GL_DEBUG") != "" {
					fmt.Println("DBG", factsAfter(info, p, li, len(p.Events)).Obj(okObj), p.End, p.describe(c.P))
				}
				switch factsAfter(info, p, li, len(p.Events)).Obj(okObj) {
				case -1:
					nAbsent++
					if p.End != "panic" {
						bad = "an absent entry does not end in Fatal within the same iteration: " + p.describe(c.P)
					}
				case +1:
					nPresent++
					if p.End == "panic" {
						bad = "a present entry ends in Fatal: " + p.describe(c.P)
					}
				default:
					bad = "a path through the lookup does not depend on whether the entry was found: " + p.describe(c.P)
				}
			}
			if bad == "" && (nAbsent < 5 || nPresent < 5) {
				bad = fmt.Sprintf("expected an absent and a present path for each of the five kinds, found %d / %d", nAbsent, nPresent)
			}
		}
	}
	// the cache is per network instance: both switches work on the cache selected by the entry's / want's network instance
	c.check(bad == "", rule, fi.Name, "each kind is indexed and looked up in its own per-instance cache; absent ⇒ Fatal", c.P.pos(fi.Decl.Pos()), fmt.Sprintf("index: %v", a), bad)
	// the cache is per network instance: on every path the cache written / read in
	// an arm is the one bound to the instance of the entry (index loop) or of the want (lookup loop)
	for li, ts := range switches {
		loopName := []string{"index", "lookup"}[li]
		var loop *ast.RangeStmt
		ast.Inspect(fi.Decl.Body, func(n ast.Node) bool {
			if rs, ok := n.(*ast.RangeStmt); ok && containsNode(rs.Body, ts) {
				loop = rs // (the innermost one wins: Inspect visits outer loops first)
			}
			return true
		})
		if loop == nil {
			c.vanished(rule, fi.Name, loopName+" loop", "the "+loopName+" switch is not inside a range loop")
			continue
		}
		rv := objOfIdent(info, loop.Value)
		if rv == nil {
			c.vanished(rule, fi.Name, loopName+" loop", "the loop has no value variable")
			continue
		}
		// the key of this iteration's instance: <something derived from the loop value>.NetworkInstance
		isInstKey := func(e ast.Expr) bool {
			t := canonTerm(fi, e)
			if strings.HasSuffix(t, ".NetworkInstance") && strings.HasPrefix(t, varKey(rv)+".") {
				return true
			}
			// (a parameter of a spliced-in helper bound to it)
			o, p := aliasedSelectorPath(info, fi.Decl, e)
			return o == rv && len(p) > 0 && p[len(p)-1] == "NetworkInstance"
		}
		cacheVarOf := func(e ast.Expr) types.Object { // X in X.field[k]
			ie, ok := ast.Unparen(e).(*ast.IndexExpr)
			if !ok {
				return nil
			}
			se, ok := ast.Unparen(ie.X).(*ast.SelectorExpr)
			if !ok {
				return nil
			}
			return objOfIdent(info, se.X)
		}
		// which local is the cache used in the arms
		var cv types.Object
		ast.Inspect(ts, func(n ast.Node) bool {
			if e, ok := n.(ast.Expr); ok && cv == nil {
				if o := cacheVarOf(e); o != nil {
					if _, isVar := o.(*types.Var); isVar {
						cv = o
					}
				}
			}
			return true
		})
		if cv == nil {
			c.vanished(rule, fi.Name, loopName+" loop", "no cache variable used in the arms")
			continue
		}
		// the cache variable and the parameters of spliced-in helpers that stand for it are one variable
		cvRoot := frameArgRoot(info, fi.Decl, cv)
		same := func(o types.Object) bool { return o != nil && frameArgRoot(info, fi.Decl, o) == cvRoot }
		ev := func(n ast.Node) []Event {
			var out []Event
			inspectNoFuncLit(n, func(m ast.Node) bool {
				switch x := m.(type) {
				case *ast.AssignStmt:
					// cv (, ok) := M[key]   |   cv = <other>   |   M[key] = cv / M[key] = &cache{…}
					for i, l := range x.Lhs {
						if same(objOfIdent(info, l)) {
							if len(x.Rhs) == len(x.Lhs) && objOfIdent(info, l) != cvRoot && same(objOfIdent(info, x.Rhs[i])) {
								continue // the binding of a helper's parameter to the cache variable
							}
							var rhs ast.Expr
							if len(x.Rhs) == len(x.Lhs) {
								rhs = x.Rhs[i]
							} else if i == 0 && len(x.Rhs) == 1 {
								rhs = x.Rhs[0]
							}
							k := "cache←other"
							if ie, ok := ast.Unparen(rhs).(*ast.IndexExpr); ok && isInstKey(ie.Index) {
								k = "cache←lookup"
							}
							out = append(out, Event{Kind: k, Node: x})
						}
						if ie, ok := ast.Unparen(l).(*ast.IndexExpr); ok && len(x.Rhs) == len(x.Lhs) && isInstKey(ie.Index) {
							if same(objOfIdent(info, x.Rhs[i])) {
								out = append(out, Event{Kind: "bind-cache", Node: x})
							} else {
								out = append(out, Event{Kind: "bind-other", Node: x})
							}
						}
					}
				}
				if rs, ok := m.(*ast.ReturnStmt); ok && len(rs.Results) == 1 {
					// the result of a helper spliced in, received by the cache variable: `return M[key]` binds it
					var in *inlineFrame
					for _, fr := range framesIn(fi.Decl) {
						if containsNode(fr.Block, rs) && (in == nil || containsNode(in.Block, fr.Block)) {
							in = fr
						}
					}
					if in != nil && len(in.Lhs) == 1 && same(objOfIdent(info, in.Lhs[0])) && !same(objOfIdent(info, rs.Results[0])) {
						k := "cache←other"
						if ie, ok := ast.Unparen(rs.Results[0]).(*ast.IndexExpr); ok && isInstKey(ie.Index) {
							k = "cache←lookup"
						}
						out = append(out, Event{Kind: k, Node: rs})
					}
				}
				if e, ok := m.(ast.Expr); ok {
					if same(cacheVarOf(e)) {
						out = append(out, Event{Kind: "use", Node: m})
					}
				}
				return true
			})
			sort.SliceStable(out, func(i, j int) bool { return out[i].Node.Pos() < out[j].Node.Pos() })
			return out
		}
		paths, pe2 := enumPaths(info, loop.Body.List, ev)
		c.Sites += len(paths)
		if pe2.overflow {
			c.undecided(rule, fi.Name, loopName+" loop: cache of the instance", c.P.pos(loop.Pos()), "path enumeration incomplete")
			continue
		}
		badNI := ""
		uses := 0
		for _, p := range paths {
			state := "unbound" // how cv was last set on this path
			for _, e := range p.Events {
				switch e.Kind {
				case "cache←lookup":
					state = "bound"
				case "cache←other":
					state = "fresh"
				case "bind-cache":
					if state == "fresh" {
						state = "bound"
					}
				case "bind-other":
					// the map entry of this instance was replaced by something else: a cache bound by an earlier lookup is stale
					if state == "bound" {
						state = "stale"
					}
				case "use":
					uses++
					if state != "bound" {
						badNI = fmt.Sprintf("in the %s loop the cache %s is used (%s) on a path where it is not the cache of this iteration's network instance (%s): entries of one instance are %s under another: %s", loopName, cv.Name(), types.ExprString(e.Node.(ast.Expr)), state, map[string]string{"index": "indexed", "lookup": "looked up"}[loopName], p.describe(c.P))
					}
				}
			}
		}
		c.check(badNI == "" && uses >= 5, rule, fi.Name, loopName+" loop: the cache used is the one of the entry's own network instance", c.P.pos(loop.Pos()), fmt.Sprintf("%d uses on %d paths, each after binding the cache to <value>.NetworkInstance", uses, len(paths)), badNI)
	}
}

// R17.x HasRecvClientErrorWithStatus compares real statuses, one fresh copy per
// candidate: (a) the message handed to the comparison comes from
// status.FromError(e) and the comparison is reached only when that conversion
// succeeded (a plain error is skipped, not turned into a synthetic status);
// (b) the copy that is edited before the comparison (message blanked, details
// cleared) is made inside the innermost loop that contains the comparison, so
// the edits made for one candidate do not leak into the next.
func ruleStatusCompare(c *Ctx) {
	const rule = "STATUS-COMPARE"
	fi := c.need("chk", "", "HasRecvClientErrorWithStatus")
	if fi == nil {
		return
	}
	info := fi.Pkg.TypesInfo
	var cmp *ast.CallExpr
	for _, call := range callsIn(fi.Decl.Body) {
		if f, ok := calleeObj(info, call).(*types.Func); ok && f.Name() == "Equal" && len(call.Args) == 2 {
			cmp = call
		}
	}
	if cmp == nil {
		c.vanished(rule, fi.Name, "comparison", "no Equal(…) comparison")
		return
	}
	ev := func(n ast.Node) []Event {
		var out []Event
		for _, call := range callsIn(n) {
			f, ok := calleeObj(info, call).(*types.Func)
			if !ok {
				continue
			}
			switch {
			case f.Name() == "FromError" && f.Pkg() != nil && strings.HasSuffix(f.Pkg().Path(), "grpc/status"):
				d := &addEvData{call: call}
				if as := assignedFromCall(info, n, call); len(as) == 2 {
					d.ok = as[1]
				}
				out = append(out, Event{Kind: "from-error", Node: call, Data: d})
			case f.Name() == "Convert" && f.Pkg() != nil && strings.HasSuffix(f.Pkg().Path(), "grpc/status"):
				out = append(out, Event{Kind: "convert", Node: call})
			case call == cmp:
				out = append(out, Event{Kind: "compare", Node: call})
			}
		}
		return out
	}
	paths, pe := enumFunc(fi, ev, func(n ast.Node) bool { _, isRange := n.(*ast.RangeStmt); return isRange })
	c.Sites += len(paths)
	if pe.overflow || len(pe.unsup) > 0 {
		c.undecided(rule, fi.Name, "body", c.P.pos(fi.Decl.Pos()), "path enumeration incomplete")
		return
	}
	bad := ""
	nCmp := 0
	for _, p := range paths {
		ci := idx(p, "compare")
		if ci < 0 {
			continue
		}
		nCmp++
		if p.has("convert") {
			bad = "the received error is converted with status.Convert: an error that is not a gRPC status becomes a synthetic Unknown status and can satisfy the check"
			continue
		}
		fi2 := lastIdxBefore(p, "from-error", ci)
		if fi2 < 0 {
			bad = "the comparison is reached without converting the received error with status.FromError: " + p.describe(c.P)
			continue
		}
		d := p.Events[fi2].Data.(*addEvData)
		if d.ok == nil || factsAfter(info, p, fi2, ci).Obj(d.ok) != +1 {
			bad = "the comparison is reached although status.FromError did not report a status: " + p.describe(c.P)
		}
	}
	c.check(bad == "" && nCmp >= 1, rule, fi.Name, "only real statuses are compared", c.P.pos(cmp.Pos()), fmt.Sprintf("%d paths reach the comparison, all after FromError succeeded", nCmp), bad)
	// (b) freshness of the edited copy
	var inner ast.Node
	ast.Inspect(fi.Decl.Body, func(n ast.Node) bool {
		switch x := n.(type) {
		case *ast.RangeStmt:
			if containsNode(x.Body, cmp) {
				inner = x.Body
			}
		case *ast.ForStmt:
			if containsNode(x.Body, cmp) {
				inner = x.Body
			}
		}
		return true
	})
	fresh, why := true, ""
	if v, ok := objOfIdent(info, cmp.Args[0]).(*types.Var); ok && inner != nil {
		edited := false
		ast.Inspect(fi.Decl.Body, func(n ast.Node) bool {
			if as, ok := n.(*ast.AssignStmt); ok {
				for _, l := range as.Lhs {
					if o, p := selectorPath(info, l); o == v && len(p) > 0 {
						edited = true
					}
				}
			}
			return true
		})
		if edited {
			declInside := false
			ast.Inspect(inner, func(n ast.Node) bool {
				if id, ok := n.(*ast.Ident); ok && info.Defs[id] == v {
					declInside = true
				}
				return true
			})
			if !declInside {
				fresh, why = false, "the message "+v.Name()+" is edited before the comparison but is created outside the innermost loop over the accepted statuses: the edits made for one candidate carry over to the next"
			}
		}
	} else if inner == nil {
		fresh, why = false, "the comparison is not inside a loop over the candidates"
	}
	c.check(fresh, rule, fi.Name, "each candidate is compared with a fresh copy of the received status", c.P.pos(cmp.Pos()), "the edited copy is declared inside the innermost loop", why)
}

type armFill struct {
	getter, arm string
	guarded     bool
	pos         token.Pos
}

// oneofArmFills finds, inside n, map fills `m[k] = v` whose key calls the value getter of one arm of a
// protobuf oneof (derived from types: the receiver struct has an interface-typed field and the package
// declares the wrapper type <Msg>_<Arm> with the single field <Arm>, the method is Get<Arm>), and
// whether the fill is inside a positive test for that arm.
func oneofArmFills(info *types.Info, n ast.Node) []armFill {
	var out []armFill
	parents := map[ast.Node]ast.Node{}
	var stack []ast.Node
	ast.Inspect(n, func(m ast.Node) bool {
		if m == nil {
			stack = stack[:len(stack)-1]
			return true
		}
		if len(stack) > 0 {
			parents[m] = stack[len(stack)-1]
		}
		stack = append(stack, m)
		return true
	})
	armOf := func(call *ast.CallExpr) (getter, arm string, recv ast.Expr) {
		se, ok := ast.Unparen(call.Fun).(*ast.SelectorExpr)
		if !ok || len(call.Args) != 0 || !strings.HasPrefix(se.Sel.Name, "Get") {
			return
		}
		f, ok := info.ObjectOf(se.Sel).(*types.Func)
		if !ok || f.Pkg() == nil {
			return
		}
		rt := namedOf(f.Type().(*types.Signature).Recv().Type())
		if rt == nil {
			return
		}
		st, ok := rt.Underlying().(*types.Struct)
		if !ok {
			return
		}
		hasOneof := false
		for i := 0; i < st.NumFields(); i++ {
			if _, isI := st.Field(i).Type().Underlying().(*types.Interface); isI && strings.Contains(st.Tag(i), "protobuf_oneof") {
				hasOneof = true
			}
		}
		if !hasOneof {
			return
		}
		an := strings.TrimPrefix(se.Sel.Name, "Get")
		wn := rt.Obj().Name() + "_" + an
		if tn, ok := f.Pkg().Scope().Lookup(wn).(*types.TypeName); ok {
			if ws, ok := tn.Type().Underlying().(*types.Struct); ok && ws.NumFields() == 1 && ws.Field(0).Name() == an {
				return se.Sel.Name, wn, se.X
			}
		}
		return
	}
	ast.Inspect(n, func(m ast.Node) bool {
		as, ok := m.(*ast.AssignStmt)
		if !ok || len(as.Lhs) != 1 {
			return true
		}
		ie, ok := ast.Unparen(as.Lhs[0]).(*ast.IndexExpr)
		if !ok {
			return true
		}
		if _, isMap := info.TypeOf(ie.X).Underlying().(*types.Map); !isMap {
			return true
		}
		ast.Inspect(ie.Index, func(q ast.Node) bool {
			call, ok := q.(*ast.CallExpr)
			if !ok {
				return true
			}
			g, arm, recv := armOf(call)
			if g == "" {
				return true
			}
			af := armFill{getter: g, arm: arm, pos: as.Pos()}
			// walk outwards looking for the arm test on the same message
			for p := parents[ast.Node(as)]; p != nil; p = parents[p] {
				switch x := p.(type) {
				case *ast.IfStmt:
					// only when the fill is in the then-branch
					if !(as.Pos() >= x.Body.Pos() && as.End() <= x.Body.End()) {
						continue
					}
					if ia, ok := x.Init.(*ast.AssignStmt); ok && len(ia.Lhs) == 2 && len(ia.Rhs) == 1 {
						if ta, ok := ast.Unparen(ia.Rhs[0]).(*ast.TypeAssertExpr); ok && ta.Type != nil {
							okObj := objOfIdent(info, ia.Lhs[1])
							if nt := namedOf(info.TypeOf(ta.Type)); nt != nil && nt.Obj().Name() == arm && okObj != nil && objOfIdent(info, x.Cond) == okObj && sameMsg(info, ta.X, recv) {
								af.guarded = true
							}
						}
					}
				case *ast.CaseClause:
					if ts, ok := parents[parents[p]].(*ast.TypeSwitchStmt); ok && len(x.List) == 1 {
						if nt := namedOf(info.TypeOf(x.List[0])); nt != nil && nt.Obj().Name() == arm && typeSwitchOn(info, ts, recv) {
							af.guarded = true
						}
					}
				}
			}
			out = append(out, af)
			return true
		})
		return true
	})
	return out
}

// sameMsg: x is <recv>.Get<Oneof>() or <recv>.<Oneof> on the same message expression as recv.
func sameMsg(info *types.Info, x, recv ast.Expr) bool {
	x = ast.Unparen(x)
	if call, ok := x.(*ast.CallExpr); ok {
		if se, ok := ast.Unparen(call.Fun).(*ast.SelectorExpr); ok {
			return types.ExprString(se.X) == types.ExprString(recv) && rootObj(info, se.X) == rootObj(info, recv)
		}
	}
	if se, ok := x.(*ast.SelectorExpr); ok {
		return types.ExprString(se.X) == types.ExprString(recv) && rootObj(info, se.X) == rootObj(info, recv)
	}
	return false
}

func rootObj(info *types.Info, e ast.Expr) types.Object {
	o, _ := selectorPath(info, e)
	return o
}

func typeSwitchOn(info *types.Info, ts *ast.TypeSwitchStmt, recv ast.Expr) bool {
	var x ast.Expr
	switch a := ts.Assign.(type) {
	case *ast.AssignStmt:
		if len(a.Rhs) == 1 {
			if ta, ok := ast.Unparen(a.Rhs[0]).(*ast.TypeAssertExpr); ok {
				x = ta.X
			}
		}
	case *ast.ExprStmt:
		if ta, ok := ast.Unparen(a.X).(*ast.TypeAssertExpr); ok {
			x = ta.X
		}
	}
	return x != nil && sameMsg(info, x, recv)
}

// STATUS-OPTIONS: what each option of HasRecvClientErrorWithStatus may relax.
// AllowUnimplemented adds the bare Unimplemented status as an alternative and
// strips details only when comparing against that alternative; IgnoreDetails
// adds the wanted status without details and strips details. A flag that both
// options can set, used to strip details or to add the details-free want, makes
// AllowUnimplemented accept the wanted code with any (or no) error details.
func ruleStatusOptions(c *Ctx) {
	const rule = "STATUS-OPTIONS"
	fi := c.need("chk", "", "HasRecvClientErrorWithStatus")
	if fi == nil {
		return
	}
	info := fi.Pkg.TypesInfo
	ps := paramObjs(info, fi.Decl)
	if len(ps) < 4 {
		c.undecided(rule, fi.Name, "signature", c.P.pos(fi.Decl.Pos()), "unexpected parameters")
		return
	}
	want := ps[2]
	parents := map[ast.Node]ast.Node{}
	var stack []ast.Node
	ast.Inspect(fi.Decl.Body, func(m ast.Node) bool {
		if m == nil {
			stack = stack[:len(stack)-1]
			return true
		}
		if len(stack) > 0 {
			parents[m] = stack[len(stack)-1]
		}
		stack = append(stack, m)
		return true
	})
	optName := func(t types.Type) string {
		if nt := namedOf(t); nt != nil && nt.Obj().Pkg() == fi.Pkg.Types {
			return nt.Obj().Name()
		}
		return ""
	}
	flagTypes := map[types.Object]map[string]bool{}
	// literals of a condition in DNF: each disjunct is a list of literal strings: "flag:<obj>" / "code-unimplemented" / "?"
	type lit struct {
		flag types.Object
		code bool
		unk  string
	}
	var dnf func(e ast.Expr) [][]lit
	depth := 0
	dnf = func(e ast.Expr) [][]lit {
		e = ast.Unparen(e)
		switch x := e.(type) {
		case *ast.BinaryExpr:
			switch x.Op {
			case token.LOR:
				return append(dnf(x.X), dnf(x.Y)...)
			case token.LAND:
				var out [][]lit
				for _, a := range dnf(x.X) {
					for _, b := range dnf(x.Y) {
						out = append(out, append(append([]lit{}, a...), b...))
					}
				}
				return out
			case token.EQL:
				for _, pair := range [][2]ast.Expr{{x.X, x.Y}, {x.Y, x.X}} {
					if constName(info, pair[1]) == "Unimplemented" {
						if call, ok := ast.Unparen(pair[0]).(*ast.CallExpr); ok {
							if f, ok := calleeObj(info, call).(*types.Func); ok && f.Name() == "Code" {
								return [][]lit{{{code: true}}}
							}
						}
					}
				}
			}
		case *ast.Ident:
			if o, ok := info.ObjectOf(x).(*types.Var); ok {
				if b, ok := o.Type().Underlying().(*types.Basic); ok && b.Kind() == types.Bool {
					// a named condition (x := a && b) stands for its definition
					if def := soleDefinition(info, fi.Decl, o); def != nil && depth < 4 {
						if _, isConst := boolConst(info, def); !isConst {
							depth++
							r := dnf(def)
							depth--
							return r
						}
					}
					return [][]lit{{{flag: o}}}
				}
			}
		case *ast.SelectorExpr:
			// a flag kept in a field of a struct the function built itself (pseudo.go)
			if o, ok := pseudoFieldObj(info, x).(*types.Var); ok && o != nil {
				if b, ok := o.Type().Underlying().(*types.Basic); ok && b.Kind() == types.Bool {
					return [][]lit{{{flag: o}}}
				}
			}
		}
		return [][]lit{{{unk: types.ExprString(e)}}}
	}
	// the option types (and flags) under which a node executes: list of disjunct-lists, one per enclosing condition
	type guard struct {
		opt  string  // option type tested positively
		cond [][]lit // or a boolean condition
	}
	guardsOf := func(n ast.Node) []guard {
		var out []guard
		child := n
		for p := parents[n]; p != nil; child, p = p, parents[p] {
			switch x := p.(type) {
			case *ast.IfStmt:
				if child != ast.Node(x.Body) {
					continue
				}
				if ia, ok := x.Init.(*ast.AssignStmt); ok && len(ia.Lhs) == 2 && len(ia.Rhs) == 1 {
					if ta, ok := ast.Unparen(ia.Rhs[0]).(*ast.TypeAssertExpr); ok && ta.Type != nil && objOfIdent(info, x.Cond) != nil && objOfIdent(info, x.Cond) == objOfIdent(info, ia.Lhs[1]) {
						if on := optName(info.TypeOf(ta.Type)); on != "" {
							out = append(out, guard{opt: on})
							continue
						}
					}
				}
				out = append(out, guard{cond: dnf(x.Cond)})
			case *ast.CaseClause:
				if _, ok := parents[parents[p]].(*ast.TypeSwitchStmt); ok {
					for _, te := range x.List {
						if on := optName(info.TypeOf(te)); on != "" {
							out = append(out, guard{opt: on})
						}
					}
				}
			}
		}
		return out
	}
	// which options can set which flag (fixpoint over flags guarding flags)
	typesUnder := func(gs []guard) map[string]bool {
		// the set of options at least one of which must be present for the node to execute; "*" = unconstrained
		res := map[string]bool{"*": true}
		for _, g := range gs {
			cur := map[string]bool{}
			if g.opt != "" {
				cur[g.opt] = true
			} else {
				for _, dj := range g.cond {
					djT := map[string]bool{"*": true}
					for _, l := range dj {
						if l.flag != nil {
							if ft := flagTypes[l.flag]; ft != nil && !ft["*"] {
								if djT["*"] {
									djT = map[string]bool{}
									for k := range ft {
										djT[k] = true
									}
								} else {
									for k := range djT {
										if !ft[k] {
											delete(djT, k)
										}
									}
								}
							}
						}
					}
					for k := range djT {
						cur[k] = true
					}
				}
			}
			if cur["*"] {
				continue
			}
			if res["*"] {
				res = cur
			} else {
				for k := range res {
					if !cur[k] {
						delete(res, k)
					}
				}
			}
		}
		return res
	}
	var flagSets []*ast.AssignStmt
	ast.Inspect(fi.Decl.Body, func(n ast.Node) bool {
		if as, ok := n.(*ast.AssignStmt); ok && len(as.Lhs) == 1 && len(as.Rhs) == 1 && as.Tok == token.ASSIGN {
			if b, isB := boolConst(info, as.Rhs[0]); isB && b {
				if o, ok := objOfIdent(info, as.Lhs[0]).(*types.Var); ok {
					if bt, ok := o.Type().Underlying().(*types.Basic); ok && bt.Kind() == types.Bool {
						flagSets = append(flagSets, as)
					}
				}
			}
		}
		return true
	})
	for round := 0; round < 4; round++ {
		next := map[types.Object]map[string]bool{}
		for _, as := range flagSets {
			o := objOfIdent(info, as.Lhs[0])
			if next[o] == nil {
				next[o] = map[string]bool{}
			}
			for k := range typesUnder(guardsOf(as)) {
				next[o][k] = true
			}
		}
		flagTypes = next
	}
	only := func(m map[string]bool, opt string) bool { return len(m) == 1 && m[opt] }
	// (1) every statement that strips the details of the received status
	var cmp *ast.CallExpr
	for _, call := range callsIn(fi.Decl.Body) {
		if f, ok := calleeObj(info, call).(*types.Func); ok && f.Name() == "Equal" && len(call.Args) == 2 {
			cmp = call
		}
	}
	if cmp == nil {
		c.vanished(rule, fi.Name, "comparison", "no Equal(…) comparison")
		return
	}
	got := objOfIdent(info, cmp.Args[0])
	nStrip, nAlt := 0, 0
	bad := ""
	ast.Inspect(fi.Decl.Body, func(n ast.Node) bool {
		as, ok := n.(*ast.AssignStmt)
		if !ok || len(as.Lhs) != 1 {
			return true
		}
		o, p := selectorPath(info, as.Lhs[0])
		if o == nil || o != got || len(p) != 1 || p[0] != "Details" {
			return true
		}
		nStrip++
		// conjunction of the enclosing conditions, as DNF
		conj := [][]lit{{}}
		for _, g := range guardsOf(as) {
			var d [][]lit
			if g.opt != "" {
				d = [][]lit{{{unk: "option " + g.opt}}}
			} else {
				d = g.cond
			}
			var nx [][]lit
			for _, a := range conj {
				for _, b := range d {
					nx = append(nx, append(append([]lit{}, a...), b...))
				}
			}
			conj = nx
		}
		for _, dj := range conj {
			okDj, hasCode := false, false
			var allowFlag bool
			for _, l := range dj {
				if l.code {
					hasCode = true
				}
			}
			for _, l := range dj {
				if l.flag == nil {
					continue
				}
				ft := flagTypes[l.flag]
				if only(ft, "ignoreDetails") {
					okDj = true
				}
				if only(ft, "allowUnimplemented") {
					allowFlag = true
				}
			}
			if allowFlag && hasCode {
				okDj = true
			}
			if !okDj {
				var ls []string
				for _, l := range dj {
					switch {
					case l.flag != nil:
						var ts []string
						for k := range flagTypes[l.flag] {
							ts = append(ts, k)
						}
						sort.Strings(ts)
						ls = append(ls, fmt.Sprintf("%s (set under %v)", l.flag.Name(), ts))
					case l.code:
						ls = append(ls, "alternative is Unimplemented")
					default:
						ls = append(ls, l.unk)
					}
				}
				bad = fmt.Sprintf("the details of the received status are dropped when [%s] (%s): only IgnoreDetails may relax the details of the wanted status, AllowUnimplemented only those of the Unimplemented alternative — otherwise a check passing AllowUnimplemented accepts the wanted code with any ModifyRPCErrorDetails reason", strings.Join(ls, " ∧ "), c.P.pos(as.Pos()))
			}
		}
		return true
	})
	// (2) every alternative added to the accepted list
	var alts types.Object
	ast.Inspect(fi.Decl.Body, func(n ast.Node) bool {
		if rs, ok := n.(*ast.RangeStmt); ok && containsNode(rs.Body, cmp) {
			if o := objOfIdent(info, rs.X); o != nil {
				if sl, ok := o.Type().Underlying().(*types.Slice); ok && isNamed(sl.Elem(), "google.golang.org/grpc/internal/status", "Status") || ok && strings.HasSuffix(sl.Elem().String(), "status.Status") {
					alts = o
				}
			}
		}
		return true
	})
	if alts != nil {
		ast.Inspect(fi.Decl.Body, func(n ast.Node) bool {
			st, ok := n.(ast.Stmt)
			if !ok {
				return true
			}
			o, args := appendTarget(info, st)
			if o == nil || (o != alts && frameResultTarget(info, fi.Decl, o) != alts) {
				return true // (the list may be built by a helper spliced in: its result variable stands for the list)
			}
			for _, a := range args {
				nAlt++
				kind := classifyAlternative(info, fi.Decl, a, want)
				under := typesUnder(guardsOf(st))
				switch {
				case kind == "unimplemented" && only(under, "allowUnimplemented"):
				case kind == "want-without-details" && only(under, "ignoreDetails"):
				case kind == "?":
					bad = fmt.Sprintf("an accepted alternative of unrecognised shape is added (%s): %s", c.P.pos(st.Pos()), types.ExprString(a))
				default:
					var ts []string
					for k := range under {
						ts = append(ts, k)
					}
					sort.Strings(ts)
					bad = fmt.Sprintf("the alternative %q is accepted under %v (%s): the bare Unimplemented status may be added only by AllowUnimplemented and the wanted status without details only by IgnoreDetails", kind, ts, c.P.pos(st.Pos()))
				}
			}
			return true
		})
	}
	c.Sites += nStrip + nAlt
	if nStrip < 1 || nAlt < 2 || alts == nil {
		c.vanished(rule, fi.Name, "relaxations", fmt.Sprintf("found %d detail-stripping statements and %d added alternatives (floors 1 and 2)", nStrip, nAlt))
		return
	}
	c.check(bad == "", rule, fi.Name, "each option relaxes only what it documents", c.P.pos(fi.Decl.Pos()),
		fmt.Sprintf("%d stripping statements and %d alternatives: details dropped iff IgnoreDetails, or AllowUnimplemented ∧ the alternative is Unimplemented", nStrip, nAlt), bad)
}

// classifyAlternative: "unimplemented" (a status whose only content is the Unimplemented code),
// "want-without-details" (a copy of the wanted status with Details cleared), or "?".
func classifyAlternative(info *types.Info, fd *ast.FuncDecl, e ast.Expr, want types.Object) string {
	e = ast.Unparen(resolveLocal(info, fd, e))
	call, ok := e.(*ast.CallExpr)
	if !ok {
		return "?"
	}
	f, _ := calleeObj(info, call).(*types.Func)
	if f == nil {
		return "?"
	}
	switch f.Name() {
	case "New", "Newf":
		if len(call.Args) >= 1 && constName(info, call.Args[0]) == "Unimplemented" {
			return "unimplemented"
		}
	case "FromProto":
		if len(call.Args) != 1 {
			return "?"
		}
		a := ast.Unparen(call.Args[0])
		if cl, ok := unAddr(a).(*ast.CompositeLit); ok {
			fields := compositeFields(cl)
			if len(fields) == 1 && fields["Code"] != nil {
				found := false
				ast.Inspect(fields["Code"], func(n ast.Node) bool {
					if ex, ok := n.(ast.Expr); ok && constName(info, ex) == "Unimplemented" {
						found = true
					}
					return true
				})
				if found {
					return "unimplemented"
				}
			}
			return "?"
		}
		// a local: cloned from want.Proto(), Details cleared before use
		if v, ok := objOfIdent(info, a).(*types.Var); ok {
			def := soleDefinition(info, fd, v)
			fromWant, cleared := false, false
			if def != nil {
				ast.Inspect(def, func(n ast.Node) bool {
					if id, ok := n.(*ast.Ident); ok && info.ObjectOf(id) != nil && frameArgRoot(info, fd, info.ObjectOf(id)) == want {
						fromWant = true
					}
					return true
				})
			}
			ast.Inspect(fd.Body, func(n ast.Node) bool {
				if as, ok := n.(*ast.AssignStmt); ok && len(as.Lhs) == 1 && len(as.Rhs) == 1 {
					if o, p := selectorPath(info, as.Lhs[0]); o == v && len(p) == 1 && p[0] == "Details" && isNilIdent(info, as.Rhs[0]) {
						cleared = true
					}
				}
				return true
			})
			if fromWant && cleared {
				return "want-without-details"
			}
		}
	}
	return "?"
}

// COMPARE-STRUCTURAL — HasResult decides presence with cmp.Equal over client.OpResult values, field by
// field under the documented ignore list. go-cmp hands the comparison over to a type's own Equal method
// when it has one, so an Equal method on OpResult or on any repository type reachable from it (its
// Details, say) silently replaces the field-by-field comparison with whatever that method compares — a
// method that leaves a key field out makes results for different keys "equal" and an absent want pass.
func ruleCompareStructural(c *Ctx) {
	const rule = "COMPARE-STRUCTURAL"
	pk := c.P.pkg("client")
	if pk == nil {
		c.vanished(rule, "client", "package", "package client not loaded")
		return
	}
	tn, _ := pk.Types.Scope().Lookup("OpResult").(*types.TypeName)
	if tn == nil {
		c.vanished(rule, "client.OpResult", "type", "type not found")
		return
	}
	seen := map[*types.Named]bool{}
	var bad []string
	n := 0
	var walk func(t types.Type)
	walk = func(t types.Type) {
		switch x := t.(type) {
		case *types.Pointer:
			walk(x.Elem())
		case *types.Slice:
			walk(x.Elem())
		case *types.Map:
			walk(x.Elem())
		case *types.Named:
			if seen[x] || x.Obj().Pkg() == nil || !strings.HasPrefix(x.Obj().Pkg().Path(), modPath) {
				return
			}
			seen[x] = true
			n++
			for _, recv := range []types.Type{x, types.NewPointer(x)} {
				ms := types.NewMethodSet(recv)
				for i := 0; i < ms.Len(); i++ {
					if ms.At(i).Obj().Name() == "Equal" {
						bad = append(bad, x.Obj().Pkg().Name()+"."+x.Obj().Name()+".Equal")
					}
				}
			}
			if st, ok := x.Underlying().(*types.Struct); ok {
				for i := 0; i < st.NumFields(); i++ {
					walk(st.Field(i).Type())
				}
			}
		}
	}
	walk(tn.Type())
	c.Sites += n
	sort.Strings(bad)
	c.check(len(bad) == 0 && n >= 2, rule, "client.OpResult", "compared field by field", "-", fmt.Sprintf("%d repository types reachable from OpResult, none defines Equal", n),
		"cmp.Equal uses "+strings.Join(bad, ", ")+" instead of comparing the fields: whatever that method leaves out no longer distinguishes a wanted result from the ones present")
}

// measuredField: which field of the client error a measured list is — ce.Send directly, through a local, or
// through a selector function handed to a shared helper (errs := func(ce) []error { return ce.Send }; got := errs(…)).
func measuredField(info *types.Info, fd *ast.FuncDecl, e ast.Expr, depth int) string {
	if depth > 4 {
		return ""
	}
	e = ast.Unparen(resolveLocal(info, fd, e))
	switch x := e.(type) {
	case *ast.SelectorExpr:
		return x.Sel.Name
	case *ast.CallExpr:
		// a call of a function value bound to a literal with a single `return <selector>`
		fn := ast.Unparen(x.Fun)
		for hops := 0; hops < 4; hops++ {
			id, ok := fn.(*ast.Ident)
			if !ok {
				break
			}
			v, ok := info.ObjectOf(id).(*types.Var)
			if !ok {
				break
			}
			def := soleDefinition(info, fd, v)
			if def == nil {
				break
			}
			fn = ast.Unparen(def)
		}
		if fl, ok := fn.(*ast.FuncLit); ok && len(fl.Body.List) == 1 {
			if rs, ok := fl.Body.List[0].(*ast.ReturnStmt); ok && len(rs.Results) == 1 {
				if se, ok := ast.Unparen(rs.Results[0]).(*ast.SelectorExpr); ok {
					return se.Sel.Name
				}
			}
		}
	}
	return ""
}

// comparesWithParam: the condition is `<x> != <param>` (either order), the parameter possibly reached through
// the parameter binding of a spliced-in helper.
func comparesWithParam(info *types.Info, fd *ast.FuncDecl, e ast.Expr, param types.Object) bool {
	be, ok := ast.Unparen(e).(*ast.BinaryExpr)
	if !ok || be.Op != token.NEQ || param == nil {
		return false
	}
	return aliasRootObj(info, fd, be.X) == param || aliasRootObj(info, fd, be.Y) == param
}

// CLIENT-ERROR-CONVERSION — the helper behind the error matchers hands back the caller's own *client.ClientErr and
// nothing else: every returning path returns the value obtained by asserting the error to *client.ClientErr on a path
// where the assertion succeeded, every other path is fatal, and package chk never builds a ClientErr of its own (a
// fabricated one — e.g. "one receive error" made from a nil error — lets a count matcher pass although no error exists).
func ruleClientErrorConversion(c *Ctx) {
	const rule = "CLIENT-ERROR-CONVERSION"
	fi := c.need("chk", "", "clientError")
	if fi == nil {
		return
	}
	info := fi.Pkg.TypesInfo
	ps := paramObjs(info, fi.Decl)
	if len(ps) < 2 {
		c.undecided(rule, fi.Name, "parameters", c.P.pos(fi.Decl.Pos()), "expected (t, err)")
		return
	}
	errP := ps[len(ps)-1]
	// the assertion err.(*client.ClientErr)
	var valObj, okObj types.Object
	ast.Inspect(fi.Decl.Body, func(n ast.Node) bool {
		as, ok := n.(*ast.AssignStmt)
		if !ok || len(as.Lhs) != 2 || len(as.Rhs) != 1 {
			return true
		}
		ta, ok := ast.Unparen(as.Rhs[0]).(*ast.TypeAssertExpr)
		if !ok || ta.Type == nil || objOfIdent(info, ta.X) != errP {
			return true
		}
		if pt, ok := info.TypeOf(ta.Type).(*types.Pointer); ok && isNamed(pt.Elem(), modPath+"/client", "ClientErr") {
			valObj, okObj = objOfIdent(info, as.Lhs[0]), objOfIdent(info, as.Lhs[1])
		}
		return true
	})
	paths, pe := enumFunc(fi, func(ast.Node) []Event { return nil }, nil)
	bad := ""
	nRet, nFatal := 0, 0
	if pe.overflow || len(pe.unsup) > 0 || valObj == nil || okObj == nil {
		bad = "clientError does not assert its error to *client.ClientErr (or its paths could not be enumerated)"
	}
	for _, p := range paths {
		if bad != "" {
			break
		}
		f := factsAfter(info, p, -1, len(p.Events))
		switch p.End {
		case "panic":
			nFatal++
			if f.Obj(okObj) == +1 {
				bad = "fatal although the error is a *client.ClientErr: " + p.describe(c.P)
			}
		case "return":
			nRet++
			rs, _ := p.EndNode.(*ast.ReturnStmt)
			if rs == nil || len(rs.Results) != 1 || objOfIdent(info, rs.Results[0]) != valObj || f.Obj(okObj) != +1 {
				bad = "a path returns something other than the caller's own *client.ClientErr (the asserted value, on a path where the assertion succeeded): " + p.describe(c.P)
			}
		default:
			bad = "a path leaves clientError without a value: " + p.describe(c.P)
		}
	}
	c.Sites += len(paths)
	c.check(bad == "" && nRet >= 1 && nFatal >= 1, rule, fi.Name, "returns the caller's own ClientErr or is fatal", c.P.pos(fi.Decl.Pos()), fmt.Sprintf("%d returning, %d fatal paths", nRet, nFatal), bad)
	// nobody in chk builds a ClientErr
	var lits []string
	for _, g := range c.P.AllFuncs("chk") {
		if g.Decl.Body == nil {
			continue
		}
		ginfo := g.Pkg.TypesInfo
		ast.Inspect(g.Decl.Body, func(n ast.Node) bool {
			if cl, ok := n.(*ast.CompositeLit); ok {
				if tv, ok := ginfo.Types[cl]; ok && isNamed(tv.Type, modPath+"/client", "ClientErr") {
					lits = append(lits, g.Name+" ("+c.P.pos(cl.Pos())+")")
				}
			}
			return true
		})
	}
	c.check(len(lits) == 0, rule, "chk", "no ClientErr is fabricated", "-", "no composite literal of client.ClientErr in package chk", "package chk builds a client.ClientErr of its own in "+strings.Join(lits, ", ")+": the matchers would count errors the client never reported")
}

// keyTransformed: the index expression narrows an integer or passes the key through a function that is not a getter
// of a protobuf message ("" when the key is used as it is).
func keyTransformed(info *types.Info, e ast.Expr) string {
	why := ""
	ast.Inspect(e, func(n ast.Node) bool {
		call, ok := n.(*ast.CallExpr)
		if !ok {
			return true
		}
		if tv, ok := info.Types[call.Fun]; ok && tv.IsType() && len(call.Args) == 1 {
			to, ok1 := tv.Type.Underlying().(*types.Basic)
			from, ok2 := info.TypeOf(call.Args[0]).Underlying().(*types.Basic)
			if ok1 && ok2 && to.Info()&types.IsInteger != 0 && from.Info()&types.IsInteger != 0 {
				if sz := (types.StdSizes{WordSize: 8, MaxAlign: 8}); sz.Sizeof(to) < sz.Sizeof(from) {
					why = "a conversion from " + from.Name() + " to the narrower " + to.Name()
				}
			}
			return true
		}
		if f, ok := calleeObj(info, call).(*types.Func); ok {
			sig := f.Type().(*types.Signature)
			if sig.Recv() == nil || !strings.HasPrefix(f.Name(), "Get") {
				why = "passed through " + f.Name() + "()"
			}
		}
		return true
	})
	return why
}

// ifChainAsSwitch views `if c1 {A} else if c2 {B} else {C}` (no init statements, at least two conditions) as the
// tagless switch `switch { case c1: A; case c2: B; default: C }`; the else-ifs consumed are recorded in seen.
func ifChainAsSwitch(ifs *ast.IfStmt, seen map[*ast.IfStmt]bool) *ast.SwitchStmt {
	sw := &ast.SwitchStmt{Switch: ifs.Pos(), Body: &ast.BlockStmt{Lbrace: ifs.Pos(), Rbrace: ifs.End()}}
	n := 0
	for cur := ifs; cur != nil; {
		if cur.Init != nil {
			return nil
		}
		sw.Body.List = append(sw.Body.List, &ast.CaseClause{Case: cur.Pos(), List: []ast.Expr{cur.Cond}, Body: cur.Body.List})
		n++
		switch e := cur.Else.(type) {
		case *ast.IfStmt:
			seen[e] = true
			cur = e
		case *ast.BlockStmt:
			sw.Body.List = append(sw.Body.List, &ast.CaseClause{Case: e.Pos(), Body: e.List})
			cur = nil
		default:
			cur = nil
		}
	}
	if n < 2 {
		return nil
	}
	return sw
}
