# Claims table, exec'd by gen_manifest.py. One entry per claimed property.
TB = ("Trusted: the Go type checker, x/tools go/ssa + VTA call graph, and the frozen oracle tables inside gribilint "
      "(guard table, thread-root/MHP table, expected decision tables, setter rows — DESIGN.md appendix A). "
      "The check analyses /repo's source and executes none of it; it decides the named structural clauses only, "
      "not the behaviour over histories/schedules, which is listed as 'not decided' in the evidence.")

claim("C01", "AST path enumeration with finite-domain feasibility (dominance / no-trace obligations) + typed key-provenance lint",
      "Decides necessary structural conditions of the fold property on every path of the anchored functions: delete-before-merge in every install helper (a replace is total), wire-derived keys never narrowed without validation or a range test, no 'not done' return after the install/remove step and 'done' only after it, DELETE of a missing key is a success on its own table/key, explicit REPLACE requires an installed entry, RIB verdict → AFTResult mapping. Does not decide ygot merge semantics or the fold over concrete histories.",
      TB, "DESIGN.md §3 C01")
claim("C02", "AST path enumeration (gate dominance, only-fail-inside loops) + decision-table extraction + sibling agreement",
      "Decides: the resolvability gate checkFn(Add, validated candidate)==(true,nil) dominates every install in the five AddXXX; every holder is wired with the RIB's check (New/AddNetworkInstance agree); RIB.checkFn dispatch table; canResolve's per-kind shape (own-instance member lookup, named-or-own group lookup, zero ids/unknown instance fatal, backup never read); after every install the operation leaves the pending set and all held operations are retried; hold ⇔ forward references allowed. Does not decide cascades on concrete dependency graphs.",
      TB, "DESIGN.md §3 C02")
claim("C03", "mutation-site census + decision tables + per-path reference-counter event matching + VTA who-may-call",
      "Decides the inductive step of the counter invariant at every mutation site and the completeness of the site list: every table mutation is an audited install/remove/flush helper with audited callers; install/replace adjusts references exactly on the installed branch with the replaced entry of the same call; handleReferences' table over all valuations; DeleteEntry and Flush release exactly the removed entry's target/members; canDelete's table; counter primitives' shape; only audited code calls the primitives. Does not decide counter values on concrete histories.",
      TB, "DESIGN.md §3 C03")
claim("C04", "decision-table extraction with exhaustive valuation comparison + snapshot provenance + who-may-call",
      "Decides: checkElectionForModify equals the specified table on all valuations of its atoms (ids compared as 128-bit order types); modifyEntry calls the RIB only in the (proceed, nil) cell and every rejecting cell is effect-free; doModify hands one locked election snapshot to every operation; only modifyEntry/Server.Flush call the RIB mutators inside the server. Does not decide interleavings between snapshot and install.",
      TB, "DESIGN.md §3 C04")
claim("C05", "decision-table extraction over order-type atoms + lockset analysis (write needs exclusive mode) + store census",
      "Decides: isNewMaster is lexicographic on all 18 order-type classes of id pairs; every uint128.New takes (lo,hi) of one id and no stray word comparisons exist; runElection's table (preconditions effect-free, stores only on the new-master branch, reply carries the stored id); the compare-and-set holds elecMu exclusively; only runElection writes the election state. The running-maximum over histories follows by induction (DESIGN.md), not mechanised.",
      TB, "DESIGN.md §3 C05")
claim("C06", "AST structural path enumeration (exactly-one / paired-event obligations) + typed composite-literal census",
      "Decides, for all paths of the anchored functions: exactly one reply per operation in doModify; RIB_PROGRAMMED then (only under FIB ack) FIB_PROGRAMMED per ok and FAILED per fail with the result's id; exactly one verdict-or-hold per install attempt and rmPending with every terminal verdict; owner-less held operations (known finding). Does not decide eventual delivery or hand-over timing.",
      TB, "DESIGN.md §3 C06")
claim("C07", "kind-registry pairing rules over the typed AST (filter ↔ table ↔ converter ↔ oneof) + schema-tag comparison",
      "Decides the structural part only: GetRIB's five blocks pair AFTType, table, converter and oneof correctly and tag the holder's name; ALL expands to exactly the five; doGet's accepted set and scope; each Concrete*Proto strips exactly the schema path of its table (from aft/oc.go tags) and returns the entry's own key; FromGetResponses files each kind in its own table and instance; Get forwards every message. Payload fidelity through protomap/ygot is NOT decided (reflective third-party code).",
      TB, "DESIGN.md §3 C07")
claim("C08", "decision-table extraction (incl. type-switch atoms) + key-presence path rule + lockset",
      "Decides: checkFlushRequest and Server.Flush equal their specified tables on all valuations (codes and FlushResponseError reasons, instance selection, OK ⇔ no RIB error); RIB.Flush removes all five tables on the holder of the current list element; flush removal helpers only get keys known present; every flushed reference is released; the election id is read under its lock. Does not decide RIB contents on concrete RIBs.",
      TB, "DESIGN.md §3 C08")
claim("C09", "decision-table extraction for every transition function of the Modify session + field-coverage and pairing rules",
      "Decides every transition function for every input class: the receive loop's dispatch/termination table, checkParams, updateParams, runElection preconditions, doModify preconditions (status code + reason per cell, rejecting cells effect-free), consistency against every other session, clientParams field coverage, session footprint removed on every exit. Does not decide the product state machine over several sessions.",
      TB, "DESIGN.md §3 C09")
claim("C10", "SSA lockset: blocking-operation-under-lock + lock pairing; channel-use classification (lost stop signal); VTA must-not-reach",
      "Decides: nothing can block forever on a channel while a server/RIB lock is held (directly or in callees); a polled stop channel is closed by its owner on every exit; teardown and the Get RPC reach no state-changing function; locks are released on every path; the session table is cleaned on every exit. Does not decide promptness or transport behaviour.",
      TB, "DESIGN.md §3 C10")
claim("C11", "SSA must/may lockset with caller-requirement summaries (guarded-by), lock-order graph per may-happen-in-parallel group, pairing, blocking-under-lock",
      "Decides for all schedules what is visible in lock structure: every access to the six guarded server/RIB state groups reachable from the RPC roots holds its mutex in a sufficient mode (directly or in all callers); no lock-order cycle with an exclusive acquisition; no return holding a lock; no blocking under lock; installed entries are not modified in place. Does not decide races on unguarded memory, channel happens-before, or absence of panics.",
      TB, "DESIGN.md §3 C11")
claim("C12", "AST path enumeration (guard dominance, validate-before-mutate), kind-exhaustiveness, decision tables, call-graph recover containment",
      "Decides: nil-entry guards dominate first use in all AddXXX/DeleteXXX; schema validation dominates every install and candidateRIB validates on every success path; zero ids/empty groups/unknown instances are fatal (canResolve/canDelete/checkCandidate tables); oneof switches are exhaustive or rejecting; modifyEntry/doModify/doGet reject malformed input in-band before touching the RIB; the reflective conversion runs under a deferred recover on every chain from the RPC roots. Does not decide the space of all protobufs.",
      TB, "DESIGN.md §3 C12")
claim("C13", "decision-table extraction (clearPendingOp, AwaitConverged) + path rules (register-before-send, one dequeue decision per result) + client lockset",
      "Decides: clearPendingOp's dequeue table over all (pending, status, ack-mode) valuations; results carry id/status of the AFTResult and type/key of the pending op for all five kinds; operations are registered pending before the request can be sent; multi-kind responses rejected before any effect; converged ⇔ nothing queued ∧ nothing pending (all three kinds); AwaitConverged's table in one exclusive section; guarded-by and lock order for the client locks. Does not decide behaviour against adversarial servers over time.",
      TB, "DESIGN.md §3 C13")
claim("C14", "SSA blocking-under-lock for client locks + lifecycle pairing rules + field-coverage of Reset",
      "Decides: no channel operation can block forever under a client lock (queueing gives up when the sender exits); goroutines are counted before start, signal Done/wait-group/exit channel on every exit; disconnect waits; stream errors are recorded before the loop exits; Reset reassigns/drains every transient field (new fields must be classified); lock order for Reset/Close/StartSending ∥ Q. Does not decide bounded time or gRPC behaviour.",
      TB, "DESIGN.md §3 C14")
claim("C15", "per-loop path enumeration with side (intended/target) provenance + bucket pairing + builder shape",
      "Decides: diff has an add/replace loop and a delete loop for each of the five tables with the right lookup direction, builder, method and bucket, exactly one id increment per operation, silence ⇔ DeepEqual; both RIBs' network instances are walked; builders stamp id/instance/method/converted payload. Does not decide that applying the operations converges (an execution).",
      TB, "DESIGN.md §3 C15")
claim("C16", "AST path enumeration (notify-after-mutate) + mutation-site census + provenance of hook propagation and snapshots",
      "Decides: every AddXXX/DeleteXXX and flush removal helper calls postChangeHook(op, ts, own name, affected entry) after the mutation on success paths; no unaccounted mutation site; the hook is remembered at RIB level and copied into every later holder; resolved-entry notifications are sent once per successful top-level add/delete with the right table constant and key, carrying only DeepCopy snapshots. Does not decide the fold of notifications over histories.",
      TB, "DESIGN.md §3 C16")
claim("C17", "kind-exhaustiveness + found-flag path rule + decision table of ignore options + index/lookup pairing",
      "Decides: every kind switch in chk covers all five kinds or fails; found-flag helpers pass ⇔ the comparison succeeded for some candidate (Fatal otherwise); the IgnoreFields list equals its specified table over all option valuations and names real fields; count helpers measure the right list and accept nil only for 0; the cached checker delegates every verdict to HasResult on the candidate indexed by the want's own key, or fails. Does not decide cmp/proto equality semantics.",
      TB, "DESIGN.md §3 C17")
claim("C18", "SSA store-provenance signatures compared with frozen per-method rows + decision table of id/election stamping + clone provenance",
      "Decides per method: which protobuf fields each With*/Add* stores and from which parameter (43 rows), receiver returned; OpProto/EntryProto return proto.Clone of the builder's message with its instance/election id in the oneof of its kind; entriesToModifyRequest's table (explicit ids rejected, one increment before the id, stamp ⇔ connection ∧ elected ∧ entry has none); both election-id setters record the announced id; the three verbs use their own op type. Does not decide arbitrary builder programs.",
      TB, "DESIGN.md §3 C18")
claim("C19", "typed-AST registry rules over the TestSuite literal + clean-up pairing paths + election-counter interval rule + verdict reachability",
      "Decides registry hygiene only: ack type ⇔ RequiresFIBACK for every suite entry, every exported test is registered, every test that programs entries flushes afterwards on non-fatal paths, every function leaves the shared election counter above the ids it announced and never uses counter-k where that can be 0, every registered test reaches a verdict not cut off by an unconditional Skip (one known finding). Actual pass/fail against any server is NOT decided.",
      TB, "DESIGN.md §3 C19")
