package main

func init() {
	propRules["C12"] = func(c *Ctx) { ribFamily(c, famSel{nilGuard: true, validate: true}) }
	propRules["C01"] = func(c *Ctx) { ribFamily(c, famSel{mergeTotal: true, noTrace: true, delIdem: true, keyAgree: true}) }
	propRules["C16"] = func(c *Ctx) { ribFamily(c, famSel{hookAdd: true, hookDel: true, hookFlush: true}) }
}
