package main

// Thorough tier: the both-ways self-test of the checker (DESIGN.md §1.4).
//
// Every catalogued variant of /repo's current source — a mutant that breaks
// one rule instance, or a neutral rewrite that keeps behaviour — is analysed
// through an in-memory overlay in its own subprocess. Mutants must be
// reported by the named rule; neutral rewrites must leave the check silent.
// This validates the checker; its counts are reported separately from the
// verdict on the real tree and never change the exit status.

import (
	"encoding/json"
	"fmt"
	"os"
	"os/exec"
	"path/filepath"
	"sort"
	"strings"
	"sync"
)

type variant struct {
	ID       string `json:"id"`
	Property string `json:"property"`
	File     string `json:"file"`
	Old      string `json:"old"`
	New      string `json:"new"`
	Occ      int    `json:"occ"`
	Expect   string `json:"expect"` // substring of the expected report line ("" for neutral rewrites)
	Neutral  bool   `json:"neutral"`
	Note     string `json:"note,omitempty"`
	// Edits: a multi-hunk / multi-file variant (seeded changes and refactorings
	// produced by independent agents, converted from their patches); applied in order.
	Edits []variantEdit `json:"edits,omitempty"`
}

type variantEdit struct {
	File string `json:"file"`
	Old  string `json:"old"`
	New  string `json:"new"`
	Occ  int    `json:"occ"`
}

type variantResult struct {
	ID, Outcome, Detail string
}

func loadVariants() ([]variant, error) {
	var out []variant
	files, _ := filepath.Glob(filepath.Join(verifDir(), "selftest", "*.json"))
	sort.Strings(files)
	for _, f := range files {
		b, err := os.ReadFile(f)
		if err != nil {
			return nil, err
		}
		var vs []variant
		if err := json.Unmarshal(b, &vs); err != nil {
			return nil, fmt.Errorf("%s: %v", f, err)
		}
		out = append(out, vs...)
	}
	return out, nil
}

func init() {
	thoroughExtras = func(c *Ctx, extra map[string]any) {
		if os.Getenv("GRIBILINT_OVERLAY") != "" || os.Getenv("GRIBILINT_NO_SELFTEST") != "" {
			return
		}
		vs, err := loadVariants()
		if err != nil {
			extra["selftest"] = map[string]any{"error": err.Error()}
			return
		}
		var mine []variant
		for _, v := range vs {
			if v.Property == c.Prop {
				mine = append(mine, v)
			}
		}
		results := make([]variantResult, len(mine))
		sem := make(chan struct{}, 8)
		var wg sync.WaitGroup
		self, _ := os.Executable()
		for i, v := range mine {
			wg.Add(1)
			go func(i int, v variant) {
				defer wg.Done()
				sem <- struct{}{}
				defer func() { <-sem }()
				results[i] = runVariant(self, c, v)
			}(i, v)
		}
		wg.Wait()
		counts := map[string]int{}
		var samples []variantResult
		for _, r := range results {
			counts[r.Outcome]++
			if r.Outcome != "mutant-reported" && r.Outcome != "neutral-silent" {
				fmt.Printf("SELFTEST %s %s: %s %s\n", c.Prop, r.ID, r.Outcome, r.Detail)
			}
			samples = append(samples, r)
		}
		extra["selftest"] = map[string]any{
			"variants": len(mine), "outcomes": counts, "results": samples,
			"explanation": "mutant-reported: the named rule fired on a variant that breaks it; neutral-silent: a behaviour-preserving rewrite left the check silent; site-missing / does-not-typecheck: variant not applicable to the current tree (not counted); mutant-missed / neutral-alarm: weaknesses of the checker, listed on stdout, they do not change the verdict on /repo",
		}
	}
}

func runVariant(self string, c *Ctx, v variant) variantResult {
	edits := v.Edits
	if len(edits) == 0 {
		edits = []variantEdit{{v.File, v.Old, v.New, v.Occ}}
	}
	content := map[string]string{}
	for _, e := range edits {
		cur, ok := content[e.File]
		if !ok {
			src, err := os.ReadFile(filepath.Join(c.P.RepoDir, e.File))
			if err != nil {
				return variantResult{v.ID, "site-missing", err.Error()}
			}
			cur = string(src)
		}
		parts := strings.Split(cur, e.Old)
		if e.Old == "" || len(parts)-1 <= e.Occ {
			return variantResult{v.ID, "site-missing", "text not found in " + e.File}
		}
		content[e.File] = strings.Join(parts[:e.Occ+1], e.Old) + e.New + strings.Join(parts[e.Occ+1:], e.Old)
	}
	tmp, err := os.MkdirTemp("", "glself_")
	if err != nil {
		return variantResult{v.ID, "error", err.Error()}
	}
	defer os.RemoveAll(tmp)
	ov, _ := json.Marshal(content)
	ovPath := filepath.Join(tmp, "overlay.json")
	os.WriteFile(ovPath, ov, 0o644)
	if b, err := os.ReadFile(filepath.Join(verifDir(), "known_findings.json")); err == nil {
		os.WriteFile(filepath.Join(tmp, "known_findings.json"), b, 0o644)
	}
	cmd := exec.Command(self, v.Property, "quick")
	// the variant is judged the way a tree is judged: by a fresh orchestrating process (both views)
	var env []string
	for _, e := range os.Environ() {
		if !strings.HasPrefix(e, "GRIBILINT_CHILD=") && !strings.HasPrefix(e, "GRIBILINT_SPLICE_MULTI=") {
			env = append(env, e)
		}
	}
	cmd.Env = append(env, "GRIBILINT_OVERLAY="+ovPath, "GRIBILINT_VERIF="+tmp)
	out, err := cmd.CombinedOutput()
	code := 0
	if ee, ok := err.(*exec.ExitError); ok {
		code = ee.ExitCode()
	} else if err != nil {
		return variantResult{v.ID, "error", err.Error()}
	}
	text := string(out)
	switch {
	case code == 2:
		return variantResult{v.ID, "does-not-typecheck", firstLine(text)}
	case v.Neutral && code == 0:
		return variantResult{v.ID, "neutral-silent", ""}
	case v.Neutral:
		return variantResult{v.ID, "neutral-alarm", firstViolation(text)}
	case code == 1 && (v.Expect == "" || strings.Contains(text, v.Expect)):
		return variantResult{v.ID, "mutant-reported", v.Expect}
	case code == 1:
		return variantResult{v.ID, "mutant-reported-by-other-rule", firstViolation(text)}
	default:
		return variantResult{v.ID, "mutant-missed", v.Note}
	}
}

func firstLine(s string) string {
	if i := strings.Index(s, "\n"); i >= 0 {
		s = s[:i]
	}
	if len(s) > 300 {
		s = s[:300]
	}
	return s
}

func firstViolation(s string) string {
	for _, l := range strings.Split(s, "\n") {
		if strings.Contains(l, " VIOLATED ") || strings.Contains(l, " UNDECIDED ") || strings.Contains(l, " VANISHED ") {
			if len(l) > 300 {
				l = l[:300]
			}
			return l
		}
	}
	return firstLine(s)
}
