#!/usr/bin/env python3
"""Regenerates MANIFEST.json from the table below (kept next to the checks so that claims and commands stay in one place)."""
import json, sys

SETUP = "cd /verif/gribilint && PATH=/opt/veriftools/go1.26.8/bin:$PATH GOTOOLCHAIN=local GOFLAGS=-mod=mod GOPROXY=off GOSUMDB=off go build -o ../bin/gribilint ."

# id -> (technique, level text, level note, design ref)
CLAIMS = {}
NA = {}

def claim(pid, technique, text, note, ref):
    CLAIMS[pid] = dict(technique=technique, text=text, note=note, ref=ref)

exec(open('/verif/claims.py').read())

checks = []
for pid in sorted(CLAIMS):
    c = CLAIMS[pid]
    checks.append({
        "property_id": pid,
        "quick_cmd": f"bin/run {pid} quick",
        "thorough_cmd": f"bin/run {pid} thorough",
        "evidence_file": f"/verif/evidence/{pid}.json",
        "replay_cmd_template": "cat {path}",
        "engine": "gribilint",
        "level_claimed": {"category": "other", "text": c["text"], "design_ref": c["ref"]},
        "level_note": c["note"],
        "technique": c["technique"],
    })

m = {
    "version": 1,
    "setup_cmd": SETUP,
    "hooks": {
        "guard": "verif",
        "enable": "no hooks: the checks analyse /repo's source and never build or run it",
        "baseline_off_cmd": "cd /repo && GOFLAGS=-mod=mod go test -json -vet=off -count=1 -timeout 25m ./...",
        "source_commits": [],
        "add_only": True,
    },
    "engines": [{
        "name": "gribilint",
        "path": "/verif/gribilint",
        "serves_properties": sorted(CLAIMS),
        "kind_free_text": "repository-specific static analyser (go/packages + go/types AST rules, go/ssa dataflow, VTA call graph); analyses /repo's working tree on every run, executes nothing of it",
    }],
    "checks": checks,
    "not_applicable": [{"property_id": k, "reason": v} for k, v in sorted(NA.items())],
    "notes": "All claims are at level 'other': each check decides named structural necessary conditions of its property (listed in the evidence 'explanation' and in DESIGN.md section 3) and states what it does not decide. Exit 0 = every obligation discharged or listed in known_findings.json; exit 1 + VIOLATION line = an obligation violated, undecided or vanished; exit 2 = /repo does not load/type-check.",
}
json.dump(m, open('/verif/MANIFEST.json', 'w'), indent=1)
print("claimed", sorted(CLAIMS), "n/a", sorted(NA))
