package main

// C10 — client disconnects / abandoned RPCs never change state or wedge the server.
// C11 — concurrent RPCs: no race, deadlock or crash; quiescent state is consistent.

import (
	"fmt"
	"go/ast"
	"go/token"
	"go/types"
	"sort"
	"strings"

	"golang.org/x/tools/go/ssa"
)

func init() {
	propRules["C10"] = rulesC10
	propRules["C11"] = rulesC11
}

var serverLockClasses = []string{"Server.csMu", "Server.elecMu", "RIB.nrMu", "RIB.pendMu", "RIBHolder.mu", "niRefCounter.mu"}

func rulesC10(c *Ctx) {
	c.Decided = append(c.Decided,
		"R10.1 no channel operation that can block forever (a bare send/receive, a select without a stop case, WaitGroup.Wait) is executed, directly or in a callee, while a server or RIB lock is held",
		"R10.2 the stop request of an abandoned Get can be delivered: a channel that its consumers only poll is closed by its owner on every exit, never signalled with a non-blocking send",
		"R10.3 teardown cannot touch persistent state: neither deleteClient nor anything reachable from the Get RPC reaches an AFT mutator, a reference-counter primitive, the pending set or the election state (PRESERVE = no such code path exists)",
		"R10.4 the session table is cleaned on every exit of Modify (C09 R9.6)",
		"R10.5 every lock acquired by server/RIB code is released on every path",
		"R10.6 the election state outlives every session: curElecID / curMaster are written by runElection only (a departing session clears or promotes nothing), and what runElection compares an announcement with is the stored id (its decision table, shared with C05/C09)")
	c.NotDec = append(c.NotDec, "promptness and transport behaviour", "goroutines that outlive an abandoned RPC without holding a lock (listed as notes)")
	ruleLockDiscipline(c, lockSel{classes: serverLockClasses, pkgs: []string{"server", "rib"}, blocking: true, pairing: true, noGuarded: true})
	ruleStopSignal(c)
	ruleCloseBySender(c, []string{"Modify", "Get"}) // a session's end cannot panic the process: channels are closed by their sender only
	ruleDeferOrder(c, []string{"server", "rib"})    // an abandoned RPC leaks no lock, slot or signal through the order of its deferred calls
	ruleTeardownReach(c)
	ruleSessionFootprint(c)
	ruleElectionWriters(c)
	ruleRunElectionTable(c)
	ruleStateWriters(c, append(append([]writerRow{}, writersServerElection...), writersServerSession...))
}

func rulesC11(c *Ctx) {
	c.Decided = append(c.Decided,
		"R11.1 guarded-by: every access to the session table, the election state, the network-instance map, the pending set, the AFT tables and the reference counters that is reachable from the Modify/Get/Flush RPCs (and their goroutines) happens with its guarding mutex held in a sufficient mode, directly or by every caller",
		"R11.2 lock order: no cycle with an exclusive acquisition among the locks taken by code reachable from the RPC roots; nested same-class locking only in RIB.Flush over a sorted instance list",
		"R11.3 pairing: no return with a lock held and not deferred-released (one named suppression)",
		"R11.4 nothing blocks on a channel while a lock is held",
		"R11.5 installed AFT entries are never modified in place by non-generated code (assumption of the lockset analysis)")
	c.NotDec = append(c.NotDec, "races on memory that is not mutex-guarded by design (per-session state is only touched by its own session's goroutine)", "happens-before through channels", "absence of panics in general", "the quiescent RIB equality (C01)")
	ruleLockDiscipline(c, lockSel{classes: serverLockClasses, pkgs: []string{"server", "rib"}, blocking: true, pairing: true})
	ruleLockOrder(c, "server")
	ruleEntryImmutability(c)
	ruleElectionWriters(c)
	ruleElectionAtomic(c)
	ruleStateWriters(c, append(append(append([]writerRow{}, writersServerSession...), writersServerElection...), writersRIB...))
	ruleAtomicUpdate(c, []string{"server", "rib"}, 0) // no guarded field is rewritten from a copy read under an earlier acquisition
	// Flush holds the locks of all listed instances at once: it must take them in the order of the list it is
	// given (callers pass one name or the sorted list), never in map-iteration order (shared with C08)
	ruleFlushScope(c)
	ruleForwarderJoined(c)                          // every request is answered: the handler does not return while a result is being written (shared with C06)
	ruleCloseBySender(c, []string{"Modify", "Get"}) // never panics: channels are closed by their sender only (shared with C10)
}

// chanUse summarises how a channel-typed variable is used in a function and its callees.
type chanUse struct {
	recvPoll, recvBlocking, sendBlocking, sendNonBlocking, closes, deferredClose int
	where                                                                        []string
}

func (u *chanUse) add(o chanUse) {
	u.recvPoll += o.recvPoll
	u.recvBlocking += o.recvBlocking
	u.sendBlocking += o.sendBlocking
	u.sendNonBlocking += o.sendNonBlocking
	u.closes += o.closes
	u.deferredClose += o.deferredClose
	u.where = append(u.where, o.where...)
}

// chanUsesIn collects the uses of channel object ch inside body (without following calls).
func chanUsesIn(p *Prog, info *types.Info, body ast.Node, ch types.Object, fn string) (chanUse, []*ast.CallExpr) {
	var u chanUse
	var passed []*ast.CallExpr
	// the channel and the parameters of spliced-in helpers bound to it
	chs := map[types.Object]bool{ch: true}
	for changed := true; changed; {
		changed = false
		ast.Inspect(body, func(n ast.Node) bool {
			if b, ok := n.(*ast.BlockStmt); ok {
				if fr := inlineFrames[b]; fr != nil {
					for o, arg := range fr.Binds {
						if !chs[o] && chs[objOfIdent(info, arg)] && objOfIdent(info, arg) != nil {
							chs[o] = true
							changed = true
						}
					}
				}
			}
			return true
		})
	}
	isCh := func(e ast.Expr) bool { o := objOfIdent(info, e); return o != nil && chs[o] }
	var walk func(n ast.Node, inSelect *ast.SelectStmt)
	walk = func(n ast.Node, inSelect *ast.SelectStmt) {
		ast.Inspect(n, func(m ast.Node) bool {
			switch x := m.(type) {
			case *ast.SelectStmt:
				if x != n {
					for _, cc := range x.Body.List {
						cl := cc.(*ast.CommClause)
						if cl.Comm != nil {
							walk(cl.Comm, x)
						}
						for _, st := range cl.Body {
							walk(st, nil)
						}
					}
					return false
				}
			case *ast.SendStmt:
				if isCh(x.Chan) {
					if inSelect != nil && selectHasDefaultOrOther(inSelect, x) {
						u.sendNonBlocking++
						u.where = append(u.where, fn+": non-blocking send "+p.pos(x.Pos()))
					} else {
						u.sendBlocking++
					}
				}
			case *ast.UnaryExpr:
				if x.Op.String() == "<-" && isCh(x.X) {
					if inSelect != nil && len(inSelect.Body.List) > 1 {
						u.recvPoll++
					} else {
						u.recvBlocking++
					}
				}
			case *ast.DeferStmt:
				if id, ok := x.Call.Fun.(*ast.Ident); ok && id.Name == "close" && len(x.Call.Args) == 1 && isCh(x.Call.Args[0]) {
					u.deferredClose++
					return false
				}
				// defer func() { …; close(ch); … }(): an unconditional close at the top level of a deferred closure
				if fl, ok := ast.Unparen(x.Call.Fun).(*ast.FuncLit); ok {
					for _, st := range fl.Body.List {
						if es, ok := st.(*ast.ExprStmt); ok {
							if call, ok := es.X.(*ast.CallExpr); ok {
								if id, ok := call.Fun.(*ast.Ident); ok && id.Name == "close" && len(call.Args) == 1 && isCh(call.Args[0]) {
									u.deferredClose++
									return false
								}
							}
						}
					}
				}
			case *ast.CallExpr:
				if id, ok := x.Fun.(*ast.Ident); ok && id.Name == "close" && len(x.Args) == 1 && isCh(x.Args[0]) {
					u.closes++
				}
				for _, a := range x.Args {
					if isCh(a) {
						passed = append(passed, x)
					}
				}
			}
			return true
		})
	}
	walk(body, nil)
	return u, passed
}

func selectHasDefaultOrOther(s *ast.SelectStmt, self ast.Stmt) bool {
	for _, cc := range s.Body.List {
		cl := cc.(*ast.CommClause)
		if cl.Comm == nil {
			return true
		}
	}
	return false
}

// consumerUses follows the channel through call arguments (depth ≤ 3).
func consumerUses(c *Ctx, fi *FuncInfo, ch types.Object, depth int, seen map[*types.Func]bool) chanUse {
	var total chanUse
	info := fi.Pkg.TypesInfo
	_, passed := chanUsesIn(c.P, info, fi.Decl.Body, ch, fi.Name)
	for _, call := range passed {
		f, ok := calleeObj(info, call).(*types.Func)
		if !ok || !isRepoPkg(f.Pkg()) || seen[f] || depth <= 0 {
			continue
		}
		cfi := c.P.infoFor(f)
		if cfi == nil || cfi.Decl.Body == nil {
			continue
		}
		seen[f] = true
		c.Analysed[cfi.Name] = true
		ps := paramObjs(cfi.Pkg.TypesInfo, cfi.Decl)
		for i, a := range call.Args {
			if objOfIdent(info, a) == ch && i < len(ps) && ps[i] != nil {
				u, _ := chanUsesIn(c.P, cfi.Pkg.TypesInfo, cfi.Decl.Body, ps[i], cfi.Name)
				total.add(u)
				total.add(consumerUses(c, cfi, ps[i], depth-1, seen))
			}
		}
	}
	return total
}

// R10.2
func ruleStopSignal(c *Ctx) {
	const rule = "STOP-SIGNAL"
	fi := c.need("server", "Server", "Get")
	if fi == nil {
		return
	}
	info := fi.Pkg.TypesInfo
	n := 0
	ast.Inspect(fi.Decl.Body, func(m ast.Node) bool {
		as, ok := m.(*ast.AssignStmt)
		if !ok || len(as.Lhs) != 1 || len(as.Rhs) != 1 {
			return true
		}
		call, ok := ast.Unparen(as.Rhs[0]).(*ast.CallExpr)
		if !ok {
			return true
		}
		if id, ok := call.Fun.(*ast.Ident); !ok || id.Name != "make" {
			return true
		}
		ch := objOfIdent(info, as.Lhs[0])
		if ch == nil {
			return true
		}
		ct, ok := ch.Type().Underlying().(*types.Chan)
		if !ok {
			return true
		}
		if st, ok := ct.Elem().Underlying().(*types.Struct); !ok || st.NumFields() != 0 {
			return true
		}
		owner, _ := chanUsesIn(c.P, info, fi.Decl.Body, ch, fi.Name)
		cons := consumerUses(c, fi, ch, 5, map[*types.Func]bool{})
		c.Sites++
		// a stop channel: consumers only receive from it, and only by polling
		if cons.recvPoll > 0 && cons.recvBlocking == 0 && cons.sendBlocking+cons.sendNonBlocking == 0 {
			n++
			switch {
			case owner.sendNonBlocking > 0 && owner.closes+owner.deferredClose == 0:
				c.fail(rule, fi.Name, "stop channel "+ch.Name(), c.P.pos(as.Pos()), fmt.Sprintf("the consumers only poll %s (%d polling receives) and the owner signals it with a non-blocking send (%s): the two never rendezvous, so an abandoned RPC is never told to stop", ch.Name(), cons.recvPoll, strings.Join(owner.where, "; ")))
			case owner.deferredClose == 0:
				c.fail(rule, fi.Name, "stop channel "+ch.Name(), c.P.pos(as.Pos()), "the owner does not close the stop channel on every exit (no deferred close)")
			default:
				c.ok(rule, fi.Name, "stop channel "+ch.Name(), c.P.pos(as.Pos()), fmt.Sprintf("closed by a deferred close; %d polling receives in the consumers", cons.recvPoll))
			}
			// the stop is signalled before the owner waits for anything: deferred functions run last-in
			// first-out, so a deferred function declared after the deferred close runs before it — if it
			// can block (it waits for the producer, say) the producer is never told to stop, and it is
			// parked holding the instance's read lock.
			closeSeen := false
			bad := ""
			for _, st := range fi.Decl.Body.List {
				ds, ok := st.(*ast.DeferStmt)
				if !ok {
					continue
				}
				if id, ok := ast.Unparen(ds.Call.Fun).(*ast.Ident); ok && id.Name == "close" && len(ds.Call.Args) == 1 && objOfIdent(info, ds.Call.Args[0]) == ch {
					closeSeen = true
					continue
				}
				if closesChanInside(info, ds, ch) {
					closeSeen = true
					continue
				}
				if closeSeen {
					if why := mayBlock(info, ds); why != "" {
						bad = fmt.Sprintf("the deferred function at %s runs before the deferred close of %s (defers run last-in first-out) and can block (%s): when the stream fails part-way the producer is parked holding the instance's read lock, waiting for a stop signal that is only sent after the wait for the producer", c.P.pos(ds.Pos()), ch.Name(), why)
					}
				}
			}
			// the same wait written inline: outside the service loop's select, a bare receive from (or send
			// to) a channel shared with the producer waits for a goroutine that has not been told to stop
			// (the close is deferred, it happens at exit)
			inSelect := map[ast.Node]bool{}
			inspectNoFuncLit(fi.Decl.Body, func(m ast.Node) bool {
				if sel, ok := m.(*ast.SelectStmt); ok {
					for _, cl := range sel.Body.List {
						if cc := cl.(*ast.CommClause); cc.Comm != nil {
							ast.Inspect(cc.Comm, func(q ast.Node) bool {
								if q != nil {
									inSelect[q] = true
								}
								return true
							})
						}
					}
				}
				return true
			})
			inspectNoFuncLit(fi.Decl.Body, func(m ast.Node) bool {
				if u, ok := m.(*ast.UnaryExpr); ok && u.Op == token.ARROW && !inSelect[u] {
					if o := objOfIdent(info, u.X); o != nil && o != ch {
						if _, isCh := o.Type().Underlying().(*types.Chan); isCh {
							bad = fmt.Sprintf("the handler waits for the producer with a bare receive from %s (%s) although the stop channel is only closed when the handler returns", o.Name(), c.P.pos(u.Pos()))
						}
					}
				}
				return true
			})
			c.Sites++
			c.check(bad == "", rule, fi.Name, "stop channel "+ch.Name()+" is closed before the owner waits", c.P.pos(as.Pos()), "no deferred function that can block is declared after the deferred close", bad)
		} else {
			c.note("channel %s of %s: consumer uses poll=%d blocking-recv=%d sends=%d — a completion channel, not a stop request; a consumer blocked on it after the RPC returned holds no lock", ch.Name(), fi.Name, cons.recvPoll, cons.recvBlocking, cons.sendBlocking+cons.sendNonBlocking)
		}
		return true
	})
	c.floor(rule, "stop channels of the Get RPC", n, 1)
}

// R10.3
func ruleTeardownReach(c *Ctx) {
	const rule = "TEARDOWN-MUST-NOT-REACH"
	cg := c.P.callGraph()
	targets := map[*types.Func]bool{}
	var tn []string
	add := func(fi *FuncInfo) {
		if fi != nil {
			targets[fi.Obj] = true
			tn = append(tn, fi.Obj.Name())
		}
	}
	for f, hi := range c.P.holderHelpers() {
		if hi.Merges || len(hi.Deletes) > 0 {
			targets[f] = true
			tn = append(tn, f.Name())
		}
	}
	for _, n := range []string{"incNHGRefCount", "decNHGRefCount", "incNHRefCount", "decNHRefCount"} {
		add(c.P.Func("rib", "RIBHolder", n))
	}
	for _, n := range []string{"addPending", "rmPending", "AddEntry", "DeleteEntry", "Flush", "AddNetworkInstance"} {
		add(c.P.Func("rib", "RIB", n))
	}
	for _, n := range []string{"runElection", "storeClientElectionID", "setClientParams", "updateParams"} {
		add(c.P.Func("server", "Server", n))
	}
	sort.Strings(tn)
	if len(targets) < 20 {
		c.vanished(rule, "repo", "state-changing functions", fmt.Sprintf("only %d state-changing functions identified, floor 20", len(targets)))
	}
	for _, r := range [][3]string{{"server", "Server", "deleteClient"}, {"server", "Server", "Get"}, {"server", "Server", "doGet"}} {
		fi := c.need(r[0], r[1], r[2])
		if fi == nil {
			continue
		}
		c.Sites++
		path := cg.reaches(fi.Obj, targets, nil)
		var names []string
		for _, f := range path {
			names = append(names, displayNameAny(f))
		}
		c.check(path == nil, rule, fi.Name, "reaches no state-changing function", c.P.pos(fi.Decl.Pos()), fmt.Sprintf("none of %d state-changing functions is reachable", len(targets)), "session teardown / read-only RPC code can reach a state-changing function: "+strings.Join(names, " → "))
	}
	// the goroutine started by Get is covered through doGet; stores to the election state: C05 ELECTION-WRITERS
}

// R11.5
func ruleEntryImmutability(c *Ctx) {
	const rule = "ENTRY-IMMUTABLE"
	la := c.P.locks()
	n := 0
	var bad, badID []string
	for _, f := range la.order {
		if !la.reach[f] {
			continue
		}
		rel := relOfFn(f)
		if rel != "server" && rel != "rib" {
			continue
		}
		allInstrs(f, false, func(fn *ssa.Function, _ *ssa.BasicBlock, in ssa.Instruction) {
			st, ok := in.(*ssa.Store)
			if !ok {
				return
			}
			fa, ok := st.Addr.(*ssa.FieldAddr)
			if !ok {
				return
			}
			n++
			if nt := namedOf(fa.X.Type()); nt != nil && nt.Obj().Pkg() != nil && nt.Obj().Pkg().Path() == aftPath && strings.HasPrefix(nt.Obj().Name(), "Afts_") {
				bad = append(bad, fnDisplay(fn)+" "+c.P.pos(st.Pos()))
			}
			// election ids are published by pointer (responses being serialised, election snapshots, Flush's
			// check) and read after the election lock is released: an id object is never written after it was
			// built — only a freshly allocated one is filled in
			if nt := namedOf(fa.X.Type()); nt != nil && nt.Obj().Pkg() != nil && nt.Obj().Pkg().Path() == spbPath && nt.Obj().Name() == "Uint128" {
				if _, fresh := fa.X.(*ssa.Alloc); !fresh {
					badID = append(badID, fnDisplay(fn)+" "+c.P.pos(st.Pos()))
				}
			}
		})
	}
	c.Sites += n
	c.check(len(badID) == 0, rule, "server+rib", "no in-place field store to a published election id", "-", "no field store into a spb.Uint128 other than a freshly allocated one", "an election id object that readers hold by pointer outside the election lock is overwritten in place: a response being serialised, an election snapshot or Flush's check sees a torn or foreign id (data race): "+strings.Join(badID, ", "))
	c.check(len(bad) == 0, rule, "server+rib", "no in-place field store to an AFT entry struct", "-", fmt.Sprintf("%d field stores examined in code reachable from the RPC roots, none into aft.Afts_* structs", n), "an installed AFT entry is modified in place (outside the delete-then-merge install): "+strings.Join(bad, ", "))
}

// ruleElectionAtomic (C05 R5.2 / C11): the election's read-compare-write is one
// exclusive section — the current id handed to the comparison is loaded, and
// both stores happen, under the same exclusive acquisition of the election lock.
func ruleElectionAtomic(c *Ctx) {
	const rule = "ATOMIC-COMPARE-AND-SET"
	fi := c.need("server", "Server", "runElection")
	if fi == nil || fi.SSA == nil {
		return
	}
	la := c.P.locks()
	fl := la.fns[fi.SSA]
	if fl == nil {
		c.undecided(rule, fi.Name, "lock analysis", c.P.pos(fi.Decl.Pos()), "function not analysed")
		return
	}
	cur := c.P.Field("server", "Server", "curElecID")
	// the procedure's body: runElection and the functions new to the rules that only it calls (a part of it
	// extracted, e.g. the section under the lock); inside such a helper a lock held at every call site counts as held
	cg := c.P.callGraph()
	ext := []*ssa.Function{fi.SSA}
	for _, f := range la.order {
		if f == fi.SSA {
			continue
		}
		if d := declaredOf(f); d != nil && f.Parent() == nil && isNewFunc(d) && onBehalfOf(cg, d, func(g *types.Func) bool { return g == fi.Obj }) {
			ext = append(ext, f)
		}
	}
	inExt := map[*ssa.Function]bool{}
	for _, f := range ext {
		inExt[f] = true
	}
	callerHeld := map[*ssa.Function]map[string]lockMode{}
	for _, f := range ext {
		for _, cs := range la.fns[f].calls {
			if cs.callee == nil || !inExt[cs.callee] || cs.callee == fi.SSA {
				continue
			}
			classes := map[string]lockMode{}
			for lp, m := range cs.held {
				for _, a := range la.fns[f].acqs {
					if a.lock == lp {
						classes[a.class] = m
					}
				}
			}
			if prev, seen := callerHeld[cs.callee]; seen {
				for k, v := range prev {
					if nv, ok := classes[k]; !ok || nv < v {
						if !ok {
							delete(prev, k)
						} else {
							prev[k] = nv
						}
					}
				}
			} else {
				callerHeld[cs.callee] = classes
			}
		}
	}
	heldW := func(f *ssa.Function, a lockAccess) bool {
		if m, ok := a.held[a.lock]; ok && m == modeW {
			return true
		}
		if a.guard != nil {
			if m, ok := callerHeld[f][classOfGuard(a.guard)]; ok && m == modeW {
				return true
			}
		}
		return false
	}
	// the comparison call and where its "existing id" argument comes from
	var cmpArgLoadedHere, cmpFound bool
	var cmpHeldW bool
	nAcq, nStores := 0, 0
	storesW := true
	for _, f := range ext {
		ffl := la.fns[f]
		if ffl == nil {
			continue
		}
		allInstrs(f, false, func(_ *ssa.Function, _ *ssa.BasicBlock, in ssa.Instruction) {
			call, ok := in.(*ssa.Call)
			if !ok {
				return
			}
			cf := calleeFunc(call)
			if cf == nil || cf.Name() != "isNewMaster" || len(call.Call.Args) != 2 {
				return
			}
			cmpFound = true
			if isLoadOfField(call.Call.Args[1], cur) {
				cmpArgLoadedHere = true
				// lockset at the load
				for _, a := range ffl.accesses {
					if a.pos == call.Call.Args[1].Pos() || (a.guard != nil && a.guard.Field == "curElecID" && !a.write) {
						if heldW(f, a) {
							cmpHeldW = true
						}
					}
				}
			}
		})
		for _, a := range ffl.acqs {
			if a.class == "Server.elecMu" {
				nAcq++
			}
		}
		for _, a := range ffl.accesses {
			if a.write && a.guard != nil && a.guard.Lock == "elecMu" {
				nStores++
				if !heldW(f, a) {
					storesW = false
				}
			}
		}
	}
	c.Sites += nStores + 1
	switch {
	case !cmpFound:
		c.vanished(rule, fi.Name, "comparison", "runElection does not call isNewMaster")
	case !cmpArgLoadedHere:
		c.fail(rule, fi.Name, "read-compare-write in one exclusive section", c.P.pos(fi.Decl.Pos()), "the current election id handed to the comparison is not loaded inside runElection's own lock section (a snapshot taken under another acquisition): two concurrent announcements can both pass the comparison and the lower id can be written last")
	case !cmpHeldW || !storesW || nAcq != 1 || nStores < 2:
		c.fail(rule, fi.Name, "read-compare-write in one exclusive section", c.P.pos(fi.Decl.Pos()), fmt.Sprintf("the comparison's read (exclusive=%v) and the %d stores (exclusive=%v) are not covered by exactly one exclusive acquisition of elecMu (acquisitions: %d)", cmpHeldW, nStores, storesW, nAcq))
	default:
		c.ok(rule, fi.Name, "read-compare-write in one exclusive section", c.P.pos(fi.Decl.Pos()), fmt.Sprintf("load of curElecID for the comparison and %d stores under one exclusive acquisition", nStores))
	}
}

// closesChanInside: defer func() { … close(ch) … }()
func closesChanInside(info *types.Info, ds *ast.DeferStmt, ch types.Object) bool {
	fl, ok := ast.Unparen(ds.Call.Fun).(*ast.FuncLit)
	if !ok {
		return false
	}
	found := false
	ast.Inspect(fl.Body, func(n ast.Node) bool {
		if call, ok := n.(*ast.CallExpr); ok {
			if id, ok := ast.Unparen(call.Fun).(*ast.Ident); ok && id.Name == "close" && len(call.Args) == 1 && objOfIdent(info, call.Args[0]) == ch {
				found = true
			}
		}
		return true
	})
	return found
}

// mayBlock: a deferred function literal containing a bare channel receive or send, a select
// without a default arm, or a WaitGroup/Cond Wait. Returns what was found ("" = nothing).
func mayBlock(info *types.Info, ds *ast.DeferStmt) string {
	fl, ok := ast.Unparen(ds.Call.Fun).(*ast.FuncLit)
	if !ok {
		if f, ok := calleeObj(info, ds.Call).(*types.Func); ok && f.Name() == "Wait" {
			return "calls " + f.FullName()
		}
		return ""
	}
	why := ""
	inNonBlockingSelect := map[ast.Node]bool{}
	ast.Inspect(fl.Body, func(n ast.Node) bool {
		switch x := n.(type) {
		case *ast.SelectStmt:
			hasDefault := false
			for _, cl := range x.Body.List {
				if cc := cl.(*ast.CommClause); cc.Comm == nil {
					hasDefault = true
				}
			}
			if !hasDefault {
				why = "select without a default arm"
			}
			for _, cl := range x.Body.List {
				if cc := cl.(*ast.CommClause); cc.Comm != nil {
					inNonBlockingSelect[cc.Comm] = true
					ast.Inspect(cc.Comm, func(m ast.Node) bool {
						if m != nil {
							inNonBlockingSelect[m] = true
						}
						return true
					})
				}
			}
		case *ast.UnaryExpr:
			if x.Op == token.ARROW && !inNonBlockingSelect[x] {
				why = "receives from " + types.ExprString(x.X)
			}
		case *ast.SendStmt:
			if !inNonBlockingSelect[x] {
				why = "sends on " + types.ExprString(x.Chan)
			}
		case *ast.CallExpr:
			if f, ok := calleeObj(info, x).(*types.Func); ok && f.Name() == "Wait" && f.Pkg() != nil && f.Pkg().Path() == "sync" {
				why = "calls " + f.FullName()
			}
		}
		return true
	})
	return why
}

// CLOSE-BY-SENDER — a channel of an RPC handler is closed only by the goroutine that sends on it (or when nobody
// sends on it at all: a pure stop signal). A close in one goroutine while another may still send is a "send on
// closed channel" panic, which is not contained by anything and takes the whole server — every session — down.
// The goroutines of a handler are its own body and the body (or callee) of each `go` statement; sends are followed
// through call arguments like the stop-channel uses.
func ruleCloseBySender(c *Ctx, handlers []string) {
	const rule = "CLOSE-BY-SENDER"
	n := 0
	for _, h := range handlers {
		fi := c.need("server", "Server", h)
		if fi == nil {
			continue
		}
		info := fi.Pkg.TypesInfo
		// the segments: the handler without its go statements, and each go statement
		type segment struct {
			name string
			node ast.Node
			fi   *FuncInfo                     // the function whose body node is (for following calls)
			bind map[types.Object]types.Object // callee parameter → handler channel (for `go s.f(ch)`)
		}
		segs := []segment{{name: fi.Name, node: fi.Decl.Body, fi: fi}}
		inspectNoFuncLit(fi.Decl.Body, func(m ast.Node) bool { return true })
		ast.Inspect(fi.Decl.Body, func(m ast.Node) bool {
			gs, ok := m.(*ast.GoStmt)
			if !ok {
				return true
			}
			if fl, ok := ast.Unparen(gs.Call.Fun).(*ast.FuncLit); ok {
				segs = append(segs, segment{name: "goroutine at " + c.P.pos(gs.Pos()), node: fl.Body, fi: fi})
				return true
			}
			if f, ok := calleeObj(info, gs.Call).(*types.Func); ok && isRepoPkg(f.Pkg()) {
				if cfi := c.P.infoFor(f); cfi != nil && cfi.Decl.Body != nil {
					b := map[types.Object]types.Object{}
					ps := paramObjs(cfi.Pkg.TypesInfo, cfi.Decl)
					for i, a := range gs.Call.Args {
						if o := objOfIdent(info, a); o != nil && i < len(ps) && ps[i] != nil {
							b[ps[i]] = o
						}
					}
					segs = append(segs, segment{name: "goroutine " + cfi.Name, node: cfi.Decl.Body, fi: cfi, bind: b})
				}
			}
			return true
		})
		// channels made by the handler
		var chans []types.Object
		ast.Inspect(fi.Decl.Body, func(m ast.Node) bool {
			as, ok := m.(*ast.AssignStmt)
			if !ok || len(as.Lhs) != 1 || len(as.Rhs) != 1 {
				return true
			}
			if call, ok := ast.Unparen(as.Rhs[0]).(*ast.CallExpr); ok {
				if id, ok := call.Fun.(*ast.Ident); ok && id.Name == "make" {
					if o := objOfIdent(info, as.Lhs[0]); o != nil {
						if _, isCh := o.Type().Underlying().(*types.Chan); isCh {
							chans = append(chans, o)
						}
					}
				}
			}
			return true
		})
		// uses of ch in a segment: own statements (not nested go statements) and callees the channel is passed to
		var uses func(sinfo *types.Info, sfi *FuncInfo, node ast.Node, ch types.Object, depth int, seen map[*types.Func]bool) (sends, closes int)
		uses = func(sinfo *types.Info, sfi *FuncInfo, node ast.Node, ch types.Object, depth int, seen map[*types.Func]bool) (sends, closes int) {
			var walk func(n ast.Node)
			walk = func(n ast.Node) {
				ast.Inspect(n, func(m ast.Node) bool {
					switch x := m.(type) {
					case *ast.GoStmt:
						if n != ast.Node(x) {
							return false // another goroutine: its own segment
						}
					case *ast.SendStmt:
						if objOfIdent(sinfo, x.Chan) == ch {
							sends++
						}
					case *ast.CallExpr:
						if id, ok := x.Fun.(*ast.Ident); ok && id.Name == "close" && len(x.Args) == 1 && objOfIdent(sinfo, x.Args[0]) == ch {
							closes++
						}
						f, ok := calleeObj(sinfo, x).(*types.Func)
						if !ok || !isRepoPkg(f.Pkg()) || seen[f] || depth <= 0 {
							return true
						}
						for i, a := range x.Args {
							if objOfIdent(sinfo, a) != ch {
								continue
							}
							cfi := c.P.infoFor(f)
							if cfi == nil || cfi.Decl.Body == nil {
								continue
							}
							ps := paramObjs(cfi.Pkg.TypesInfo, cfi.Decl)
							if i < len(ps) && ps[i] != nil {
								seen[f] = true
								s2, c2 := uses(cfi.Pkg.TypesInfo, cfi, cfi.Decl.Body, ps[i], depth-1, seen)
								sends += s2
								closes += c2
							}
						}
					}
					return true
				})
			}
			walk(node)
			return
		}
		for _, ch := range chans {
			n++
			c.Sites++
			var senders, closers []string
			for _, sg := range segs {
				obj := ch
				if sg.bind != nil {
					obj = nil
					for p, o := range sg.bind {
						if o == ch {
							obj = p
						}
					}
					if obj == nil {
						continue
					}
				}
				s, cl := uses(sg.fi.Pkg.TypesInfo, sg.fi, sg.node, obj, 4, map[*types.Func]bool{})
				if s > 0 {
					senders = append(senders, sg.name)
				}
				if cl > 0 {
					closers = append(closers, sg.name)
				}
			}
			bad := ""
			for _, cl := range closers {
				for _, s := range senders {
					if s != cl {
						bad = fmt.Sprintf("channel %s is closed by %s while %s sends on it: a send after the close panics, and the panic of one session's goroutine takes the whole server down", ch.Name(), cl, s)
					}
				}
			}
			c.check(bad == "", rule, fi.Name, "channel "+ch.Name(), c.P.pos(ch.Pos()), fmt.Sprintf("senders: %v; closed by: %v", senders, closers), bad)
		}
	}
	c.floor(rule, "channels made by the RPC handlers", n, 6)
}

// DEFER-ORDER — deferred functions run last-in first-out. A deferred function that can block for ever (a bare channel
// send or receive, a select without default, a Wait — e.g. the completion signal of a goroutine whose reader may be
// gone) must not be declared after a deferred release (unlock, semaphore hand-back, close, Done): the release would
// only run once the blocking one has returned, i.e. never — the lock, slot or signal is leaked by every abandoned RPC.
func ruleDeferOrder(c *Ctx, rels []string) {
	const rule = "DEFER-ORDER"
	n := 0
	for _, rel := range rels {
		for _, fi := range c.P.AllFuncs(rel) {
			if fi.Decl.Body == nil {
				continue
			}
			info := fi.Pkg.TypesInfo
			var defers []*ast.DeferStmt
			for _, st := range fi.Decl.Body.List {
				if ds, ok := st.(*ast.DeferStmt); ok {
					defers = append(defers, ds)
				}
			}
			if len(defers) < 2 {
				continue
			}
			n++
			c.Sites++
			bad := ""
			for j := 1; j < len(defers); j++ {
				why := mayBlock(info, defers[j])
				if why == "" {
					continue
				}
				for i := 0; i < j; i++ {
					if rel := releases(info, defers[i]); rel != "" {
						bad = fmt.Sprintf("the deferred function at %s (%s) runs before the deferred %s declared at %s; when it blocks — nobody is left to take the signal — the %s never happens", c.P.pos(defers[j].Pos()), why, rel, c.P.pos(defers[i].Pos()), rel)
					}
				}
			}
			c.check(bad == "", rule, fi.Name, "no deferred release waits behind a deferred function that can block", c.P.pos(fi.Decl.Pos()), fmt.Sprintf("%d deferred calls", len(defers)), bad)
		}
	}
	c.note("DEFER-ORDER: %d functions with two or more deferred calls examined", n)
}

// releases: what a deferred call hands back ("" = nothing recognised): unlock, WaitGroup.Done, close, or a channel
// operation in a deferred closure (a semaphore slot).
func releases(info *types.Info, ds *ast.DeferStmt) string {
	name := func(call *ast.CallExpr) string {
		if id, ok := ast.Unparen(call.Fun).(*ast.Ident); ok && id.Name == "close" {
			return "close"
		}
		if se, ok := ast.Unparen(call.Fun).(*ast.SelectorExpr); ok {
			switch se.Sel.Name {
			case "Unlock", "RUnlock":
				return "unlock"
			case "Done":
				return "Done"
			}
		}
		return ""
	}
	if r := name(ds.Call); r != "" {
		return r
	}
	fl, ok := ast.Unparen(ds.Call.Fun).(*ast.FuncLit)
	if !ok {
		return ""
	}
	out := ""
	ast.Inspect(fl.Body, func(n ast.Node) bool {
		switch x := n.(type) {
		case *ast.CallExpr:
			if r := name(x); r != "" {
				out = r
			}
		case *ast.UnaryExpr:
			if x.Op == token.ARROW {
				out = "hand-back of a slot (receive from " + types.ExprString(x.X) + ")"
			}
		}
		return true
	})
	return out
}
