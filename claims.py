# Claims table, exec'd by gen_manifest.py.
TB = "Trusted: Go type checker, x/tools go/ssa + call graph, the frozen oracle tables inside gribilint; assumes mutexes are the only synchronisation of guarded fields and that reflection-based dependencies do not touch server/RIB/client structs."

claim("C06", "AST structural path enumeration (exactly-one / paired-event obligations) + typed composite-literal census",
      "Decides, for all paths of the anchored functions: exactly one reply per operation in doModify; RIB_PROGRAMMED then (only under FIB ack) FIB_PROGRAMMED per ok and FAILED per fail with the result's id; exactly one verdict-or-hold per install attempt and rmPending with every terminal verdict; owner-less held operations (known finding). Does not decide eventual delivery or hand-over timing.",
      TB, "DESIGN.md §3 C06")

for p in ["C01","C02","C03","C04","C05","C07","C08","C09","C10","C11","C12","C13","C14","C15","C16","C17","C18","C19"]:
    NA[p] = "rule set not armed yet in this commit (build in progress; see DESIGN.md §3 for the planned structural clauses)"
