package main

// OPTION-PROBES — the functional-option probes (`hasX(opts) …`) are the switches
// that turn whole mechanisms on and off: the resolvability gate, forward
// references, the change hooks, the VRFs a server starts with, the fields a chk
// helper ignores. Each is a loop over the options with a type assertion. The
// rule decides for every probe of a package, on all paths:
//   - a positive answer (true / the option / one of its fields) is returned only
//     where the assertion of the loop's element to the probe's own option type
//     succeeded, a negative one (false / nil) only after the loop;
//   - the asserted type has a constructor (an exported function returning it);
//   - two probes over the same option interface never assert the same type (a
//     copy-paste slip makes one option switch two mechanisms);
//   - a probe answering with a value answers with the matched option itself or a
//     field of it.
// The probe ↔ option-type table is printed in the evidence.

import (
	"fmt"
	"go/ast"
	"go/types"
	"sort"
	"strings"
)

func ruleOptionProbes(c *Ctx, rel string, floor int) {
	const rule = "OPTION-PROBES"
	pk := c.P.pkg(rel)
	if pk == nil {
		c.vanished(rule, rel, "package", "package not loaded")
		return
	}
	type probe struct {
		fi    *FuncInfo
		iface string
		typ   string
	}
	var probes []probe
	for _, fi := range c.P.AllFuncs(rel) {
		if fi.Decl.Recv != nil || fi.Decl.Body == nil {
			continue
		}
		sig := fi.Obj.Type().(*types.Signature)
		if sig.Params().Len() != 1 || sig.Results().Len() != 1 {
			continue
		}
		sl, ok := sig.Params().At(0).Type().Underlying().(*types.Slice)
		if !ok {
			continue
		}
		in := namedOf(sl.Elem())
		if in == nil || in.Obj().Pkg() != pk.Types {
			continue
		}
		if _, isI := in.Underlying().(*types.Interface); !isI {
			continue
		}
		// the marker interfaces have one unexported method and no others
		probes = append(probes, probe{fi: fi, iface: in.Obj().Name()})
	}
	n := 0
	byIface := map[string]map[string]string{}
	for i := range probes {
		pr := &probes[i]
		fi := pr.fi
		info := fi.Pkg.TypesInfo
		c.Analysed[fi.Name] = true
		opts := paramObjs(info, fi.Decl)[0]
		// the loop over the options
		var loop *ast.RangeStmt
		for _, st := range fi.Decl.Body.List {
			if rs, ok := st.(*ast.RangeStmt); ok && objOfIdent(info, rs.X) == opts {
				loop = rs
			}
		}
		if loop == nil {
			continue // not a probe (some other function over an option slice)
		}
		n++
		c.Sites++
		elem := objOfIdent(info, rs2v(loop))
		// assertions of the element inside the loop
		type asrt struct {
			typ    string
			okObj  types.Object
			valObj types.Object
		}
		var as []asrt
		ast.Inspect(loop.Body, func(m ast.Node) bool {
			a, ok := m.(*ast.AssignStmt)
			if !ok || len(a.Lhs) != 2 || len(a.Rhs) != 1 {
				return true
			}
			ta, ok := ast.Unparen(a.Rhs[0]).(*ast.TypeAssertExpr)
			if !ok || ta.Type == nil || objOfIdent(info, ta.X) != elem || elem == nil {
				return true
			}
			if nt := namedOf(info.TypeOf(ta.Type)); nt != nil {
				as = append(as, asrt{typ: nt.Obj().Name(), okObj: objOfIdent(info, a.Lhs[1]), valObj: objOfIdent(info, a.Lhs[0])})
			}
			return true
		})
		bad := ""
		if len(as) != 1 {
			bad = fmt.Sprintf("the probe makes %d type assertions on the option, want exactly 1", len(as))
		}
		paths, pe := enumFunc(fi, func(ast.Node) []Event { return nil }, nil)
		if pe.overflow || len(pe.unsup) > 0 || len(paths) == 0 {
			c.undecided(rule, fi.Name, "body", c.P.pos(fi.Decl.Pos()), "path enumeration incomplete")
			continue
		}
		posSeen, negSeen := false, false
		for _, p := range paths {
			if p.End == "panic" || bad != "" {
				continue
			}
			rs, ok := p.EndNode.(*ast.ReturnStmt)
			if !ok || len(rs.Results) != 1 {
				bad = "a path leaves the probe without returning a value: " + p.describe(c.P)
				continue
			}
			inLoop := rs.Pos() >= loop.Body.Pos() && rs.End() <= loop.Body.End()
			negative := isNilIdent(info, rs.Results[0])
			if b, isB := boolConst(info, rs.Results[0]); isB {
				negative = !b
			}
			matched := factsAfter(info, p, -1, len(p.Events)).Obj(as[0].okObj) == +1
			switch {
			case negative && inLoop:
				bad = "the probe answers negatively from inside the loop (before all options were looked at): " + p.describe(c.P)
			case negative:
				negSeen = true
			case !inLoop || !matched:
				bad = "the probe answers positively on a path where the option was not matched: " + p.describe(c.P)
			default:
				posSeen = true
				// a value answer is the matched option or a field of it
				if _, isB := boolConst(info, rs.Results[0]); !isB {
					if o, _ := selectorPath(info, rs.Results[0]); o == nil || o != as[0].valObj {
						bad = "the probe answers with " + types.ExprString(rs.Results[0]) + ", not with the matched option (or a field of it)"
					}
				}
			}
		}
		if bad == "" && (!posSeen || !negSeen) {
			bad = fmt.Sprintf("the probe cannot answer both ways (positive: %v, negative: %v)", posSeen, negSeen)
		}
		if bad == "" {
			pr.typ = as[0].typ
			// constructor: an exported function of the package returning *T
			hasCtor := false
			for _, g := range c.P.AllFuncs(rel) {
				if g.Decl.Recv != nil || !g.Obj.Exported() {
					continue
				}
				rsig := g.Obj.Type().(*types.Signature)
				if rsig.Results().Len() == 1 {
					if nt := namedOf(rsig.Results().At(0).Type()); nt != nil && nt.Obj().Name() == pr.typ && nt.Obj().Pkg() == pk.Types {
						hasCtor = true
					}
				}
			}
			if !hasCtor {
				bad = "no exported constructor returns the option type *" + pr.typ + " the probe looks for: the mechanism can never be switched"
			}
			if byIface[pr.iface] == nil {
				byIface[pr.iface] = map[string]string{}
			}
			if other, dup := byIface[pr.iface][pr.typ]; dup && bad == "" {
				bad = fmt.Sprintf("%s and %s both look for *%s among %s options: one option switches two mechanisms and the other mechanism's own option is never seen", other, fi.Obj.Name(), pr.typ, pr.iface)
			}
			byIface[pr.iface][pr.typ] = fi.Obj.Name()
		}
		c.check(bad == "", rule, fi.Name, "answers positively iff its own option is present", c.P.pos(fi.Decl.Pos()), fmt.Sprintf("looks for *%s among []%s", pr.typ, pr.iface), bad)
	}
	c.floor(rule, "option probes of package "+rel, n, floor)
	var tbl []string
	for _, pr := range probes {
		if pr.typ != "" {
			tbl = append(tbl, pr.fi.Obj.Name()+"→*"+pr.typ)
		}
	}
	sort.Strings(tbl)
	c.note("OPTION-PROBES %s: %s", rel, strings.Join(tbl, ", "))
}

func rs2v(rs *ast.RangeStmt) ast.Expr {
	if rs.Value != nil {
		return rs.Value
	}
	return rs.Key
}

// probeTable: probe function → option type name it asserts (syntactic, single assertion on the range element).
func probeTable(c *Ctx, rel string) map[*types.Func]string {
	out := map[*types.Func]string{}
	pk := c.P.pkg(rel)
	if pk == nil {
		return out
	}
	for _, fi := range c.P.AllFuncs(rel) {
		if fi.Decl.Recv != nil || fi.Decl.Body == nil {
			continue
		}
		sig := fi.Obj.Type().(*types.Signature)
		if sig.Params().Len() != 1 || sig.Results().Len() != 1 {
			continue
		}
		if _, ok := sig.Params().At(0).Type().Underlying().(*types.Slice); !ok {
			continue
		}
		info := fi.Pkg.TypesInfo
		var ts []string
		ast.Inspect(fi.Decl.Body, func(m ast.Node) bool {
			if ta, ok := m.(*ast.TypeAssertExpr); ok && ta.Type != nil {
				if nt := namedOf(info.TypeOf(ta.Type)); nt != nil && nt.Obj().Pkg() == pk.Types {
					ts = append(ts, nt.Obj().Name())
				}
			}
			return true
		})
		if len(ts) == 1 {
			out[fi.Obj] = ts[0]
		}
	}
	return out
}

// SERVER-WIRING — server.New turns each server option into its effect on the RIB,
// and nothing else does: a frozen table keyed by the exported option constructor
// (API names) says which effect each option has; the option's type is found
// through the constructor's result type and the probe that looks for it through
// OPTION-PROBES' table. Every effect call in New must sit under the positive
// answer of exactly its own option's probe, and every option must have its effect.
func ruleServerWiring(c *Ctx, which []string) {
	const rule = "SERVER-WIRING"
	fi := c.need("server", "", "New")
	if fi == nil {
		return
	}
	info := fi.Pkg.TypesInfo
	want := map[string]string{ // exported constructor → effect
		"DisableRIBCheckFn":          "ribopt:DisableRIBCheckFn",
		"WithNoRIBForwardReferences": "ribopt:DisableForwardReferences",
		"WithPostChangeRIBHook":      "call:SetPostChangeHook",
		"WithRIBResolvedEntryHook":   "call:SetResolvedEntryHook",
		"WithVRFs":                   "call:AddNetworkInstance",
	}
	// constructor → option type
	typeOfCtor := map[string]string{}
	for _, g := range c.P.AllFuncs("server") {
		if g.Decl.Recv != nil || want[g.Obj.Name()] == "" {
			continue
		}
		rs := g.Obj.Type().(*types.Signature).Results()
		if rs.Len() == 1 {
			if nt := namedOf(rs.At(0).Type()); nt != nil {
				typeOfCtor[g.Obj.Name()] = nt.Obj().Name()
			}
		}
	}
	probes := probeTable(c, "server")
	// the option type governing a node: the enclosing if whose condition is a positive probe answer
	parents := map[ast.Node]ast.Node{}
	var stack []ast.Node
	ast.Inspect(fi.Decl.Body, func(m ast.Node) bool {
		if m == nil {
			stack = stack[:len(stack)-1]
			return true
		}
		if len(stack) > 0 {
			parents[m] = stack[len(stack)-1]
		}
		stack = append(stack, m)
		return true
	})
	probeOfExpr := func(e ast.Expr) string {
		if call, ok := ast.Unparen(e).(*ast.CallExpr); ok {
			if f, ok := calleeObj(info, call).(*types.Func); ok {
				return probes[f]
			}
		}
		return ""
	}
	governing := func(n ast.Node) []string {
		var out []string
		child := n
		for p := parents[n]; p != nil; child, p = p, parents[p] {
			// for _, x := range probe(opt) { … }: nothing happens unless the option is present
			if rs, ok := p.(*ast.RangeStmt); ok && child == ast.Node(rs.Body) {
				if t := probeOfExpr(rs.X); t != "" {
					out = append(out, t)
					continue
				}
				if v, ok := objOfIdent(info, rs.X).(*types.Var); ok {
					if def := soleDefinition(info, fi.Decl, v); def != nil {
						if t := probeOfExpr(def); t != "" {
							out = append(out, t)
						}
					}
				}
				continue
			}
			ifs, ok := p.(*ast.IfStmt)
			if !ok || child != ast.Node(ifs.Body) {
				continue
			}
			// if probe(opt) { … }
			if t := probeOfExpr(ifs.Cond); t != "" {
				out = append(out, t)
				continue
			}
			// if v := probe(opt); v != nil { … }
			if as, ok := ifs.Init.(*ast.AssignStmt); ok && len(as.Lhs) == 1 && len(as.Rhs) == 1 {
				if t := probeOfExpr(as.Rhs[0]); t != "" {
					if be, ok := ast.Unparen(ifs.Cond).(*ast.BinaryExpr); ok && be.Op.String() == "!=" && objOfIdent(info, be.X) == objOfIdent(info, as.Lhs[0]) && isNilIdent(info, be.Y) {
						out = append(out, t)
						continue
					}
				}
			}
			// v := probe(opt) … if v != nil { … }
			if be, ok := ast.Unparen(ifs.Cond).(*ast.BinaryExpr); ok && be.Op.String() == "!=" && isNilIdent(info, be.Y) {
				if v, ok := objOfIdent(info, be.X).(*types.Var); ok {
					if def := soleDefinition(info, fi.Decl, v); def != nil {
						if t := probeOfExpr(def); t != "" {
							out = append(out, t)
							continue
						}
					}
				}
			}
			out = append(out, "?")
		}
		return out
	}
	got := map[string][]string{} // effect → governing option types
	for _, call := range callsIn(fi.Decl.Body) {
		f, ok := calleeObj(info, call).(*types.Func)
		if !ok || f.Pkg() == nil || f.Pkg().Path() != ribPkg {
			continue
		}
		eff := ""
		switch {
		case f.Name() == "DisableRIBCheckFn" || f.Name() == "DisableForwardReferences":
			eff = "ribopt:" + f.Name()
		case recvTypeName(f) == "RIB" && (f.Name() == "SetPostChangeHook" || f.Name() == "SetResolvedEntryHook" || f.Name() == "AddNetworkInstance"):
			eff = "call:" + f.Name()
		}
		if eff == "" {
			continue
		}
		c.Sites++
		gs := governing(call)
		sort.Strings(gs)
		var uq []string
		for i, g := range gs {
			if i == 0 || g != gs[i-1] {
				uq = append(uq, g)
			}
		}
		got[eff] = append(got[eff], strings.Join(uq, "&"))
	}
	for _, ctor := range which {
		eff := want[ctor]
		t := typeOfCtor[ctor]
		switch {
		case t == "":
			c.vanished(rule, fi.Name, "option "+ctor, "no exported constructor "+ctor+" in package server")
		case len(got[eff]) == 0:
			c.fail(rule, fi.Name, "option "+ctor+" has its effect", c.P.pos(fi.Decl.Pos()), "server.New never performs "+eff+": the option "+ctor+" is accepted and ignored")
		default:
			ok := true
			for _, g := range got[eff] {
				if g != t {
					ok = false
				}
			}
			c.check(ok, rule, fi.Name, "option "+ctor+" has its effect", c.P.pos(fi.Decl.Pos()), eff+" under the probe for *"+t,
				fmt.Sprintf("%s is performed under %v, want only under the positive answer of the probe for *%s (option %s): another option switches this mechanism, or it is switched unconditionally", eff, got[eff], t, ctor))
		}
	}
}
