package main

// C04 — only the elected primary's correctly stamped operations change the RIB.

import (
	"fmt"
	"go/ast"
	"go/types"
	"sort"
	"strings"
)

func init() { propRules["C04"] = rulesC04 }

func rulesC04(c *Ctx) {
	c.Decided = append(c.Decided,
		"R4.1/R4.5 modifyEntry's decision table: the RIB is called only when checkElectionForModify returned (proceed, nil error); every rejecting cell returns without any RIB call",
		"R4.2 checkElectionForModify's decision table over all valuations of {id present, election state present, session announced, session is master, order(op id, session's last id), order(op id, current id)}: proceed ⇔ all present ∧ master ∧ op = latest ∧ op = current; 128-bit comparisons high word first",
		"R4.3 doModify hands every modifyEntry call one election snapshot built from the locked getElection read, the session's last announced id and the session id, taken before the loop",
		"R4.4 inside package server only modifyEntry calls RIB.AddEntry/DeleteEntry and only Server.Flush calls RIB.Flush",
		"R4.6 the inputs of the gate are maintained as specified: every accepted announcement records the session's last announced id (before the election, win or lose) and the election state changes only on a new-master verdict of the lexicographic comparison (runElection / isNewMaster tables, shared with C05)")
	c.NotDec = append(c.NotDec, "interleavings in which the primary changes between the snapshot and the install (the statement is phrased at arrival time, which the snapshot implements)")
	ruleModifyEntryTable(c)
	ruleCheckElectionTable(c)
	ruleElectionSnapshot(c)
	ruleRIBCallers(c)
	ruleUint128Sites(c)
	ruleRunElectionTable(c)
	ruleStoreClientElectionID(c)
	ruleStateWriters(c, append(append([]writerRow{}, writersServerElection...), writersServerSession...)) // what the gate compares is written only by the election and the session bookkeeping
	ruleIsNewMaster(c, "C04")
}

// ribCallEvents: calls into the RIB or to state-changing server methods, with argument roles.
func ribCallEvents(fi *FuncInfo) func(n ast.Node) []Event {
	info := fi.Pkg.TypesInfo
	return func(n ast.Node) []Event {
		var out []Event
		calls := callsIn(n)
		sort.SliceStable(calls, func(i, j int) bool { return calls[i].End() < calls[j].End() })
		for _, call := range calls {
			f, ok := calleeObj(info, call).(*types.Func)
			if !ok || f.Pkg() == nil {
				continue
			}
			interesting := false
			if f.Pkg().Path() == ribPkg && recvTypeName(f) == "RIB" {
				switch f.Name() {
				case "AddEntry", "DeleteEntry", "Flush", "AddNetworkInstance":
					interesting = true
				}
			}
			if f.Pkg().Path() == modPath+"/server" {
				switch f.Name() {
				case "storeClientElectionID", "setClientParams", "updateParams", "runElection", "deleteClient":
					interesting = true
				}
			}
			if !interesting {
				continue
			}
			var as []string
			for _, a := range call.Args {
				if o := objOfIdent(info, a); o != nil {
					as = append(as, paramRole(info, fi.Decl, o))
				} else {
					as = append(as, "?")
				}
			}
			out = append(out, Event{Kind: f.Name() + "(" + strings.Join(as, ",") + ")", Node: call})
		}
		return out
	}
}

func ruleModifyEntryTable(c *Ctx) {
	fi := c.need("server", "", "modifyEntry")
	if fi == nil {
		return
	}
	r, op := paramName(fi, 0), paramName(fi, 2)
	aOpNil := eqAtom(op, "nil")
	aElecErr := eqAtom("call:checkElectionForModify#1.2", "nil")
	aProceed := "b:call:checkElectionForModify#1.1"
	aRNil := eqAtom(r, "nil")
	aNI := "b:call:NetworkInstanceRIB#1.1"
	aValid := "b:call:IsValid#1"
	aAdd := eqAtom("const:AFTOperation_ADD", op+".Op")
	aRep := eqAtom("const:AFTOperation_REPLACE", op+".Op")
	aDel := eqAtom("const:AFTOperation_DELETE", op+".Op")
	aAddErr := eqAtom("call:AddEntry#1.2", "nil")
	aDelErr := eqAtom("call:DeleteEntry#1.2", "nil")
	runTable(c, tableSpec{
		Rule: "TABLE-MODIFY-ENTRY", Fn: fi, Construct: "modifyEntry: election gate, operation dispatch, fatal errors",
		Events: ribCallEvents(fi),
		Atoms:  map[string]int{aOpNil: 2, aElecErr: 2, aProceed: 2, aRNil: 2, aNI: 2, aValid: 2, aAdd: 2, aRep: 2, aDel: 2, aAddErr: 2, aDelErr: 2},
		Expected: func(v *Valuation) (string, bool) {
			switch {
			case v.B(aOpNil):
				return "ret(nil, err(Internal))", true
			case !v.B(aElecErr):
				return "ret(nil, var:err)", true
			case !v.B(aProceed):
				return "ret(var:res, var:err)", true
			case v.B(aRNil):
				return "ret(nil, err(Internal))", true
			case !v.B(aNI) || !v.B(aValid):
				return "ret(nil, err(Internal))", true
			case v.B(aAdd) || v.B(aRep):
				if !v.B(aAddErr) {
					return "ret(nil, err(Unimplemented/ModifyRPCErrorDetails_UNKNOWN)) effects[AddEntry(p1,p2)]", true
				}
				return "ret(resp(results:), nil) effects[AddEntry(p1,p2)]", true
			case v.B(aDel):
				if !v.B(aDelErr) {
					return "ret(nil, err(Unimplemented/ModifyRPCErrorDetails_UNKNOWN)) effects[DeleteEntry(p1,p2)]", true
				}
				return "ret(resp(results:), nil) effects[DeleteEntry(p1,p2)]", true
			}
			return "ret(resp(results:AFTResult_FAILED), nil)", true
		},
	})
	// the election gate is handed the operation's own id and election id and the snapshot
	info := fi.Pkg.TypesInfo
	okArgs := false
	for _, call := range callsIn(fi.Decl.Body) {
		if isFunc(calleeObj(info, call), modPath+"/server", "checkElectionForModify") && len(call.Args) == 3 {
			o0, p0 := selectorPath(info, call.Args[0])
			o1, p1 := selectorPath(info, call.Args[1])
			ps := paramObjs(info, fi.Decl)
			if o0 == ps[2] && strings.Join(p0, ".") == "Id" && o1 == ps[2] && strings.Join(p1, ".") == "ElectionId" && objOfIdent(info, call.Args[2]) == ps[4] {
				okArgs = true
			}
		}
	}
	c.check(okArgs, "ELECTION-GATE", fi.Name, "gate arguments", c.P.pos(fi.Decl.Pos()), "checkElectionForModify(op.Id, op.ElectionId, election)", "the election gate is not evaluated on the operation's own id / election id and the supplied election snapshot")
}

func ruleCheckElectionTable(c *Ctx) {
	fi := c.need("server", "", "checkElectionForModify")
	if fi == nil {
		return
	}
	opE, el := paramName(fi, 1), paramName(fi, 2)
	aOpNil := eqAtom(opE, "nil")
	aElNil := eqAtom(el, "nil")
	aMaster := eqAtom("const:\"\"", el+".master")
	aIDNil := eqAtom(el+".ID", "nil")
	aLatestNil := eqAtom(el+".clientLatest", "nil")
	aIsMaster := eqAtom(el+".client", el+".master")
	aVsLatest, flipL := orderAtom("U128("+opE+")", "U128("+el+".clientLatest)")
	aVsCur, flipC := orderAtom("U128("+opE+")", "U128("+el+".ID)")
	ord := func(v *Valuation, atom string, flipped bool) int {
		o := v.Ord(atom)
		if flipped {
			return -o
		}
		return o
	}
	failed := "ret(resp(results:AFTResult_FAILED), false, nil)"
	runTable(c, tableSpec{
		Rule: "TABLE-ELECTION-GATE", Fn: fi, Construct: "checkElectionForModify decision table",
		Events: ribCallEvents(fi),
		Atoms:  map[string]int{aOpNil: 2, aElNil: 2, aMaster: 2, aIDNil: 2, aLatestNil: 2, aIsMaster: 2, aVsLatest: 3, aVsCur: 3},
		Expected: func(v *Valuation) (string, bool) {
			switch {
			case v.B(aOpNil):
				return "ret(nil, false, err(FailedPrecondition/-))", true
			case v.B(aElNil) || v.B(aMaster) || v.B(aIDNil):
				return "ret(nil, false, err(Internal))", true
			case v.B(aLatestNil):
				return "ret(nil, false, err(FailedPrecondition/-))", true
			case !v.B(aIsMaster):
				return failed, true
			case ord(v, aVsLatest, flipL) != 0:
				return failed, true
			case ord(v, aVsCur, flipC) > 0:
				return "ret(nil, false, err(FailedPrecondition))", true
			case ord(v, aVsCur, flipC) < 0:
				return failed, true
			}
			return "ret(nil, true, nil)", true
		},
	})
	// in-band FAILED answers carry the operation's id
	info := fi.Pkg.TypesInfo
	opID := paramObjs(info, fi.Decl)[0]
	n, good := 0, true
	for _, lr := range litsThroughHelpers(info, fi.Decl.Body, spbPath, "AFTResult") {
		n++
		idE, mapped := lr.callerExpr(compositeFields(lr.Lit)["Id"])
		if idE == nil || !mapped || objOfIdent(info, idE) != opID {
			good = false
		}
	}
	c.check(good && n >= 3, "ELECTION-GATE", fi.Name, "in-band rejections carry the operation id", c.P.pos(fi.Decl.Pos()), fmt.Sprintf("%d FAILED results, all with Id = the opID parameter", n), "an in-band rejection does not carry the id of the rejected operation")
}

// R4.3
func ruleElectionSnapshot(c *Ctx) {
	const rule = "ELECTION-SNAPSHOT"
	fi := c.need("server", "Server", "doModify")
	if fi == nil {
		return
	}
	info := fi.Pkg.TypesInfo
	ps := paramObjs(info, fi.Decl)
	cid := ps[0]
	var loop *ast.RangeStmt
	inspectNoFuncLit(fi.Decl.Body, func(n ast.Node) bool {
		if rs, ok := n.(*ast.RangeStmt); ok && loop == nil {
			if tv, ok := info.Types[rs.X]; ok {
				if sl, ok := tv.Type.Underlying().(*types.Slice); ok && isNamed(sl.Elem(), spbPath, "AFTOperation") {
					loop = rs
				}
			}
		}
		return true
	})
	if loop == nil {
		c.vanished(rule, fi.Name, "loop@ops", "no loop over the operations")
		return
	}
	// the modifyEntry calls
	var snap types.Object
	nCalls := 0
	bad := ""
	for _, call := range callsIn(loop.Body) {
		if !isFunc(calleeObj(info, call), modPath+"/server", "modifyEntry") || len(call.Args) != 5 {
			continue
		}
		nCalls++
		o := objOfIdent(info, call.Args[4])
		if o == nil {
			bad = "modifyEntry is not handed a snapshot variable"
			continue
		}
		snap = o
		// the RIB handed over is the server's master RIB; the operation is the ranged one
		if t, _ := (&condXlat{info: info, fd: fi.Decl, uniq: new(int)}).term(call.Args[0]); !strings.HasSuffix(t, ".masterRIB") {
			bad = "modifyEntry is handed RIB " + t + ", expected the server's master RIB"
		}
		if objOfIdent(info, call.Args[2]) != objOfIdent(info, loop.Value) {
			bad = "modifyEntry is not handed the operation of the current iteration"
		}
	}
	if nCalls == 0 {
		c.vanished(rule, fi.Name, "modifyEntry call", "the operations loop does not call modifyEntry")
		return
	}
	// where is the snapshot defined / filled?
	var defCall *ast.CallExpr
	fields := map[string]string{}
	var csVar types.Object
	var latestExpr ast.Expr
	ast.Inspect(fi.Decl.Body, func(n ast.Node) bool {
		as, ok := n.(*ast.AssignStmt)
		if !ok {
			return true
		}
		if as.Pos() >= loop.Pos() {
			// assignments to the snapshot inside or after the loop are not allowed
			for _, l := range as.Lhs {
				if o, _ := selectorPath(info, l); o == snap && snap != nil {
					bad = "the election snapshot is modified inside the operations loop"
				}
			}
			return true
		}
		for i, l := range as.Lhs {
			o, path := selectorPath(info, l)
			if o != snap || snap == nil {
				continue
			}
			if len(path) == 0 && len(as.Rhs) == 1 {
				defCall, _ = ast.Unparen(as.Rhs[0]).(*ast.CallExpr)
			}
			if len(path) == 1 && len(as.Lhs) == len(as.Rhs) {
				t, _ := (&condXlat{info: info, fd: fi.Decl, uniq: new(int)}).term(as.Rhs[i])
				fields[path[0]] = t
			}
		}
		if len(as.Rhs) == 1 {
			if call, ok := ast.Unparen(as.Rhs[0]).(*ast.CallExpr); ok && isMethod(calleeObj(info, call), modPath+"/server", "Server", "getClientState") && len(call.Args) == 1 && objOfIdent(info, call.Args[0]) == cid {
				csVar = objOfIdent(info, as.Lhs[0])
			}
			// the same lookup written out in place: cs, ok := s.cs[cid]
			if ie, ok := ast.Unparen(as.Rhs[0]).(*ast.IndexExpr); ok && objOfIdent(info, ie.Index) == cid && cid != nil {
				if se, ok := ast.Unparen(ie.X).(*ast.SelectorExpr); ok && se.Sel.Name == "cs" && isNamed(info.TypeOf(se.X), modPath+"/server", "Server") {
					csVar = objOfIdent(info, as.Lhs[0])
				}
			}
		}
		for i, l := range as.Lhs {
			if o, path := selectorPath(info, l); o == snap && snap != nil && len(path) == 1 && path[0] == "clientLatest" && len(as.Lhs) == len(as.Rhs) {
				latestExpr = as.Rhs[i]
			}
		}
		return true
	})
	// the snapshot variable is bound exactly once, to a fresh getElection() read of this call
	if sv, ok := snap.(*types.Var); ok && snap != nil {
		sole, _ := ast.Unparen(soleDefinition(info, fi.Decl, sv)).(*ast.CallExpr)
		if sole == nil || sole != defCall {
			defCall = nil
		}
	}
	switch {
	case defCall == nil || !isMethod(calleeObj(info, defCall), modPath+"/server", "Server", "getElection"):
		bad = "the snapshot is not a fresh getElection() read taken once, under the lock, before the loop (a cached or conditionally refreshed view misses elections won by other sessions)"
	case csVar == nil:
		bad = "the session state is not looked up by the session id"
	case fields["client"] != cid.Name():
		bad = "snapshot.client is " + fields["client"] + ", expected the session id"
	case !latestIsSessions(info, latestExpr, csVar):
		bad = "snapshot.clientLatest is " + fields["clientLatest"] + ", expected the session's last announced election id"
	}
	c.Sites += nCalls
	c.check(bad == "", rule, fi.Name, "one snapshot (master, current id, session, session's last id) before the loop", c.P.pos(loop.Pos()),
		"getElection() + getClientState(cid).lastElecID + cid, unchanged during the loop", bad)
	// getElection reads both fields under the lock (guarded-by is checked by C05/C11); here: it copies both
	if ge := c.need("server", "Server", "getElection"); ge != nil {
		ginfo := ge.Pkg.TypesInfo
		ok := false
		for _, cl := range litsOfType(ginfo, ge.Decl.Body, modPath+"/server", "electionDetails") {
			f := compositeFields(cl)
			_, p1 := selectorPath(ginfo, f["master"])
			_, p2 := selectorPath(ginfo, f["ID"])
			if strings.Join(p1, ".") == "curMaster" && strings.Join(p2, ".") == "curElecID" {
				ok = true
			}
		}
		c.check(ok, rule, ge.Name, "snapshot copies master and id", c.P.pos(ge.Decl.Pos()), "master: curMaster, ID: curElecID", "getElection does not return (curMaster, curElecID)")
	}
}

// R4.4
func ruleRIBCallers(c *Ctx) {
	const rule = "RIB-CALLERS"
	cg := c.P.callGraph()
	for _, t := range []struct {
		name  string
		allow string
	}{{"AddEntry", "server.modifyEntry"}, {"DeleteEntry", "server.modifyEntry"}, {"Flush", "server.(*Server).Flush"}} {
		fi := c.need("rib", "RIB", t.name)
		if fi == nil {
			continue
		}
		var inServer, bad []string
		for _, cl := range cg.callersOf(fi.Obj) {
			if cl.Pkg() == nil || cl.Pkg().Path() != modPath+"/server" {
				continue
			}
			dn := displayName(cl)
			inServer = append(inServer, dn)
			if !onBehalfOf(cg, cl, func(g *types.Func) bool { return displayName(g) == t.allow }) {
				bad = append(bad, dn)
			}
		}
		c.Sites += len(inServer)
		c.check(len(bad) == 0 && len(inServer) >= 1, rule, fi.Name, "callers inside package server", c.P.pos(fi.Decl.Pos()), "only "+t.allow,
			fmt.Sprintf("RIB.%s is called from %v inside the server (audited gate: %s only)", t.name, inServer, t.allow))
	}
}

// R4.5 / R5.x the id a session announces is recorded as that session's latest,
// unconditionally: checkElectionForModify compares each operation's id with it.
func ruleStoreClientElectionID(c *Ctx) {
	const rule = "SESSION-LATEST-ID"
	fi := c.need("server", "Server", "storeClientElectionID")
	if fi == nil {
		return
	}
	info := fi.Pkg.TypesInfo
	ps := paramObjs(info, fi.Decl)
	if len(ps) != 2 || ps[0] == nil || ps[1] == nil {
		c.vanished(rule, fi.Name, "signature", "expected (session id, election id)")
		return
	}
	sid, eid := ps[0], ps[1]
	recv := recvName(fi)
	// the session lookup: <state>, <found> := s.cs[id]
	var stateVar, okVar types.Object
	inspectNoFuncLit(fi.Decl.Body, func(n ast.Node) bool {
		as, ok := n.(*ast.AssignStmt)
		if !ok || len(as.Lhs) != 2 || len(as.Rhs) != 1 {
			return true
		}
		if ie, ok := ast.Unparen(as.Rhs[0]).(*ast.IndexExpr); ok && canonTerm(fi, ie.X) == recv+".cs" && objOfIdent(info, ie.Index) == sid {
			stateVar, okVar = objOfIdent(info, as.Lhs[0]), objOfIdent(info, as.Lhs[1])
		}
		return true
	})
	if stateVar == nil || okVar == nil {
		c.vanished(rule, fi.Name, "session lookup", "no `state, ok := s.cs[id]` lookup")
		return
	}
	ev := func(n ast.Node) []Event {
		var out []Event
		inspectNoFuncLit(n, func(m ast.Node) bool {
			as, ok := m.(*ast.AssignStmt)
			if !ok || len(as.Lhs) != len(as.Rhs) {
				return true
			}
			for i, l := range as.Lhs {
				o, p := selectorPath(info, l)
				if len(p) == 1 && p[0] == "lastElecID" {
					if o == stateVar && objOfIdent(info, as.Rhs[i]) == eid {
						out = append(out, Event{Kind: "record", Node: as})
					} else {
						out = append(out, Event{Kind: "record-other", Node: as})
					}
				}
			}
			return true
		})
		return out
	}
	paths, pe := enumFunc(fi, ev, nil)
	c.Sites += len(paths)
	if pe.overflow || len(paths) == 0 {
		c.undecided(rule, fi.Name, "body", c.P.pos(fi.Decl.Pos()), "path enumeration incomplete")
		return
	}
	bad := ""
	nStore := 0
	for _, p := range paths {
		if p.End == "panic" {
			continue
		}
		found := p.Entails(&FLit{"b:" + varKey(okVar), 2, 2})
		missing := p.Entails(&FLit{"b:" + varKey(okVar), 2, 1})
		ret, isB := firstResultBool(info, p)
		switch {
		case p.has("record-other"):
			bad = "something other than the announced id is recorded as the session's latest id: " + p.describe(c.P)
		case missing && isB && !ret && !p.has("record"):
		case found && isB && ret && p.count("record") == 1:
			nStore++
		default:
			bad = "for a known session the announced id must be recorded as its latest id on every path (and true returned); unknown session ⇒ false, nothing recorded: " + p.describe(c.P)
		}
	}
	c.check(bad == "" && nStore >= 1, rule, fi.Name, "the announced id becomes the session's latest id, unconditionally", c.P.pos(fi.Decl.Pos()), fmt.Sprintf("%d paths", len(paths)), bad)
}

// latestIsSessions: the expression is <session state>.lastElecID (or its getter) of the looked-up session.
func latestIsSessions(info *types.Info, e ast.Expr, csVar types.Object) bool {
	if e == nil || csVar == nil {
		return false
	}
	o, p := selectorPath(info, e)
	return o == csVar && len(p) == 1 && (p[0] == "lastElecID" || p[0] == "LastElecID")
}
