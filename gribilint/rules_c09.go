package main

// C09 — session negotiation / protocol violations: specified status, no side effects.

import (
	"fmt"
	"go/ast"
	"go/token"
	"go/types"
	"sort"
	"strings"
)

func init() { propRules["C09"] = rulesC09 }

func rulesC09(c *Ctx) {
	c.Decided = append(c.Decided,
		"R9.1/R9.5/R9.7 the Modify receive loop's decision table: EOF / read error / ≥2 populated fields / each single field → its handler, the error sent and the goroutine ended, or the response written and the first-message flag set on every path that loops",
		"R9.2 checkParams' and updateParams' decision tables (status code and ModifyRPCErrorDetails reason per cell; setClientParams/the state write as the only effect of the accepting cell); checkClientsConsistent compares against every other session and only fails inside its loop; clientParams.Equal and DeepCopy cover every field",
		"R9.3 runElection's decision table: not SINGLE_PRIMARY → FAILED_PRECONDITION/ELECTION_ID_IN_ALL_PRIMARY, zero id → INVALID_ARGUMENT, both without any effect",
		"R9.4 doModify's precondition table: unknown session → INTERNAL, session without SINGLE_PRIMARY+PRESERVE → UNIMPLEMENTED/UNSUPPORTED_PARAMS, both before any RIB or election access",
		"R9.9 a fatal error ends the session's processing at once: in doModify a write to the error channel is the last effect of the path and is followed by `return false`, and the receive loop returns on false (in the dispatch table) — no further operation of the request and no further message of the failed session is handled",
		"R9.6 every exit of Modify after the session was registered removes it from the session table; deleteClient touches nothing but the session table")
	c.NotDec = append(c.NotDec, "the product state machine over several sessions in every order: what is decided is every transition function for every input class, plus the absence of side effects in the rejecting cells")
	ruleDispatchTable(c)
	ruleCheckParamsTable(c)
	ruleUpdateParamsTable(c)
	ruleClientsConsistent(c)
	ruleClientParamsFields(c)
	ruleRunElectionTable(c)
	ruleStoreClientElectionID(c)
	ruleDoModifyPrecondition(c)
	ruleSessionFootprint(c)
	ruleFatalEndsSession(c)
	ruleNewSessionDefaults(c)
	ruleStateWriters(c, append(append([]writerRow{}, writersServerSession...), writersServerElection...))
	ruleElectionWriters(c) // a session leaving (or any handler but runElection) never alters the election state
}

// sendEvents classifies sends on channel-typed variables of the function / closure.
func sendEvents(fi *FuncInfo, extra func(n ast.Node) []Event) func(n ast.Node) []Event {
	return sendEventsRole(fi, extra, nil)
}

// sendEventsRole: as sendEvents, with the channel named by role(chan) when role is given.
func sendEventsRole(fi *FuncInfo, extra func(n ast.Node) []Event, role func(ast.Expr) string) func(n ast.Node) []Event {
	info := fi.Pkg.TypesInfo
	return func(n ast.Node) []Event {
		var out []Event
		if extra != nil {
			out = append(out, extra(n)...)
		}
		inspectNoFuncLit(n, func(m ast.Node) bool {
			switch x := m.(type) {
			case *ast.SendStmt:
				ch := types.ExprString(x.Chan)
				if role != nil {
					ch = role(x.Chan)
				}
				v := classifyValue(info, fi.Decl, x.Value, 0)
				if isNilIdent(info, x.Value) {
					v = "nil"
				}
				out = append(out, Event{Kind: ch + "←" + v, Node: x})
			}
			return true
		})
		// keep source order
		sort.SliceStable(out, func(i, j int) bool { return out[i].Node.Pos() < out[j].Node.Pos() })
		return out
	}
}

func ruleDispatchTable(c *Ctx) {
	fi := c.need("server", "Server", "Modify")
	if fi == nil {
		return
	}
	// the receive goroutine: a closure or a method started with `go` that calls Recv on the stream
	var loop *ast.ForStmt
	var gb *bodyRef
	for _, br := range goBodies(fi) {
		hasRecv := false
		for _, call := range callsIn(br.Body) {
			if se, ok := ast.Unparen(call.Fun).(*ast.SelectorExpr); ok && se.Sel.Name == "Recv" {
				hasRecv = true
			}
		}
		if hasRecv {
			for _, st := range br.Body.List {
				if f, ok := st.(*ast.ForStmt); ok && f.Cond == nil {
					loop, gb = f, br
				}
			}
		}
	}
	if loop == nil {
		c.vanished("TABLE-DISPATCH", fi.Name, "receive loop", "no goroutine reading the stream in a loop found")
		return
	}
	outer := fi
	fi = gb.FI // the function the loop is written in (Modify itself for a closure)
	info := fi.Pkg.TypesInfo
	role := func(a ast.Expr) string { return dispatchArgVia(outer, gb, a) }
	calls := func(n ast.Node) []Event {
		var out []Event
		inspectNoFuncLit(n, func(m ast.Node) bool {
			switch x := m.(type) {
			case *ast.CallExpr:
				if f, ok := calleeObj(info, x).(*types.Func); ok && recvTypeName(f) == "Server" {
					switch f.Name() {
					case "checkParams", "updateParams", "runElection", "doModify":
						var as []string
						for _, a := range x.Args {
							as = append(as, role(a))
						}
						out = append(out, Event{Kind: f.Name() + "(" + strings.Join(as, ",") + ")", Node: x})
					}
				}
			case *ast.AssignStmt:
				if len(x.Lhs) == 1 && len(x.Rhs) == 1 {
					if b, isB := boolConst(info, x.Rhs[0]); isB && b {
						if id, ok := x.Lhs[0].(*ast.Ident); ok && id.Name != "skipWrite" {
							out = append(out, Event{Kind: "first-message-flag=true", Node: x})
						}
					}
				}
			}
			return true
		})
		return out
	}
	in := "call:Recv#1.0"
	aEOF := eqAtom("call:Recv#1.1", "io.EOF")
	aErr := eqAtom("call:Recv#1.1", "nil")
	aIn := eqAtom(in, "nil")
	aP, aE, aO := eqAtom(in+".Params", "nil"), eqAtom(in+".ElectionId", "nil"), eqAtom(in+".Operation", "nil")
	aCP := eqAtom("call:checkParams#1.1", "nil")
	aUP := eqAtom("call:updateParams#1", "nil")
	aRE := eqAtom("call:runElection#1.1", "nil")
	aDM := "b:call:doModify#1"
	flag := "first-message-flag=true"
	// a sent local is named by what it holds on the path (the handler's own response / error)
	var pe *pathEnum
	outcome := func(p Path) string {
		q := p
		q.Events = nil
		for _, e := range p.Events {
			k := e.Kind
			if ss, ok := e.Node.(*ast.SendStmt); ok && pe != nil {
				if id, ok := ast.Unparen(ss.Value).(*ast.Ident); ok && strings.Contains(k, "←var:") {
					k = k[:strings.Index(k, "←")] + "←" + p.TermAtEnd(pe, id)
				}
			}
			q.Events = append(q.Events, Event{Kind: k, Node: e.Node})
		}
		// in a loop body `continue` and falling off the end are the same outcome: the next iteration
		return strings.Replace(defaultOutcome(info, fi.Decl, q), "end:continue", "end:fall", 1)
	}
	runTable(c, tableSpec{
		Rule: "TABLE-DISPATCH", Fn: fi, Body: loop.Body.List, Construct: "Modify receive loop: dispatch and termination",
		Outcome: outcome, PE: &pe,
		Events: sendEventsRole(fi, calls, role),
		Atoms:  map[string]int{aEOF: 2, aErr: 2, aIn: 2, aP: 2, aE: 2, aO: 2, aCP: 2, aUP: 2, aRE: 2, aDM: 2},
		Expected: func(v *Valuation) (string, bool) {
			ret := func(evs ...string) string { return "ret() effects[" + strings.Join(evs, ",") + "]" }
			loops := func(evs ...string) string { return "end:fall effects[" + strings.Join(evs, ",") + "]" }
			hasP, hasE, hasO := !v.B(aP), !v.B(aE), !v.B(aO)
			chk := "checkParams(session,msg.Params,first-message-flag)"
			upd := "updateParams(session,msg.Params)"
			switch {
			case v.B(aEOF):
				return ret("errCh←nil"), true
			case !v.B(aErr):
				return ret("errCh←err(Unknown)"), true
			case v.B(aIn):
				return loops(flag), true
			case (hasP && hasE) || (hasP && hasO) || (hasE && hasO):
				return ret("errCh←err(InvalidArgument)"), true
			case hasP:
				if !v.B(aCP) {
					return ret(chk, "errCh←call:checkParams#1.1"), true
				}
				if !v.B(aUP) {
					return ret(chk, upd, "errCh←call:updateParams"), true
				}
				return loops(chk, upd, flag, "resultChan←call:checkParams#1.0"), true
			case hasE:
				if !v.B(aRE) {
					return ret("runElection(session,msg.ElectionId)", "errCh←call:runElection#1.1"), true
				}
				return loops("runElection(session,msg.ElectionId)", flag, "resultChan←call:runElection#1.0"), true
			case hasO:
				// doModify reports false once it has written a fatal error: the RPC is being torn
				// down and nothing further from this session may be handled
				if !v.B(aDM) {
					return ret("doModify(session,msg.Operation,resultChan,errCh)"), true
				}
				return loops("doModify(session,msg.Operation,resultChan,errCh)", flag), true
			}
			return ret("errCh←err(Unimplemented)"), true
		},
	})
}

// dispatchArgVia names an argument by role, mapping the parameters of a
// goroutine body that is a declared function back to the arguments of the go statement.
func dispatchArgVia(outer *FuncInfo, gb *bodyRef, a ast.Expr) string {
	info := gb.FI.Pkg.TypesInfo
	if gb.Lit == nil {
		if obj, path := selectorPath(info, a); obj != nil {
			if arg, ok := gb.ArgOf[obj]; ok {
				r := dispatchArg(outer.Pkg.TypesInfo, outer, arg)
				if len(path) > 0 {
					r += "." + strings.Join(path, ".")
				}
				return r
			}
		}
	}
	return dispatchArg(info, gb.FI, a)
}

// dispatchArg names an argument of a handler call by role.
func dispatchArg(info *types.Info, fi *FuncInfo, a ast.Expr) string {
	obj, path := selectorPath(info, a)
	if obj == nil {
		return "?"
	}
	role := obj.Name()
	if v, ok := obj.(*types.Var); ok {
		if call, i := soleTupleDef(info, fi.Decl, v); call != nil && i == 0 {
			if se, ok := ast.Unparen(call.Fun).(*ast.SelectorExpr); ok && se.Sel.Name == "Recv" {
				role = "msg"
			}
		}
		if def := soleDefinition(info, fi.Decl, v); def != nil {
			if call, ok := ast.Unparen(def).(*ast.CallExpr); ok {
				if f, ok := calleeObj(info, call).(*types.Func); ok && f.Name() == "String" {
					role = "session" // cid := uuid.New().String()
				}
			}
		}
		if b, ok := v.Type().Underlying().(*types.Basic); ok && b.Info()&types.IsBoolean != 0 {
			role = "first-message-flag"
		}
		if ch, ok := v.Type().Underlying().(*types.Chan); ok {
			switch {
			case isNamed(ch.Elem(), spbPath, "ModifyResponse"):
				role = "resultChan"
			case types.Identical(ch.Elem(), types.Universe.Lookup("error").Type()):
				role = "errCh"
			}
		}
	}
	if len(path) > 0 {
		role += "." + strings.Join(path, ".")
	}
	return role
}

func ruleCheckParamsTable(c *Ctx) {
	fi := c.need("server", "Server", "checkParams")
	if fi == nil {
		return
	}
	p, got := paramName(fi, 1), paramName(fi, 2)
	aNil := eqAtom(p, "nil")
	aGot := "b:" + got
	aAll := eqAtom("const:SessionParameters_ALL_PRIMARY", p+".Redundancy")
	aPres := eqAtom("const:SessionParameters_PRESERVE", p+".Persistence")
	aDel := eqAtom("const:SessionParameters_DELETE", p+".Persistence")
	aSingle := eqAtom("const:SessionParameters_SINGLE_PRIMARY", p+".Redundancy")
	aRibAck := eqAtom("const:SessionParameters_RIB_ACK", p+".AckType")
	aFibAck := eqAtom("const:SessionParameters_RIB_AND_FIB_ACK", p+".AckType")
	aConsErr := eqAtom("call:checkClientsConsistent#1.1", "nil")
	aCons := "b:call:checkClientsConsistent#1.0"
	aSet := eqAtom("call:setClientParams#1", "nil")
	e := func(code, reason string) string {
		return "ret(nil, err(" + code + "/ModifyRPCErrorDetails_" + reason + "))"
	}
	// the store of the accepted parameters: through setClientParams, or — when that helper has been folded into
	// checkParams — in place (`s.cs[id].params = cp`, after the test that the session is known)
	cpInfo := fi.Pkg.TypesInfo
	recvN, idN := recvName(fi), paramName(fi, 0)
	aKnown := eqAtom("nil", recvN+".cs["+idN+"]")
	baseEv := ribCallEvents(fi)
	evs := func(n ast.Node) []Event {
		out := baseEv(n)
		inspectNoFuncLit(n, func(m ast.Node) bool {
			as, ok := m.(*ast.AssignStmt)
			if !ok || len(as.Lhs) != 1 || len(as.Rhs) != 1 {
				return true
			}
			se, ok := ast.Unparen(as.Lhs[0]).(*ast.SelectorExpr)
			if !ok || se.Sel.Name != "params" {
				return true
			}
			ie, ok := ast.Unparen(se.X).(*ast.IndexExpr)
			if !ok || !strings.HasSuffix(types.ExprString(ie.X), ".cs") {
				return true
			}
			role := func(e ast.Expr) string {
				if o := objOfIdent(cpInfo, e); o != nil {
					return paramRole(cpInfo, fi.Decl, o)
				}
				return "?"
			}
			out = append(out, Event{Kind: "setClientParams(" + role(ie.Index) + "," + role(as.Rhs[0]) + ")", Node: as})
			return true
		})
		return out
	}
	var cpe *pathEnum
	helperExists := c.P.Func("server", "Server", "setClientParams") != nil
	cpAtoms := map[string]int{aNil: 2, aGot: 2, aAll: 2, aSingle: 2, aPres: 2, aDel: 2, aRibAck: 2, aFibAck: 2, aConsErr: 2, aCons: 2}
	if helperExists {
		cpAtoms[aSet] = 2
	} else {
		cpAtoms[aKnown] = 2
	}
	storeFails := func(v *Valuation) bool {
		if helperExists {
			return !v.B(aSet)
		}
		return v.B(aKnown)
	}
	runTable(c, tableSpec{
		Rule: "TABLE-CHECK-PARAMS", Fn: fi, Construct: "checkParams decision table",
		Events: evs, PE: &cpe,
		// an INTERNAL failure is judged by its status alone (whether the failed store was attempted through a
		// helper is immaterial)
		Outcome: func(p Path) string {
			o := defaultOutcome(cpInfo, fi.Decl, p)
			if strings.HasPrefix(o, "ret(nil, err(Internal))") {
				return "ret(nil, err(Internal))"
			}
			return o
		},
		Atoms: cpAtoms,
		Expected: func(v *Valuation) (string, bool) {
			switch {
			case v.B(aNil):
				return "ret(nil, err(Internal))", true
			case v.B(aGot):
				return e("FailedPrecondition", "MODIFY_NOT_ALLOWED"), true
			case v.B(aAll) && v.B(aPres):
				return e("FailedPrecondition", "UNSUPPORTED_PARAMS"), true
			// only the supported mode is accepted: SINGLE_PRIMARY with PRESERVE and one of the two defined
			// acknowledgement types — anything else, undefined enum numbers included, is UNSUPPORTED_PARAMS
			case v.B(aAll) || !v.B(aSingle):
				return e("Unimplemented", "UNSUPPORTED_PARAMS"), true
			case v.B(aDel) || !v.B(aPres):
				return e("Unimplemented", "UNSUPPORTED_PARAMS"), true
			case !v.B(aRibAck) && !v.B(aFibAck):
				return e("Unimplemented", "UNSUPPORTED_PARAMS"), true
			case !v.B(aConsErr):
				return "ret(nil, err(Internal))", true
			case !v.B(aCons):
				return e("FailedPrecondition", "PARAMS_DIFFER_FROM_OTHER_CLIENTS"), true
			case storeFails(v):
				return "ret(nil, err(Internal))", true
			}
			return "ret(resp(params:SessionParametersResult_OK), nil) effects[setClientParams(p0,cp)]", true
		},
	})
	// the candidate parameters handed to the consistency check and stored are derived from the message
	info := fi.Pkg.TypesInfo
	good := false
	for _, cl := range litsOfType(info, fi.Decl.Body, modPath+"/server", "clientParams") {
		f := compositeFields(cl)
		want := map[string][2]string{"FIBAck": {"AckType", "SessionParameters_RIB_AND_FIB_ACK"}, "ExpectElecID": {"Redundancy", "SessionParameters_SINGLE_PRIMARY"}, "Persist": {"Persistence", "SessionParameters_PRESERVE"}}
		ok := len(f) == 3
		for k, w := range want {
			be, isBe := ast.Unparen(f[k]).(*ast.BinaryExpr)
			if !isBe || be.Op != token.EQL {
				ok = false
				continue
			}
			_, path := selectorPath(info, be.X)
			if strings.Join(path, ".") != w[0] || constName(info, be.Y) != w[1] {
				ok = false
			}
		}
		if ok {
			good = true
		}
	}
	c.check(good, "PARAMS-DERIVATION", fi.Name, "candidate parameters", c.P.pos(fi.Decl.Pos()), "FIBAck/ExpectElecID/Persist derived from AckType/Redundancy/Persistence", "the parameters compared with other sessions are not derived field by field from the received SessionParameters")
}

func ruleUpdateParamsTable(c *Ctx) {
	fi := c.need("server", "Server", "updateParams")
	if fi == nil {
		return
	}
	info := fi.Pkg.TypesInfo
	recv, id := recvName(fi), paramName(fi, 0)
	p := recv + ".cs[" + id + "]"
	aNil := eqAtom(p, "nil")
	aPNil := eqAtom(p+".params", "nil")
	aSet := "b:" + p + ".setParams"
	ev := func(n ast.Node) []Event {
		var out []Event
		inspectNoFuncLit(n, func(m ast.Node) bool {
			if as, ok := m.(*ast.AssignStmt); ok && as.Tok == token.ASSIGN {
				for _, l := range as.Lhs {
					if se, ok := ast.Unparen(l).(*ast.SelectorExpr); ok {
						// the session's state: s.cs[id] itself or a local holding it
						if canonTerm(fi, se.X) == p {
							out = append(out, Event{Kind: "store session." + se.Sel.Name, Node: as})
						}
					}
				}
			}
			return true
		})
		return out
	}
	runTable(c, tableSpec{
		Rule: "TABLE-UPDATE-PARAMS", Fn: fi, Construct: "updateParams decision table", Events: ev,
		Atoms: map[string]int{aNil: 2, aPNil: 2, aSet: 2},
		Expected: func(v *Valuation) (string, bool) {
			switch {
			case v.B(aNil) || v.B(aPNil):
				return "ret(err(Internal))", true
			case v.B(aSet):
				return "ret(err(FailedPrecondition/ModifyRPCErrorDetails_MODIFY_NOT_ALLOWED))", true
			}
			return "ret(nil) effects[store session.setParams,store session.params]", true
		},
	})
	_ = info
}

func ruleClientsConsistent(c *Ctx) {
	const rule = "PARAMS-CONSISTENT"
	fi := c.need("server", "Server", "checkClientsConsistent")
	if fi == nil {
		return
	}
	info := fi.Pkg.TypesInfo
	id, p := paramObjs(info, fi.Decl)[0], paramObjs(info, fi.Decl)[1]
	var loop *ast.RangeStmt
	body := fi.Decl.Body.List
	for depth := 0; depth < 3 && loop == nil; depth++ {
		for _, st := range body {
			if rs, ok := st.(*ast.RangeStmt); ok {
				if se, ok := ast.Unparen(rs.X).(*ast.SelectorExpr); ok && se.Sel.Name == "cs" {
					loop = rs
				}
			}
		}
		if loop != nil || len(body) == 0 {
			break
		}
		// the whole check handed to a helper spliced in as the last statement (`return s.helper(id, p)`): look
		// inside, with the helper's parameters standing for id and p
		blk, ok := body[len(body)-1].(*ast.BlockStmt)
		fr := inlineFrames[blk]
		if !ok || fr == nil || !fr.IsReturn {
			break
		}
		nid, np := types.Object(nil), types.Object(nil)
		for o, a := range fr.Binds {
			switch objOfIdent(info, a) {
			case id:
				nid = o
			case p:
				np = o
			}
		}
		if nid == nil || np == nil {
			break
		}
		id, p = nid, np
		body = nil
		for _, st := range blk.List {
			if as, ok := st.(*ast.AssignStmt); ok && as.Tok == token.DEFINE && len(as.Lhs) == 1 {
				if _, isBind := fr.Binds[objOfIdent(info, as.Lhs[0])]; isBind {
					continue
				}
			}
			body = append(body, st)
		}
	}
	if loop == nil {
		c.vanished(rule, fi.Name, "loop over sessions", "no loop over the session table")
		return
	}
	key, val := objOfIdent(info, loop.Key), objOfIdent(info, loop.Value)
	ev := func(n ast.Node) []Event {
		var out []Event
		for _, call := range callsIn(n) {
			if f, ok := calleeObj(info, call).(*types.Func); ok && f.Name() == "Equal" && recvTypeName(f) == "clientParams" {
				se := ast.Unparen(call.Fun).(*ast.SelectorExpr)
				o, path := selectorPath(info, se.X)
				// the session being compared: the loop's value, or the table looked up again under the loop's key
				// (`state, ok := s.cs[id]` in a helper spliced in, id standing for the key)
				isVal := o == val
				if !isVal && o != nil && key != nil {
					ast.Inspect(fi.Decl.Body, func(m ast.Node) bool {
						as, ok := m.(*ast.AssignStmt)
						if !ok || len(as.Rhs) != 1 || len(as.Lhs) == 0 || objOfIdent(info, as.Lhs[0]) != o {
							return true
						}
						if ie, ok := ast.Unparen(as.Rhs[0]).(*ast.IndexExpr); ok && types.ExprString(ie.X) == types.ExprString(loop.X) {
							if ko := objOfIdent(info, ie.Index); ko != nil && frameArgRoot(info, fi.Decl, ko) == frameArgRoot(info, fi.Decl, key) {
								isVal = true
							}
						}
						return true
					})
				}
				if isVal && strings.Join(path, ".") == "params" && len(call.Args) == 1 && frameArgRoot(info, fi.Decl, objOfIdent(info, call.Args[0])) == frameArgRoot(info, fi.Decl, p) {
					out = append(out, Event{Kind: "equal", Node: call})
				} else {
					out = append(out, Event{Kind: "equal-other", Node: call})
				}
			}
		}
		return out
	}
	pe := &pathEnum{info: info, ev: ev, cap: pathCap, fd: fi.Decl}
	paths, _ := pe.run(loop.Body.List)
	c.Sites += len(paths)
	bad := ""
	sawSkip, sawCmp := false, false
	for _, pt := range paths {
		out := defaultOutcomeNoEv(info, fi.Decl, pt)
		own := key != nil && pt.Entails(eqF(id.Name(), key.Name()))
		other := key != nil && pt.Entails(fnot(eqF(id.Name(), key.Name())))
		switch {
		case own:
			sawSkip = true
			if pt.End == "return" || pt.has("equal") {
				bad = "the session's own entry is compared / decides the verdict"
			}
		case other && pt.End == "return":
			if !strings.HasPrefix(out, "ret(false, ") {
				bad = "a return inside the loop over the other sessions reports consistency: " + out
			}
		case other:
			// continuing past another session requires that it compared equal
			if !pt.has("equal") {
				bad = "another session is passed over without comparing its parameters: " + pt.describe(c.P)
			} else {
				sawCmp = true
			}
		default:
			bad = "loop path that does not decide own/other session: " + pt.describe(c.P)
		}
	}
	// after the loop: consistent
	last := body[len(body)-1]
	if rs, ok := last.(*ast.ReturnStmt); !ok || len(rs.Results) != 2 || types.ExprString(rs.Results[0]) != "true" {
		bad = "the verdict after examining every session is not 'consistent'"
	}
	c.check(bad == "" && sawSkip && sawCmp, rule, fi.Name, "compare with every other session, fail only inside the loop", c.P.pos(loop.Pos()), fmt.Sprintf("%d loop paths: own id skipped, others compared with Equal", len(paths)), bad)
}

// clientParams.Equal / DeepCopy cover every field
func ruleClientParamsFields(c *Ctx) {
	const rule = "PARAMS-FIELDS"
	pk := c.P.pkg("server")
	tn, _ := pk.Types.Scope().Lookup("clientParams").(*types.TypeName)
	if tn == nil {
		c.vanished(rule, "server.clientParams", "type", "type not found")
		return
	}
	st := tn.Type().Underlying().(*types.Struct)
	var fields []string
	for i := 0; i < st.NumFields(); i++ {
		fields = append(fields, st.Field(i).Name())
	}
	for _, m := range []string{"Equal", "DeepCopy"} {
		fi := c.need("server", "clientParams", m)
		if fi == nil {
			continue
		}
		info := fi.Pkg.TypesInfo
		recv := recvObj(info, fi.Decl)
		var other types.Object
		if ps := paramObjs(info, fi.Decl); len(ps) == 1 {
			other = ps[0]
		}
		cover := map[string]int{}
		ast.Inspect(fi.Decl.Body, func(n ast.Node) bool {
			switch x := n.(type) {
			case *ast.BinaryExpr:
				if x.Op == token.EQL && m == "Equal" {
					lo, lp := selectorPath(info, x.X)
					ro, rp := selectorPath(info, x.Y)
					if len(lp) == 1 && len(rp) == 1 && lp[0] == rp[0] && ((lo == recv && ro == other) || (lo == other && ro == recv)) {
						cover[lp[0]]++
					}
				}
			case *ast.KeyValueExpr:
				if m == "DeepCopy" {
					if k, ok := x.Key.(*ast.Ident); ok {
						if o, p := selectorPath(info, x.Value); o == recv && len(p) == 1 && p[0] == k.Name {
							cover[k.Name]++
						}
					}
				}
			}
			return true
		})
		var missing []string
		for _, f := range fields {
			if cover[f] == 0 {
				missing = append(missing, f)
			}
		}
		c.Sites += len(fields)
		// Equal must be a conjunction: no || in it
		disj := false
		ast.Inspect(fi.Decl.Body, func(n ast.Node) bool {
			if be, ok := n.(*ast.BinaryExpr); ok && be.Op == token.LOR {
				disj = true
			}
			return true
		})
		c.check(len(missing) == 0 && !(m == "Equal" && disj), rule, fi.Name, "covers every field", c.P.pos(fi.Decl.Pos()), fmt.Sprintf("%d fields %v", len(fields), fields), fmt.Sprintf("fields %v of clientParams are not covered by %s (or the comparison is not a conjunction)", missing, m))
	}
}

func ruleDoModifyPrecondition(c *Ctx) {
	fi := c.need("server", "Server", "doModify")
	if fi == nil {
		return
	}
	info := fi.Pkg.TypesInfo
	// statements before the loop over the operations
	var pre []ast.Stmt
	for _, st := range fi.Decl.Body.List {
		if rs, ok := st.(*ast.RangeStmt); ok {
			if tv, ok := info.Types[rs.X]; ok {
				if sl, ok := tv.Type.Underlying().(*types.Slice); ok && isNamed(sl.Elem(), spbPath, "AFTOperation") {
					break
				}
			}
		}
		pre = append(pre, st)
	}
	calls := func(n ast.Node) []Event {
		var out []Event
		for _, call := range callsIn(n) {
			if f, ok := calleeObj(info, call).(*types.Func); ok && f.Pkg() != nil {
				if f.Pkg().Path() == ribPkg || (recvTypeName(f) == "Server" && (f.Name() == "getElection" || f.Name() == "runElection")) || f.Name() == "modifyEntry" {
					out = append(out, Event{Kind: "touch:" + f.Name(), Node: call})
				}
			}
		}
		return out
	}
	cs := "call:getClientState#1.0"
	aOK := "b:call:getClientState#1.1"
	// the lookup written out in place (`cs, ok := s.cs[cid]` under the session lock) names the two locals itself
	cidObj := paramObjs(info, fi.Decl)[0]
	for _, st := range pre {
		as, isAs := st.(*ast.AssignStmt)
		if !isAs || len(as.Lhs) != 2 || len(as.Rhs) != 1 {
			continue
		}
		ie, isIdx := ast.Unparen(as.Rhs[0]).(*ast.IndexExpr)
		if !isIdx || objOfIdent(info, ie.Index) != cidObj {
			continue
		}
		if fv, _ := selectorPath(info, ie.X); fv == nil || !strings.HasSuffix(types.ExprString(ie.X), ".cs") {
			continue
		}
		if a, b := identOf(as.Lhs[0]), identOf(as.Lhs[1]); a != nil && b != nil {
			cs, aOK = varKey(info.ObjectOf(a)), "b:"+varKey(info.ObjectOf(b))
		}
	}
	aPN := eqAtom(cs+".params", "nil")
	aEx := "b:" + cs + ".params.ExpectElecID"
	aPe := "b:" + cs + ".params.Persist"
	runTable(c, tableSpec{
		Rule: "TABLE-MODIFY-PRECONDITION", Fn: fi, Body: pre, Construct: "doModify preconditions precede every RIB/election access",
		Events: sendEvents(fi, calls),
		Atoms:  map[string]int{aOK: 2, aPN: 2, aEx: 2, aPe: 2},
		Expected: func(v *Valuation) (string, bool) {
			switch {
			case !v.B(aOK):
				return "ret(false) effects[errCh←err(Internal)]", true
			case v.B(aPN) || !v.B(aEx) || !v.B(aPe):
				return "ret(false) effects[errCh←err(Unimplemented/ModifyRPCErrorDetails_UNSUPPORTED_PARAMS)]", true
			}
			return "end:fall effects[touch:getElection]", true
		},
	})
}

// R9.6
func ruleSessionFootprint(c *Ctx) {
	const rule = "SESSION-FOOTPRINT"
	fi := c.need("server", "Server", "Modify")
	if fi == nil {
		return
	}
	info := fi.Pkg.TypesInfo
	ev := func(n ast.Node) []Event {
		var out []Event
		for _, call := range callsIn(n) {
			if f, ok := calleeObj(info, call).(*types.Func); ok && recvTypeName(f) == "Server" {
				switch f.Name() {
				case "newClient":
					d := &addEvData{call: call}
					if as := assignedFromCall(info, n, call); len(as) == 1 {
						d.err = as[0]
					}
					out = append(out, Event{Kind: "register", Node: call, Data: d})
				case "deleteClient":
					out = append(out, Event{Kind: "unregister", Node: call})
				}
			}
		}
		if ds, ok := n.(*ast.DeferStmt); ok {
			for _, call := range callsIn(ds) {
				if f, ok := calleeObj(info, call).(*types.Func); ok && f.Name() == "deleteClient" {
					out = append(out, Event{Kind: "unregister-deferred", Node: call})
				}
			}
		}
		return out
	}
	paths, pe := enumFunc(fi, ev, nil)
	c.Sites += len(paths)
	if pe.overflow {
		c.undecided(rule, fi.Name, "body", c.P.pos(fi.Decl.Pos()), "path enumeration incomplete")
		return
	}
	bad := ""
	n := 0
	for _, p := range paths {
		ri := idx(p, "register")
		if ri < 0 || p.End != "return" {
			continue
		}
		d := p.Events[ri].Data.(*addEvData)
		if d.err != nil && factsAfter(info, p, ri, len(p.Events)).Obj(d.err) == +1 {
			continue // registration failed: nothing to clean
		}
		n++
		cleaned := false
		var regArg, delArg string
		regArg = types.ExprString(p.Events[ri].Node.(*ast.CallExpr).Args[0])
		for _, e := range p.Events[ri:] {
			if e.Kind == "unregister" || e.Kind == "unregister-deferred" {
				cleaned = true
				delArg = types.ExprString(e.Node.(*ast.CallExpr).Args[0])
			}
		}
		if !cleaned {
			bad = "Modify can return after registering the session without removing it from the session table: " + p.describe(c.P)
		} else if regArg != delArg {
			bad = "the session removed (" + delArg + ") is not the one registered (" + regArg + ")"
		}
	}
	if n == 0 {
		c.vanished(rule, fi.Name, "exits after registration", "no return path after newClient succeeded")
	} else {
		c.check(bad == "", rule, fi.Name, "every exit after registration unregisters the session", c.P.pos(fi.Decl.Pos()), fmt.Sprintf("%d exit paths", n), bad)
	}
	// deleteClient touches only the session table
	dc := c.need("server", "Server", "deleteClient")
	if dc == nil {
		return
	}
	dinfo := dc.Pkg.TypesInfo
	okDel, other := false, []string{}
	ast.Inspect(dc.Decl.Body, func(m ast.Node) bool {
		call, ok := m.(*ast.CallExpr)
		if !ok {
			return true
		}
		if id, ok := ast.Unparen(call.Fun).(*ast.Ident); ok && id.Name == "delete" && len(call.Args) == 2 {
			if se, ok := ast.Unparen(call.Args[0]).(*ast.SelectorExpr); ok && se.Sel.Name == "cs" && objOfIdent(dinfo, call.Args[1]) == paramObjs(dinfo, dc.Decl)[0] {
				okDel = true
				return true
			}
		}
		if f, ok := calleeObj(dinfo, call).(*types.Func); ok && f.Pkg() != nil && f.Pkg().Path() == "sync" {
			return true
		}
		other = append(other, types.ExprString(call.Fun))
		return true
	})
	c.Sites++
	c.check(okDel && len(other) == 0, rule, dc.Name, "removes exactly the session's entry, touches nothing else", c.P.pos(dc.Decl.Pos()), "delete(cs, id) under csMu", fmt.Sprintf("deleteClient does more/less than removing the session's entry (delete ok=%v, other calls %v)", okDel, other))
}

// R9.9 a fatal error ends the session's processing at once. doModify reports a
// fatal error by writing it to the error channel; the RPC handler returns on the
// first error it reads. Whatever the session's goroutine does after that write —
// the remaining operations of the request, the next message (an election
// announcement, say) — happens on behalf of a session that has already been
// failed. So: on every path through doModify a write to the error channel is the
// last effect and is followed by `return false`; every path without one returns
// true (the dispatch table requires the receive loop to end on false).
func ruleFatalEndsSession(c *Ctx) {
	const rule = "FATAL-ENDS-SESSION"
	fi := c.need("server", "Server", "doModify")
	if fi == nil {
		return
	}
	info := fi.Pkg.TypesInfo
	var errCh, resCh types.Object
	for _, o := range paramObjs(info, fi.Decl) {
		if o == nil {
			continue
		}
		if ch, ok := o.Type().Underlying().(*types.Chan); ok {
			if types.Identical(ch.Elem(), types.Universe.Lookup("error").Type()) {
				errCh = o
			} else {
				resCh = o
			}
		}
	}
	if errCh == nil || resCh == nil {
		c.undecided(rule, fi.Name, "channels", c.P.pos(fi.Decl.Pos()), "doModify has no (response channel, error channel) parameters")
		return
	}
	ev := func(n ast.Node) []Event {
		var out []Event
		inspectNoFuncLit(n, func(m ast.Node) bool {
			switch x := m.(type) {
			case *ast.SendStmt:
				switch objOfIdent(info, x.Chan) {
				case errCh:
					out = append(out, Event{Kind: "fatal", Node: x})
				case resCh:
					out = append(out, Event{Kind: "reply", Node: x})
				}
			case *ast.CallExpr:
				if f, ok := calleeObj(info, x).(*types.Func); ok && f.Name() == "modifyEntry" {
					out = append(out, Event{Kind: "process", Node: x})
				}
			}
			return true
		})
		return out
	}
	paths, pe := enumFunc(fi, ev, nil)
	c.Sites += len(paths)
	if pe.overflow || len(pe.unsup) > 0 || len(paths) == 0 {
		c.undecided(rule, fi.Name, "body", c.P.pos(fi.Decl.Pos()), "path enumeration incomplete")
		return
	}
	sig := fi.Obj.Type().(*types.Signature)
	if sig.Results().Len() != 1 || !types.Identical(sig.Results().At(0).Type(), types.Typ[types.Bool]) {
		c.fail(rule, fi.Name, "a fatal error is the last effect and is reported to the caller", c.P.pos(fi.Decl.Pos()),
			"doModify writes fatal errors to the error channel but does not tell its caller: after an operation that ends the RPC (no election id, say) the remaining operations of the request are still applied to the RIB, unanswered, and the receive loop goes on to handle the session's next message — an election announcement from the failed session still changes the primary")
		return
	}
	bad, nFatal := "", 0
	for _, p := range paths {
		if p.End == "panic" {
			continue
		}
		fatalAt := -1
		for i, e := range p.Events {
			if e.Kind == "fatal" && fatalAt < 0 {
				fatalAt = i
			}
		}
		out := defaultOutcome(info, fi.Decl, Path{End: p.End, EndNode: p.EndNode})
		switch {
		case fatalAt >= 0:
			nFatal++
			if fatalAt != len(p.Events)-1 {
				bad = "after the fatal error was written the path goes on to " + p.Events[fatalAt+1].Kind + ": " + p.describe(c.P)
			} else if out != "ret(false)" {
				bad = "a path that wrote a fatal error ends with " + out + ", want ret(false): " + p.describe(c.P)
			}
		case out != "ret(true)":
			bad = "a path without a fatal error ends with " + out + ", want ret(true) (the receive loop would stop serving a healthy session): " + p.describe(c.P)
		}
	}
	if nFatal < 3 {
		c.vanished(rule, fi.Name, "fatal paths", fmt.Sprintf("only %d paths write to the error channel, confirmed floor is 3", nFatal))
		return
	}
	c.check(bad == "", rule, fi.Name, "a fatal error is the last effect and is reported to the caller", c.P.pos(fi.Decl.Pos()),
		fmt.Sprintf("%d paths, %d of them fatal: errCh←… is followed by return false at once; all others return true", len(paths), nFatal), bad)
}

// NEW-SESSION-DEFAULTS — a session that has just connected has negotiated nothing: newClient stores a
// client state whose every field is its zero value (params: the empty clientParams, not set, no election
// id). State copied from another session would let a session that never sent SessionParameters count as
// SINGLE_PRIMARY/PRESERVE: its election id is accepted and can take the primary role, and its operations
// are processed, instead of ending the RPC with the specified status.
func ruleNewSessionDefaults(c *Ctx) {
	const rule = "NEW-SESSION-DEFAULTS"
	fi := c.need("server", "Server", "newClient")
	if fi == nil {
		return
	}
	info := fi.Pkg.TypesInfo
	id := paramObjs(info, fi.Decl)[0]
	n := 0
	bad := ""
	var zero func(e ast.Expr, depth int) bool
	zero = func(e ast.Expr, depth int) bool {
		e = ast.Unparen(resolveLocal(info, fi.Decl, e))
		if isNilIdent(info, e) {
			return true
		}
		if b, isB := boolConst(info, e); isB {
			return !b
		}
		if tv, ok := info.Types[e]; ok && tv.Value != nil {
			s := tv.Value.ExactString()
			return s == "0" || s == `""` || s == "false"
		}
		if cl, ok := unAddr(e).(*ast.CompositeLit); ok && depth < 3 {
			for _, el := range cl.Elts {
				kv, ok := el.(*ast.KeyValueExpr)
				if !ok || !zero(kv.Value, depth+1) {
					return false
				}
			}
			return true
		}
		return false
	}
	ast.Inspect(fi.Decl.Body, func(m ast.Node) bool {
		as, ok := m.(*ast.AssignStmt)
		if !ok || len(as.Lhs) != 1 || len(as.Rhs) != 1 {
			return true
		}
		ie, ok := ast.Unparen(as.Lhs[0]).(*ast.IndexExpr)
		if !ok || objOfIdent(info, ie.Index) != id {
			return true
		}
		if se, ok := ast.Unparen(ie.X).(*ast.SelectorExpr); !ok || se.Sel.Name != "cs" {
			return true
		}
		n++
		if !zero(as.Rhs[0], 0) {
			bad = "the state stored for a new session (" + types.ExprString(as.Rhs[0]) + ") is not the all-defaults state: a session that has negotiated nothing would start with parameters (or an election id) it never sent"
		}
		return true
	})
	c.Sites += n
	if n == 0 {
		c.vanished(rule, fi.Name, "store", "newClient does not store a client state under the session id")
		return
	}
	c.check(bad == "", rule, fi.Name, "a new session starts with nothing negotiated", c.P.pos(fi.Decl.Pos()), "s.cs[id] = &clientState{params: &clientParams{}} — every field zero", bad)
}
