package main

// C02 — programmed-acknowledgement tracks reference resolvability.

import (
	"fmt"
	"go/ast"
	"go/types"
	"sort"
	"strings"
)

func init() { propRules["C02"] = rulesC02 }

func rulesC02(c *Ctx) {
	c.Decided = append(c.Decided,
		"R2.1 in each of the five AddXXX every path to the install step passes checkFn(constants.Add, validated candidate) == (true, nil) (or checkFn is nil)",
		"R2.2 every RIBHolder created by package rib is wired with the RIB's check function and forward-reference setting (sibling agreement New / AddNetworkInstance); RIB.checkFn maps Add→canResolve, Delete→canDelete, anything else is rejected; the per-holder closure resolves in the holder's own network instance",
		"R2.3 canResolve: next-hops always resolvable after the zero-index test; a group needs every member present in its own network instance (only-fail-inside the member loop); IPv4/IPv6/MPLS entries need their group in the named, else their own, network instance; unknown instance is an error; backup groups are never consulted",
		"R2.4 addEntryInternal: after every install the operation leaves the pending set and all held operations are retried with the same accumulators and install stack; an unresolved operation is held when forward references are allowed and FAILED otherwise")
	c.NotDec = append(c.NotDec, "the cascade on concrete dependency graphs (completeness follows by induction from R2.4's premises; the induction is in DESIGN.md, not mechanised)", "DisableRIBCheckFn configurations", "effects of Go map iteration order")
	ribFamily(c, famSel{gate: true, replacedOrig: true, heldOnly: true})
	rulePendingWriters(c) // a held operation leaves the pending set only with a verdict (shared with C06)
	rulePendingPrimitives(c)
	ruleStateWriters(c, writersRIB)
	ruleCheckWiring(c)
	ruleCheckFnTable(c)
	ruleCanResolve(c)
	ruleRetryAfterInstall(c)
	// installed references stay installed only while deletion protection counts them exactly (shared with C03)
	ruleHandleReferencesTable(c)
	ruleNHGReferences(c)
	ruleInstallRefs(c)
	ruleOptionProbes(c, "rib", 4)    // the switches of the resolvability gate and of forward references
	ruleOptionProbes(c, "server", 5) // … and the server options that set them
	ruleServerWiring(c, []string{"DisableRIBCheckFn", "WithNoRIBForwardReferences"})
	ruleRIBWiring(c)
	// a held operation that became resolvable is answered: the RIB's results reach the response unfiltered (shared with C01/C06)
	ruleResultMapping(c)
}

// optionAppends lists the option constructors appended to the slice passed to NewRIBHolder in fn.
type optAppend struct {
	ctor  string
	arg   string
	guard ast.Expr // innermost enclosing if condition, nil if unconditional
	node  ast.Node
}

func holderOptionAppends(c *Ctx, fi *FuncInfo) ([]optAppend, *ast.CallExpr) {
	info := fi.Pkg.TypesInfo
	var newCall *ast.CallExpr
	for _, call := range callsIn(fi.Decl.Body) {
		if isFunc(calleeObj(info, call), ribPkg, "NewRIBHolder") {
			newCall = call
		}
	}
	if newCall == nil {
		return nil, nil
	}
	var optVar types.Object
	if len(newCall.Args) >= 2 {
		optVar = objOfIdent(info, newCall.Args[len(newCall.Args)-1])
	}
	optVars := map[types.Object]bool{}
	if optVar != nil {
		optVars[optVar] = true
		// the option list built by a helper that was spliced in: its local stands for the argument
		for _, a := range frameReturnAliases(info, optVar) {
			optVars[a] = true
		}
	}
	var out []optAppend
	var walk func(n ast.Node, guard ast.Expr)
	walk = func(n ast.Node, guard ast.Expr) {
		switch x := n.(type) {
		case *ast.IfStmt:
			if x.Init != nil {
				walk(x.Init, guard)
			}
			walk(x.Body, x.Cond)
			if x.Else != nil {
				walk(x.Else, guard)
			}
			return
		case *ast.BlockStmt:
			for _, s := range x.List {
				walk(s, guard)
			}
			return
		case *ast.AssignStmt:
			if o, args := appendTarget(info, x); o != nil && optVars[o] {
				for _, a := range args {
					if call, ok := ast.Unparen(a).(*ast.CallExpr); ok {
						if f, ok := calleeObj(info, call).(*types.Func); ok {
							oa := optAppend{ctor: f.Name(), guard: guard, node: x}
							if len(call.Args) == 1 {
								if se, ok := ast.Unparen(call.Args[0]).(*ast.SelectorExpr); ok {
									if m, ok := info.ObjectOf(se.Sel).(*types.Func); ok {
										oa.arg = recvTypeName(m) + "." + m.Name()
									}
								}
							}
							out = append(out, oa)
						}
					}
				}
			}
		}
	}
	walk(fi.Decl.Body, nil)
	return out, newCall
}

// R2.2 wiring
func ruleCheckWiring(c *Ctx) {
	const rule = "CHECK-WIRING"
	// every non-test function of package rib that calls NewRIBHolder
	var sites []*FuncInfo
	for _, fi := range c.P.AllFuncs("rib") {
		if fi.Decl.Body == nil {
			continue
		}
		for _, call := range callsIn(fi.Decl.Body) {
			if isFunc(calleeObj(fi.Pkg.TypesInfo, call), ribPkg, "NewRIBHolder") {
				sites = append(sites, fi)
				break
			}
		}
	}
	c.floor(rule, "functions creating network-instance holders", len(sites), 2)
	sigs := map[string]string{}
	for _, fi := range sites {
		c.Analysed[fi.Name] = true
		info := fi.Pkg.TypesInfo
		apps, _ := holderOptionAppends(c, fi)
		var s []string
		for _, a := range apps {
			s = append(s, a.ctor+"("+a.arg+")")
		}
		sort.Strings(s)
		sigs[fi.Name] = strings.Join(s, ",")
		pos := c.P.pos(fi.Decl.Pos())
		hasCheck := false
		for _, a := range apps {
			if a.ctor == "RIBHolderCheckFn" && a.arg == "RIB.checkFn" {
				hasCheck = true
			}
		}
		c.check(hasCheck, rule, fi.Name, "holder gets the RIB's check function", pos,
			"RIBHolderCheckFn(r.checkFn) is among the options of the new holder", "a network-instance holder is created without RIBHolderCheckFn(r.checkFn): its entries would be acknowledged without reference resolution")
		// in receiver-based sites the guards must read immutable RIB configuration
		if recv := recvObj(info, fi.Decl); recv != nil {
			for _, a := range apps {
				if a.guard == nil {
					continue
				}
				c.check(readsOnlyImmutableConfig(c, fi, a.guard), rule, fi.Name, "guard of "+a.ctor, c.P.pos(a.node.Pos()),
					"conditional on write-once RIB configuration", "the option is conditional on "+types.ExprString(a.guard)+", which is not write-once RIB configuration")
				// (that the constructor sets the configuration field under the condition under which it passes the
				// option itself is decided by RIB-WIRING's table: field set ⇔ option passed ⇔ the option's probe)
			}
		}
	}
	// sibling agreement
	var first string
	agree := true
	var names []string
	for n := range sigs {
		names = append(names, n)
	}
	sort.Strings(names)
	for i, n := range names {
		if i == 0 {
			first = sigs[n]
		} else if sigs[n] != first {
			agree = false
		}
	}
	c.check(agree && len(names) > 0, rule, "rib", "holder-creation siblings agree", "-",
		fmt.Sprintf("all %d sites pass the option set {%s}", len(names), first), fmt.Sprintf("sites creating holders disagree on the options they pass: %v", sigs))

	// the per-holder closure resolves in the holder's own network instance
	nh := c.need("rib", "", "NewRIBHolder")
	if nh != nil {
		info := nh.Pkg.TypesInfo
		nameParam := paramObjs(info, nh.Decl)[0]
		ok := false
		assigned := false
		ast.Inspect(nh.Decl.Body, func(n ast.Node) bool {
			if fl, isFl := n.(*ast.FuncLit); isFl {
				for _, call := range callsIn(fl.Body) {
					if fld, _ := fieldCall(info, call); fld == "fn" && len(call.Args) == 3 {
						cl := paramObjsLit(info, fl)
						if len(cl) == 2 && objOfIdent(info, call.Args[0]) == cl[0] && frameArgRoot(info, nh.Decl, objOfIdent(info, call.Args[1])) == nameParam && objOfIdent(info, call.Args[2]) == cl[1] {
							ok = true
						}
					}
				}
			}
			if as, isAs := n.(*ast.AssignStmt); isAs {
				for _, l := range as.Lhs {
					if se, isSe := ast.Unparen(l).(*ast.SelectorExpr); isSe && se.Sel.Name == "checkFn" {
						assigned = true
					}
				}
			}
			return true
		})
		c.check(ok && assigned, rule, nh.Name, "closure binds the holder's own name", c.P.pos(nh.Decl.Pos()),
			"checkFn = func(op, r) { fn(op, <holder name>, r) }", "the holder's checkFn does not call the supplied check function with (operation, the holder's own name, candidate)")
	}
}

func paramObjsLit(info *types.Info, fl *ast.FuncLit) []types.Object {
	var out []types.Object
	for _, f := range fl.Type.Params.List {
		for _, n := range f.Names {
			out = append(out, info.Defs[n])
		}
	}
	return out
}

// checkConfigMirrors: the RIB field read by the guard is stored by the
// constructor New under the condition that guards the same option there.
func checkConfigMirrors(c *Ctx, rule string, fi *FuncInfo, a optAppend) {
	info := fi.Pkg.TypesInfo
	var fld *types.Var
	ast.Inspect(a.guard, func(n ast.Node) bool {
		if se, ok := n.(*ast.SelectorExpr); ok {
			if fv, ok := info.ObjectOf(se.Sel).(*types.Var); ok && fv.IsField() {
				fld = fv
			}
		}
		return true
	})
	ctor := c.need("rib", "", "New")
	if fld == nil || ctor == nil {
		return
	}
	cinfo := ctor.Pkg.TypesInfo
	capps, _ := holderOptionAppends(c, ctor)
	var cguard ast.Expr
	var cnode ast.Node
	for _, ca := range capps {
		if ca.ctor == a.ctor {
			cguard, cnode = ca.guard, ca.node
		}
	}
	if cguard == nil {
		c.fail(rule, ctor.Name, "constructor mirrors "+fld.Name(), c.P.pos(ctor.Decl.Pos()), "the constructor does not pass "+a.ctor+" conditionally, but "+fi.Name+" does")
		return
	}
	// find the store r.<fld> = X in New
	ok := false
	detail := ""
	ast.Inspect(ctor.Decl.Body, func(n ast.Node) bool {
		as, isAs := n.(*ast.AssignStmt)
		if !isAs || len(as.Lhs) != 1 || len(as.Rhs) != 1 {
			return true
		}
		se, isSe := ast.Unparen(as.Lhs[0]).(*ast.SelectorExpr)
		if !isSe || cinfo.ObjectOf(se.Sel) != fld {
			return true
		}
		rhs := ast.Unparen(as.Rhs[0])
		// r.f = <guard variable>
		if types.ExprString(rhs) == types.ExprString(cguard) {
			ok = true
		}
		// the constructor's guard reads the field itself (stored before the holder is created): both sites
		// consult the same configuration
		if gse, isG := ast.Unparen(cguard).(*ast.SelectorExpr); isG && cinfo.ObjectOf(gse.Sel) == fld && as.Pos() < cnode.Pos() {
			ok = true
		}
		// r.f = true inside the guarded block
		if b, isB := boolConst(cinfo, rhs); isB && b {
			if ifs := enclosingIf(ctor.Decl.Body, as); ifs != nil && ifs.Cond == cguard && cnode != nil && ifs.Body.Pos() <= cnode.Pos() && cnode.End() <= ifs.Body.End() {
				ok = true
			}
		}
		detail = types.ExprString(as.Lhs[0]) + " = " + types.ExprString(as.Rhs[0])
		return true
	})
	c.check(ok, rule, ctor.Name, "constructor mirrors "+fld.Name(), c.P.pos(ctor.Decl.Pos()),
		"RIB."+fld.Name()+" records whether "+a.ctor+" was passed to the default holder", "RIB."+fld.Name()+" is not set equivalently to the condition under which the constructor passes "+a.ctor+" ("+detail+"): later network instances would be configured differently from the default one")
}

func enclosingIf(root ast.Node, target ast.Node) *ast.IfStmt {
	var best *ast.IfStmt
	ast.Inspect(root, func(n ast.Node) bool {
		if ifs, ok := n.(*ast.IfStmt); ok && ifs.Body.Pos() <= target.Pos() && target.End() <= ifs.Body.End() {
			best = ifs
		}
		return true
	})
	return best
}

// RIB.checkFn table
func ruleCheckFnTable(c *Ctx) {
	fi := c.need("rib", "RIB", "checkFn")
	if fi == nil {
		return
	}
	info := fi.Pkg.TypesInfo
	t := paramName(fi, 0)
	aAdd := eqAtom("const:Add", t)
	aDel := eqAtom("const:Delete", t)
	ev := func(n ast.Node) []Event {
		var out []Event
		for _, call := range callsIn(n) {
			if f, ok := calleeObj(info, call).(*types.Func); ok && recvTypeName(f) == "RIB" && (f.Name() == "canResolve" || f.Name() == "canDelete") {
				var as []string
				for _, a := range call.Args {
					if o := objOfIdent(info, a); o != nil {
						as = append(as, paramRole(info, fi.Decl, o))
					} else {
						as = append(as, "?")
					}
				}
				out = append(out, Event{Kind: f.Name() + "(" + strings.Join(as, ",") + ")", Node: call})
			}
		}
		return out
	}
	runTable(c, tableSpec{
		Rule: "TABLE-CHECKFN", Fn: fi, Construct: "operation → check dispatch", Events: ev,
		Atoms: map[string]int{aAdd: 2, aDel: 2},
		Expected: func(v *Valuation) (string, bool) {
			switch {
			case v.B(aAdd):
				return "ret(call:canResolve) effects[canResolve(p1,p2)]", true
			case v.B(aDel):
				return "ret(call:canDelete) effects[canDelete(p1,p2)]", true
			}
			return "ret(false, err(plain))", true
		},
	})
}

// R2.3
func ruleCanResolve(c *Ctx) {
	const rule = "CAN-RESOLVE"
	fi := c.need("rib", "RIB", "canResolve")
	if fi == nil {
		return
	}
	info := fi.Pkg.TypesInfo
	pos := c.P.pos(fi.Decl.Pos())
	ks := c.kindsOK()
	if ks == nil {
		return
	}
	netInst := paramObjs(info, fi.Decl)[0]
	recv := recvObj(info, fi.Decl)

	// must-not-read: backup groups
	backup := false
	ast.Inspect(fi.Decl.Body, func(n ast.Node) bool {
		if se, ok := n.(*ast.SelectorExpr); ok && strings.Contains(se.Sel.Name, "BackupNextHopGroup") {
			backup = true
		}
		return true
	})
	c.check(!backup, rule, fi.Name, "backup group not consulted", pos, "no read of BackupNextHopGroup", "canResolve consults the backup next-hop-group, which the specification exempts from resolution")

	// the own-instance holder: a local assigned from r.NetworkInstanceRIB(netInst)
	var ownRIB types.Object
	ast.Inspect(fi.Decl.Body, func(n ast.Node) bool {
		as, ok := n.(*ast.AssignStmt)
		if !ok || len(as.Rhs) != 1 {
			return true
		}
		call, ok := ast.Unparen(as.Rhs[0]).(*ast.CallExpr)
		if !ok || !isMethod(calleeObj(info, call), ribPkg, "RIB", "NetworkInstanceRIB") || len(call.Args) != 1 {
			return true
		}
		// (through the parameter bindings and results of spliced-in helpers)
		if frameArgRoot(info, fi.Decl, objOfIdent(info, call.Args[0])) == netInst {
			if se, ok := ast.Unparen(call.Fun).(*ast.SelectorExpr); ok && frameArgRoot(info, fi.Decl, objOfIdent(info, se.X)) == recv {
				ownRIB = frameResultTarget(info, fi.Decl, objOfIdent(info, as.Lhs[0]))
			}
		}
		return true
	})
	if ownRIB == nil {
		c.undecided(rule, fi.Name, "own-instance holder", pos, "cannot find <holder>, ok := r.NetworkInstanceRIB(netInst)")
		return
	}

	// the top-level loops of canResolve, by candidate table
	loops := map[string]*ast.RangeStmt{}
	for _, st := range fi.Decl.Body.List {
		if rs, ok := st.(*ast.RangeStmt); ok {
			if t := tableOfExpr(info, rs.X); t != "" {
				loops[t] = rs
			}
		}
	}
	// --- next-hop: zero index → error, otherwise resolvable
	if rs := loops["NextHop"]; rs != nil {
		rv := objOfIdent(info, rs.Value)
		paths, _ := enumPaths(info, rs.Body.List, func(ast.Node) []Event { return nil })
		good := len(paths) > 0
		why := ""
		for _, p := range paths {
			out := defaultOutcome(info, fi.Decl, p)
			zero := rv != nil && p.Entails(numEqF(varKey(rv)+".Index", "const:0"))
			nonzero := rv != nil && p.Entails(fnot(numEqF(varKey(rv)+".Index", "const:0")))
			switch {
			case zero && out == "ret(false, err(plain))":
			case nonzero && out == "ret(true, nil)":
			default:
				good, why = false, "path "+p.describe(c.P)+" yields "+out
			}
		}
		c.check(good, rule, fi.Name, "next-hop: index 0 is an error, otherwise resolvable", c.P.pos(rs.Pos()), "2 paths", "next-hop arm deviates: "+why)
	} else {
		c.vanished(rule, fi.Name, "next-hop arm", "no loop over the candidate's NextHop table")
	}
	// --- next-hop-group
	if rs := loops["NextHopGroup"]; rs != nil {
		checkGroupArm(c, rule, fi, rs, ownRIB)
	} else {
		c.vanished(rule, fi.Name, "group arm", "no loop over the candidate's NextHopGroup table")
	}
	// --- top-level kinds
	var sigs []string
	for _, k := range ks {
		if !k.TopLevel {
			continue
		}
		rs := loops[k.Table]
		if rs == nil {
			c.vanished(rule, fi.Name, k.Table+" arm", "no loop over the candidate's "+k.Table+" table")
			continue
		}
		sigs = append(sigs, checkTopLevelArm(c, rule, fi, rs, k, ownRIB))
	}
	agree := len(sigs) == 3
	for _, s := range sigs {
		if s != sigs[0] || s == "" {
			agree = false
		}
	}
	c.check(agree, rule, fi.Name, "top-level arms agree", pos, "IPv4/IPv6/MPLS arms are identical modulo the table", fmt.Sprintf("the IPv4/IPv6/MPLS arms of canResolve differ: %v", sigs))
}

func eqF(a, b string) Formula { return &FLit{eqAtom(a, b), 2, 2} }

// numEqF: the literal "a == b" for numeric terms (an order atom with mask '=').
func numEqF(a, b string) Formula {
	k, _ := orderAtom(a, b)
	return &FLit{k, 3, 2}
}

func checkGroupArm(c *Ctx, rule string, fi *FuncInfo, rs *ast.RangeStmt, ownRIB types.Object) {
	info := fi.Pkg.TypesInfo
	gv := objOfIdent(info, rs.Value)
	// the member loops (a validation pass and a resolution pass may be separate loops)
	var inners []*ast.RangeStmt
	// (the loop body may have been handed, whole, to a helper spliced in: look inside the frame; the helper's
	// parameters stand for the group and the holder)
	body := rs.Body.List
	for depth := 0; depth < 2 && len(body) == 1; depth++ {
		blk, ok := body[0].(*ast.BlockStmt)
		if !ok || inlineFrames[blk] == nil {
			break
		}
		body = blk.List
	}
	for _, st := range body {
		if r2, ok := st.(*ast.RangeStmt); ok {
			if se, ok := ast.Unparen(r2.X).(*ast.SelectorExpr); ok && se.Sel.Name == "NextHop" && frameArgRoot(info, fi.Decl, objOfIdent(info, se.X)) == gv {
				inners = append(inners, r2)
			}
		}
	}
	if len(inners) == 0 {
		c.vanished(rule, fi.Name, "group arm member loop", "no loop over the group's NextHop members")
		return
	}
	good, why := true, ""
	nPaths := 0
	validatedAt, resolvedAt, firstSoft := -1, -1, -1
	mixed := -1
	for li0, inner := range inners {
		mv := objOfIdent(info, inner.Value)
		ev := func(n ast.Node) []Event {
			var out []Event
			for _, call := range callsIn(n) {
				if isMethod(calleeObj(info, call), ribPkg, "RIBHolder", "GetNextHop") {
					se := ast.Unparen(call.Fun).(*ast.SelectorExpr)
					d := &addEvData{call: call, args: call.Args}
					if as := assignedFromCall(info, n, call); len(as) == 2 {
						d.ok = as[1]
					}
					own := frameArgRoot(info, fi.Decl, objOfIdent(info, se.X)) == ownRIB
					key := ""
					if len(call.Args) == 1 {
						key = resolveKeyLocal(info, call.Args[0])
					}
					kind := "lookup"
					if !own {
						kind = "lookup-foreign"
					}
					if mv == nil || key != mv.Name()+".Index" {
						kind = "lookup-otherkey"
					}
					out = append(out, Event{Kind: kind, Node: call, Data: d})
				}
			}
			return out
		}
		paths, pe := enumPaths(info, inner.Body.List, ev)
		nPaths += len(paths)
		if pe.overflow {
			good, why = false, "path enumeration incomplete"
		}
		hasFatal, hasSoft := false, false
		allValidated, allResolved := len(paths) > 0, len(paths) > 0
		for _, p := range paths {
			out := defaultOutcomeNoEv(info, fi.Decl, p)
			li := idx(p, "lookup")
			switch p.End {
			case "return":
				zero := mv != nil && p.Entails(numEqF(varKey(mv)+".Index", "const:0"))
				if zero && out == "ret(false, err(plain))" {
					hasFatal = true
					continue
				}
				if li >= 0 && out == "ret(false, nil)" {
					d := p.Events[li].Data.(*addEvData)
					if d.ok != nil && factsAfter(info, p, li, len(p.Events)).Obj(d.ok) == -1 {
						hasSoft = true
						continue
					}
				}
				good, why = false, "return inside the member loop other than (zero index → error) or (member missing → not resolvable): "+p.describe(c.P)+" yields "+out
			case "fall", "continue":
				if li < 0 {
					allResolved = false
				} else {
					d := p.Events[li].Data.(*addEvData)
					if d.ok == nil || factsAfter(info, p, li, len(p.Events)).Obj(d.ok) != +1 {
						good, why = false, "a member is accepted although the lookup did not succeed: "+p.describe(c.P)
					}
				}
				if mv == nil || !p.Entails(fnot(numEqF(varKey(mv)+".Index", "const:0"))) {
					allValidated = false
				}
			case "break":
				good, why = false, "the member loop can be left early: "+p.describe(c.P)
			}
		}
		if allValidated && validatedAt < 0 {
			validatedAt = li0
		}
		if allResolved && resolvedAt < 0 {
			resolvedAt = li0
		}
		if hasSoft && firstSoft < 0 {
			firstSoft = li0
		}
		if hasFatal && hasSoft && mixed < 0 {
			mixed = li0
		}
	}
	switch {
	case !good:
	case validatedAt < 0:
		good, why = false, "a member with index 0 is not rejected: no member loop lets only non-zero indices pass"
	case resolvedAt < 0:
		good, why = false, "a member is accepted without being looked up in the group's own network instance"
	}
	c.check(good, rule, fi.Name, "group: every member present in the group's own instance", c.P.pos(inners[0].Pos()),
		fmt.Sprintf("%d paths through %d member loop(s); only failures return from inside", nPaths, len(inners)), why)
	// the members are a map: a loop that can leave with the fatal verdict for one member and with the
	// "not yet" verdict for another gives an answer that depends on the iteration order — a group with
	// members {0, missing} is answered FAILED on one run and silently held on the next. Every member must
	// have passed the fatal test before any member can produce the soft verdict.
	c.Sites++
	c.check(mixed < 0 && (firstSoft < 0 || (validatedAt >= 0 && validatedAt < firstSoft)), rule, fi.Name, "group: the verdict does not depend on the order in which members are visited", c.P.pos(inners[0].Pos()),
		"all members are validated (index 0 is fatal) before any member can yield \"not resolvable yet\"",
		"the loop over the group's members (a map, visited in random order) returns the fatal error for a zero index and \"not resolvable yet\" for a missing member from the same pass: a group naming next-hops {0, 5} with 5 not installed is answered FAILED or silently held depending on the iteration order")
	isInner := func(n ast.Node) *ast.RangeStmt {
		for _, in := range inners {
			if in == n {
				return in
			}
		}
		return nil
	}
	// around the member loop: zero id and empty group are errors, after the loop the verdict is (true, nil)
	evNone := func(ast.Node) []Event { return nil }
	op, _ := enumPaths(info, rs.Body.List, evNone)
	good2, why2 := true, ""
	sawTrue := false
	for _, p := range op {
		if p.End != "return" {
			// falling out of the body would examine a second group: candidates hold exactly one entry
			continue
		}
		out := defaultOutcomeNoEv(info, fi.Decl, p)
		insideInner := false
		for _, cs := range p.Conds {
			if in := isInner(cs.Node); cs.Label == "loop×1" && in != nil && p.EndNode.Pos() >= in.Body.Pos() && p.EndNode.End() <= in.Body.End() {
				insideInner = true
			}
		}
		if insideInner {
			continue // judged above
		}
		zeroID := gv != nil && p.Entails(numEqF(varKey(gv)+".Id", "const:0"))
		empty := gv != nil && p.Entails(&FLit{mustOrd("const:0", "len("+varKey(gv)+".NextHop)"), 3, 2})
		switch {
		case out == "ret(true, nil)":
			sawTrue = true
			if zeroID || empty {
				good2, why2 = false, "a group with id 0 or without members is declared resolvable"
			}
			if gv == nil || !p.Entails(fnot(numEqF(varKey(gv)+".Id", "const:0"))) {
				good2, why2 = false, "group id 0 is not rejected before the group is declared resolvable"
			}
			if gv == nil || !p.Entails(fnot(&FLit{mustOrd("const:0", "len("+varKey(gv)+".NextHop)"), 3, 2})) {
				good2, why2 = false, "an empty group is not rejected before the group is declared resolvable"
			}
		case out == "ret(false, err(plain))" && (zeroID || empty):
		default:
			good2, why2 = false, "unexpected verdict "+out+" on "+p.describe(c.P)
		}
	}
	c.check(good2 && sawTrue, rule, fi.Name, "group: zero id / empty group are errors, otherwise resolvable after the member walk", c.P.pos(rs.Pos()), "verdict (true, nil) only after the member loop", why2)
}

func mustOrd(a, b string) string {
	k, _ := orderAtom(a, b)
	return k
}

// resolveKeyLocal renders a getter chain without inlining definitions.
func resolveKeyLocal(info *types.Info, e ast.Expr) string {
	obj, path := selectorPath(info, e)
	if obj == nil {
		return "?" + types.ExprString(e)
	}
	return obj.Name() + "." + strings.Join(path, ".")
}

func defaultOutcomeNoEv(info *types.Info, fd *ast.FuncDecl, p Path) string {
	q := p
	q.Events = nil
	return defaultOutcome(info, fd, q)
}

// checkTopLevelArm checks one of the IPv4/IPv6/MPLS arms and returns a
// kind-independent signature for the sibling comparison.
func checkTopLevelArm(c *Ctx, rule string, fi *FuncInfo, rs *ast.RangeStmt, k *Kind, ownRIB types.Object) string {
	info := fi.Pkg.TypesInfo
	iv := objOfIdent(info, rs.Value)
	if iv == nil {
		c.undecided(rule, fi.Name, k.Table+" arm", c.P.pos(rs.Pos()), "no range value variable")
		return ""
	}
	// events: the resolver call
	var resolver *ast.FuncLit
	var resolverDecl *FuncInfo
	ev := func(n ast.Node) []Event {
		var out []Event
		for _, call := range callsIn(n) {
			var params []types.Object
			if id, ok := ast.Unparen(call.Fun).(*ast.Ident); ok {
				if v, ok := info.ObjectOf(id).(*types.Var); ok {
					if def := soleDefinition(info, fi.Decl, v); def != nil {
						if fl, ok := ast.Unparen(def).(*ast.FuncLit); ok {
							resolver = fl
							params = paramObjsLit(info, fl)
						}
					}
				}
			}
			if f, ok := calleeObj(info, call).(*types.Func); ok && params == nil && f.Pkg() != nil && f.Pkg().Path() == ribPkg && len(call.Args) == 3 {
				if rf := c.P.infoFor(f); rf != nil {
					resolverDecl = rf
					params = paramObjs(info, rf.Decl)
				}
			}
			if len(params) != 3 || len(call.Args) != 3 {
				continue
			}
			a0 := objOfIdent(info, call.Args[0]) == ownRIB
			a1 := resolveKeyLocal(info, call.Args[1]) == iv.Name()+".NextHopGroupNetworkInstance"
			a2 := resolveKeyLocal(info, call.Args[2]) == iv.Name()+".NextHopGroup"
			kind := "resolve(own-holder,entry.groupNI,entry.group)"
			if !(a0 && a1 && a2) {
				kind = fmt.Sprintf("resolve(BAD own=%v ni=%v id=%v)", a0, a1, a2)
			}
			out = append(out, Event{Kind: kind, Node: call})
		}
		return out
	}
	paths, _ := enumPaths(info, rs.Body.List, ev)
	good, why := len(paths) > 0, ""
	var sig []string
	for _, p := range paths {
		out := defaultOutcome(info, fi.Decl, p)
		zero := p.Entails(numEqF("const:0", varKey(iv)+".NextHopGroup"))
		nonzero := p.Entails(fnot(numEqF("const:0", varKey(iv)+".NextHopGroup")))
		switch {
		case zero && out == "ret(false, err(plain))":
			sig = append(sig, "zero→error")
		case nonzero && strings.HasPrefix(out, "ret(call:") && strings.HasSuffix(out, "effects[resolve(own-holder,entry.groupNI,entry.group)]"):
			sig = append(sig, "nonzero→resolver")
		default:
			good, why = false, "path "+p.describe(c.P)+" yields "+out
			sig = append(sig, out)
		}
	}
	c.check(good, rule, fi.Name, k.Table+": group id 0 is an error, otherwise the verdict of the group lookup in the named-or-own instance", c.P.pos(rs.Pos()),
		"2 paths; resolver receives (own holder, entry's group NI, entry's group id)", k.Table+" arm deviates: "+why)
	// the resolver itself (checked once)
	if k.Table == "Ipv4Entry" {
		switch {
		case resolver != nil:
			checkResolver(c, rule, fi, resolver.Body, paramObjsLit(info, resolver))
		case resolverDecl != nil:
			checkResolver(c, rule, resolverDecl, resolverDecl.Decl.Body, paramObjs(info, resolverDecl.Decl))
		default:
			c.undecided(rule, fi.Name, "group resolver", c.P.pos(rs.Pos()), "cannot find the function deciding whether the referenced group is installed")
		}
	}
	sort.Strings(sig)
	return strings.Join(sig, ";")
}

// checkResolver: (holder, otherNI, id) → lookup of id in the named instance if
// otherNI != "", else in holder; unknown instance is an error; missing group → (false, nil).
func checkResolver(c *Ctx, rule string, fi *FuncInfo, body *ast.BlockStmt, params []types.Object) {
	info := fi.Pkg.TypesInfo
	if len(params) != 3 {
		c.undecided(rule, fi.Name, "group resolver", c.P.pos(body.Pos()), "unexpected resolver signature")
		return
	}
	holder, otherNI, id := params[0], params[1], params[2]
	// the holder the lookup runs on: the parameter itself, or a local initialised from it
	// (resolveRIB := localRIB) that may then be switched to the named instance
	isHolder := func(o types.Object) bool {
		if o == nil {
			return false
		}
		if o == holder {
			return true
		}
		if v, ok := o.(*types.Var); ok && !v.IsField() {
			if init := declInit(info, body, v); init != nil && objOfIdent(info, init) == holder {
				return true
			}
		}
		return false
	}
	ev := func(n ast.Node) []Event {
		var out []Event
		for _, call := range callsIn(n) {
			obj := calleeObj(info, call)
			switch {
			case isMethod(obj, ribPkg, "RIB", "NetworkInstanceRIB") && len(call.Args) == 1:
				d := &addEvData{call: call}
				if as := assignedFromCall(info, n, call); len(as) == 2 {
					d.ok = as[1]
					if isHolder(as[0]) || feedsHolder(info, body, as[0], isHolder) {
						if objOfIdent(info, call.Args[0]) == otherNI {
							out = append(out, Event{Kind: "switch-to-named", Node: call, Data: d})
							continue
						}
					}
				}
				out = append(out, Event{Kind: "switch-other", Node: call, Data: d})
			case isMethod(obj, ribPkg, "RIBHolder", "GetNextHopGroup") && len(call.Args) == 1:
				d := &addEvData{call: call}
				if as := assignedFromCall(info, n, call); len(as) == 2 {
					d.ok = as[1]
				}
				se := ast.Unparen(call.Fun).(*ast.SelectorExpr)
				if isHolder(objOfIdent(info, se.X)) && objOfIdent(info, call.Args[0]) == id {
					out = append(out, Event{Kind: "lookup", Node: call, Data: d})
				} else {
					out = append(out, Event{Kind: "lookup-other", Node: call, Data: d})
				}
			}
		}
		return out
	}
	paths, _ := enumPaths(info, body.List, ev)
	good, why := len(paths) > 0, ""
	for _, p := range paths {
		out := defaultOutcomeNoEv(info, nil, p)
		named := p.Entails(fnot(eqF("const:\"\"", otherNI.Name())))
		own := p.Entails(eqF("const:\"\"", otherNI.Name()))
		si := idx(p, "switch-to-named")
		li := idx(p, "lookup")
		if p.has("switch-other") || p.has("lookup-other") {
			good, why = false, "resolver consults an unexpected instance/key: "+p.describe(c.P)
			continue
		}
		switch {
		case named && si < 0, own && si >= 0:
			good, why = false, "the instance used for the lookup does not follow the entry's next-hop-group-network-instance: "+p.describe(c.P)
		case named && si >= 0 && li < 0:
			d := p.Events[si].Data.(*addEvData)
			if !(out == "ret(false, err(plain))" && d.ok != nil && factsAfter(info, p, si, len(p.Events)).Obj(d.ok) == -1) {
				good, why = false, "named instance path without group lookup must be the unknown-instance error: "+p.describe(c.P)+" yields "+out
			}
		case li >= 0:
			if named {
				d := p.Events[si].Data.(*addEvData)
				if d.ok == nil || factsAfter(info, p, si, li).Obj(d.ok) != +1 {
					good, why = false, "group looked up in a named instance that was not found: "+p.describe(c.P)
				}
			}
			d := p.Events[li].Data.(*addEvData)
			f := 0
			if d.ok != nil {
				f = factsAfter(info, p, li, len(p.Events)).Obj(d.ok)
			}
			switch {
			case f == +1 && out == "ret(true, nil)":
			case f == -1 && out == "ret(false, nil)":
			default:
				good, why = false, fmt.Sprintf("verdict %s does not follow the group lookup (found=%d): %s", out, f, p.describe(c.P))
			}
		default:
			good, why = false, "resolver path without a lookup: "+p.describe(c.P)+" yields "+out
		}
	}
	c.check(good, rule, fi.Name, "group resolver: named-or-own instance, unknown instance is an error, verdict = group installed", c.P.pos(body.Pos()),
		fmt.Sprintf("%d paths", len(paths)), why)
}

// R2.4
func ruleRetryAfterInstall(c *Ctx) {
	const rule = "RETRY-AFTER-INSTALL"
	fi := c.need("rib", "RIB", "addEntryInternal")
	if fi == nil {
		return
	}
	info := fi.Pkg.TypesInfo
	params := paramObjs(info, fi.Decl)
	ev := func(n ast.Node) []Event {
		var out []Event
		for _, call := range callsIn(n) {
			obj := calleeObj(info, call)
			switch {
			case isMethod(obj, ribPkg, "RIB", "rmPending"):
				out = append(out, Event{Kind: "rmPending", Node: call})
			case isMethod(obj, ribPkg, "RIB", "addPending"):
				out = append(out, Event{Kind: "hold", Node: call})
			case isMethod(obj, ribPkg, "RIB", "getPending"):
				out = append(out, Event{Kind: "getPending", Node: call})
			case obj == fi.Obj:
				// recursive retry: same accumulators and stack?
				same := len(call.Args) == len(params)
				if same {
					for i := 2; i < len(params); i++ {
						if objOfIdent(info, call.Args[i]) != params[i] {
							same = false
						}
					}
				}
				k := "retry"
				if !same {
					k = "retry-other-accumulators"
				}
				out = append(out, Event{Kind: k, Node: call})
			case obj != nil && recvTypeNameOf(obj) == "RIBHolder" && strings.HasPrefix(obj.Name(), "Add") && obj.Pkg() != nil && obj.Pkg().Path() == ribPkg:
				d := &addEvData{call: call}
				if as := assignedFromCall(info, n, call); len(as) == 3 {
					d.ok, d.err = as[0], as[2]
				}
				out = append(out, Event{Kind: "attempt", Node: call, Data: d})
			}
		}
		return out
	}
	paths, pe := enumFunc(fi, ev, nil)
	c.Sites += len(paths)
	if pe.overflow || len(pe.unsup) > 0 {
		c.undecided(rule, fi.Name, "body", c.P.pos(fi.Decl.Pos()), "path enumeration incomplete")
		return
	}
	pos := c.P.pos(fi.Decl.Pos())
	v := newVerdicts()
	for _, p := range paths {
		ai := idx(p, "attempt")
		if ai < 0 || p.End == "panic" {
			continue
		}
		d := p.Events[ai].Data.(*addEvData)
		f := factsAfter(info, p, ai, len(p.Events))
		fatal := false
		if rs, ok := p.EndNode.(*ast.ReturnStmt); ok && len(rs.Results) == 1 && !isNilIdent(info, rs.Results[0]) {
			fatal = true
		}
		installed := d.ok != nil && d.err != nil && f.Obj(d.ok) == +1 && f.Obj(d.err) == -1
		notInstalled := d.ok != nil && d.err != nil && f.Obj(d.ok) == -1 && f.Obj(d.err) == -1
		var top []string
		for _, e := range p.Events {
			if !e.InLoop {
				top = append(top, e.Kind)
			}
		}
		switch {
		case installed:
			v.touch("installed ⇒ leaves pending set, then all held operations are retried")
			ri, gi := -1, -1
			for i, e := range p.Events {
				if e.Kind == "rmPending" && !e.InLoop && ri < 0 {
					ri = i
				}
				if e.Kind == "getPending" && gi < 0 {
					gi = i
				}
			}
			switch {
			case ri < 0:
				v.fail("installed ⇒ leaves pending set, then all held operations are retried", "an installed operation is not removed from the pending set: "+p.describe(c.P))
			case gi < 0 && !fatal:
				v.fail("installed ⇒ leaves pending set, then all held operations are retried", "after an install the held operations are not walked: "+p.describe(c.P))
			case gi >= 0 && gi < ri:
				v.fail("installed ⇒ leaves pending set, then all held operations are retried", "the held operations are walked before the installed one is removed from the pending set")
			}
			if p.has("retry-other-accumulators") {
				v.fail("installed ⇒ leaves pending set, then all held operations are retried", "held operations are retried with different accumulators / install stack")
			}
			if p.has("hold") {
				v.fail("installed ⇒ leaves pending set, then all held operations are retried", "an installed operation is also held")
			}
		case notInstalled && !fatal:
			v.touch("unresolved ⇒ held or FAILED according to the forward-reference setting")
			// nothing but the hold/fail decision (checked for exactly-one by C06 R6.3); no retry walk
			if p.has("getPending") || p.has("retry") {
				v.fail("unresolved ⇒ held or FAILED according to the forward-reference setting", "held operations are retried although nothing was installed: "+p.describe(c.P))
			}
			recv := recvName(fi)
			fwdDisabled := p.Entails(&FLit{"b:" + recv + ".disableForwardReferences", 2, 2})
			fwdAllowed := p.Entails(&FLit{"b:" + recv + ".disableForwardReferences", 2, 1})
			hold := false
			for _, e := range p.Events {
				if e.Kind == "hold" && !e.InLoop {
					hold = true
				}
			}
			switch {
			case hold && !fwdAllowed:
				v.fail("unresolved ⇒ held or FAILED according to the forward-reference setting", "operation held on a path that has not established that forward references are allowed: "+p.describe(c.P))
			case !hold && !fwdDisabled:
				v.fail("unresolved ⇒ held or FAILED according to the forward-reference setting", "unresolved operation not held although forward references may be allowed: "+p.describe(c.P))
			}
		default:
			// neither outcome is established on this path: it must not hold the operation (an attempt that
			// failed for good — its error in a variable the path never tested, e.g. a shadowed one — would be
			// held and retried for ever instead of being answered FAILED)
			for _, e := range p.Events {
				if e.Kind == "hold" && !e.InLoop && !fatal {
					v.fail("unresolved ⇒ held or FAILED according to the forward-reference setting", "the operation is held on a path that has not established that the attempt returned (not installed, no error): "+p.describe(c.P))
				}
			}
		}
	}
	if len(v.n) < 2 {
		c.vanished(rule, fi.Name, "installed / unresolved paths", "could not identify both the installed and the unresolved outcome of an attempt")
	}
	v.emit(c, rule, fi.Name, pos, map[string]string{
		"installed ⇒ leaves pending set, then all held operations are retried":   "rmPending(op) then range getPending() re-entering with the same accumulators and stack",
		"unresolved ⇒ held or FAILED according to the forward-reference setting": "hold ⇔ forward references allowed",
	})
	// the retry loop ranges over every held operation
	found := false
	inspectNoFuncLit(fi.Decl.Body, func(n ast.Node) bool {
		if rs, ok := n.(*ast.RangeStmt); ok {
			if call, ok := ast.Unparen(rs.X).(*ast.CallExpr); ok && isMethod(calleeObj(info, call), ribPkg, "RIB", "getPending") {
				for _, inner := range callsIn(rs.Body) {
					if calleeObj(info, inner) == fi.Obj && len(inner.Args) >= 2 {
						rv := objOfIdent(info, rs.Value)
						o0, p0 := selectorPath(info, inner.Args[0])
						o1, p1 := selectorPath(info, inner.Args[1])
						if rv != nil && o0 == rv && o1 == rv && strings.Join(p0, ".") == "ni" && strings.Join(p1, ".") == "op" {
							found = true
						}
					}
				}
			}
		}
		return true
	})
	c.check(found, rule, fi.Name, "retry uses each held operation's own instance and operation", pos, "addEntryInternal(e.ni, e.op, …) for every e of getPending()", "the retry walk does not re-submit each held entry with its own network instance and operation")
	// every held operation is retried: no path through the retry loop's body skips the re-submission
	inspectNoFuncLit(fi.Decl.Body, func(n ast.Node) bool {
		rs, ok := n.(*ast.RangeStmt)
		if !ok {
			return true
		}
		call, ok := ast.Unparen(rs.X).(*ast.CallExpr)
		if !ok || !isMethod(calleeObj(info, call), ribPkg, "RIB", "getPending") {
			return true
		}
		lp, _ := enumPaths(info, rs.Body.List, ev)
		skip := ""
		for _, p := range lp {
			if p.End == "panic" {
				continue
			}
			if p.End == "return" {
				// leaving the walk early is only allowed with an error
				if rs2, ok := p.EndNode.(*ast.ReturnStmt); ok && len(rs2.Results) == 1 && !isNilIdent(info, rs2.Results[0]) {
					continue
				}
				skip = "the walk is abandoned without an error: " + p.describe(c.P)
				continue
			}
			if p.End == "break" {
				skip = "the walk stops after one held operation: " + p.describe(c.P)
				continue
			}
			if !p.has("retry") {
				skip = p.describe(c.P)
			}
		}
		c.check(skip == "", rule, fi.Name, "every held operation is retried", c.P.pos(rs.Pos()), fmt.Sprintf("%d paths through the retry loop body, all re-submit", len(lp)), "a held operation can be skipped by the retry walk although something was just installed: it stays unanswered while resolvable ("+skip+")")
		return true
	})
	// a held operation is recorded with its own instance and operation, under its own id
	opName, niName := "", ""
	if len(params) >= 2 && params[0] != nil && params[1] != nil {
		niName, opName = params[0].Name(), params[1].Name()
	}
	holds, holdOK := 0, true
	holdWhy := ""
	for _, call := range callsIn(fi.Decl.Body) {
		if !isMethod(calleeObj(info, call), ribPkg, "RIB", "addPending") || len(call.Args) != 2 {
			continue
		}
		holds++
		if canonTerm(fi, call.Args[0]) != opName+".Id" {
			holdOK, holdWhy = false, "held under "+canonTerm(fi, call.Args[0])+", not under the operation's own id"
		}
		cl, isLit := unAddr(resolveLocal(info, fi.Decl, call.Args[1])).(*ast.CompositeLit)
		if !isLit {
			holdOK, holdWhy = false, "the pending entry is not a literal"
			continue
		}
		f := compositeFields(cl)
		if f["ni"] == nil || f["op"] == nil || canonTerm(fi, f["ni"]) != niName || canonTerm(fi, f["op"]) != opName {
			holdOK, holdWhy = false, fmt.Sprintf("the pending entry records (ni=%s, op=%s), not the operation's own (%s, %s): it would later be installed elsewhere or as something else", exprStr(f["ni"]), exprStr(f["op"]), niName, opName)
		}
	}
	c.check(holdOK && holds >= 1, rule, fi.Name, "an operation is held with its own id, instance and payload", pos, fmt.Sprintf("%d hold site(s): addPending(op.Id, {ni, op})", holds), holdWhy)
	// an installed operation is marked in the install stack before the retry walk (else an outer walk re-submits and re-acknowledges it)
	markOK, nInst := true, 0
	markEv := func(n ast.Node) []Event {
		out := ev(n)
		inspectNoFuncLit(n, func(m ast.Node) bool {
			if as, ok := m.(*ast.AssignStmt); ok && len(as.Lhs) == 1 && len(as.Rhs) == 1 {
				if ie, ok := ast.Unparen(as.Lhs[0]).(*ast.IndexExpr); ok && isInstallStack(info, fi, ie.X) {
					if b, isB := boolConst(info, as.Rhs[0]); isB && b && canonTerm(fi, ie.Index) == opName+".Id" {
						out = append(out, Event{Kind: "mark", Node: as})
					}
				}
			}
			return true
		})
		sort.SliceStable(out, func(i, j int) bool { return out[i].Node.Pos() < out[j].Node.Pos() })
		return out
	}
	mpaths, _ := enumFunc(fi, markEv, nil)
	markWhy := ""
	for _, p := range mpaths {
		gi := idx(p, "getPending")
		if gi < 0 {
			continue
		}
		nInst++
		if mi := idx(p, "mark"); mi < 0 || mi > gi {
			markOK, markWhy = false, "the held operations are walked without the installed operation being marked in the install stack: "+p.describe(c.P)
		}
	}
	c.check(markOK && nInst >= 1, rule, fi.Name, "an installed operation is marked in the install stack before the retry walk", pos, fmt.Sprintf("%d paths reach the retry walk, all after installStack[op.Id] = true", nInst), markWhy)
	// every terminal verdict of an operation that may have been held (it is removed from the pending set) is
	// marked in the install stack: a walk further up the stack still holds a snapshot that contains it
	termOK, nTerm, termWhy := true, 0, ""
	for _, p := range mpaths {
		ri := -1
		for i, e := range p.Events {
			if e.Kind == "rmPending" && !e.InLoop && ri < 0 {
				ri = i
			}
		}
		if ri < 0 {
			continue
		}
		nTerm++
		marked := false
		for _, e := range p.Events {
			if e.Kind == "mark" && !e.InLoop {
				marked = true
			}
		}
		if !marked {
			termOK, termWhy = false, "an operation gets its terminal verdict and leaves the pending set without being marked in the install stack: an outer retry walk over an older snapshot re-submits it and it is answered twice: "+p.describe(c.P)
		}
	}
	c.check(termOK && nTerm >= 2, rule, fi.Name, "a terminal verdict is marked in the install stack", pos, fmt.Sprintf("%d verdict paths (installed and failed), all marked", nTerm), termWhy)
	// getPending returns every pending entry
	if gp := c.need("rib", "RIB", "getPending"); gp != nil {
		ginfo := gp.Pkg.TypesInfo
		all := false
		ast.Inspect(gp.Decl.Body, func(n ast.Node) bool {
			if rs, ok := n.(*ast.RangeStmt); ok {
				if se, ok := ast.Unparen(rs.X).(*ast.SelectorExpr); ok && se.Sel.Name == "pendingEntries" {
					uncond := len(rs.Body.List) == 1
					if uncond {
						if o, args := appendTarget(ginfo, rs.Body.List[0]); o != nil && len(args) == 1 && objOfIdent(ginfo, args[0]) == objOfIdent(ginfo, rs.Value) {
							all = true
						}
					}
				}
			}
			return true
		})
		c.check(all, rule, gp.Name, "returns every held operation", c.P.pos(gp.Decl.Pos()), "unconditional append of every map value", "getPending does not return every entry of the pending set")
	}
}

// feedsHolder: o is a local whose only use as a value is to be assigned to the holder variable (`x, ok := lookup(ni);
// …; holder = x`).
func feedsHolder(info *types.Info, body *ast.BlockStmt, o types.Object, isHolder func(types.Object) bool) bool {
	if o == nil {
		return false
	}
	feeds := false
	ast.Inspect(body, func(n ast.Node) bool {
		as, ok := n.(*ast.AssignStmt)
		if !ok || len(as.Lhs) != 1 || len(as.Rhs) != 1 {
			return true
		}
		if objOfIdent(info, as.Rhs[0]) == o && isHolder(objOfIdent(info, as.Lhs[0])) {
			feeds = true
		}
		return true
	})
	return feeds
}

// installStackRef: how addEntryInternal reaches the set of operation ids settled in this call tree: a parameter of
// type map[uint64]bool, or the one field of that type of a parameter that points to a struct of the module (the
// accumulators and the stack gathered in one run object).
func installStackRef(info *types.Info, fi *FuncInfo) (types.Object, string) {
	isStack := func(t types.Type) bool {
		m, ok := t.Underlying().(*types.Map)
		if !ok {
			return false
		}
		k, ok1 := m.Key().Underlying().(*types.Basic)
		v, ok2 := m.Elem().Underlying().(*types.Basic)
		return ok1 && ok2 && k.Kind() == types.Uint64 && v.Kind() == types.Bool
	}
	for _, o := range paramObjs(info, fi.Decl) {
		if o != nil && isStack(o.Type()) {
			return o, ""
		}
	}
	for _, o := range paramObjs(info, fi.Decl) {
		if o == nil || !isModuleStruct(o.Type()) {
			continue
		}
		pt, ok := o.Type().Underlying().(*types.Pointer)
		if !ok {
			continue
		}
		st, _ := pt.Elem().Underlying().(*types.Struct)
		var names []string
		for i := 0; st != nil && i < st.NumFields(); i++ {
			if isStack(st.Field(i).Type()) {
				names = append(names, st.Field(i).Name())
			}
		}
		if len(names) == 1 {
			return o, names[0]
		}
	}
	return nil, ""
}

func isInstallStack(info *types.Info, fi *FuncInfo, e ast.Expr) bool {
	root, field := installStackRef(info, fi)
	if root == nil {
		return false
	}
	if field == "" {
		o := objOfIdent(info, e)
		return o != nil && frameArgRoot(info, fi.Decl, o) == root
	}
	se, ok := ast.Unparen(e).(*ast.SelectorExpr)
	if !ok || se.Sel.Name != field {
		return false
	}
	o := objOfIdentPlain(info, se.X)
	return o != nil && frameArgRoot(info, fi.Decl, o) == root
}
