package main

// STATE-WRITERS — for every field of the state the properties are anchored in, the set of functions that
// write it is frozen (confirmed by reading): a new writer — a helper that clears, resets, swaps, trims or
// "cleans up" such state from a place that does not own it — is the most common shape of a change that
// breaks a property while every existing test stays green. A write is a store to the field, an update or
// delete()/clear() of a map held in it, or a store through it into an element's field (s.cs[id].params = …
// is a write of clientState.params). Constructors (functions that allocate the struct themselves) are
// exempt: computed, not declared. The rule reports the new writer; the property's other rules then say
// whether what it does is right — an unaudited writer is UNDECIDED for this checker, never a pass.

import (
	"fmt"
	"go/types"
	"os"
	"sort"
	"strings"

	"golang.org/x/tools/go/ssa"
)

type writerRow struct {
	Rel, Struct, Field string
	Allowed            []string // declared function names (methods without receiver)
}

// fieldWriters returns, per struct field, the declared functions that write it.
func (p *Prog) fieldWriters() map[*types.Var]map[*types.Func]bool {
	if p.writers != nil {
		return p.writers
	}
	out := map[*types.Var]map[*types.Func]bool{}
	add := func(fv *types.Var, f *ssa.Function) {
		if fv == nil {
			return
		}
		d := declaredOf(f)
		if d == nil {
			return
		}
		if out[fv] == nil {
			out[fv] = map[*types.Func]bool{}
		}
		out[fv][d] = true
	}
	// the field a map/slice value was loaded from (through phi-free chains of loads)
	var fieldOfValue func(v ssa.Value, depth int) *types.Var
	fieldOfValue = func(v ssa.Value, depth int) *types.Var {
		if depth > 4 {
			return nil
		}
		switch x := v.(type) {
		case *ssa.UnOp:
			if fa, ok := x.X.(*ssa.FieldAddr); ok {
				return fieldOfAddr(fa)
			}
		case *ssa.Field:
			if st, ok := x.X.Type().Underlying().(*types.Struct); ok {
				return st.Field(x.Field)
			}
		}
		return nil
	}
	localAlloc := func(fa *ssa.FieldAddr) bool {
		switch fa.X.(type) {
		case *ssa.Alloc:
			return true
		}
		return false
	}
	for _, sp := range p.SSAPkgs {
		if isGeneratedPkg(sp.Pkg.Path()) || !strings.HasPrefix(sp.Pkg.Path(), modPath) {
			continue
		}
		for fn := range ssaFuncsOf(p, sp) {
			allInstrs(fn, true, func(f *ssaFn, _ *ssaBlock, in ssaInstr) {
				switch x := in.(type) {
				case *ssa.Store:
					if fa, ok := x.Addr.(*ssa.FieldAddr); ok && !localAlloc(fa) {
						add(fieldOfAddr(fa), f)
					}
				case *ssa.MapUpdate:
					add(fieldOfValue(x.Map, 0), f)
				case *ssa.Call:
					if b, ok := x.Call.Value.(*ssa.Builtin); ok && (b.Name() == "delete" || b.Name() == "clear") && len(x.Call.Args) >= 1 {
						add(fieldOfValue(x.Call.Args[0], 0), f)
					}
				}
			})
		}
	}
	p.writers = out
	return out
}

func ruleStateWriters(c *Ctx, rows []writerRow) {
	const rule = "STATE-WRITERS"
	w := c.P.fieldWriters()
	if os.Getenv("GRIBILINT_DUMP_WRITERS") != "" {
		var lines []string
		for fv, fs := range w {
			var ns []string
			for f := range fs {
				ns = append(ns, f.Name())
			}
			sort.Strings(ns)
			lines = append(lines, fmt.Sprintf("WRITERS %s.%s: %s", fv.Pkg().Name(), fv.Name(), strings.Join(ns, ",")))
		}
		sort.Strings(lines)
		for _, l := range lines {
			fmt.Fprintln(os.Stderr, l)
		}
	}
	if os.Getenv("GRIBILINT_DUMP_WRITERS") != "" {
		cg := c.P.callGraph()
		seen := map[string]bool{}
		for _, r := range rows {
			for _, a := range r.Allowed {
				for _, fi := range c.P.AllFuncs(r.Rel) {
					if fi.Obj.Name() != a || seen[r.Rel+"."+a] {
						continue
					}
					seen[r.Rel+"."+a] = true
					var cs []string
					for _, cl := range cg.callersOf(fi.Obj) {
						cs = append(cs, cl.Name())
					}
					fmt.Fprintf(os.Stderr, "HOSTS %q: {%q},\n", a, strings.Join(cs, `", "`))
				}
			}
		}
	}
	for _, r := range rows {
		fv := c.P.Field(r.Rel, r.Struct, r.Field)
		if fv == nil {
			c.vanished(rule, r.Rel+"."+r.Struct, r.Field, "field not found")
			continue
		}
		c.Sites++
		var got, bad []string
		cg := c.P.callGraph()
		exists := func(name string) bool {
			for _, fi := range c.P.AllFuncs(r.Rel) {
				if fi.Obj.Name() == name {
					return true
				}
			}
			return false
		}
		allowed := func(f *types.Func) bool {
			for _, a := range r.Allowed {
				if a == f.Name() {
					return true
				}
				// an audited writer that was folded into its caller and deleted: the caller writes in its place
				if !exists(a) {
					for _, h := range writerHosts[a] {
						if h == f.Name() {
							return true
						}
					}
				}
			}
			return false
		}
		// a helper new to the rules that is only ever called from audited writers (an extracted piece of
		// one of them) writes on their behalf
		var viaAudited func(f *types.Func, depth int) bool
		viaAudited = func(f *types.Func, depth int) bool {
			if allowed(f) {
				return true
			}
			if !isNewFunc(f) || depth >= 3 {
				return false
			}
			cs := cg.callersOf(f)
			if len(cs) == 0 {
				return false
			}
			for _, c2 := range cs {
				if !viaAudited(c2, depth+1) {
					return false
				}
			}
			return true
		}
		for f := range w[fv] {
			got = append(got, f.Name())
			if !viaAudited(f, 0) {
				bad = append(bad, f.Name())
			}
		}
		sort.Strings(got)
		sort.Strings(bad)
		if len(got) == 0 {
			c.vanished(rule, r.Rel+"."+r.Struct, r.Field, "the field is never written (audited writers: "+strings.Join(r.Allowed, ", ")+")")
			continue
		}
		c.check(len(bad) == 0, rule, r.Rel+"."+r.Struct, "writers of "+r.Field, "-", "written by "+strings.Join(got, ", "),
			fmt.Sprintf("%s.%s is written by %s, which is not among its audited writers (%s): state the properties depend on is changed from a place that does not own it", r.Struct, r.Field, strings.Join(bad, ", "), strings.Join(r.Allowed, ", ")))
	}
}

// The frozen writers table, by the property whose state it is.
var (
	writersServerSession = []writerRow{
		{"server", "Server", "cs", []string{"newClient", "deleteClient"}},
		{"server", "clientState", "params", []string{"setClientParams", "updateParams"}},
		{"server", "clientState", "setParams", []string{"updateParams"}},
		{"server", "clientState", "lastElecID", []string{"storeClientElectionID"}},
	}
	writersServerElection = []writerRow{
		{"server", "Server", "curElecID", []string{"runElection", "InjectElectionID"}},
		{"server", "Server", "curMaster", []string{"runElection"}},
		{"server", "Server", "masterRIB", []string{"InjectRIB"}},
	}
	writersRIB = []writerRow{
		{"rib", "RIB", "pendingEntries", []string{"addPending", "rmPending"}},
		{"rib", "RIB", "niRIB", []string{"New", "AddNetworkInstance"}},
		{"rib", "niRefCounter", "NextHop", []string{"incNHRefCount", "decNHRefCount"}},
		{"rib", "niRefCounter", "NextHopGroup", []string{"incNHGRefCount", "decNHGRefCount"}},
	}
	writersClient = []writerRow{
		{"client", "clientQs", "sendq", []string{"Q", "Reset", "StartSending"}},
		{"client", "clientQs", "pendq", []string{"Reset"}},
		{"client", "clientQs", "resultq", []string{"AckResult", "Reset", "handleModifyResponse"}},
		{"client", "clientQs", "modifyCh", []string{"Reset"}},
		{"client", "pendingQueue", "Ops", []string{"addPendingOp", "clearPendingOp"}},
		{"client", "pendingQueue", "Election", []string{"clearPendingElection", "updatePendingElection"}},
		{"client", "pendingQueue", "SessionParams", []string{"clearPendingSessionParams", "pendingSessionParams"}},
		{"client", "Client", "sendErr", []string{"Reset", "addSendErr"}},
		{"client", "Client", "readErr", []string{"Reset", "addReadErr"}},
		{"client", "Client", "sendExitCh", []string{"Connect"}},
	}
	writersFluent = []writerRow{
		{"fluent", "GRIBIClient", "opCount", []string{"entriesToModifyRequest"}},
		{"fluent", "GRIBIClient", "currentElectionID", []string{"UpdateElectionID", "WithInitialElectionID"}},
	}
	writersReconciler = []writerRow{
		{"rib/reconciler", "Ops", "NH", []string{"Merge", "diff"}},
		{"rib/reconciler", "Ops", "NHG", []string{"Merge", "diff"}},
		{"rib/reconciler", "Ops", "TopLevel", []string{"Merge", "diff"}},
	}
)

// writerHosts: the callers of each small audited writer on the tree the table was frozen on. When such a
// writer no longer exists (folded into its caller), the host is accepted in its place.
var writerHosts = map[string][]string{
	"addPending": {"addEntryInternal"}, "rmPending": {"addEntryInternal"},
	"addPendingOp": {"handleModifyRequest"}, "pendingSessionParams": {"handleModifyRequest"}, "updatePendingElection": {"handleModifyRequest"},
	"clearPendingOp": {"handleModifyResponse"}, "clearPendingElection": {"handleModifyResponse"}, "clearPendingSessionParams": {"handleModifyResponse"},
	"handleModifyResponse": {"Connect"}, "addReadErr": {"Connect"}, "addSendErr": {"Connect", "Q"},
	"newClient": {"Modify"}, "deleteClient": {"Modify"}, "updateParams": {"Modify"}, "runElection": {"Modify"},
	"setClientParams": {"checkParams"}, "storeClientElectionID": {"runElection"},
	"incNHGRefCount": {"handleReferences"}, "decNHGRefCount": {"DeleteEntry", "Flush", "handleReferences"},
	"incNHRefCount": {"handleNHGReferences"}, "decNHRefCount": {"DeleteEntry", "handleNHGReferences", "locklessDeleteNHG"},
	"entriesToModifyRequest": {"AddEntry", "DeleteEntry", "ReplaceEntry"}, "diff": {"Reconcile"},
}
