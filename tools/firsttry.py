#!/usr/bin/env python3
"""firsttry.py <checker-binary> <base-commit> <seed-id>...: records which checks report a stored seeded change when it is
analysed with the checker as it was at the start of the round (binary built from that /verif commit) on the /repo commit
the change was written against. Writes caught_at_first_try / first_try_detected_by into seeded/<id>/meta.json."""
import json, os, shutil, subprocess, sys
binp, base, seeds = sys.argv[1], sys.argv[2], sys.argv[3:]
env = dict(os.environ, PATH="/opt/veriftools/go1.26.8/bin:" + os.environ["PATH"], GOTOOLCHAIN="local", GOFLAGS="-mod=mod", GOPROXY="off", GOSUMDB="off")
wt = "/tmp/firsttry_wt"
subprocess.run(["git", "-C", "/repo", "worktree", "remove", "--force", wt], capture_output=True)
subprocess.check_call(["git", "-C", "/repo", "worktree", "add", "-q", "--detach", wt, base])
tmpv = "/tmp/firsttry_verif"
try:
    for sid in seeds:
        d = f"/verif/seeded/{sid}/"
        meta = json.load(open(d + "meta.json"))
        subprocess.check_call(["git", "-C", wt, "checkout", "-q", "--", "."])
        r = subprocess.run(["git", "-C", wt, "apply", d + "patch.diff"], capture_output=True, text=True)
        if r.returncode != 0:
            print(sid, "patch does not apply to", base, r.stderr[:200]); continue
        shutil.rmtree(tmpv, ignore_errors=True); os.makedirs(tmpv)
        shutil.copy("/verif/known_findings.json", tmpv)
        e2 = dict(env, GRIBILINT_VERIF=tmpv, GRIBILINT_REPO=wt)
        det = []
        for p in [f"C{i:02d}" for i in range(1, 20)]:
            rr = subprocess.run([binp, p, "quick"], env=e2, capture_output=True, text=True)
            if rr.returncode != 0:
                det.append(p)
        meta["caught_at_first_try"] = meta["property"] in det
        meta["first_try_detected_by"] = det
        json.dump(meta, open(d + "meta.json", "w"), indent=1)
        print(sid, "first try:", "own" if meta["caught_at_first_try"] else "MISSED", det)
finally:
    shutil.rmtree(tmpv, ignore_errors=True)
    subprocess.run(["git", "-C", "/repo", "worktree", "remove", "--force", wt], capture_output=True)
