package main

// SHADOWED-VERDICT — a function-level variable that carries a verdict (an error, or a boolean such as "installed")
// and is read after a nested block must not be redeclared inside that block by a plain `x, err := f()` statement:
// the assignment lands in the inner variable and the outer one — the one the function goes on to test — keeps its old
// value. (`if err := f(); err != nil { … }` and other init-statement forms handle their value in place and are not
// concerned.) The rule looks at every non-test function of the packages given.

import (
	"fmt"
	"go/ast"
	"go/token"
	"go/types"
	"strings"
)

func ruleShadowedVerdict(c *Ctx, rels []string) {
	const rule = "SHADOWED-VERDICT"
	n := 0
	var bad []string
	for _, rel := range rels {
		for _, fi := range c.P.AllFuncs(rel) {
			if fi.Decl.Body == nil {
				continue
			}
			info := fi.Pkg.TypesInfo
			// function-level verdict variables: declared at the top level of the body (or named results)
			outer := map[string]*types.Var{}
			add := func(id *ast.Ident) {
				if v, ok := info.Defs[id].(*types.Var); ok && (isErrorType(v.Type()) || isBoolType(v.Type())) {
					outer[v.Name()] = v
				}
			}
			if fi.Decl.Type.Results != nil {
				for _, f := range fi.Decl.Type.Results.List {
					for _, nm := range f.Names {
						add(nm)
					}
				}
			}
			for _, st := range fi.Decl.Body.List {
				switch x := st.(type) {
				case *ast.DeclStmt:
					if gd, ok := x.Decl.(*ast.GenDecl); ok {
						for _, sp := range gd.Specs {
							if vs, ok := sp.(*ast.ValueSpec); ok {
								for _, nm := range vs.Names {
									add(nm)
								}
							}
						}
					}
				case *ast.AssignStmt:
					if x.Tok == token.DEFINE {
						for _, l := range x.Lhs {
							if id, ok := l.(*ast.Ident); ok {
								add(id)
							}
						}
					}
				}
			}
			if len(outer) == 0 {
				continue
			}
			// last read position of each outer variable
			lastUse := map[*types.Var]token.Pos{}
			ast.Inspect(fi.Decl.Body, func(m ast.Node) bool {
				if id, ok := m.(*ast.Ident); ok {
					if v, ok := info.Uses[id].(*types.Var); ok && outer[v.Name()] == v && id.Pos() > lastUse[v] {
						lastUse[v] = id.Pos()
					}
				}
				return true
			})
			// nested blocks: statement-level `:=` redeclaring one of them
			var walk func(list []ast.Stmt, depth int, blockEnd token.Pos)
			walk = func(list []ast.Stmt, depth int, blockEnd token.Pos) {
				for _, st := range list {
					if as, ok := st.(*ast.AssignStmt); ok && as.Tok == token.DEFINE && depth > 0 {
						for _, l := range as.Lhs {
							id, ok := l.(*ast.Ident)
							if !ok {
								continue
							}
							nv, ok := info.Defs[id].(*types.Var)
							if !ok {
								continue
							}
							ov := outer[nv.Name()]
							if ov == nil || ov == nv || !types.Identical(ov.Type(), nv.Type()) {
								continue
							}
							n++
							if lastUse[ov] > blockEnd {
								bad = append(bad, fmt.Sprintf("%s: %s redeclared at %s inside a block, the function-level %s is read after the block (%s)", fi.Name, nv.Name(), c.P.pos(id.Pos()), nv.Name(), c.P.pos(lastUse[ov])))
							}
						}
					}
					// descend
					switch x := st.(type) {
					case *ast.BlockStmt:
						if inlineFrames[x] != nil {
							break // the body of a helper spliced in: its declarations are the helper's (judged as a function of its own)
						}
						walk(x.List, depth+1, x.End())
					case *ast.IfStmt:
						walk(x.Body.List, depth+1, x.Body.End())
						if e, ok := x.Else.(*ast.BlockStmt); ok {
							walk(e.List, depth+1, e.End())
						} else if e, ok := x.Else.(*ast.IfStmt); ok {
							walk([]ast.Stmt{e}, depth, blockEnd)
						}
					case *ast.ForStmt:
						walk(x.Body.List, depth+1, x.Body.End())
					case *ast.RangeStmt:
						walk(x.Body.List, depth+1, x.Body.End())
					case *ast.SwitchStmt:
						for _, cc := range x.Body.List {
							cl := cc.(*ast.CaseClause)
							walk(cl.Body, depth+1, cl.End())
						}
					case *ast.TypeSwitchStmt:
						for _, cc := range x.Body.List {
							cl := cc.(*ast.CaseClause)
							walk(cl.Body, depth+1, cl.End())
						}
					case *ast.SelectStmt:
						for _, cc := range x.Body.List {
							cl := cc.(*ast.CommClause)
							walk(cl.Body, depth+1, cl.End())
						}
					}
				}
			}
			walk(fi.Decl.Body.List, 0, fi.Decl.Body.End())
		}
	}
	c.Sites += n
	c.check(len(bad) == 0, rule, strings.Join(rels, "+"), "no verdict variable is shadowed by a statement-level := in a nested block and read afterwards", "-", fmt.Sprintf("%d nested redeclarations of function-level error/bool variables examined", n), strings.Join(bad, "; "))
}

func isErrorType(t types.Type) bool {
	return types.Identical(t, types.Universe.Lookup("error").Type())
}
