package main

import (
	"fmt"
	"go/ast"
	"go/constant"
	"go/token"
	"go/types"
	"os"
	"strings"
)

const (
	spbPath   = "github.com/openconfig/gribi/v1/proto/service"
	aftpbPath = "github.com/openconfig/gribi/v1/proto/gribi_aft"
	aftPath   = modPath + "/aft"
	constPath = modPath + "/constants"
	ygotPath  = "github.com/openconfig/ygot/ygot"
)

// namedOf strips pointers and returns the named type, or nil.
func namedOf(t types.Type) *types.Named {
	for {
		switch x := t.(type) {
		case *types.Pointer:
			t = x.Elem()
		case *types.Alias:
			t = types.Unalias(x)
		case *types.Named:
			return x
		default:
			return nil
		}
	}
}

// isNamed reports whether t (modulo pointers) is pkg.name.
func isNamed(t types.Type, pkg, name string) bool {
	n := namedOf(t)
	if n == nil || n.Obj().Pkg() == nil {
		return false
	}
	return n.Obj().Pkg().Path() == pkg && n.Obj().Name() == name
}

func typeName(t types.Type) string {
	n := namedOf(t)
	if n == nil {
		return t.String()
	}
	return n.Obj().Name()
}

// isFunc reports whether obj is the function/method pkg.name (recv "" = any).
func isFunc(obj types.Object, pkg, name string) bool {
	f, ok := obj.(*types.Func)
	if !ok || f.Pkg() == nil {
		return false
	}
	return f.Pkg().Path() == pkg && f.Name() == name
}

// recvTypeName returns the receiver's bare type name of a method object, or "".
func recvTypeName(f *types.Func) string {
	sig, ok := f.Type().(*types.Signature)
	if !ok || sig.Recv() == nil {
		return ""
	}
	if n := namedOf(sig.Recv().Type()); n != nil {
		return n.Obj().Name()
	}
	return ""
}

// isMethod reports whether obj is method recv.name declared in pkg.
func isMethod(obj types.Object, pkg, recv, name string) bool {
	f, ok := obj.(*types.Func)
	if !ok || f.Pkg() == nil || f.Pkg().Path() != pkg || f.Name() != name {
		return false
	}
	if recvTypeName(f) == recv {
		return true
	}
	// the method was moved to another receiver (a function of this name new to the rules, the only one): see Prog.Func
	if isNewFunc(f) && gProg != nil && len(pkg) > len(modPath) {
		if fi := gProg.Func(pkg[len(modPath)+1:], recv, name); fi != nil && fi.Obj == f {
			return true
		}
	}
	return false
}

// constName returns the name of the constant object an expression denotes (e.g. spb.AFTResult_FAILED → "AFTResult_FAILED").
func constName(info *types.Info, e ast.Expr) string {
	e = ast.Unparen(e)
	e = viaFrames(info, e)
	switch x := e.(type) {
	case *ast.Ident:
		if c, ok := info.Uses[x].(*types.Const); ok {
			return c.Name()
		}
	case *ast.SelectorExpr:
		if c, ok := info.Uses[x.Sel].(*types.Const); ok {
			return c.Name()
		}
	}
	return ""
}

// constInt returns the constant integer value of e, if any.
func constInt(info *types.Info, e ast.Expr) (int64, bool) {
	tv, ok := info.Types[e]
	if !ok || tv.Value == nil {
		return 0, false
	}
	if tv.Value.Kind() != constant.Int {
		return 0, false
	}
	v, ok := constant.Int64Val(tv.Value)
	return v, ok
}

// compositeFields returns the key→value map of a struct composite literal.
func compositeFields(cl *ast.CompositeLit) map[string]ast.Expr {
	m := map[string]ast.Expr{}
	for _, el := range cl.Elts {
		if kv, ok := el.(*ast.KeyValueExpr); ok {
			if id, ok := kv.Key.(*ast.Ident); ok {
				m[id.Name] = kv.Value
			}
		}
	}
	return m
}

// unAddr strips a leading & from a composite literal expression.
func unAddr(e ast.Expr) ast.Expr {
	e = ast.Unparen(e)
	if u, ok := e.(*ast.UnaryExpr); ok && u.Op == token.AND {
		return ast.Unparen(u.X)
	}
	return e
}

// litsOfType finds composite literals of named type pkg.name inside n (FuncLits included).
func litsOfType(info *types.Info, n ast.Node, pkg, name string) []*ast.CompositeLit {
	var out []*ast.CompositeLit
	ast.Inspect(n, func(m ast.Node) bool {
		if cl, ok := m.(*ast.CompositeLit); ok {
			if tv, ok := info.Types[cl]; ok && isNamed(tv.Type, pkg, name) {
				// exclude slice-of literals: the type of the literal itself must be the struct
				t := tv.Type
				if pt, ok := t.Underlying().(*types.Pointer); ok {
					t = pt.Elem()
				}
				if _, isStruct := t.Underlying().(*types.Struct); isStruct {
					out = append(out, cl)
				}
			}
		}
		return true
	})
	return out
}

// selectorPath renders x.a.b as ["x","a","b"] with the root object, for
// selector chains and getter-call chains (x.GetA().GetB() → x, A, B).
func selectorPath(info *types.Info, e ast.Expr) (types.Object, []string) {
	var rev []string
	for {
		e = ast.Unparen(e)
		switch x := e.(type) {
		case *ast.Ident:
			obj := info.ObjectOf(x)
			for i, j := 0, len(rev)-1; i < j; i, j = i+1, j-1 {
				rev[i], rev[j] = rev[j], rev[i]
			}
			return obj, rev
		case *ast.SelectorExpr:
			// a field of a struct the function allocated itself is a variable of its own (pseudo.go)
			// when it is the base of a longer path (x.f alone stays "field f of x" for the callers that look at the
			// field written or read)
			if po := pseudoFieldObj(info, x); po != nil && len(rev) > 0 {
				for i, j := 0, len(rev)-1; i < j; i, j = i+1, j-1 {
					rev[i], rev[j] = rev[j], rev[i]
				}
				return po, rev
			}
			rev = append(rev, x.Sel.Name)
			e = x.X
		case *ast.CallExpr:
			se, ok := ast.Unparen(x.Fun).(*ast.SelectorExpr)
			if !ok || len(x.Args) != 0 || !strings.HasPrefix(se.Sel.Name, "Get") {
				return nil, nil
			}
			rev = append(rev, strings.TrimPrefix(se.Sel.Name, "Get"))
			e = se.X
		case *ast.StarExpr:
			e = x.X
		default:
			return nil, nil
		}
	}
}

// isNilIdent reports whether e is the predeclared nil.
func isNilIdent(info *types.Info, e ast.Expr) bool {
	id, ok := ast.Unparen(e).(*ast.Ident)
	if !ok {
		return false
	}
	_, isNil := info.Uses[id].(*types.Nil)
	return isNil
}

// enclosingFuncDecl finds the FuncDecl containing pos in the package.
func (p *Prog) enclosingFuncDecl(pos token.Pos) *ast.FuncDecl {
	for _, pk := range p.All {
		for _, f := range pk.Syntax {
			if f.Pos() <= pos && pos < f.End() {
				for _, d := range f.Decls {
					if fd, ok := d.(*ast.FuncDecl); ok && fd.Pos() <= pos && pos < fd.End() {
						return fd
					}
				}
			}
		}
	}
	return nil
}

// paramObj returns the parameter object with the given index (flattened).
func paramObjs(info *types.Info, fd *ast.FuncDecl) []types.Object {
	var out []types.Object
	if fd.Type.Params == nil {
		return nil
	}
	for _, f := range fd.Type.Params.List {
		for _, n := range f.Names {
			out = append(out, info.Defs[n])
		}
	}
	return out
}

func recvObj(info *types.Info, fd *ast.FuncDecl) types.Object {
	if fd.Recv == nil || len(fd.Recv.List) == 0 || len(fd.Recv.List[0].Names) == 0 {
		return nil
	}
	return info.Defs[fd.Recv.List[0].Names[0]]
}

// appendTarget recognises `x = append(x, ...)` / `*x = append(*x, ...)` and returns the object x and the appended args.
func appendTarget(info *types.Info, s ast.Stmt) (types.Object, []ast.Expr) {
	as, ok := s.(*ast.AssignStmt)
	if !ok || len(as.Lhs) != 1 || len(as.Rhs) != 1 {
		return nil, nil
	}
	call, ok := ast.Unparen(as.Rhs[0]).(*ast.CallExpr)
	if !ok {
		return nil, nil
	}
	id, ok := call.Fun.(*ast.Ident)
	if !ok || id.Name != "append" {
		return nil, nil
	}
	if _, ok := info.Uses[id].(*types.Builtin); !ok {
		return nil, nil
	}
	lobj, lp := selectorPath(info, as.Lhs[0])
	if lobj == nil || len(call.Args) == 0 {
		return nil, nil
	}
	aobj, ap := selectorPath(info, call.Args[0])
	if aobj != lobj || strings.Join(lp, ".") != strings.Join(ap, ".") {
		return nil, nil
	}
	if len(lp) > 0 {
		// a field of a struct the function built itself is a variable of its own (pseudo.go)
		if se, ok := ast.Unparen(as.Lhs[0]).(*ast.SelectorExpr); ok && len(lp) == 1 {
			if po := pseudoFieldObj(info, se); po != nil && lhsObject(info, call.Args[0]) == po {
				return po, call.Args[1:]
			}
		}
		return nil, nil // field append handled by callers through selectorPath
	}
	return lobj, call.Args[1:]
}

// ast_inspectAssign classifies every assignment to local v in fi: good when the
// right-hand side is a call to KnownNetworkInstances or a composite literal
// with at most one element.
func ast_inspectAssign(info *types.Info, fi *FuncInfo, v *types.Var, report func(rhs string, good bool)) {
	ast.Inspect(fi.Decl.Body, func(n ast.Node) bool {
		as, ok := n.(*ast.AssignStmt)
		if !ok || len(as.Lhs) != len(as.Rhs) {
			return true
		}
		for i, l := range as.Lhs {
			if objOfIdent(info, l) != v {
				continue
			}
			r := ast.Unparen(as.Rhs[i])
			good := false
			switch x := r.(type) {
			case *ast.CallExpr:
				if f, ok := calleeObj(info, x).(*types.Func); ok && f.Name() == "KnownNetworkInstances" {
					good = true
				}
			case *ast.CompositeLit:
				good = len(x.Elts) <= 1
			}
			report(types.ExprString(r), good)
		}
		return true
	})
}

func osArgs() []string { return os.Args }

// ---- transparent helpers ---------------------------------------------------------
//
// A maintainer may move a repeated expression into a small unexported helper
// (`return &spb.ModifyResponse{…}`, `return &spb.Uint128{Low: electionID.Load()}`).
// Rules that classify values or scan for literals see through such helpers: a
// "simple helper" is a repo function whose body is exactly one return statement
// with one result.

var gProg *Prog

// simpleHelper returns the callee and its returned expression when call invokes a simple helper.
func simpleHelper(info *types.Info, call *ast.CallExpr) (*FuncInfo, ast.Expr) {
	if gProg == nil {
		return nil, nil
	}
	f, ok := calleeObj(info, call).(*types.Func)
	if !ok || f.Pkg() == nil || !isRepoPkg(f.Pkg()) || isGeneratedPkg(f.Pkg().Path()) {
		return nil, nil
	}
	fi := gProg.infoFor(f)
	if fi == nil || fi.Decl.Body == nil || len(fi.Decl.Body.List) != 1 {
		return nil, nil
	}
	rs, ok := fi.Decl.Body.List[0].(*ast.ReturnStmt)
	if !ok || len(rs.Results) != 1 {
		return nil, nil
	}
	return fi, rs.Results[0]
}

// isSimpleHelperDecl: fd is a simple helper (its literals are attributed to its call sites).
func isSimpleHelperDecl(fd *ast.FuncDecl) bool {
	if fd.Body == nil || len(fd.Body.List) != 1 {
		return false
	}
	rs, ok := fd.Body.List[0].(*ast.ReturnStmt)
	return ok && len(rs.Results) == 1
}

// litRef is a composite literal reached from a scanned body, possibly through
// a simple helper; Arg maps the helper's parameters to the caller's argument
// expressions (nil when the literal is written in the scanned body itself).
type litRef struct {
	Lit  *ast.CompositeLit
	Info *types.Info // info of the function the literal is written in
	Site ast.Node    // the literal, or the helper call in the scanned body
	Arg  map[types.Object]ast.Expr
}

// callerExpr maps an expression of the literal back into the scanned body: a
// helper parameter becomes the caller's argument.
func (l litRef) callerExpr(e ast.Expr) (ast.Expr, bool) {
	if l.Arg == nil {
		return e, true
	}
	if id, ok := ast.Unparen(e).(*ast.Ident); ok {
		if a, ok := l.Arg[l.Info.ObjectOf(id)]; ok {
			return a, true
		}
	}
	return e, false
}

// litsThroughHelpers finds literals of the named struct type in n and in the
// simple helpers called from n (one level).
func litsThroughHelpers(info *types.Info, n ast.Node, pkg, name string) []litRef {
	var out []litRef
	for _, cl := range litsOfType(info, n, pkg, name) {
		out = append(out, litRef{Lit: cl, Info: info, Site: cl})
	}
	ast.Inspect(n, func(m ast.Node) bool {
		call, ok := m.(*ast.CallExpr)
		if !ok {
			return true
		}
		fi, ret := simpleHelper(info, call)
		if fi == nil {
			return true
		}
		hinfo := fi.Pkg.TypesInfo
		lits := litsOfType(hinfo, ret, pkg, name)
		if len(lits) == 0 {
			return true
		}
		arg := map[types.Object]ast.Expr{}
		for i, p := range paramObjs(hinfo, fi.Decl) {
			if p != nil && i < len(call.Args) {
				arg[p] = call.Args[i]
			}
		}
		for _, cl := range lits {
			out = append(out, litRef{Lit: cl, Info: hinfo, Site: call, Arg: arg})
		}
		return true
	})
	return out
}

// resolveLocal follows a local declared once (x := <expr>, never reassigned) to its defining expression.
func resolveLocal(info *types.Info, fd *ast.FuncDecl, e ast.Expr) ast.Expr {
	for depth := 0; depth < 4; depth++ {
		e = ast.Unparen(e)
		id, ok := e.(*ast.Ident)
		if !ok || fd == nil {
			return e
		}
		v, ok := info.ObjectOf(id).(*types.Var)
		if !ok || v.IsField() || isParamOf(info, fd, v) {
			return e
		}
		def := soleDefinition(info, fd, v)
		if def == nil {
			return e
		}
		e = def
	}
	return e
}

// canonTerm renders e canonically in the context of fi (getters as fields,
// locals declared once replaced by their definition).
func canonTerm(fi *FuncInfo, e ast.Expr) string {
	uq := 0
	x := &condXlat{info: fi.Pkg.TypesInfo, fd: fi.Decl, uniq: &uq}
	t, _ := x.term(e)
	return t
}

// roleTerm renders e canonically with the function's receiver and parameters
// replaced by their roles (recv, p0, p1, …): x.parent.opCount → recv.parent.opCount.
func roleTerm(fi *FuncInfo, e ast.Expr) string {
	t := canonTerm(fi, e)
	root, rest := t, ""
	for i := 0; i < len(t); i++ {
		if t[i] == '.' || t[i] == '[' {
			root, rest = t[:i], t[i:]
			break
		}
	}
	info := fi.Pkg.TypesInfo
	if o := recvObj(info, fi.Decl); o != nil && o.Name() == root {
		return "recv" + rest
	}
	for i, p := range paramObjs(info, fi.Decl) {
		if p != nil && p.Name() == root {
			return "p" + itoa(i) + rest
		}
	}
	return t
}

// ---- closures and named functions are interchangeable -----------------------------
//
// `go func() {…}()` may become `go s.recvLoop(a, b)`, `h := func(){…}` may become
// a method. bodyRef gives rules one view of both.

type bodyRef struct {
	Body   *ast.BlockStmt
	FI     *FuncInfo    // the declared function the body belongs to (the enclosing one for a literal)
	Lit    *ast.FuncLit // nil for a declared function
	Params []types.Object
	Caller *FuncInfo                 // function containing the reference
	ArgOf  map[types.Object]ast.Expr // parameter → argument expression in Caller (when called)
}

// resolveFuncBody resolves a function-valued expression used in fi: a literal,
// a local declared once as a literal, or a repo function / method value.
func resolveFuncBody(fi *FuncInfo, fun ast.Expr) *bodyRef {
	info := fi.Pkg.TypesInfo
	fun = ast.Unparen(fun)
	if fl, ok := fun.(*ast.FuncLit); ok {
		return &bodyRef{Body: fl.Body, FI: fi, Lit: fl, Params: paramObjsLit(info, fl), Caller: fi}
	}
	if id, ok := fun.(*ast.Ident); ok {
		if v, ok := info.ObjectOf(id).(*types.Var); ok && !v.IsField() {
			if def := soleDefinition(info, fi.Decl, v); def != nil {
				if fl, ok := ast.Unparen(def).(*ast.FuncLit); ok {
					return &bodyRef{Body: fl.Body, FI: fi, Lit: fl, Params: paramObjsLit(info, fl), Caller: fi}
				}
				return resolveFuncBody(fi, def)
			}
		}
	}
	var obj types.Object
	switch f := fun.(type) {
	case *ast.Ident:
		obj = info.ObjectOf(f)
	case *ast.SelectorExpr:
		obj = info.ObjectOf(f.Sel)
	}
	if f, ok := obj.(*types.Func); ok && f.Pkg() != nil && isRepoPkg(f.Pkg()) && gProg != nil {
		if cfi := gProg.infoFor(f); cfi != nil && cfi.Decl.Body != nil {
			return &bodyRef{Body: cfi.Decl.Body, FI: cfi, Params: paramObjs(cfi.Pkg.TypesInfo, cfi.Decl), Caller: fi}
		}
	}
	return nil
}

// resolveCallBody resolves the body run by a call (go / defer / plain) and binds its parameters.
func resolveCallBody(fi *FuncInfo, call *ast.CallExpr) *bodyRef {
	br := resolveFuncBody(fi, call.Fun)
	if br == nil {
		return nil
	}
	br.ArgOf = map[types.Object]ast.Expr{}
	for i, p := range br.Params {
		if p != nil && i < len(call.Args) {
			br.ArgOf[p] = call.Args[i]
		}
	}
	return br
}

// goBodies lists the bodies of the goroutines started in fi (not nested in other literals' goroutines).
func goBodies(fi *FuncInfo) []*bodyRef {
	var out []*bodyRef
	ast.Inspect(fi.Decl.Body, func(n ast.Node) bool {
		if gs, ok := n.(*ast.GoStmt); ok {
			if br := resolveCallBody(fi, gs.Call); br != nil {
				out = append(out, br)
			}
		}
		return true
	})
	return out
}

// declInit returns the initialiser of the statement that declares local v inside body
// (v := e / var v = e), whatever is assigned to it later.
func declInit(info *types.Info, body ast.Node, v *types.Var) ast.Expr {
	var out ast.Expr
	ast.Inspect(body, func(n ast.Node) bool {
		switch x := n.(type) {
		case *ast.AssignStmt:
			if x.Tok == token.DEFINE && len(x.Lhs) == len(x.Rhs) {
				for i, l := range x.Lhs {
					if id, ok := l.(*ast.Ident); ok && info.Defs[id] == v {
						out = x.Rhs[i]
					}
				}
			}
		case *ast.ValueSpec:
			for i, nm := range x.Names {
				if info.Defs[nm] == v && len(x.Values) == len(x.Names) {
					out = x.Values[i]
				}
			}
		}
		return true
	})
	return out
}

// ---- functions new to the rules -------------------------------------------------

var knownFuncSet map[string]bool

// isNewFunc: f is a repo function that did not exist when the rules were
// written (see known_funcs.go). No rule is keyed on it, so it can only be a
// helper extracted from (or added next to) an audited function; rules treat it
// as transparent: its effects are attributed to its call sites.
func isNewFunc(f *types.Func) bool {
	if f == nil || f.Pkg() == nil || !isRepoPkg(f.Pkg()) || isGeneratedPkg(f.Pkg().Path()) {
		return false
	}
	if knownFuncSet == nil {
		knownFuncSet = map[string]bool{}
		for _, n := range knownFuncList {
			knownFuncSet[n] = true
		}
	}
	return !knownFuncSet[displayName(f)]
}

// containsNode: target is a descendant of root in the (possibly frame-rewritten) syntax tree.
func containsNode(root, target ast.Node) bool {
	found := false
	ast.Inspect(root, func(n ast.Node) bool {
		if n == target {
			found = true
		}
		return !found
	})
	return found
}

// fstr renders a formula (debugging aid).
func fstr(f Formula) string {
	switch x := f.(type) {
	case *FLit:
		return fmt.Sprintf("%s∈%03b", x.Atom, x.Mask)
	case *FAnd:
		return "(" + fstr(x.L) + " ∧ " + fstr(x.R) + ")"
	case *FOr:
		return "(" + fstr(x.L) + " ∨ " + fstr(x.R) + ")"
	case *FNot:
		return "¬" + fstr(x.X)
	case nil:
		return "nil"
	}
	return fmt.Sprintf("%T", f)
}

// fieldOwner: the name of the named struct type of the field's package that declares the field ("" when none).
func fieldOwner(fv *types.Var) string {
	if fv == nil || fv.Pkg() == nil {
		return ""
	}
	sc := fv.Pkg().Scope()
	for _, n := range sc.Names() {
		tn, ok := sc.Lookup(n).(*types.TypeName)
		if !ok {
			continue
		}
		st, ok := tn.Type().Underlying().(*types.Struct)
		if !ok {
			continue
		}
		for i := 0; i < st.NumFields(); i++ {
			if st.Field(i) == fv {
				return tn.Name()
			}
		}
	}
	return ""
}

// viaFrames: a parameter of the helper being enumerated in line (curFrames) stands for the argument it is bound to.
func viaFrames(info *types.Info, e ast.Expr) ast.Expr {
	e = ast.Unparen(e)
	for hops := 0; hops < 4; hops++ {
		id, ok := e.(*ast.Ident)
		if !ok {
			break
		}
		var arg ast.Expr
		for i := len(curFrames) - 1; i >= 0 && arg == nil; i-- {
			arg = curFrames[i].Binds[info.ObjectOf(id)]
		}
		if arg == nil {
			break
		}
		e = ast.Unparen(arg)
	}
	return e
}

// onBehalfOf: f is one of the audited functions, or a function new to the rules that only such functions call
// (transitively, three levels): an extracted piece of an audited function acts on its behalf.
func onBehalfOf(cg *CG, f *types.Func, audited func(*types.Func) bool) bool {
	var rec func(f *types.Func, depth int) bool
	rec = func(f *types.Func, depth int) bool {
		if f == nil {
			return false
		}
		if audited(f) {
			return true
		}
		if !isNewFunc(f) || depth >= 3 {
			return false
		}
		cs := cg.callersOf(f)
		if len(cs) == 0 {
			return false
		}
		for _, c2 := range cs {
			if c2 == f || !rec(c2, depth+1) {
				return false
			}
		}
		return true
	}
	return rec(f, 0)
}
