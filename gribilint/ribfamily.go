package main

// Analysis of the RIBHolder mutator families (AddXXX, DeleteXXX, the
// merging/removing helpers and the lockless deleters used by Flush). The
// obligations found here are shared by C01, C02, C03, C12 and C16; each
// property selects the rules it claims.

import (
	"fmt"
	"go/ast"
	"go/token"
	"go/types"
	"sort"
	"strings"
)

const ribPkg = modPath + "/rib"

// tableMutation describes one construct that mutates an AFT table reachable
// from a RIBHolder's r field.
type tableMutation struct {
	Fn    *FuncInfo
	Kind  string // merge, delete, assign, method
	Table string // for delete/assign; "" for merge (whole-RIB merge)
	Node  ast.Node
	Key   ast.Expr
	Fresh bool // the mutated holder belongs to a RIB allocated by this very function (not yet shared)
}

// rootedAtHolderR reports whether e is a selector/call chain rooted at <x>.r where x is a *RIBHolder.
func rootedAtHolderR(info *types.Info, e ast.Expr) bool {
	hops := 0
	for {
		e = ast.Unparen(e)
		switch x := e.(type) {
		case *ast.SelectorExpr:
			if fv, ok := info.ObjectOf(x.Sel).(*types.Var); ok && fv.IsField() && fv.Name() == "r" {
				if tv, ok := info.Types[x.X]; ok && isNamed(tv.Type, ribPkg, "RIBHolder") {
					return true
				}
			}
			e = x.X
		case *ast.CallExpr:
			se, ok := ast.Unparen(x.Fun).(*ast.SelectorExpr)
			if !ok {
				return false
			}
			e = se.X
		case *ast.IndexExpr:
			e = x.X
		case *ast.StarExpr:
			e = x.X
		case *ast.Ident:
			// a local declared once as a part of the holder's RIB (afts := r.r.GetAfts())
			v, ok := info.ObjectOf(x).(*types.Var)
			if !ok || v.IsField() || gProg == nil {
				return false
			}
			fd := gProg.enclosingFuncDecl(x.Pos())
			if fd == nil || fd.Body == nil {
				return false
			}
			def := soleDefinition(info, fd, v)
			if def == nil {
				return false
			}
			if hops++; hops > 4 {
				return false
			}
			e = def
		default:
			return false
		}
	}
}

// tableMutations finds every construct in package rib that mutates state
// rooted at a RIBHolder's r field.
func (p *Prog) tableMutations() []tableMutation {
	var out []tableMutation
	for _, fi := range p.AllFuncs("rib") {
		if fi.Decl.Body == nil {
			continue
		}
		info := fi.Pkg.TypesInfo
		ast.Inspect(fi.Decl.Body, func(n ast.Node) bool {
			switch x := n.(type) {
			case *ast.CallExpr:
				if id, ok := ast.Unparen(x.Fun).(*ast.Ident); ok && id.Name == "delete" {
					if _, isB := info.Uses[id].(*types.Builtin); isB && len(x.Args) == 2 && rootedAtHolderR(info, x.Args[0]) {
						out = append(out, tableMutation{Fn: fi, Kind: "delete", Table: tableOfExpr(info, x.Args[0]), Node: x, Key: x.Args[1]})
					}
					return true
				}
				obj := calleeObj(info, x)
				if isFunc(obj, ygotPath, "MergeStructInto") && len(x.Args) >= 1 && rootedAtHolderR(info, x.Args[0]) {
					out = append(out, tableMutation{Fn: fi, Kind: "merge", Node: x, Fresh: freshRoot(info, fi.Decl, x.Args[0]) || freshViaCallers(p, fi, x.Args[0])})
					return true
				}
				// mutating generated methods on the installed structure
				if se, ok := ast.Unparen(x.Fun).(*ast.SelectorExpr); ok && rootedAtHolderR(info, se.X) {
					if f, ok := obj.(*types.Func); ok && f.Pkg() != nil && f.Pkg().Path() == aftPath {
						n := f.Name()
						if !strings.HasPrefix(n, "Get") || strings.HasPrefix(n, "GetOrCreate") {
							if !isPureAftMethod(n) {
								out = append(out, tableMutation{Fn: fi, Kind: "method:" + n, Node: x})
							}
						}
					}
				}
			case *ast.AssignStmt:
				for _, l := range x.Lhs {
					l = ast.Unparen(l)
					if ie, ok := l.(*ast.IndexExpr); ok && rootedAtHolderR(info, ie.X) {
						out = append(out, tableMutation{Fn: fi, Kind: "assign", Table: tableOfExpr(info, ie.X), Node: x, Key: ie.Index})
					} else if se, ok := l.(*ast.SelectorExpr); ok && rootedAtHolderR(info, se.X) {
						out = append(out, tableMutation{Fn: fi, Kind: "assign-field:" + se.Sel.Name, Node: x})
					}
				}
			}
			return true
		})
	}
	return out
}

func isPureAftMethod(n string) bool {
	switch n {
	case "Validate", "ΛValidate", "IsYANGGoStruct", "ΛEnumTypeMap", "ΛBelongingModule", "String", "ΛListKeyMap":
		return true
	}
	return false
}

// freshRoot: the selector chain e is rooted at a local variable whose only
// definition is a call to a constructor of package rib (New, NewRIBHolder).
func freshRoot(info *types.Info, fd *ast.FuncDecl, e ast.Expr) bool {
	for {
		e = ast.Unparen(e)
		switch x := e.(type) {
		case *ast.SelectorExpr:
			e = x.X
		case *ast.IndexExpr:
			e = x.X
		case *ast.CallExpr:
			se, ok := ast.Unparen(x.Fun).(*ast.SelectorExpr)
			if !ok {
				return false
			}
			e = se.X
		case *ast.Ident:
			v, ok := info.ObjectOf(x).(*types.Var)
			if !ok || v.IsField() {
				return false
			}
			def := soleDefinition(info, fd, v)
			if def == nil {
				return false
			}
			call, ok := ast.Unparen(def).(*ast.CallExpr)
			if !ok {
				// an alias of another local (e.g. the receiver binding of a spliced-in helper)
				if _, isID := ast.Unparen(def).(*ast.Ident); isID && ast.Unparen(def) != e {
					e = def
					continue
				}
				return false
			}
			obj := calleeObj(info, call)
			return isFunc(obj, ribPkg, "New") || isFunc(obj, ribPkg, "NewRIBHolder")
		default:
			return false
		}
	}
}

// helperTables computes, for every RIBHolder method, which tables it merges
// into / deletes from directly (not transitively).
type helperInfo struct {
	Merges  bool
	Deletes map[string]bool
}

func (p *Prog) holderHelpers() map[*types.Func]*helperInfo {
	m := map[*types.Func]*helperInfo{}
	for _, tm := range p.tableMutations() {
		if tm.Fresh {
			continue
		}
		hi := m[tm.Fn.Obj]
		if hi == nil {
			hi = &helperInfo{Deletes: map[string]bool{}}
			m[tm.Fn.Obj] = hi
		}
		switch tm.Kind {
		case "merge":
			hi.Merges = true
		case "delete":
			hi.Deletes[tm.Table] = true
		}
	}
	return m
}

// resolveKey renders a key expression in a canonical, position-free form:
// conversions are stripped, getters become field names and a local variable
// defined once is replaced by its definition.
func resolveKey(info *types.Info, fd *ast.FuncDecl, e ast.Expr) string {
	for depth := 0; depth < 6; depth++ {
		e = ast.Unparen(e)
		switch x := e.(type) {
		case *ast.CallExpr:
			// conversion T(x)?
			if tv, ok := info.Types[x.Fun]; ok && tv.IsType() && len(x.Args) == 1 {
				e = x.Args[0]
				continue
			}
		case *ast.StarExpr:
			e = x.X
			continue
		case *ast.Ident:
			obj := info.ObjectOf(x)
			if v, ok := obj.(*types.Var); ok && !v.IsField() {
				if def := soleDefinition(info, fd, v); def != nil {
					e = def
					continue
				}
			}
		}
		break
	}
	obj, path := selectorPath(info, e)
	if obj == nil {
		return "?" + types.ExprString(e)
	}
	return obj.Name() + "." + strings.Join(path, ".")
}

// soleDefinition returns the defining expression of local v if it is assigned
// exactly once in fd and that assignment is its declaration (v := expr), so
// that the definition holds wherever v is in scope.
func soleDefinition(info *types.Info, fd *ast.FuncDecl, v *types.Var) ast.Expr {
	if _, isPseudo := pseudoOf[v]; isPseudo {
		return pseudoFieldInit(info, v) // a field of a struct the function built itself (pseudo.go)
	}
	var def ast.Expr
	n := 0
	declares := false
	ast.Inspect(fd.Body, func(m ast.Node) bool {
		switch as := m.(type) {
		case *ast.AssignStmt:
			for i, l := range as.Lhs {
				if id, ok := l.(*ast.Ident); ok && info.ObjectOf(id) == v {
					n++
					if len(as.Lhs) == len(as.Rhs) {
						def = as.Rhs[i]
					} else {
						def = nil
					}
					if as.Tok == token.DEFINE && info.Defs[id] == v {
						declares = true
					}
				}
			}
		case *ast.IncDecStmt:
			if id, ok := as.X.(*ast.Ident); ok && info.ObjectOf(id) == v {
				n += 2
			}
		case *ast.ValueSpec:
			for i, name := range as.Names {
				if info.Defs[name] == v && len(as.Values) == len(as.Names) {
					n++
					def = as.Values[i]
					declares = true
				}
			}
		}
		return true
	})
	if n == 1 && declares {
		return def
	}
	// defined by a spliced-in helper (`v := helper(…)` became a frame, or the call was hoisted into a synthetic
	// local): when the helper has a single `return <expr>`, that expression (written in the helper: its parameters
	// stand for the arguments, see frameArgRoot / statusPartsIn)
	if n == 0 {
		var ret ast.Expr
		nfr, nret := 0, 0
		for _, fr := range framesIn(fd) {
			if fr.Tok != token.DEFINE {
				continue
			}
			idx := -1
			for i, l := range fr.Lhs {
				if id, ok := l.(*ast.Ident); ok && info.ObjectOf(id) == v {
					idx = i
				}
			}
			if idx < 0 {
				continue
			}
			if len(fr.Lhs) > 1 {
				// several results: the one value this result takes apart from zero values (the failure returns)
				var vals []ast.Expr
				ast.Inspect(fr.Block, func(m ast.Node) bool {
					switch x := m.(type) {
					case *ast.FuncLit:
						return false
					case *ast.BlockStmt:
						if x != fr.Block && inlineFrames[x] != nil {
							return false
						}
					case *ast.ReturnStmt:
						if idx < len(x.Results) {
							r := x.Results[idx]
							if tv, ok := info.Types[r]; ok && tv.Value != nil {
								return true // a constant (0, "", false): the failure value
							}
							if isNilIdent(info, r) {
								return true
							}
							vals = append(vals, r)
						}
					}
					return true
				})
				if len(vals) == 1 {
					nfr++
					nret++
					ret = vals[0]
				} else {
					nfr += 2
				}
				continue
			}
			nfr++
			ast.Inspect(fr.Block, func(m ast.Node) bool {
				switch x := m.(type) {
				case *ast.FuncLit:
					return false
				case *ast.BlockStmt:
					if x != fr.Block && inlineFrames[x] != nil {
						return false
					}
				case *ast.ReturnStmt:
					nret++
					if len(x.Results) == 1 {
						ret = x.Results[0]
					} else {
						ret = nil
					}
				}
				return true
			})
		}
		if nfr == 1 && nret == 1 {
			return ret
		}
	}
	return nil
}

// fieldAliasDef: locals defined once as <x>.<func-typed field> (filled by registerFieldAliases).
var fieldAliasDef = map[*types.Var]*ast.SelectorExpr{}

// registerFieldAliases records, for the locals of fd, those whose only
// definition is a selector of a func-typed struct field.
func registerFieldAliases(info *types.Info, fd *ast.FuncDecl) {
	ast.Inspect(fd.Body, func(n ast.Node) bool {
		as, ok := n.(*ast.AssignStmt)
		if !ok || as.Tok != token.DEFINE || len(as.Lhs) != len(as.Rhs) {
			return true
		}
		for i, l := range as.Lhs {
			id, ok := l.(*ast.Ident)
			if !ok {
				continue
			}
			v, ok := info.Defs[id].(*types.Var)
			if !ok {
				continue
			}
			se, ok := ast.Unparen(as.Rhs[i]).(*ast.SelectorExpr)
			if !ok {
				continue
			}
			if fv, ok := info.ObjectOf(se.Sel).(*types.Var); ok && fv.IsField() {
				if _, isSig := fv.Type().Underlying().(*types.Signature); isSig && soleDefinition(info, fd, v) != nil {
					fieldAliasDef[v] = se
				}
			}
		}
		return true
	})
}

// aliasKnownNil: some local alias of recv.<field> is known to be nil on the path.
func aliasKnownNil(f *Facts, recv types.Object, field string) bool {
	for v, se := range fieldAliasDef {
		if se.Sel.Name == field && f.Obj(v) == -1 {
			if id, ok := ast.Unparen(se.X).(*ast.Ident); ok && recv != nil && id.Name == recv.Name() {
				return true
			}
		}
	}
	return false
}

// fieldCall recognises a call through a func-typed field of the receiver
// (recv.checkFn(...), recv.postChangeHook(...)) and returns the field name.
func fieldCall(info *types.Info, call *ast.CallExpr) (string, ast.Expr) {
	se, ok := ast.Unparen(call.Fun).(*ast.SelectorExpr)
	if !ok {
		// a local holding the field's value: h := recv.hook; h(...)
		if id, isID := ast.Unparen(call.Fun).(*ast.Ident); isID {
			if v, isV := info.ObjectOf(id).(*types.Var); isV && !v.IsField() {
				if def := fieldAliasDef[v]; def != nil {
					se = def
					ok = true
				}
			}
		}
		if !ok {
			return "", nil
		}
	}
	fv, ok := info.ObjectOf(se.Sel).(*types.Var)
	if !ok || !fv.IsField() {
		return "", nil
	}
	if _, isSig := fv.Type().Underlying().(*types.Signature); !isSig {
		return "", nil
	}
	return fv.Name(), se.X
}

type famSel struct {
	nilGuard, validate, gate, noTrace, hookAdd, hookDel, hookFlush, mergeTotal, delGate, delIdem, keyAgree, replacedOrig, heldOnly bool
}

// ribFamily analyses the five Add and five Delete methods and the helpers.
func ribFamily(c *Ctx, sel famSel) {
	ks := c.kindsOK()
	if ks == nil {
		return
	}
	helpers := c.P.holderHelpers()
	for _, k := range ks {
		analyseAdd(c, k, helpers, sel)
		analyseDelete(c, k, helpers, sel)
	}
	if sel.mergeTotal {
		ruleMergeTotal(c, ks, helpers)
	}
	if sel.hookFlush {
		ruleLocklessHooks(c, ks)
	}
}

func objOfIdent(info *types.Info, e ast.Expr) types.Object {
	switch x := ast.Unparen(e).(type) {
	case *ast.Ident:
		return info.ObjectOf(x)
	case *ast.SelectorExpr:
		// a field of a struct the function built itself is a variable of its own (pseudo.go)
		if ps := pseudoFieldObj(info, x); ps != nil {
			return ps
		}
	}
	return nil
}

type addEvData struct {
	mid     types.Object // second of three results
	ok, err types.Object // objects assigned from the call
	op      string       // constants.X for check/hook
	args    []ast.Expr
	callee  types.Object
	table   string
	hasE    bool
	call    *ast.CallExpr
}

func assignedFromCall(info *types.Info, n ast.Node, call *ast.CallExpr) []types.Object {
	var out []types.Object
	if as, ok := n.(*ast.AssignStmt); ok && len(as.Rhs) == 1 && ast.Unparen(as.Rhs[0]) == call {
		for _, l := range as.Lhs {
			out = append(out, objOfIdent(info, l))
		}
	}
	// `return call(…)` inside an inlined helper: the results land in the left-hand side of the replaced statement
	if rs, ok := n.(*ast.ReturnStmt); ok && len(rs.Results) == 1 && ast.Unparen(rs.Results[0]) == call && len(curFrames) > 0 {
		if fr := curFrames[len(curFrames)-1]; !fr.IsReturn {
			for _, l := range fr.Lhs {
				out = append(out, objOfIdent(info, l))
			}
		}
	}
	return out
}

// familyEvents builds the event extractor shared by Add and Delete analysis.
func familyEvents(c *Ctx, fi *FuncInfo, helpers map[*types.Func]*helperInfo, eObj types.Object) func(n ast.Node) []Event {
	info := fi.Pkg.TypesInfo
	registerFieldAliases(info, fi.Decl)
	return func(n ast.Node) []Event {
		var out []Event
		// uses of e that are not nil comparisons
		skip := map[*ast.Ident]bool{}
		inspectNoFuncLit(n, func(m ast.Node) bool {
			if be, ok := m.(*ast.BinaryExpr); ok && (be.Op == token.EQL || be.Op == token.NEQ) {
				if isNilIdent(info, be.Y) {
					if id, ok := ast.Unparen(be.X).(*ast.Ident); ok {
						skip[id] = true
					}
				}
				if isNilIdent(info, be.X) {
					if id, ok := ast.Unparen(be.Y).(*ast.Ident); ok {
						skip[id] = true
					}
				}
			}
			return true
		})
		var calls []*ast.CallExpr
		inspectNoFuncLit(n, func(m ast.Node) bool {
			switch x := m.(type) {
			case *ast.Ident:
				if eObj != nil && info.ObjectOf(x) == eObj && !skip[x] && info.Defs[x] == nil {
					out = append(out, Event{Kind: "use-e", Node: x})
				}
			case *ast.CallExpr:
				calls = append(calls, x)
			}
			return true
		})
		// innermost calls first (evaluation order)
		sort.SliceStable(calls, func(i, j int) bool { return calls[i].End() < calls[j].End() })
		for _, call := range calls {
			d := &addEvData{call: call, args: call.Args}
			if len(curFrames) > 0 {
				d.args = nil
				for _, a := range call.Args {
					d.args = append(d.args, viaFrames(info, a))
				}
			}
			if as := assignedFromCall(info, n, call); as != nil {
				if len(as) >= 1 {
					d.ok = as[0]
				}
				if len(as) >= 2 {
					d.err = as[len(as)-1]
					if len(as) == 3 {
						d.ok = as[0]
					}
				}
			}
			if id, ok := ast.Unparen(call.Fun).(*ast.Ident); ok && id.Name == "delete" {
				if _, isB := info.Uses[id].(*types.Builtin); isB && len(call.Args) == 2 && rootedAtHolderR(info, call.Args[0]) {
					d.table = tableOfExpr(info, call.Args[0])
					out = append(out, Event{Kind: "delete", Node: call, Data: d})
				}
				continue
			}
			if fld, _ := fieldCall(info, call); fld != "" {
				switch fld {
				case "checkFn":
					if len(call.Args) >= 1 {
						d.op = constName(info, call.Args[0])
					}
					out = append(out, Event{Kind: "check", Node: call, Data: d})
				case "postChangeHook":
					if len(call.Args) >= 1 {
						d.op = constName(info, call.Args[0])
					}
					out = append(out, Event{Kind: "hook", Node: call, Data: d})
				}
				continue
			}
			obj := calleeObj(info, call)
			d.callee = obj
			switch {
			case isFunc(obj, ribPkg, "candidateRIB"):
				// inspect the literal: which table, does it contain e
				for _, cl := range litsOfType(info, call, aftpbPath, "Afts") {
					for name, v := range compositeFields(cl) {
						d.table = name
						ast.Inspect(v, func(m ast.Node) bool {
							if id, ok := m.(*ast.Ident); ok && eObj != nil && info.ObjectOf(id) == eObj {
								d.hasE = true
							}
							return true
						})
					}
				}
				out = append(out, Event{Kind: "cand", Node: call, Data: d})
			case isFunc(obj, ygotPath, "MergeStructInto") && len(call.Args) >= 1 && rootedAtHolderR(info, call.Args[0]):
				out = append(out, Event{Kind: "install", Node: call, Data: d})
			default:
				if f, ok := obj.(*types.Func); ok {
					if hi := helpers[f]; hi != nil {
						if hi.Merges {
							out = append(out, Event{Kind: "install", Node: call, Data: d})
						} else if len(hi.Deletes) > 0 {
							for t := range hi.Deletes {
								d.table = t
							}
							out = append(out, Event{Kind: "remove", Node: call, Data: d})
						}
					} else if strings.HasPrefix(f.Name(), "retrieve") && recvTypeName(f) == "RIBHolder" {
						out = append(out, Event{Kind: "retrieve", Node: call, Data: d})
					} else if strings.HasPrefix(f.Name(), "GetOrCreate") && f.Pkg() != nil && f.Pkg().Path() == aftPath && f.Name() != "GetOrCreateAfts" {
						d.table = strings.TrimPrefix(f.Name(), "GetOrCreate")
						out = append(out, Event{Kind: "delcand", Node: call, Data: d})
					}
				}
			}
		}
		return out
	}
}

func firstResultBool(info *types.Info, p Path) (val, isBool bool) {
	rs, ok := p.EndNode.(*ast.ReturnStmt)
	if !ok || len(rs.Results) == 0 {
		return false, false
	}
	return boolConst(info, rs.Results[0])
}

func idx(p Path, kind string) int {
	for i, e := range p.Events {
		if e.Kind == kind {
			return i
		}
	}
	return -1
}

func lastIdx(p Path, kind string) int {
	for i := len(p.Events) - 1; i >= 0; i-- {
		if p.Events[i].Kind == kind {
			return i
		}
	}
	return -1
}

type verdictSet struct {
	bad map[string]string // construct → detail (first offending path)
	n   map[string]int
}

func newVerdicts() *verdictSet       { return &verdictSet{bad: map[string]string{}, n: map[string]int{}} }
func (v *verdictSet) touch(k string) { v.n[k]++ }
func (v *verdictSet) fail(k, detail string) {
	if _, ok := v.bad[k]; !ok {
		v.bad[k] = detail
	}
}
func (v *verdictSet) emit(c *Ctx, rule, fn, pos string, okDetail map[string]string) {
	var keys []string
	for k := range v.n {
		keys = append(keys, k)
	}
	for k := range v.bad {
		if _, ok := v.n[k]; !ok {
			keys = append(keys, k)
		}
	}
	sort.Strings(keys)
	for _, k := range keys {
		if d, bad := v.bad[k]; bad {
			c.fail(rule, fn, k, pos, d)
		} else {
			c.ok(rule, fn, k, pos, fmt.Sprintf("%d paths; %s", v.n[k], okDetail[k]))
		}
	}
}

func analyseAdd(c *Ctx, k *Kind, helpers map[*types.Func]*helperInfo, sel famSel) {
	fi := k.Add
	c.Analysed[fi.Name] = true
	info := fi.Pkg.TypesInfo
	params := paramObjs(info, fi.Decl)
	if len(params) < 2 || params[0] == nil {
		c.undecided("ADD-FAMILY", fi.Name, "signature", c.P.pos(fi.Decl.Pos()), "unnamed parameters")
		return
	}
	eObj := params[0]
	recv := recvObj(info, fi.Decl)
	ev := familyEvents(c, fi, helpers, eObj)
	atLeastOnce := func(n ast.Node) bool {
		rs, ok := n.(*ast.RangeStmt)
		if !ok {
			return false
		}
		// range over <candidate>.Afts.<Table of this kind>
		return tableOfExpr(info, rs.X) == k.Table && !rootedAtHolderR(info, rs.X)
	}
	paths, pe := enumPathsOpt(info, fi.Decl.Body.List, ev, atLeastOnce)
	c.Sites += len(paths)
	if pe.overflow || len(pe.unsup) > 0 {
		c.undecided("ADD-FAMILY", fi.Name, "body", c.P.pos(fi.Decl.Pos()), fmt.Sprintf("path enumeration incomplete (overflow=%v unsupported=%v)", pe.overflow, pe.unsup))
		return
	}
	pos := c.P.pos(fi.Decl.Pos())
	vNil, vVal, vGate, vTrace, vHook, vOrig, vHeld := newVerdicts(), newVerdicts(), newVerdicts(), newVerdicts(), newVerdicts(), newVerdicts(), newVerdicts()
	nInstallPaths, nOrigFromRetrieve := 0, 0
	for _, p := range paths {
		if p.End == "panic" {
			continue
		}
		// R3.x the entry handed back as "the replaced original" (it drives the release of the old
		// references in the caller) is read from the table before the install step overwrites the key
		if val, isB := firstResultBool(info, p); isB && val && sel.replacedOrig {
			if rs, ok := p.EndNode.(*ast.ReturnStmt); ok && len(rs.Results) == 3 {
				vOrig.touch("replaced original read before the install")
				ro := objOfIdent(info, rs.Results[1])
				ii := idx(p, "install")
				if isNilIdent(info, rs.Results[1]) {
					ro = nil
					if !p.has("retrieve") {
						continue // nothing was installed under the key: there is no original
					}
				}
				if ro == nil {
					vOrig.fail("replaced original read before the install", "a success path hands back "+types.ExprString(rs.Results[1])+" as the replaced entry instead of what was retrieved before the install: "+p.describe(c.P))
				}
				for j, e := range p.Events {
					if e.Kind != "retrieve" || ro == nil || e.Data.(*addEvData).ok != ro {
						continue
					}
					if ii >= 0 && j > ii {
						vOrig.fail("replaced original read before the install", "the entry handed back as the replaced original is retrieved after the install step, i.e. it is the new entry: the caller compares the new entry with itself and neither releases the old references nor counts the new ones: "+p.describe(c.P))
					} else {
						nOrigFromRetrieve++
					}
				}
			}
		}
		// R12.1 nil guard before first use of e
		if i := idx(p, "use-e"); i >= 0 {
			vNil.touch("nil-entry guard")
			f := factsAfter(info, p, -1, i)
			if f.Obj(eObj) != +1 {
				vNil.fail("nil-entry guard", "the entry parameter is used on a path that has not established it is non-nil: "+p.describe(c.P))
			}
		}
		ii := idx(p, "install")
		if ii >= 0 {
			nInstallPaths++
			inst := p.Events[ii].Data.(*addEvData)
			// R12.2 validate-before-mutate: candidate built from e for this kind's table, error checked
			vVal.touch("validate before install")
			ci := lastIdxBefore(p, "cand", ii)
			if ci < 0 {
				vVal.fail("validate before install", "install without a preceding candidateRIB (schema validation) of the entry: "+p.describe(c.P))
			} else {
				cd := p.Events[ci].Data.(*addEvData)
				f := factsAfter(info, p, ci, ii)
				switch {
				case cd.err == nil || f.Obj(cd.err) != -1:
					vVal.fail("validate before install", "candidateRIB's error is not known to be nil when the entry is installed: "+p.describe(c.P))
				case cd.table != k.Table || !cd.hasE:
					vVal.fail("validate before install", fmt.Sprintf("candidate is built for table %q (contains entry: %v), expected table %q of this kind", cd.table, cd.hasE, k.Table))
				case !argIsObj(info, inst.args, cd.ok):
					vVal.fail("validate before install", "the structure handed to the install step is not the validated candidate")
				}
				// R2.1 gate
				vGate.touch("resolvability gate")
				chk := lastIdxBefore(p, "check", ii)
				allF := factsAfter(info, p, -1, ii)
				nilGate := recv != nil && (allF.Expr(recv.Name()+".checkFn == nil") == +1 || aliasKnownNil(allF, recv, "checkFn"))
				switch {
				case chk < 0 && nilGate:
					// checking disabled for this holder: allowed (DisableRIBCheckFn)
				case chk < 0:
					vGate.fail("resolvability gate", "install reachable without consulting checkFn although it is non-nil: "+p.describe(c.P))
				default:
					cdh := p.Events[chk].Data.(*addEvData)
					gf := factsAfter(info, p, chk, ii)
					switch {
					case cdh.op != "Add":
						vGate.fail("resolvability gate", "checkFn consulted with operation "+cdh.op+", want constants.Add")
					case len(cdh.args) < 2 || objOfIdent(info, cdh.args[1]) != cd.ok:
						vGate.fail("resolvability gate", "checkFn is not handed the validated candidate of this entry")
					case cdh.ok == nil || cdh.err == nil || gf.Obj(cdh.ok) != +1 || gf.Obj(cdh.err) != -1:
						vGate.fail("resolvability gate", "install not conditional on checkFn returning (true, nil): "+p.describe(c.P))
					}
				}
			}
		}
		// "not done, no error" is the answer that parks the operation as held: it may only be given where the
		// resolvability gate said "not yet" — any other path that returns it (an "already installed, nothing
		// to do" shortcut, say) parks an operation for ever although nothing it refers to is missing
		if val, isB := firstResultBool(info, p); isB && !val && sel.heldOnly {
			if rs, ok := p.EndNode.(*ast.ReturnStmt); ok && len(rs.Results) == 3 && isNilIdent(info, rs.Results[2]) {
				vHeld.touch("not-done-without-error only where the gate said not yet")
				chk := lastIdx(p, "check")
				okNo := false
				if chk >= 0 {
					cdh := p.Events[chk].Data.(*addEvData)
					if cdh.ok != nil && factsAfter(info, p, chk, len(p.Events)).Obj(cdh.ok) == -1 {
						okNo = true
					}
				}
				if !okNo {
					vHeld.fail("not-done-without-error only where the gate said not yet", "returns (false, …, nil) on a path where the resolvability check did not answer \"not yet\": the caller holds the operation as unresolved and it is never answered: "+p.describe(c.P))
				}
			}
		}
		// R1.3 failures leave no trace / success implies install
		if val, isB := firstResultBool(info, p); isB {
			if val {
				vTrace.touch("success implies install")
				if ii < 0 {
					vTrace.fail("success implies install", "returns installed=true without installing: "+p.describe(c.P))
				}
			} else {
				vTrace.touch("failure leaves no trace")
				if ii >= 0 {
					inst := p.Events[ii].Data.(*addEvData)
					f := factsAfter(info, p, ii, len(p.Events))
					if inst.err == nil || f.Obj(inst.err) != +1 {
						vTrace.fail("failure leaves no trace", "returns installed=false after the install step ran (and not because the install step itself failed): "+p.describe(c.P))
					}
				}
			}
			// R16.1 hook after install on success paths
			if val && ii >= 0 {
				vHook.touch("notify after install")
				all := factsAfter(info, p, ii, len(p.Events))
				hookNil := recv != nil && (all.Expr(recv.Name()+".postChangeHook == nil") == +1 || aliasKnownNil(all, recv, "postChangeHook"))
				hi := -1
				for j := ii + 1; j < len(p.Events); j++ {
					if p.Events[j].Kind == "hook" {
						hi = j
					}
				}
				switch {
				case hi < 0 && hookNil:
				case hi < 0:
					vHook.fail("notify after install", "success path installs the entry without calling postChangeHook although it is non-nil: "+p.describe(c.P))
				default:
					hd := p.Events[hi].Data.(*addEvData)
					if msg := checkHookArgs(c, fi, hd, "Add", recv, func(e ast.Expr) bool {
						// the new entry: the range variable over the candidate's table of this kind
						o := objOfIdent(info, e)
						return o != nil && isRangeVarOverTable(info, fi.Decl, o, k.Table)
					}); msg != "" {
						vHook.fail("notify after install", msg)
					}
				}
			}
		}
	}
	if nInstallPaths == 0 {
		c.vanished("ADD-FAMILY", fi.Name, "install step", "no path of "+fi.Name+" reaches a step that merges the entry into the holder's RIB")
		return
	}
	if sel.nilGuard {
		vNil.emit(c, "NIL-GUARD", fi.Name, pos, map[string]string{"nil-entry guard": "entry parameter proven non-nil before first use"})
	}
	if sel.validate {
		vVal.emit(c, "VALIDATE-BEFORE-MUTATE", fi.Name, pos, map[string]string{"validate before install": "candidateRIB(entry) with nil error dominates the install; candidate table = " + k.Table})
	}
	if sel.gate {
		vGate.emit(c, "RESOLVE-GATE", fi.Name, pos, map[string]string{"resolvability gate": "checkFn(constants.Add, candidate) == (true, nil) on every path to the install (or checkFn nil)"})
	}
	if sel.noTrace {
		vTrace.emit(c, "NO-TRACE", fi.Name, pos, map[string]string{"failure leaves no trace": "no install step before a false return", "success implies install": "true is returned only after the install step"})
	}
	if sel.hookAdd {
		vHook.emit(c, "NOTIFY", fi.Name, pos, map[string]string{"notify after install": "postChangeHook(Add, ts, holder name, new entry) after the install on success paths"})
	}
	if sel.heldOnly {
		vHeld.emit(c, "HELD-ONLY-UNRESOLVED", fi.Name, pos, map[string]string{"not-done-without-error only where the gate said not yet": "(false, _, nil) is returned only after checkFn answered (false, nil)"})
	}
	if sel.replacedOrig {
		if nOrigFromRetrieve == 0 {
			vOrig.fail("replaced original read before the install", "no success path hands back an entry retrieved from the table before the install: a replace never releases the references of the entry it replaced")
		}
		vOrig.emit(c, "INSTALL-REFS", fi.Name, pos, map[string]string{"replaced original read before the install": "the second result is bound by retrieve…() before the install step (or stays nil when the key was absent)"})
	}
}

func lastIdxBefore(p Path, kind string, before int) int {
	for i := before - 1; i >= 0; i-- {
		if p.Events[i].Kind == kind {
			return i
		}
	}
	return -1
}

func argIsObj(info *types.Info, args []ast.Expr, o types.Object) bool {
	if o == nil {
		return false
	}
	for _, a := range args {
		if objOfIdent(info, a) == o {
			return true
		}
	}
	return false
}

// isRangeVarOverTable: o is the value variable of a range over <x>.Afts.<table>.
func isRangeVarOverTable(info *types.Info, fd *ast.FuncDecl, o types.Object, table string) bool {
	found := false
	ast.Inspect(fd.Body, func(n ast.Node) bool {
		if rs, ok := n.(*ast.RangeStmt); ok && rs.Value != nil {
			if objOfIdent(info, rs.Value) == o && tableOfExpr(info, rs.X) == table {
				found = true
			}
		}
		return true
	})
	return found
}

// checkHookArgs validates postChangeHook(op, ts, name, entry).
func checkHookArgs(c *Ctx, fi *FuncInfo, hd *addEvData, wantOp string, recv types.Object, entryOK func(ast.Expr) bool) string {
	info := fi.Pkg.TypesInfo
	if len(hd.args) != 4 {
		return "postChangeHook called with an unexpected number of arguments"
	}
	if hd.op != wantOp {
		return fmt.Sprintf("postChangeHook announces operation %q, want constants.%s", hd.op, wantOp)
	}
	obj, path := aliasedSelectorPath(info, fi.Decl, hd.args[2])
	if obj == nil || obj != recv || len(path) != 1 || path[0] != "name" {
		return "postChangeHook is not tagged with the holder's own network-instance name (" + types.ExprString(hd.args[2]) + ")"
	}
	if !entryOK(hd.args[3]) {
		return "postChangeHook does not carry the affected entry (" + types.ExprString(hd.args[3]) + ")"
	}
	return ""
}

func analyseDelete(c *Ctx, k *Kind, helpers map[*types.Func]*helperInfo, sel famSel) {
	fi := k.Delete
	c.Analysed[fi.Name] = true
	info := fi.Pkg.TypesInfo
	params := paramObjs(info, fi.Decl)
	if len(params) < 1 || params[0] == nil {
		c.undecided("DELETE-FAMILY", fi.Name, "signature", c.P.pos(fi.Decl.Pos()), "unnamed parameters")
		return
	}
	eObj := params[0]
	recv := recvObj(info, fi.Decl)
	ev := familyEvents(c, fi, helpers, eObj)
	paths, pe := enumPaths(info, fi.Decl.Body.List, ev)
	c.Sites += len(paths)
	if pe.overflow || len(pe.unsup) > 0 {
		c.undecided("DELETE-FAMILY", fi.Name, "body", c.P.pos(fi.Decl.Pos()), "path enumeration incomplete")
		return
	}
	pos := c.P.pos(fi.Decl.Pos())
	vNil, vGate, vTrace, vHook, vIdem, vKey := newVerdicts(), newVerdicts(), newVerdicts(), newVerdicts(), newVerdicts(), newVerdicts()
	nRemove := 0
	for _, p := range paths {
		if p.End == "panic" {
			continue
		}
		if i := idx(p, "use-e"); i >= 0 {
			vNil.touch("nil-entry guard")
			if factsAfter(info, p, -1, i).Obj(eObj) != +1 {
				vNil.fail("nil-entry guard", "the entry parameter is used on a path that has not established it is non-nil: "+p.describe(c.P))
			}
		}
		ri := -1
		for j, e := range p.Events {
			if e.Kind == "remove" || (e.Kind == "delete") {
				ri = j
				break
			}
		}
		var de types.Object
		var retr *addEvData
		if ti := idx(p, "retrieve"); ti >= 0 {
			retr = p.Events[ti].Data.(*addEvData)
			de = retr.ok
		}
		if ri >= 0 {
			nRemove++
			rd := p.Events[ri].Data.(*addEvData)
			// removed table is this kind's
			vKey.touch("removes its own table/key")
			if rd.table != k.Table {
				vKey.fail("removes its own table/key", fmt.Sprintf("the removal step deletes from table %q, this kind's table is %q", rd.table, k.Table))
			}
			rmKey := ""
			if len(rd.args) > 0 {
				rmKey = resolveKey(info, fi.Decl, rd.args[len(rd.args)-1])
			}
			if !strings.HasPrefix(rmKey, eObj.Name()+".") {
				vKey.fail("removes its own table/key", "the removed key is not derived from the operation's entry: "+rmKey)
			}
			if retr != nil && len(retr.args) > 0 {
				if rk := resolveKey(info, fi.Decl, retr.args[0]); rk != rmKey {
					vKey.fail("removes its own table/key", fmt.Sprintf("the entry retrieved for notification/reference counting (%s) is not the one removed (%s)", rk, rmKey))
				}
			}
			// gate
			vGate.touch("deletability gate")
			chk := lastIdxBefore(p, "check", ri)
			allF := factsAfter(info, p, -1, ri)
			nilGate := recv != nil && (allF.Expr(recv.Name()+".checkFn == nil") == +1 || aliasKnownNil(allF, recv, "checkFn"))
			switch {
			case chk < 0 && nilGate:
			case chk < 0:
				vGate.fail("deletability gate", "removal reachable without consulting checkFn although it is non-nil: "+p.describe(c.P))
			default:
				cdh := p.Events[chk].Data.(*addEvData)
				gf := factsAfter(info, p, chk, ri)
				dc := lastIdxBefore(p, "delcand", chk)
				switch {
				case cdh.op != "Delete":
					vGate.fail("deletability gate", "checkFn consulted with operation "+cdh.op+", want constants.Delete")
				case cdh.ok == nil || cdh.err == nil || gf.Obj(cdh.ok) != +1 || gf.Obj(cdh.err) != -1:
					vGate.fail("deletability gate", "removal not conditional on checkFn returning (true, nil): "+p.describe(c.P))
				case dc < 0:
					vGate.fail("deletability gate", "no deletion candidate (GetOrCreate<Table>(key)) is built before checkFn")
				default:
					dcd := p.Events[dc].Data.(*addEvData)
					if dcd.table != k.Table {
						vGate.fail("deletability gate", fmt.Sprintf("deletion candidate is built in table %q, want %q", dcd.table, k.Table))
					} else if len(dcd.args) > 0 {
						if ck := resolveKey(info, fi.Decl, dcd.args[0]); ck != rmKey {
							vGate.fail("deletability gate", fmt.Sprintf("deletion candidate key (%s) differs from the removed key (%s)", ck, rmKey))
						}
					}
				}
			}
		}
		if val, isB := firstResultBool(info, p); isB {
			if val {
				vTrace.touch("success implies removal")
				if ri < 0 {
					vTrace.fail("success implies removal", "returns removed=true without removing: "+p.describe(c.P))
				}
				if ri >= 0 {
					vHook.touch("notify after removal")
					all := factsAfter(info, p, ri, len(p.Events))
					hookNil := recv != nil && (all.Expr(recv.Name()+".postChangeHook == nil") == +1 || aliasKnownNil(all, recv, "postChangeHook"))
					hi := -1
					for j := ri + 1; j < len(p.Events); j++ {
						if p.Events[j].Kind == "hook" {
							hi = j
						}
					}
					switch {
					case hi < 0 && hookNil:
					case hi < 0:
						vHook.fail("notify after removal", "success path removes the entry without calling postChangeHook although it is non-nil: "+p.describe(c.P))
					default:
						hd := p.Events[hi].Data.(*addEvData)
						if msg := checkHookArgs(c, fi, hd, "Delete", recv, func(e ast.Expr) bool {
							return de != nil && objOfIdent(info, e) == de
						}); msg != "" {
							vHook.fail("notify after removal", msg)
						}
					}
					// second result must be the retrieved entry (feeds reference counting in DeleteEntry)
					if rs, ok := p.EndNode.(*ast.ReturnStmt); ok && len(rs.Results) == 3 {
						vKey.touch("returns the removed entry")
						if de == nil || objOfIdent(info, rs.Results[1]) != de {
							vKey.fail("returns the removed entry", "the entry returned to the caller for reference counting is not the one retrieved before removal")
						}
					}
				}
			} else {
				vTrace.touch("failure leaves no trace")
				if ri >= 0 {
					vTrace.fail("failure leaves no trace", "returns removed=false after the removal step ran: "+p.describe(c.P))
				}
				// idempotence: a missing key is not a failure
				vIdem.touch("missing key is success")
				if de != nil && factsAfter(info, p, -1, len(p.Events)).Obj(de) == -1 {
					vIdem.fail("missing key is success", "returns removed=false because the key is not installed; DELETE must be idempotent: "+p.describe(c.P))
				}
			}
		}
	}
	if nRemove == 0 {
		c.vanished("DELETE-FAMILY", fi.Name, "removal step", "no path of "+fi.Name+" reaches a step that deletes the key from the holder's table")
		return
	}
	if sel.nilGuard {
		vNil.emit(c, "NIL-GUARD", fi.Name, pos, map[string]string{"nil-entry guard": "entry parameter proven non-nil before first use"})
	}
	if sel.delGate {
		vGate.emit(c, "DELETE-GATE", fi.Name, pos, map[string]string{"deletability gate": "checkFn(constants.Delete, candidate{" + k.Table + "[key]}) == (true, nil) on every path to the removal"})
	}
	if sel.noTrace {
		vTrace.emit(c, "NO-TRACE", fi.Name, pos, map[string]string{"failure leaves no trace": "no removal before a false return", "success implies removal": "true only after the removal step"})
	}
	if sel.delIdem {
		vIdem.emit(c, "DELETE-IDEMPOTENT", fi.Name, pos, map[string]string{"missing key is success": "no false return is conditional on the key being absent"})
	}
	if sel.keyAgree {
		vKey.emit(c, "DELETE-KEY", fi.Name, pos, map[string]string{"removes its own table/key": "table " + k.Table + ", key derived from the entry, same key retrieved and removed", "returns the removed entry": "second result is the retrieved entry"})
	}
	if sel.hookDel {
		vHook.emit(c, "NOTIFY", fi.Name, pos, map[string]string{"notify after removal": "postChangeHook(Delete, ts, holder name, removed entry) after the removal"})
	}
}

// ruleMergeTotal: R1.1 — a replace is total: in every function that merges a
// candidate into a holder's RIB, the keyed entry of the kind being installed
// is deleted first on every path.
func ruleMergeTotal(c *Ctx, ks []*Kind, helpers map[*types.Func]*helperInfo) {
	const rule = "REPLACE-TOTAL"
	info := c.P.pkg("rib").TypesInfo
	// which kinds' AddXXX call which merging helper
	helperKinds := map[*types.Func]map[string]*ast.CallExpr{}
	for _, k := range ks {
		for _, call := range callsIn(k.Add.Decl.Body) {
			if f, ok := calleeObj(info, call).(*types.Func); ok {
				if hi := helpers[f]; hi != nil && hi.Merges {
					if helperKinds[f] == nil {
						helperKinds[f] = map[string]*ast.CallExpr{}
					}
					helperKinds[f][k.Table] = call
				}
			}
		}
		if hi := helpers[k.Add.Obj]; hi != nil && hi.Merges {
			if helperKinds[k.Add.Obj] == nil {
				helperKinds[k.Add.Obj] = map[string]*ast.CallExpr{}
			}
			helperKinds[k.Add.Obj][k.Table] = nil
		}
	}
	n := 0
	var fns []*types.Func
	for f, hi := range helpers {
		if hi.Merges {
			fns = append(fns, f)
		}
	}
	sort.Slice(fns, func(i, j int) bool { return fns[i].Name() < fns[j].Name() })
	for _, f := range fns {
		fi := c.P.infoFor(f)
		c.Analysed[fi.Name] = true
		kinds := helperKinds[f]
		if len(kinds) == 0 {
			c.fail(rule, fi.Name, "caller kind", c.P.pos(fi.Decl.Pos()), "merges into a holder's RIB but is not the install step of any AddXXX: unaccounted install path")
			continue
		}
		ev := familyEvents(c, fi, map[*types.Func]*helperInfo{}, nil)
		paths, pe := enumPaths(info, fi.Decl.Body.List, ev)
		c.Sites += len(paths)
		if pe.overflow || len(pe.unsup) > 0 {
			c.undecided(rule, fi.Name, "body", c.P.pos(fi.Decl.Pos()), "path enumeration incomplete")
			continue
		}
		params := paramObjs(info, fi.Decl)
		for table, callSite := range kinds {
			n++
			bad := ""
			for _, p := range paths {
				mi := idx(p, "install")
				if mi < 0 {
					// the install step answers "done" (nil error) only after it merged the candidate: a success return
					// that skipped the merge acknowledges an operation whose payload is not (all) in the RIB
					if rs, ok := p.EndNode.(*ast.ReturnStmt); ok && p.End == "return" && len(rs.Results) > 0 && isNilIdent(info, rs.Results[len(rs.Results)-1]) && lastResultIsError(f) {
						bad = "a path returns success without merging the candidate into the RIB (and without the delete-before-merge): the operation is acknowledged while the installed " + table + " entry is not the payload that was sent (" + p.describe(c.P) + ")"
					}
					continue
				}
				okDel := false
				for j := 0; j < mi; j++ {
					if p.Events[j].Kind == "delete" {
						d := p.Events[j].Data.(*addEvData)
						if d.table == table {
							// key derived from the helper's first parameter
							key := resolveKey(info, fi.Decl, d.args[1])
							if len(params) > 0 && params[0] != nil && strings.HasPrefix(key, params[0].Name()+".") {
								okDel = true
							}
						}
					}
				}
				if !okDel {
					bad = "merge into the RIB without first deleting the " + table + " entry keyed by the helper's key parameter: ygot merges field-wise, so an ADD/REPLACE would keep stale fields of the replaced entry (" + p.describe(c.P) + ")"
				}
			}
			// the call site passes a key derived from the entry
			if bad == "" && callSite != nil && len(callSite.Args) > 0 {
				var k *Kind
				for _, kk := range ks {
					if kk.Table == table {
						k = kk
					}
				}
				eParams := paramObjs(info, k.Add.Decl)
				key := resolveKey(info, k.Add.Decl, callSite.Args[0])
				if len(eParams) == 0 || eParams[0] == nil || !strings.HasPrefix(key, eParams[0].Name()+".") {
					bad = "the key handed to the install step (" + key + ") is not derived from the entry being installed"
				}
			}
			c.check(bad == "", rule, fi.Name, "delete "+table+" before merge", c.P.pos(fi.Decl.Pos()),
				"every path to MergeStructInto deletes "+table+"[key] first", bad)
		}
	}
	c.floor(rule, "(install helper, kind) pairs", n, 5)
}

// ruleLocklessHooks: the flush path — every function that deletes from a
// holder table without being a DeleteXXX (the lockless deleters) notifies.
func ruleLocklessHooks(c *Ctx, ks []*Kind) {
	const rule = "NOTIFY"
	info := c.P.pkg("rib").TypesInfo
	helpers := c.P.holderHelpers()
	// removal helpers called from DeleteXXX are covered by DeleteXXX's own hook
	covered := map[*types.Func]bool{}
	for _, k := range ks {
		covered[k.Delete.Obj] = true
		covered[k.Add.Obj] = true
		for _, call := range callsIn(k.Delete.Decl.Body) {
			if f, ok := calleeObj(info, call).(*types.Func); ok {
				covered[f] = true
			}
		}
	}
	n := 0
	var fns []*types.Func
	for f, hi := range helpers {
		if !hi.Merges && len(hi.Deletes) > 0 && !covered[f] {
			fns = append(fns, f)
		}
	}
	sort.Slice(fns, func(i, j int) bool { return fns[i].Name() < fns[j].Name() })
	for _, f := range fns {
		fi := c.P.infoFor(f)
		c.Analysed[fi.Name] = true
		recv := recvObj(info, fi.Decl)
		ev := familyEvents(c, fi, map[*types.Func]*helperInfo{}, nil)
		paths, pe := enumPaths(info, fi.Decl.Body.List, ev)
		c.Sites += len(paths)
		if pe.overflow || len(pe.unsup) > 0 {
			c.undecided(rule, fi.Name, "body", c.P.pos(fi.Decl.Pos()), "path enumeration incomplete")
			continue
		}
		n++
		bad := ""
		for _, p := range paths {
			di := idx(p, "delete")
			if di < 0 {
				continue
			}
			dd := p.Events[di].Data.(*addEvData)
			all := factsAfter(info, p, di, len(p.Events))
			hookNil := recv != nil && (all.Expr(recv.Name()+".postChangeHook == nil") == +1 || aliasKnownNil(all, recv, "postChangeHook"))
			hi := -1
			for j := di + 1; j < len(p.Events); j++ {
				if p.Events[j].Kind == "hook" {
					hi = j
				}
			}
			switch {
			case hi < 0 && hookNil:
			case hi < 0:
				bad = "entry removed during flush without calling postChangeHook although it is non-nil: " + p.describe(c.P)
			default:
				hd := p.Events[hi].Data.(*addEvData)
				if msg := checkHookArgs(c, fi, hd, "Delete", recv, func(e ast.Expr) bool {
					// the removed entry: a local defined as <table>[key] with the deleted key (possibly handed on
					// through the parameter of a helper that was spliced in)
					o := objOfIdent(info, e)
					v, ok := o.(*types.Var)
					if !ok {
						return false
					}
					def := soleDefinition(info, fi.Decl, v)
					for hops := 0; hops < 4 && def != nil; hops++ {
						v2, isVar := objOfIdent(info, def).(*types.Var)
						if !isVar || v2.IsField() {
							break
						}
						v = v2
						def = soleDefinition(info, fi.Decl, v)
					}
					ie, ok := ast.Unparen(def).(*ast.IndexExpr)
					if !ok {
						return false
					}
					return tableOfExpr(info, ie.X) == dd.table && types.ExprString(ie.Index) == types.ExprString(dd.args[1])
				}); msg != "" {
					bad = msg
				}
			}
		}
		c.check(bad == "", rule, fi.Name, "notify after flush removal", c.P.pos(fi.Decl.Pos()),
			"postChangeHook(Delete, ts, holder name, removed entry) after the delete", bad)
	}
	c.floor(rule, "flush-path removal helpers", n, 5)
}

// aliasedSelectorPath: selectorPath, with a root that is a local bound once to another selector
// chain (x := y.z, or the parameter/receiver binding of a spliced-in helper) replaced by that chain.
func aliasedSelectorPath(info *types.Info, fd *ast.FuncDecl, e ast.Expr) (types.Object, []string) {
	obj, path := selectorPath(info, e)
	for hops := 0; hops < 4 && obj != nil; hops++ {
		v, ok := obj.(*types.Var)
		if !ok || v.IsField() {
			break
		}
		var def ast.Expr
		// a parameter of a helper spliced into fd stands for the argument it is bound to
		for _, fr := range framesIn(fd) {
			if a, ok := fr.Binds[obj]; ok {
				def = a
			}
		}
		if def == nil {
			def = soleDefinition(info, fd, v)
		}
		if def == nil {
			break
		}
		o2, p2 := selectorPath(info, def)
		if o2 == nil || o2 == obj {
			break
		}
		obj, path = o2, append(append([]string{}, p2...), path...)
	}
	return obj, path
}

// freshViaCallers: fi is a method new to the rules, the merged structure is rooted at its receiver, and every caller
// calls it on a RIB it allocated itself (freshRoot at the call site): a phase of a constructor-like function split
// off into a helper.
func freshViaCallers(p *Prog, fi *FuncInfo, e ast.Expr) bool {
	if !isNewFunc(fi.Obj) || fi.Decl.Recv == nil {
		return false
	}
	info := fi.Pkg.TypesInfo
	recv := recvObj(info, fi.Decl)
	// rooted at the receiver?
	root := e
	for {
		root = ast.Unparen(root)
		switch x := root.(type) {
		case *ast.SelectorExpr:
			root = x.X
			continue
		case *ast.IndexExpr:
			root = x.X
			continue
		case *ast.CallExpr:
			if se, ok := ast.Unparen(x.Fun).(*ast.SelectorExpr); ok {
				root = se.X
				continue
			}
		case *ast.Ident:
			if v, ok := info.ObjectOf(x).(*types.Var); ok && !v.IsField() && types.Object(v) != recv {
				if def := soleDefinition(info, fi.Decl, v); def != nil {
					root = def
					continue
				}
			}
		}
		break
	}
	if recv == nil || objOfIdent(info, root) != recv {
		return false
	}
	callers := p.callGraph().callersOf(fi.Obj)
	if len(callers) == 0 {
		return false
	}
	for _, cl := range callers {
		cfi := p.infoFor(cl)
		if cfi == nil || cfi.Decl.Body == nil {
			return false
		}
		cinfo := cfi.Pkg.TypesInfo
		ok := false
		bad := false
		calls := callsIn(cfi.Decl.Body)
		for _, fr := range framesIn(cfi.Decl) {
			if fr.CalleeObj == fi.Obj && fr.Call != nil {
				calls = append(calls, fr.Call) // spliced in: the replaced call
			}
		}
		for _, call := range calls {
			if calleeObj(cinfo, call) != types.Object(fi.Obj) {
				continue
			}
			se, isSel := ast.Unparen(call.Fun).(*ast.SelectorExpr)
			if isSel && freshRoot(cinfo, cfi.Decl, se.X) {
				ok = true
			} else {
				bad = true
			}
		}
		if !ok || bad {
			return false
		}
	}
	return true
}

func lastResultIsError(f *types.Func) bool {
	rs := f.Type().(*types.Signature).Results()
	return rs.Len() > 0 && isErrorType(rs.At(rs.Len()-1).Type())
}
